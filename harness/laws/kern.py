"""Thin adapters calling the kernels exactly as quad_ker does (dispatchers, un-jitted)."""

import numpy as np

from . import common as c


def ns(order, mname, g, a1, a0, nf):
    from eko.kernels import non_singlet as k

    return complex(k.dispatcher((order, 0), c.method(mname), np.asarray(g, dtype=complex), a1, a0, nf))


def singlet(order, mname, G, a1, a0, nf, iters=1, maxorder=10):
    from eko.kernels import singlet as k

    return np.array(
        k.dispatcher((order, 0), c.method(mname), np.asarray(G, dtype=complex), a1, a0, nf, iters, (maxorder, 0)),
        dtype=complex,
    )


def steps(a0, a1, iters, aem, kind="geom"):
    """coupling step list and midpoints (a_s arithmetic mean; a_em constant, or a function of the
    mid-step a_s: a_em moving along the steps) as the QED kernels expect."""
    as_list = np.geomspace(a0, a1, iters + 1) if kind == "geom" else np.linspace(a0, a1, iters + 1)
    f = aem if callable(aem) else (lambda _a: aem)
    a_half = np.array([[(as_list[i] + as_list[i + 1]) / 2.0, f((as_list[i] + as_list[i + 1]) / 2.0)] for i in range(iters)])
    return as_list, a_half


def ns_qed(order, qed, g, as_list, aem_half, nf, iters, mu2_from, mu2_to, running=False):
    from eko.kernels import non_singlet_qed as k

    return complex(
        k.dispatcher((order, qed), c.method("iterate-exact"), np.asarray(g, dtype=complex), as_list,
                     np.asarray(aem_half, dtype=float), running, nf, iters, mu2_from, mu2_to)
    )


def singlet_qed(order, qed, G, as_list, a_half, nf, iters):
    from eko.kernels import singlet_qed as k

    return np.array(
        k.dispatcher((order, qed), c.method("iterate-exact"), np.asarray(G, dtype=complex), as_list, a_half, nf, iters, (10, 0)),
        dtype=complex,
    )


def valence_qed(order, qed, G, as_list, a_half, nf, iters):
    from eko.kernels import valence_qed as k

    return np.array(
        k.dispatcher((order, qed), c.method("iterate-exact"), np.asarray(G, dtype=complex), as_list, a_half, nf, iters, (10, 0)),
        dtype=complex,
    )


def qed_grid(rng, order, qed, dim, scale=10.0):
    """random gamma[i, j] (i = 0..order, j = 0..qed) of dim x dim complex matrices (or scalars
    for dim = 0); gamma[0, 0] = 0 as in the physical grids; |gamma[i,j]| ~ 3 * 10^(i-1) * 3^j."""
    shape = (order + 1, qed + 1) + ((dim, dim) if dim else ())
    G = np.zeros(shape, dtype=complex)
    for i in range(order + 1):
        for j in range(qed + 1):
            if i == 0 and j == 0:
                continue
            mag = 3.0 * scale ** max(i - 1, 0) * 3.0**j
            G[i, j] = (c.random_matrix(rng, dim) if dim else c.cplx(rng, 0.3, 1.0)) * mag
    return G
