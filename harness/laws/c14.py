"""C14 (kernel-level clause): the QED kernels at a_em = 0 equal the QCD kernels of the same
sector for the same coupling steps.

QED singlet basis (g, photon, Sigma, Sigma_Delta) <- QCD singlet basis (Sigma, g): index map
Sigma -> 2, g -> 0 (the QedGrid embedding); photon row/column empty, Sigma_Delta carries the
non-singlet tower.  All a_em^j (j >= 1) entries of the grid are filled with random numbers:
they must not contribute.
"""

import math

import numpy as np

from . import common as c
from . import kern

LAW = "C14"
P = {0: 2, 1: 0}  # QCD singlet index -> QED singlet index


def _qcd_iterate(G, a1, a0, nf, order, iters):
    from eko import beta
    from eko.kernels import singlet as s

    betalist = [beta.beta_qcd((2 + i, 0), nf) for i in range(order)]
    return np.array(s.eko_iterate(np.asarray(G, dtype=complex), a1, a0, betalist, (order, 0), iters))


def measure(cell, seed, npts):
    sec, clause, order, qed, nf = cell["sector"], cell["clause"], cell["order"], cell["qed"], cell["nf"]
    worst = 0.0
    exps = []
    for k in range(npts):
        rng = c.rng_for(seed, LAW, cell, k)
        a1, a0 = c.directed(c.coupling_pair(rng), "fwd" if rng.random() < 0.5 else "bwd")
        iters = int(rng.integers(2, 9))
        if sec == "ns":
            g = kern.qed_grid(rng, order, qed, 0)
            as_list, a_half = kern.steps(a0, a1, iters, 0.0)
            mu2f = math.exp(rng.uniform(math.log(2.0), math.log(1e4)))
            mu2t = mu2f * math.exp(rng.uniform(-3, 3))
            e = kern.ns_qed(order, qed, g, as_list, a_half[:, 1], nf, iters, mu2f, mu2t)
            ref = 1.0
            for i in range(iters):
                ref *= kern.ns(order, "iterate-exact", g[1:, 0], as_list[i + 1], as_list[i], nf)
            worst = c.worse(worst, abs(e - ref) / abs(ref))
            continue
        gns = c.ns_tower(rng, order)
        if sec == "singlet":
            GS = c.singlet_tower(rng, order)
            G = kern.qed_grid(rng, order, qed, 4)
            for i in range(1, order + 1):
                G[i, 0] = 0.0
                for x in range(2):
                    for y in range(2):
                        G[i, 0][P[x], P[y]] = GS[i - 1][x, y]
                G[i, 0][3, 3] = gns[i - 1]
            dpos = [3]
            f, dim = kern.singlet_qed, 4
        else:
            gns2 = c.ns_tower(rng, order)
            G = kern.qed_grid(rng, order, qed, 2)
            for i in range(1, order + 1):
                G[i, 0] = np.diag([gns2[i - 1], gns[i - 1]])
            dpos = [0, 1]
            towers = {0: gns2, 1: gns}
            f, dim = kern.valence_qed, 2
        if sec == "singlet":
            towers = {3: gns}

        def E(n):
            as_list, a_half = kern.steps(a0, a1, n, 0.0)
            return f(order, qed, G, as_list, a_half, nf, n)

        e = E(iters)
        if clause == "block":
            ref = _qcd_iterate(GS, a1, a0, nf, order, iters)
            got = np.array([[e[P[x], P[y]] for y in range(2)] for x in range(2)])
            res = np.linalg.norm(got - ref) / np.linalg.norm(ref)
        elif clause == "photon":
            res = max(abs(e[1, 1] - 1.0), max(abs(e[1, j]) + abs(e[j, 1]) for j in (0, 2, 3)))
        elif clause == "delta":
            res = 0.0
            for p in dpos:
                other = c.ns_tower(rng, order)
                D = np.array([np.diag([towers[p][i], other[i]]) for i in range(order)])
                ref = _qcd_iterate(D, a1, a0, nf, order, iters)[0, 0]
                res = max(res, abs(e[p, p] - ref) / abs(ref))
                res = max(res, max(abs(e[p, j]) + abs(e[j, p]) for j in range(dim) if j != p))
        else:  # delta-limit: the discretised entries converge to the exact non-singlet kernel
            e2 = E(2 * iters)
            for p in dpos:
                ref = kern.ns(order, "iterate-exact", towers[p], a1, a0, nf)
                d1, d2 = abs(e[p, p] - ref), abs(e2[p, p] - ref)
                exps.append(math.log2(d1 / d2) if d1 > 0 and d2 > 0 else float("nan"))
            res = 0.0
        worst = c.worse(worst, res)
    out = {"dec": c.decades(worst), "raw": worst, "resolved": True}
    if exps:
        e = min(exps) if all(math.isfinite(x) for x in exps) else float("nan")
        out["exp100"] = c.exp100(e)
        out["raw_exp"] = e
    return out
