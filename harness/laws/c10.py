"""C10 Identity at equal couplings for every kernel; Compose / Roundtrip where the spec derives it.

identity : E(a <- a) = 1 through every dispatcher (QED kernels with a constant step list)
compose  : E(a2 <- a1) E(a1 <- a0) = E(a2 <- a0)
roundtrip: E(a0 <- a1) E(a1 <- a0) = 1
Residuals are relative (Frobenius norm).  For the discretised (path-ordered) singlet kernel the
compose residual is measured at n and 2n iterations and the observation is the convergence
exponent log2(res(n)/res(2n)) (midpoint rule: 2).
"""

import math

import numpy as np

from . import common as c
from . import kern

LAW = "C10"
N_ITER = 8


def _identity(cell, rng):
    order, nf, sec = cell["order"], cell["nf"], cell["sector"]
    a = math.exp(rng.uniform(math.log(0.002), math.log(0.05)))
    if sec == "ns":
        return abs(kern.ns(order, cell["method"], c.ns_tower(rng, order), a, a, nf) - 1.0)
    if sec == "singlet":
        e = kern.singlet(order, cell["method"], c.singlet_tower(rng, order), a, a, nf, int(rng.integers(1, 12)))
        return np.linalg.norm(e - np.eye(2))
    qed = cell["qed"]
    iters = int(rng.integers(1, 8))
    aem = rng.uniform(0.0005, 0.003)
    mu2 = math.exp(rng.uniform(math.log(2.0), math.log(1e4)))
    as_list, a_half = kern.steps(a, a, iters, aem)
    if sec == "ns-qed":
        e = kern.ns_qed(order, qed, kern.qed_grid(rng, order, qed, 0), as_list, a_half[:, 1], nf, iters, mu2, mu2)
        return abs(e - 1.0)
    if sec == "singlet-qed":
        e = kern.singlet_qed(order, qed, kern.qed_grid(rng, order, qed, 4), as_list, a_half, nf, iters)
        return np.linalg.norm(e - np.eye(4))
    e = kern.valence_qed(order, qed, kern.qed_grid(rng, order, qed, 2), as_list, a_half, nf, iters)
    return np.linalg.norm(e - np.eye(2))


def _triple(rng):
    """three distinct couplings in [0.002, 0.05] in random order."""
    while True:
        t = [math.exp(rng.uniform(math.log(0.002), math.log(0.05))) for _ in range(3)]
        r = sorted(t)
        if r[1] / r[0] > 1.25 and r[2] / r[1] > 1.25:
            if rng.uniform(0.0, 1.0) < 0.3:
                # one leg short (the middle coupling within 0.1-4% of an end point): a closed form that switches
                # to an approximation on short paths no longer composes with a long leg
                t[1] = t[rng.choice([0, 2])] * math.exp(rng.choice([-1, 1]) * rng.uniform(1e-3, 0.04))
            return t


def measure(cell, seed, npts):
    clause, sec, order, nf, m = cell["clause"], cell["sector"], cell["order"], cell["nf"], cell["method"]
    worst = 0.0
    if clause == "identity":
        for k in range(npts):
            worst = c.worse(worst, _identity(cell, c.rng_for(seed, LAW, cell, k)))
        return {"dec": c.decades(worst), "raw": worst, "resolved": True}

    ratios = []
    for k in range(npts):
        rng = c.rng_for(seed, LAW, cell, k)
        a0, a1, a2 = _triple(rng)
        if clause == "roundtrip":
            a2 = a0
        if sec == "ns":
            g = c.ns_tower(rng, order)
            f = lambda x1, x0, it=1: kern.ns(order, m, g, x1, x0, nf)  # noqa: E731
            one = 1.0
        else:
            G = c.singlet_tower(rng, order)
            f = lambda x1, x0, it=N_ITER: kern.singlet(order, m, G, x1, x0, nf, it)  # noqa: E731
            one = np.eye(2)

        def res(it):
            lhs = f(a2, a1, it) @ f(a1, a0, it) if sec != "ns" else f(a2, a1, it) * f(a1, a0, it)
            rhs = one if clause == "roundtrip" else f(a2, a0, it)
            return float(np.linalg.norm(np.atleast_2d(lhs - rhs)) / np.linalg.norm(np.atleast_2d(rhs)))

        r1 = res(N_ITER)
        worst = c.worse(worst, r1)
        if sec == "singlet" and clause == "compose":
            r2 = res(2 * N_ITER)
            if r1 > 0 and r2 > 0:
                ratios.append(math.log2(r1 / r2))
    out = {"dec": c.decades(worst), "raw": worst, "resolved": True}
    if ratios:
        out["exp100"] = c.exp100(min(ratios))
        out["raw_exp"] = min(ratios)
    return out
