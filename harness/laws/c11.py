"""C11 Conserve: towers whose columns are annihilated by a left vector v (v.gamma_k = 0) give
kernels, scale-variation factors and matching operators with v.K = v.

v = (1,1) for the singlet (momentum), (1,1,1,0) for the QED singlet basis (g, photon, Sigma,
Sigma_Delta), 1x1 zero towers for the quark-number non-singlet moment, ones for matching.
Residual = |v.K - v| / max(1, |K|).
"""

import math

import numpy as np

from . import common as c
from . import kern

LAW = "C11"


def _res(v, K):
    K = np.atleast_2d(np.asarray(K, dtype=complex))
    v = np.asarray(v, dtype=complex)
    return float(np.linalg.norm(v @ K - v) / max(1.0, np.linalg.norm(K)))


def _qed_tower(rng, order, qed, dim, vec):
    G = np.zeros((order + 1, qed + 1, dim, dim), dtype=complex)
    for i in range(order + 1):
        for j in range(qed + 1):
            if i == 0 and j == 0:
                continue
            G[i, j] = c.conserving_tower(rng, 1, dim, vec)[0] * 10.0 ** max(i - 1, 0) * 3.0**j
    return G


def measure(cell, seed, npts):
    import importlib

    qk = importlib.import_module("eko.evolution_operator.quad_ker")
    from eko.scale_variations import expanded as sve
    from eko.scale_variations import exponentiated as svx

    kind, order, nf, qed, dim, sv = cell["kind"], cell["order"], cell["nf"], cell["qed"], cell["dim"], cell["sv"]
    worst = 0.0
    for k in range(npts):
        rng = c.rng_for(seed, LAW, cell, k)
        L = rng.uniform(-1.4, 1.4)
        a1, a0 = c.directed(c.coupling_pair(rng), "fwd" if rng.random() < 0.5 else "bwd")
        if kind == "kernel-singlet":
            G = c.conserving_tower(rng, order, 2)
            if sv == "exponentiated":
                G = svx.gamma_variation(G.copy(), (order, 0), nf, L)
            res = _res([1, 1], kern.singlet(order, cell["method"], G, a1, a0, nf, cell["iters"]))
        elif kind == "kernel-ns":
            g = np.zeros(order, dtype=complex)
            if sv == "exponentiated":
                g = svx.gamma_variation(g.copy(), (order, 0), nf, L)
            res = abs(kern.ns(order, cell["method"], g, a1, a0, nf) - 1.0)
        elif kind in ("kernel-singlet-qed", "kernel-valence-qed"):
            vec = [1, 1, 1, 0] if dim == 4 else [1, 1]
            G = _qed_tower(rng, order, qed, dim, vec)
            if sv.startswith("exponentiated"):
                G = svx.gamma_variation_qed(G.copy(), (order, qed), nf, 3, L, sv.endswith("running"))
                if G is None:
                    return {"resolved": False, "dec": 0,
                            "why": "gamma_variation_qed returns None when alpha_em is fixed (no kernel can be built; defect tracked under C04/C21)"}
            aem = rng.uniform(0.0005, 0.003)
            as_list, a_half = kern.steps(a0, a1, cell["iters"], aem)
            f = kern.singlet_qed if dim == 4 else kern.valence_qed
            res = _res(vec, f(order, qed, G, as_list, a_half, nf, cell["iters"]))
        elif kind == "sv-expanded":
            if dim == 1:
                res = abs(sve.non_singlet_variation(np.zeros(order, dtype=complex), a1, (order, 0), nf, L) - 1.0)
            else:
                G = c.conserving_tower(rng, order, 2)
                res = _res([1, 1], sve.singlet_variation(G, a1, (order, 0), nf, L, 2))
        elif kind == "sv-expanded-qed":
            running = sv.endswith("running")
            aem = rng.uniform(0.0005, 0.003)
            if dim == 1:
                g = np.zeros((order + 1, qed + 1), dtype=complex)
                res = abs(sve.non_singlet_variation_qed(g, a1, aem, running, (order, qed), nf, L) - 1.0)
            else:
                vec = [1, 1, 1, 0] if dim == 4 else [1, 1]
                G = _qed_tower(rng, order, qed, dim, vec)
                f = sve.singlet_variation_qed if dim == 4 else sve.valence_variation_qed
                res = _res(vec, f(G, a1, aem, running, (order, qed), nf, L))
        else:  # matching
            A = c.conserving_tower(rng, order, dim)
            if sv == "exponentiated":
                A = svx.gamma_variation(A.copy(), (order, 0), nf, L)
            back = {"forward": qk.MatchingMethods.FORWARD, "exact": qk.MatchingMethods.BACKWARD_EXACT,
                    "expanded": qk.MatchingMethods.BACKWARD_EXPANDED}[cell["back"]]
            a_s = math.exp(rng.uniform(math.log(0.005), math.log(0.03)))
            res = _res(np.ones(dim), qk.build_ome(A, (order, 0), a_s, back))
        worst = c.worse(worst, res)
    return {"dec": c.decades(worst), "raw": worst, "resolved": True}
