"""Engine shared by the law checks (mode L, DESIGN 4.11).

plan (TLC enumerates Laws!Cells(law))  ->  measurement of every planned cell on the real,
un-jitted functions (fork pool)  ->  one integer-valued record per cell  ->  LawsTrace (TLC)
decides: plan covered exactly once, every resolved cell inside the class the spec derives.
"""

from __future__ import annotations

import copy
import json
import multiprocessing as mp
import os
import traceback

from harness.core import MachineryError

_COARSE = ("nf", "dir", "iters", "norm", "bsrc")  # cell fields left out of fingerprints

_MEASURE = None


def _job(args):
    cell, seed, npts, aux = args
    try:
        import warnings

        import numpy as np

        with warnings.catch_warnings(), np.errstate(all="ignore"):
            warnings.simplefilter("ignore")
            out = _MEASURE(cell, seed, npts, aux) if getattr(_MEASURE, "wants_aux", False) else _MEASURE(cell, seed, npts)
    except Exception as ex:  # noqa: BLE001
        return {"cell": cell, "crash": f"{type(ex).__name__}: {ex}", "tb": traceback.format_exc()[-1500:]}
    out["cell"] = cell
    return out


def plan_from_tlc(chk, law):
    """TLC enumerates the cell domain of `law` (initial states) and dumps it as JSON."""
    pf = chk.scratch / f"plan-{law}.json"
    r = chk.tlc("LawsPlan", "LawsPlan.cfg", workers=1, label=f"plan {law} (cells = initial states)",
                env={"LAW": law, "PLAN_FILE": str(pf), "SWITCH": "none"})
    if r.violated or not r.completed:
        raise MachineryError(f"LawsPlan failed for {law}: {r.violated} {r.out[-1500:]}")
    plan = json.loads(pf.read_text())
    cells = plan["cells"]
    if r.distinct != 2 * len(cells) or not cells:
        raise MachineryError(f"plan size mismatch: {r.distinct} states (2 per cell), {len(cells)} dumped")
    return cells


def measure_all(chk, law, cells, measure, npts, procs=16):
    global _MEASURE
    _MEASURE = measure
    jobs = [(c["cell"], chk.seed, npts, c.get("aux", {})) for c in cells]
    ctx = mp.get_context("fork")
    with ctx.Pool(min(procs, os.cpu_count() or 1)) as pool:
        outs = pool.map(_job, jobs, chunksize=max(1, len(jobs) // (procs * 8)))
    crashes = [o for o in outs if "crash" in o]
    if crashes:
        o = crashes[0]
        raise MachineryError(
            f"{law}: measurement raised in {len(crashes)} cell(s), first {o['cell']}: {o['crash']}\n{o['tb']}"
        )
    return outs


def to_record(law, out):
    rec = {
        "law": law,
        "cell": out["cell"],
        "dec": int(out.get("dec", 0)),
        "exp100": int(out.get("exp100", 0)),
        "resolved": bool(out.get("resolved", True)),
    }
    return rec


def fingerprint(verdict, cell):
    parts = [f"{k}={cell[k]}" for k in sorted(cell) if k not in _COARSE and k != "clause" and cell[k] not in ("-", 0)]
    if "bsrc" in cell:
        parts.append("bsrc=" + ("random-positive" if cell["bsrc"] == 0 else "nf"))
    return f"{verdict} " + " ".join(parts)


def validate(chk, law, recs, label, switch="none"):
    r = chk.tlc("LawsTrace", "LawsTrace.cfg", trace=recs, workers=1, label=label,
                env={"LAW": law, "SWITCH": switch})
    if r.violated or not r.completed:
        raise MachineryError(f"LawsTrace not accepted ({label}): {r.violated} {r.out[-2000:]}")
    return r.printed("BAD")


def remeasure_under_switch(chk, law, measure, cells, switch, npts):
    """Vacuity guard for derivations that steer the MEASUREMENT (aux): plan again with the design
    switch (TLC must refute the lemmas), measure the cells whose derived attributes changed, and
    require LawsTrace to refute those measurements."""
    pf = chk.scratch / f"plan-{law}-{switch}.json"
    chk.tlc("LawsPlan", "LawsPlan.cfg", workers=1, label=f"design switch {switch}: lemmas must fail",
            env={"LAW": law, "PLAN_FILE": str(pf), "SWITCH": switch}, expect_violation="Lemmas")
    clean = {json.dumps(c["cell"], sort_keys=True): c for c in cells}
    switched = json.loads(pf.read_text())["cells"]
    changed = [c for c in switched if c.get("aux") != clean[json.dumps(c["cell"], sort_keys=True)].get("aux")]
    if not changed:
        raise MachineryError(f"{law}: switch {switch} changes no derived attribute")
    outs = measure_all(chk, law, changed, measure, npts)
    recs = [to_record(law, o) for o in outs]
    r = chk.tlc("LawsTrace", "LawsTrace.cfg", trace=recs, workers=1,
                label=f"design switch {switch}: {len(recs)} re-measured cells (must refute)",
                env={"LAW": law, "SWITCH": switch})
    bad = [t for t in r.printed("BAD") if t[1] > 0 and t[2].startswith(law + ":") and "cell" not in t[2]]
    if not bad:
        raise MachineryError(f"{law}: vacuity guard: measurements under switch {switch} are not refuted")
    chk.note(f"switch_{switch}", f"lemmas refuted by TLC; {len(bad)} of {len(recs)} re-measured cells refuted")


def run_law(chk, law, measure, *, npts_quick, npts_thorough, switches=(), procs=16, post=None,
            remeasure_switches=()):
    """Full pipeline for one law.  `switches`: design switches of Laws.tla under which the
    clean measurements MUST be refuted (vacuity guard)."""
    npts = npts_thorough if chk.thorough() else npts_quick
    cells = plan_from_tlc(chk, law)
    reqd = [c for c in cells if c["req"]["kind"] != "none"]
    chk.note("cells_planned", len(cells))
    chk.note("cells_with_required_class", len(reqd))
    outs = measure_all(chk, law, cells, measure, npts, procs)
    recs = [to_record(law, o) for o in outs]
    req_of = {json.dumps(c["cell"], sort_keys=True): c["req"] for c in cells}

    # evidence: worst observation per (clause, required class), unresolved cells
    worst = {}
    unresolved = []
    for o in outs:
        q = req_of[json.dumps(o["cell"], sort_keys=True)]
        if not o.get("resolved", True):
            unresolved.append({"cell": o["cell"], "why": o.get("why", "")})
            continue
        key = f"{o['cell'].get('clause', '')}/{q['name']}"
        w = worst.setdefault(key, {"n": 0, "min_dec": 99, "max_raw": 0.0, "exp100_min": 10**6, "exp100_max": -10**6})
        w["n"] += 1
        if q["kind"] == "exp" or "exp100" in o:
            w["exp100_min"] = min(w["exp100_min"], o.get("exp100", 0))
            w["exp100_max"] = max(w["exp100_max"], o.get("exp100", 0))
        if "dec" in o:
            w["min_dec"] = min(w["min_dec"], o["dec"])
            w["max_raw"] = max(w["max_raw"], float(o.get("raw", 0.0)))
    for w in worst.values():
        if w["exp100_min"] == 10**6:
            del w["exp100_min"], w["exp100_max"]
    chk.note("cells_measured", len(outs))
    chk.note("cells_unresolved", len(unresolved))
    chk.note("unresolved", unresolved[:40])
    chk.note("worst_per_class", worst)
    chk.note("points_per_cell", npts)
    for o in outs:
        q = req_of[json.dumps(o["cell"], sort_keys=True)]
        chk.count(max(1, int(o.get("n", npts))), (law, json.dumps(o["cell"], sort_keys=True)),
                  nontrivial=q["kind"] != "none" and o.get("resolved", True))
    for o in outs[:: max(1, len(outs) // 5)]:
        chk.sample({k: (v if not isinstance(v, float) else float(f"{v:.3e}")) for k, v in o.items() if k != "tb"})

    # ---- B3: TLC judges the recorded measurements ----------------------------------------
    bad = validate(chk, law, recs, f"{law}: {len(recs)} measured cells")
    chk.cov["traces_validated_against_impl"] += len(recs)
    raw_of = {json.dumps(o["cell"], sort_keys=True): o for o in outs}
    nviol = 0
    for t in bad:
        idx, verdict = t[1], t[2]
        if verdict.startswith("MACH:"):
            raise MachineryError(f"{law}: {verdict} ({len(unresolved)} unresolved cells)")
        if idx == 0:
            raise MachineryError(f"{law}: plan not covered by the measurement: {t}")
        rec = recs[idx - 1]
        o = raw_of[json.dumps(rec["cell"], sort_keys=True)]
        if verdict.startswith(law + ":") and "cell" not in verdict.split(":", 1)[1]:
            nviol += 1
            what = (f"law {verdict} violated in cell {rec['cell']}: observed dec={rec['dec']} "
                    f"exp100={rec['exp100']} raw={o.get('raw', o.get('raw_exp'))} required {req_of[json.dumps(rec['cell'], sort_keys=True)]}")
            chk.violation(fingerprint(verdict, rec["cell"]), what,
                          {"law": law, "cell": rec["cell"], "record": rec, "seed": chk.seed,
                           "detail": {k: v for k, v in o.items() if k not in ("cell", "tb")}})
        else:
            raise MachineryError(f"{law}: trace bookkeeping failure {t}")
    chk.note("cells_violating", nviol)

    # ---- binding demonstration: corrupted records must be rejected --------------------------
    failing = {t[1] - 1 for t in bad}
    good = [k for k, rec in enumerate(recs)
            if rec["resolved"] and k not in failing
            and req_of[json.dumps(rec["cell"], sort_keys=True)]["kind"] != "none"]
    if not good:
        if chk.violations:
            chk.note("binding_demo", "skipped: no accepted cell left to corrupt (all resolved cells violate)")
            return outs
        raise MachineryError(f"{law}: no resolved cell with a required class")
    k0 = good[len(good) // 2]
    c1 = copy.deepcopy(recs)
    q0 = req_of[json.dumps(recs[k0]["cell"], sort_keys=True)]
    if q0["kind"] == "dec":
        c1[k0]["dec"] = max(0, q0["lo"] - 3)
    else:
        c1[k0]["exp100"] = q0["lo"] - 100
    k1 = good[0] if good[0] != k0 else good[-1]
    c1.append(copy.deepcopy(recs[k1]))  # a duplicated cell
    k2 = next((k for k in good if k not in (k0, k1)), None)
    if k2 is not None:
        c1[k2]["cell"]["nf"] = 9  # an unplanned cell, which also leaves a planned one missing
    b1 = validate(chk, law, c1, "corrupted trace: class out of range, duplicated, unplanned and missing cell (must be rejected)")
    base = {(t[1], t[2]) for t in bad}
    ok1 = any(t[1] == k0 + 1 and t[2].startswith(law + ":") for t in b1 if (t[1], t[2]) not in base)
    ok3 = any("duplicate-cell" in t[2] and t[1] == len(c1) for t in b1)
    ok4 = k2 is None or (any("unplanned-cell" in t[2] and t[1] == k2 + 1 for t in b1)
                         and any("missing-cell" in t[2] for t in b1))
    if not (ok1 and ok3 and ok4):
        raise MachineryError(f"{law}: binding demonstration failed {ok1, ok3, ok4}")
    chk.note("binding_demo", "corrupted trace (class out of range, duplicated cell, unplanned cell, missing cell) rejected by LawsTrace, each at its record")

    # ---- vacuity guard: with the derivation switched, the clean records must be refuted -----
    sw = {}
    for s in switches:
        bs = validate(chk, law, recs, f"design switch {s} (must refute)", switch=s)
        new = [t for t in bs if (t[1], t[2]) not in base and t[2].startswith(law + ":")]
        if not new and not chk.violations:
            raise MachineryError(f"{law}: vacuity guard: switch {s} refutes nothing")
        sw[s] = len(new)
    chk.note("design_switches_refuted_cells", sw)
    for s in remeasure_switches:
        remeasure_under_switch(chk, law, measure, cells, s, npts)
    if post:
        post(chk, outs)
    return outs


def lemma_switch(chk, law, switch):
    """B1 vacuity guard: with a mutated derivation TLC must refute the lemmas of Laws.tla."""
    pf = chk.scratch / f"plan-{law}-{switch}.json"
    chk.tlc("LawsPlan", "LawsPlan.cfg", workers=1, label=f"design switch {switch}: lemmas must fail",
            env={"LAW": law, "PLAN_FILE": str(pf), "SWITCH": switch}, expect_violation="Lemmas")
    chk.note("lemma_switch", f"{switch}: LemmaForms refuted by TLC")
