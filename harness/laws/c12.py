"""C12 ConvergenceOrder: the iterated (path-ordered) singlet kernels converge at second order
to a limit that satisfies the local ODE; the perturbative kernel approaches the same limit.

ratio      : differences of the iterated kernel at n, 2n, 4n, 8n steps shrink by ~4
             (observation: log2 of the finest ratio, the value farthest from 2 over the points)
pert-limit : distance of eko_perturbative(ev_op_max_order K) to the Richardson limit shrinks
             by >= 3x per two orders until it reaches the limit's own residual
ode        : L(a1) = (4 E(2n) - E(n))/3 satisfies dL/da1 = gamma(a1)/beta(a1) L (5-point
             difference; gamma, beta rebuilt from the inputs and the independent beta table),
             also for the QED 4x4 singlet and 2x2 valence kernels along supplied coupling steps
             (geometric steps, arithmetic midpoints, alpha_em MOVING along the steps as a smooth
             function of the mid-step a_s, by a factor of up to 2 over the range).
"""

import math

import numpy as np

from . import common as c
from . import kern

LAW = "C12"
N0 = 10
N_LIM = 80


def _iter_fn(cell, rng):
    """returns E(a1, a0, n), rhs(a1) = Gamma(a1)/B(a1), and the coupling pair."""
    order, nf, sec = cell["order"], cell["nf"], cell["sector"]
    bvec = c.beta_vec_indep(order, nf)
    if sec == "singlet":
        G = c.singlet_tower(rng, order)

        def E(a1, a0, n):
            return kern.singlet(order, "iterate-exact", G, a1, a0, nf, n)

        def rhs(a):
            return sum(G[k] * a ** (k + 1) for k in range(order)) / c.beta_of_a(a, bvec)

        return E, rhs, G
    qed = cell["qed"]
    dim = 4 if sec == "singlet-qed" else 2
    G = kern.qed_grid(rng, order, qed, dim)
    aem0 = rng.uniform(0.0005, 0.003)
    slope = rng.uniform(5.0, 20.0)
    f = kern.singlet_qed if dim == 4 else kern.valence_qed
    mix = c.beta_qcd_mix_indep(nf)

    def aemf(a):   # the supplied electromagnetic coupling moves along the steps
        return aem0 * (1.0 + slope * a)

    def E(a1, a0, n):
        as_list, a_half = kern.steps(a0, a1, n, aemf)
        return f(order, qed, G, as_list, a_half, nf, n)

    def rhs(a):
        aem = aemf(a)
        gam = sum(G[i, j] * a**i * aem**j for i in range(order + 1) for j in range(qed + 1))
        return gam / (c.beta_of_a(a, bvec) + mix * a**2 * aem)

    return E, rhs, G


def measure(cell, seed, npts):
    clause, order, nf = cell["clause"], cell["order"], cell["nf"]
    obs = []
    worst = 0.0
    for k in range(npts):
        rng = c.rng_for(seed, LAW, cell, k)
        E, rhs, G = _iter_fn(cell, rng)
        hi = 0.02 if clause == "pert-limit" else 0.05
        a1, a0 = c.directed(c.coupling_pair(rng, 0.002, hi, 1.5, 5.0), cell["dir"])
        if clause == "ratio":
            e = [E(a1, a0, N0 * 2**j) for j in range(4)]
            d = [float(np.linalg.norm(e[j + 1] - e[j])) for j in range(3)]
            obs.append(math.log2(d[1] / d[2]))
            obs.append(math.log2(d[0] / d[1]))
        elif clause == "ode":
            def L(x):
                return (4.0 * E(x, a0, 2 * N_LIM) - E(x, a0, N_LIM)) / 3.0

            h = 4e-3 * a1
            dl = c.d5(L, a1, h)
            l0 = L(a1)
            r = rhs(a1)
            res = float(np.linalg.norm(dl @ np.linalg.inv(l0) - r) / np.linalg.norm(r))
            worst = c.worse(worst, res)
        else:  # pert-limit (QCD singlet only)
            e1, e2, e3 = (E(a1, a0, N_LIM * 2**j) for j in range(3))
            r1, r2 = (4 * e2 - e1) / 3, (4 * e3 - e2) / 3
            lim = (16 * r2 - r1) / 15
            err = float(np.linalg.norm(r2 - r1))
            dist = [float(np.linalg.norm(kern.singlet(order, "perturbative-exact", G, a1, a0, nf, 1, K) - lim))
                    for K in (order + 1, order + 3, order + 5)]
            steps = [math.log2(dist[j] / dist[j + 1]) for j in range(2) if dist[j + 1] > 10.0 * err]
            if dist[0] <= 10.0 * err:
                continue
            if not steps:  # reached the limit's own residual in one refinement
                steps = [math.log2(dist[0] / (10.0 * err))]
            obs.append(min(steps))
    if clause == "ode":
        return {"dec": c.decades(worst), "raw": worst, "resolved": True}
    if not obs:
        return {"resolved": False, "exp100": 0, "why": "perturbative kernel already within the residual of the extrapolated limit"}
    pick = max(obs, key=lambda x: abs(x - 2.0)) if clause == "ratio" else min(obs)
    return {"exp100": c.exp100(pick), "raw_exp": pick, "resolved": True}
