"""Shared pieces of the law measurements (mode L).

* independent beta-function table (literature values written here, not read from eko.beta),
* quantisation of residuals into the integer observations that travel to TLC,
* seeded random inputs in the quantifier ranges of the properties,
* finite-difference helpers.

Nothing in this file imports eko's beta or kernels code except `methods()`, which only maps
the method names of the spec to the enum members the kernels are called with.
"""

from __future__ import annotations

import math
import zlib
from fractions import Fraction as Fr

import numpy as np

ZETA3 = 1.2020569031595942853997381615114

METHODS = (
    "iterate-exact",
    "iterate-expanded",
    "perturbative-exact",
    "perturbative-expanded",
    "truncated",
    "ordered-truncated",
    "decompose-exact",
    "decompose-expanded",
)


def method(name):
    from eko.kernels import EvoMethods

    return EvoMethods[name.upper().replace("-", "_")]


# --------------------------------------------------------------------------------------
# literature beta coefficients, a = alpha/(4 pi), da/dln(mu^2) = -sum_k beta_k a^(k+2)
# (Herzog et al. 2017 for beta_3; mixed terms for SU(3)xU(1), charges 2/3, -1/3)
# --------------------------------------------------------------------------------------


def beta_qcd_indep(k: int, nf: int) -> float:
    nf = Fr(nf)
    if k == 0:
        return float(11 - Fr(2, 3) * nf)
    if k == 1:
        return float(102 - Fr(38, 3) * nf)
    if k == 2:
        return float(Fr(2857, 2) - Fr(5033, 18) * nf + Fr(325, 54) * nf**2)
    if k == 3:
        rat = Fr(149753, 6) - Fr(1078361, 162) * nf + Fr(50065, 162) * nf**2 + Fr(1093, 729) * nf**3
        z = 3564 - Fr(6508, 27) * nf + Fr(6472, 81) * nf**2
        return float(rat) + float(z) * ZETA3
    raise ValueError(k)


def _nu_nd(nf):
    nu = nf // 2
    return nu, nf - nu


def beta_qcd_mix_indep(nf: int) -> float:
    """coefficient of a_s^2 a_em in da_s/dln mu^2 (with the overall minus sign convention)."""
    nu, nd = _nu_nd(nf)
    return float(-2 * (nu * Fr(4, 9) + nd * Fr(1, 9)))  # -4 TR sum e_q^2


def beta_qed_indep(k: int, nf: int, nl: int) -> float:
    nu, nd = _nu_nd(nf)
    if k == 0:
        return float(-Fr(4, 3) * (nl + 3 * (nu * Fr(4, 9) + nd * Fr(1, 9))))
    if k == 1:
        return float(-4 * (nl + 3 * (nu * Fr(16, 81) + nd * Fr(1, 81))))
    raise ValueError(k)


def beta_qed_mix_indep(nf: int) -> float:
    """coefficient of a_em^2 a_s in da_em/dln mu^2."""
    nu, nd = _nu_nd(nf)
    return float(-4 * Fr(4, 3) * 3 * (nu * Fr(4, 9) + nd * Fr(1, 9)))


def beta_vec_indep(order: int, nf: int):
    return [beta_qcd_indep(k, nf) for k in range(order)]


def beta_of_a(a, bvec):
    """beta(a) = sum_k beta_k a^(k+2)  (positive-coefficient convention)."""
    return sum(b * a ** (k + 2) for k, b in enumerate(bvec))


def gamma_of_a(a, gvec):
    """gamma(a) = sum_k gamma_k a^(k+1)."""
    return sum(g * a ** (k + 1) for k, g in enumerate(gvec))


# --------------------------------------------------------------------------------------
# quantisation
# --------------------------------------------------------------------------------------

BITWISE = 99


def decades(res: float) -> int:
    """Integer observation of a residual: 99 = exactly zero (bitwise), otherwise
    floor(-log10(res)) clipped to 0..17, i.e. the number of whole decades below 1;
    -1 for a non-finite residual."""
    res = float(res)
    if not math.isfinite(res):
        return -1
    if res == 0.0:
        return BITWISE
    d = math.floor(-math.log10(res))
    return int(min(17, max(0, d)))


def worse(worst: float, res) -> float:
    """max that does not swallow NaN: a non-finite residual becomes +inf."""
    res = float(abs(res))
    if not math.isfinite(res):
        return math.inf
    return max(worst, res)


def low_quartile(xs):
    """robust lower statistic of measured exponents: an exponent at finite coupling is a proxy
    for the asymptotic order; an accidental cancellation of the leading coefficient depresses it
    at isolated inputs, a wrong order depresses it at every input."""
    xs = sorted(xs)
    return xs[len(xs) // 4]


def exp100(x: float) -> int:
    if not math.isfinite(x):
        return -9999
    return int(round(100.0 * max(-90.0, min(90.0, x))))


def cell_seed(seed: int, law: str, cell: dict, k: int = 0) -> int:
    s = repr((seed, law, sorted(cell.items()), k)).encode()
    return zlib.crc32(s) ^ ((seed * 2654435761) & 0xFFFFFFFF)


def rng_for(seed, law, cell, k=0):
    return np.random.default_rng(cell_seed(seed, law, cell, k))


# --------------------------------------------------------------------------------------
# random inputs
# --------------------------------------------------------------------------------------


def cplx(rng, lo, hi):
    """complex number with modulus in [lo, hi] and arbitrary phase."""
    r = rng.uniform(lo, hi)
    ph = rng.uniform(0, 2 * np.pi)
    return r * np.exp(1j * ph)


def ns_tower(rng, order, scale=10.0):
    """complex gamma_k with |gamma_k| in [0.3, 1]*scale^(k) * 3 (k = 0..order-1)."""
    return np.array([cplx(rng, 0.3, 1.0) * 3.0 * scale**k for k in range(order)], dtype=complex)


def coupling_pair(rng, lo=0.002, hi=0.05, minratio=1.3, maxratio=6.0):
    """(small, large) couplings in [lo, hi], ratio in [minratio, maxratio]."""
    for _ in range(1000):
        x = math.exp(rng.uniform(math.log(lo), math.log(hi)))
        y = math.exp(rng.uniform(math.log(lo), math.log(hi)))
        s, l = min(x, y), max(x, y)
        if minratio <= l / s <= maxratio:
            return s, l
    raise RuntimeError("no coupling pair")


def directed(pair, direction):
    """forward evolution = towards higher scales = a1 < a0."""
    s, l = pair
    return (s, l) if direction == "fwd" else (l, s)  # returns (a1, a0)


def random_matrix(rng, dim, lo=0.3, hi=1.0):
    return np.array([[cplx(rng, lo, hi) for _ in range(dim)] for _ in range(dim)], dtype=complex)


def well_conditioned_basis(rng, dim, maxcond=8.0):
    for _ in range(1000):
        v = random_matrix(rng, dim, 0.2, 1.0)
        if np.linalg.cond(v) <= maxcond:
            return v
    raise RuntimeError("no basis")


def separated_eigs(rng, dim, norm, minsep=0.25):
    """complex eigenvalues with modulus <= norm, pairwise separated by >= minsep*norm."""
    for _ in range(10000):
        lam = np.array([cplx(rng, 0.15 * norm, norm) for _ in range(dim)])
        d = min(abs(lam[i] - lam[j]) for i in range(dim) for j in range(i))
        if d >= minsep * norm:
            return lam
    raise RuntimeError("no eigenvalues")


def singlet_tower(rng, order, scale=10.0, dim=2):
    """non-commuting complex matrices, |entries| ~ 3*scale^k, diagonalisable with
    separated eigenvalues at k = 0."""
    out = []
    for k in range(order):
        v = well_conditioned_basis(rng, dim)
        lam = separated_eigs(rng, dim, 3.0 * scale**k)
        out.append(v @ np.diag(lam) @ np.linalg.inv(v))
    return np.array(out, dtype=complex)


def commuting_tower(rng, order, scale=10.0, dim=2):
    v = well_conditioned_basis(rng, dim)
    vi = np.linalg.inv(v)
    return np.array(
        [v @ np.diag(separated_eigs(rng, dim, 3.0 * scale**k)) @ vi for k in range(order)],
        dtype=complex,
    )


def diagonal_tower(rng, order, scale=10.0, dim=2):
    return np.array(
        [np.diag(separated_eigs(rng, dim, 3.0 * scale**k)) for k in range(order)], dtype=complex
    )


def conserving_tower(rng, order, dim=2, vec=None, scale=10.0):
    """random complex matrices with  vec . gamma_k = 0  (columns annihilated by the
    conserved left vector), vec entries in {0, 1}."""
    vec = np.ones(dim) if vec is None else np.asarray(vec, dtype=float)
    piv = int(np.nonzero(vec)[0][0])
    out = []
    for k in range(order):
        m = random_matrix(rng, dim, 0.3, 1.0) * 3.0 * scale**k
        # fix the pivot row so that vec.m = 0
        rest = vec @ m - vec[piv] * m[piv]
        m[piv] = -rest / vec[piv]
        out.append(m)
    return np.array(out, dtype=complex)


# --------------------------------------------------------------------------------------
# finite differences
# --------------------------------------------------------------------------------------


def d5(f, x, h):
    """five-point central first derivative (error h^4 f^(5)/30)."""
    return (-f(x + 2 * h) + 8 * f(x + h) - 8 * f(x - h) + f(x - 2 * h)) / (12 * h)


def relerr(x, ref, floor=0.0):
    x = np.asarray(x)
    ref = np.asarray(ref)
    den = max(float(np.max(np.abs(ref))), floor)
    if den == 0.0:
        return float(np.max(np.abs(x - ref)))
    return float(np.max(np.abs(x - ref))) / den
