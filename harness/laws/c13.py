"""C13 evolution integrals: j(a0,a0)=0, local derivative law, expanded = Taylor truncation
(order of vanishing of exact - expanded, and equality with the integrated Taylor polynomial), cubic roots at N3LO.

The integrand of j^{(k)}_level is  a^k / (beta0 a^2 (1 + b1 a + ... + b_{level-1} a^{level-1}));
beta0 and the b's come from the independent table (bsrc = nf) or are random positive numbers
(bsrc = 0) handed to the functions as arguments.
"""

import math

import numpy as np

from . import common as c

LAW = "C13"

#: name -> (level, power)
INTEGRALS = {
    "j12": (1, 1),
    "nlo_j13": (2, 1),
    "nlo_j23": (2, 2),
    "nnlo_j14": (3, 1),
    "nnlo_j24": (3, 2),
    "nnlo_j34": (3, 3),
    "n3lo_j03": (4, 1),
    "n3lo_j13": (4, 2),
    "n3lo_j23": (4, 3),
    "n3lo_j33": (4, 4),
}


def _bs(cell, rng):
    """beta0 and [1, b1, b2, b3]."""
    if cell["bsrc"] == 0:
        beta0 = rng.uniform(4.0, 12.0)
        b = [1.0, rng.uniform(1.0, 8.0), rng.uniform(2.0, 60.0), rng.uniform(5.0, 500.0)]
    else:
        bv = c.beta_vec_indep(4, cell["bsrc"])
        beta0 = bv[0]
        b = [x / beta0 for x in bv]
    return beta0, b


def _exact(name, beta0, b):
    from eko.kernels import as4_evolution_integrals as as4
    from eko.kernels import evolution_integrals as ei

    # the normalised coefficients as a caller may hold them: a list, or (every other cell instance) one NumPy
    # array that is handed to roots() and then to the integrals
    bl = b[1:4] if int(round(b[1] * 1e6)) % 2 else np.array(b[1:4], dtype=float)

    def n3(which):
        def f(a1, a0):
            r = as4.roots(bl)
            j13 = as4.j13_exact(a1, a0, beta0, bl, r)
            j23 = as4.j23_exact(a1, a0, beta0, bl, r)
            j33 = as4.j33_exact(a1, a0, beta0, bl, r)
            if which == 0:
                return as4.j03_exact(ei.j12(a1, a0, beta0), j13, j23, j33, bl)
            return (j13, j23, j33)[which - 1]

        return f

    return {
        "j12": lambda a1, a0: ei.j12(a1, a0, beta0),
        "nlo_j13": lambda a1, a0: ei.j13_exact(a1, a0, beta0, b[:2]),
        "nlo_j23": lambda a1, a0: ei.j23_exact(a1, a0, beta0, b[:2]),
        "nnlo_j14": lambda a1, a0: ei.j14_exact(a1, a0, beta0, b[:3]),
        "nnlo_j24": lambda a1, a0: ei.j24_exact(a1, a0, beta0, b[:3]),
        "nnlo_j34": lambda a1, a0: ei.j34_exact(a1, a0, beta0, b[:3]),
        "n3lo_j03": n3(0),
        "n3lo_j13": n3(1),
        "n3lo_j23": n3(2),
        "n3lo_j33": n3(3),
    }[name]


def _expanded(name, beta0, b):
    from eko.kernels import as4_evolution_integrals as as4
    from eko.kernels import evolution_integrals as ei

    bl = b[1:4]

    def n3(which):
        def f(a1, a0):
            j13 = as4.j13_expanded(a1, a0, beta0, bl)
            j23 = as4.j23_expanded(a1, a0, beta0, bl)
            j33 = as4.j33_expanded(a1, a0, beta0)
            if which == 0:
                return as4.j03_expanded(ei.j12(a1, a0, beta0), j13, j23, j33, bl)
            return (j13, j23, j33)[which - 1]

        return f

    return {
        "nlo_j13": lambda a1, a0: ei.j13_expanded(a1, a0, beta0, b[:2]),
        "nlo_j23": lambda a1, a0: ei.j23_expanded(a1, a0, beta0),
        "nnlo_j14": lambda a1, a0: ei.j14_expanded(a1, a0, beta0, b[:3]),
        "nnlo_j24": lambda a1, a0: ei.j24_expanded(a1, a0, beta0, b[:3]),
        "nnlo_j34": lambda a1, a0: ei.j34_expanded(a1, a0, beta0),
        "n3lo_j03": n3(0),
        "n3lo_j13": n3(1),
        "n3lo_j23": n3(2),
        "n3lo_j33": n3(3),
    }[name]


def _series(b, level, kmax):
    """Taylor coefficients c_k of 1/(1 + b1 a + ... + b_{level-1} a^{level-1})."""
    cs = [1.0]
    for k in range(1, kmax + 1):
        cs.append(-sum(b[j] * cs[k - j] for j in range(1, min(k, level - 1) + 1)))
    return cs


def _roots_ok(bl):
    from eko.kernels import as4_evolution_integrals as as4

    rs = [complex(r) for r in as4.roots(bl)]
    if not all(np.isfinite(r) for r in rs):
        return False
    return max(abs(1 + bl[0] * r + bl[1] * r**2 + bl[2] * r**3) for r in rs) < 1e-11


def _bs_for(cell, rng, level):
    """b's for an integral cell; random b's for the N3LO integrals are drawn where the
    closed-form roots are themselves accurate (the roots are judged by their own cells)."""
    for _ in range(200):
        beta0, b = _bs(cell, rng)
        if cell["bsrc"] != 0 or level < 4 or _roots_ok(b[1:4]):
            return beta0, b
    raise RuntimeError("no random b with accurate roots")


def _integrand(a, beta0, b, level, power):
    return a**power / (beta0 * a**2 * sum(b[k] * a**k for k in range(level)))


def measure(cell, seed, npts):
    clause = cell["clause"]
    worst = 0.0
    if cell["name"] == "roots":
        from eko.kernels import as4_evolution_integrals as as4

        witness = {}

        for k in range(npts):
            rng = c.rng_for(seed, LAW, cell, k)
            _, b = _bs(cell, rng)
            bl = b[1:4]
            rs = [complex(r) for r in as4.roots(bl)]
            if clause == "root":
                res = max(
                    abs(1 + bl[0] * r + bl[1] * r**2 + bl[2] * r**3)
                    / (1 + abs(bl[0] * r) + abs(bl[1] * r**2) + abs(bl[2] * r**3))
                    for r in rs
                )
            else:  # Vieta: the three values are THE three roots (sum, pair sum, product)
                s1 = rs[0] + rs[1] + rs[2]
                s2 = rs[0] * rs[1] + rs[0] * rs[2] + rs[1] * rs[2]
                s3 = rs[0] * rs[1] * rs[2]
                res = max(
                    abs(s1 + bl[1] / bl[2]) / abs(bl[1] / bl[2]),
                    abs(s2 - bl[0] / bl[2]) / abs(bl[0] / bl[2]),
                    abs(s3 + 1 / bl[2]) / abs(1 / bl[2]),
                )
            if c.worse(0.0, res) > worst:
                witness = {"b_list": [float(x) for x in bl], "roots": [str(r) for r in rs]}
            worst = c.worse(worst, res)
        return {"dec": c.decades(worst), "raw": worst, "resolved": True, "witness": witness}

    level, power = INTEGRALS[cell["name"]]
    if clause == "taylor":
        exps = []
        unresolved = 0
        for k in range(npts):
            rng = c.rng_for(seed, LAW, cell, k)
            beta0, b = _bs_for(cell, rng, level)
            fe = _exact(cell["name"], beta0, b)
            fx = _expanded(cell["name"], beta0, b)
            s, l = c.coupling_pair(rng, 0.0005, 0.002, 1.3, 3.0)
            a1, a0 = c.directed((s, l), cell["dir"])
            # leading and next neglected Taylor terms (from the harness' own b's): the exponent
            # is only meaningful where the leading one dominates
            cs = _series(b, level, level - power + 2)
            kk = level - power + 1
            lead = abs(cs[kk] * (a1**level - a0**level) / level)
            nxt = abs(cs[kk + 1] * (a1 ** (level + 1) - a0 ** (level + 1)) / (level + 1))
            if nxt > 0.1 * lead:
                unresolved += 1
                continue
            d = []
            for lam in (1.0, 0.5):
                ve = complex(fe(lam * a1, lam * a0))
                vx = complex(fx(lam * a1, lam * a0))
                noise = 1e-16 * (abs(math.log(a1 / a0)) / beta0)  # cancellation scale of the logs
                d.append((abs(ve - vx), noise))
            if not min(d[0][0], d[1][0]) >= 1e3 * d[0][1]:
                unresolved += 1
                continue
            # j ~ a^(power-1) at leading order; the neglected Taylor term is O(a^level) in
            # the normalisation where the integrand a^(power-2) counts as a^(power-1)
            exps.append(math.log2(d[0][0] / d[1][0]))
        if not exps:
            return {"resolved": False, "why": "no sampled point where the leading neglected Taylor term dominates the next one and the difference exceeds 1e3 x cancellation noise", "exp100": 0}
        e = min(exps)
        return {"exp100": c.exp100(e), "raw": e, "resolved": True, "n": len(exps), "dropped_points": unresolved}

    if clause == "trunc":
        # the expanded integral IS the integrated Taylor polynomial (coefficients from the harness' own
        # series of 1/(1 + b1 a + ...)), term by term: degree level - power, nothing beyond
        kmax = level - power
        for k in range(npts):
            rng = c.rng_for(seed, LAW, cell, k)
            beta0, b = _bs_for(cell, rng, level)
            fx = _expanded(cell["name"], beta0, b)
            s, l = c.coupling_pair(rng, 0.001, 0.1, 1.3, 20.0)
            a1, a0 = c.directed((s, l), cell["dir"])
            cs = _series(b, level, kmax)
            terms = []
            for q in range(kmax + 1):
                p = power - 2 + q
                terms.append(cs[q] * (math.log(a1 / a0) if p == -1 else (a1 ** (p + 1) - a0 ** (p + 1)) / (p + 1)) / beta0)
            res = abs(complex(fx(a1, a0)) - sum(terms)) / max(abs(t) for t in terms)
            worst = c.worse(worst, res)
        return {"dec": c.decades(worst), "raw": worst, "resolved": True}

    for k in range(npts):
        rng = c.rng_for(seed, LAW, cell, k)
        beta0, b = _bs_for(cell, rng, level)
        f = _exact(cell["name"], beta0, b)
        s, l = c.coupling_pair(rng, 0.001, 0.1, 1.3, 20.0)
        a1, a0 = c.directed((s, l), cell["dir"])
        if clause == "zero":
            # absolute, in units of the LO integral ln(a1/a0)/beta0 ~ 1/beta0
            res = abs(complex(f(a0, a0))) * beta0
        else:
            # differentiate where the closed form is not dominated by cancellation noise
            a1 = max(a1, 0.004 * power)
            h = (2e-3 if power == 1 else 5e-3) * a1
            de = c.d5(lambda x: complex(f(x, a0)), a1, h)
            rhs = _integrand(a1, beta0, b, level, power)
            res = abs(de - rhs) / abs(rhs)
        worst = c.worse(worst, res)
    return {"dec": c.decades(worst), "raw": worst, "resolved": True}


def diagnose_generic_roots(chk):
    """Diagnostic only (not part of the property): roots() outside the physical b's."""
    import warnings

    from eko.kernels import as4_evolution_integrals as as4

    with warnings.catch_warnings(), np.errstate(all="ignore"):
        warnings.simplefilter("ignore")
        rs = [complex(r) for r in as4.roots([1.0, 10.0, 1.0])]
        if not all(np.isfinite(r) for r in rs):
            chk.diag("DIAG roots([1,10,1]) is NaN: the Cardano branch of as4_evolution_integrals.roots "
                     "is only valid for 3*b1*b3 > b2^2 (true for nf 0..6); unphysical b's are outside C13")
        for nf in (1, 2):
            bv = c.beta_vec_indep(4, nf)
            bl = [x / bv[0] for x in bv[1:]]
            rs = [complex(r) for r in as4.roots(bl)]
            res = max(abs(1 + bl[0] * r + bl[1] * r**2 + bl[2] * r**3) for r in rs)
            if not res < 1e-10:
                chk.diag(f"DIAG roots for nf={nf}: residual {res}")
