"""C15 running couplings inside one fixed-flavour patch.

ref            : a(mu_ref^2) == a_ref bitwise (both components)
rge            : local law  da/du = -beta(a)  (u = ln mu^2) at the reference point by a 5-point
                 difference of Couplings.a on u = +-0.006, +-0.012, beta rebuilt from the independent
                 table (QCD beta_0..3, the a_s^2 a_em mixed term, QED beta_0,1 and mixed term, nl = 3);
                 with alpha_em fixed, a_em must stay bitwise constant
expanded-order : |a_expanded - a_exact| under a_ref -> a_ref/2 at fixed u (absolute exponent)
monotone       : a_s strictly decreasing along an increasing grid of scales (count of inversions)

rge-far        : the same local law around a target 1-4 units of ln mu^2 away from the reference (h = 0.02)
rge-tau-down/up: the same local law at a target on the other side of m_tau^2 from the reference
                 (running QED: two leptons below, three above), 5-point difference around the target
tau-cont-down/up: the couplings just below and just above m_tau^2 agree (reference on either side)

The matching scales are moved far away so that every scale lies in the reference patch; except in
the rge-tau clauses all scales stay above m_tau^2 (three leptons).
"""

import math

import numpy as np

from . import common as c

LAW = "C15"


def _couplings(order, qed, running, method, nf, alphas, alphaem, muref):
    from eko.couplings import Couplings
    from eko.quantities.couplings import CouplingEvolutionMethod, CouplingsInfo
    from eko.quantities.heavy_quarks import QuarkMassScheme

    info = CouplingsInfo.from_dict(dict(alphas=alphas, alphaem=alphaem, ref=(muref, nf), em_running=running))
    # thresholds: nf active flavours at every scale we use
    lo, hi = 1e-4, 1e12
    masses2 = [lo if nf >= 4 else hi, lo * 2 if nf >= 5 else hi * 2, lo * 3 if nf >= 6 else hi * 3]
    return Couplings(
        couplings=info,
        order=(order, qed),
        method=CouplingEvolutionMethod.EXACT if method == "exact" else CouplingEvolutionMethod.EXPANDED,
        masses=masses2,
        hqm_scheme=QuarkMassScheme.POLE,
        thresholds_ratios=[1.0, 1.0, 1.0],
    )


def _beta_indep(a, order, qed, running, nf, nl=3):
    """(da_s/du, da_em/du) from the independent table."""
    a_s, a_em = a
    bs = c.beta_vec_indep(order, nf)
    s = sum(b * a_s**k for k, b in enumerate(bs))
    if qed >= 1:
        s += c.beta_qcd_mix_indep(nf) * a_em
    ds = -(a_s**2) * s
    if not running:
        return ds, 0.0
    e = sum(c.beta_qed_indep(k, nf, nl) * a_em**k for k in range(qed))
    e += c.beta_qed_mix_indep(nf) * a_s
    return ds, -(a_em**2) * e


def _draw(rng):
    alphas = rng.uniform(0.08, 0.35)
    alphaem = rng.uniform(0.001, 0.01)
    muref = math.exp(rng.uniform(math.log(2.5), math.log(200.0)))
    return alphas, alphaem, muref


def measure(cell, seed, npts):
    clause, order, qed, running, method, nf = (cell[k] for k in ("clause", "order", "qed", "running", "method", "nf"))
    worst = 0.0
    exps = []
    for k in range(npts):
        rng = c.rng_for(seed, LAW, cell, k)
        alphas, alphaem, muref = _draw(rng)
        if clause == "ref":
            sc = _couplings(order, qed, running, method, nf, alphas, alphaem, muref)
            got = np.array(sc.a(muref**2, nf))
            res = float(np.max(np.abs(got - sc.a_ref) / sc.a_ref))
        elif clause == "monotone":
            sc = _couplings(order, qed, running, method, nf, alphas, alphaem, muref)
            us = np.linspace(-0.3, 6.0, 22)
            vals = [sc.a(muref**2 * math.exp(u), nf)[0] for u in us]
            inv = sum(1 for i in range(len(vals) - 1) if not vals[i + 1] < vals[i])
            res = float(inv)
        elif clause == "rge":
            sc = _couplings(order, qed, running, method, nf, alphas, alphaem, muref)
            h = 0.006  # FD truncation ~ h^4: 7e-11; the solver is far more accurate than its rtol over such a span

            def a_of(u):
                return np.array(sc.a(muref**2 * math.exp(u), nf), dtype=float)

            d = (-a_of(2 * h) + 8 * a_of(h) - 8 * a_of(-h) + a_of(-2 * h)) / (12 * h)
            ds, de = _beta_indep(sc.a_ref, order, qed, running, nf)
            res = abs(d[0] - ds) / abs(ds)
            if running:
                res = max(res, abs(d[1] - de) / abs(de))
            else:
                res = max(res, max(abs(a_of(u)[1] - sc.a_ref[1]) for u in (h, -h)) / sc.a_ref[1])
        elif clause == "rge-far":
            from eko import constants

            h = 0.02
            for _try in range(50):
                alphas, alphaem, muref = _draw(rng)
                u = rng.uniform(1.0, 4.0) * (1 if (alphas > 0.2 or rng.random() < 0.6) else -1)
                s_t = muref**2 * math.exp(u)
                if s_t * math.exp(-2 * h) < 1.1 * constants.MTAU**2:
                    continue
                sc = _couplings(order, qed, running, method, nf, alphas, alphaem, muref)

                def a_far(v):
                    return np.array(sc.a(s_t * math.exp(v), nf), dtype=float)

                lo = a_far(-2 * h)
                if np.all(np.isfinite(lo)) and 0.0 < lo[0] < 0.04:
                    break
            else:
                raise RuntimeError("no perturbative instance")
            d = (-a_far(2 * h) + 8 * a_far(h) - 8 * a_far(-h) + a_far(-2 * h)) / (12 * h)
            ds, de = _beta_indep(a_far(0.0), order, qed, running, nf)
            res = abs(d[0] - ds) / abs(ds)
            if running:
                res = max(res, abs(d[1] - de) / abs(de))
            else:
                res = max(res, abs(a_far(0.0)[1] - sc.a_ref[1]) / sc.a_ref[1])
        elif clause in ("rge-tau-down", "rge-tau-up"):
            from eko import constants

            mtau2 = constants.MTAU**2
            h = 0.02   # around a far target every stencil point is its own ODE solution: a wider stencil averages the solver noise
            for _try in range(50):
                if clause == "rge-tau-down":   # reference above the tau mass, target below: two leptons there
                    alphas = rng.uniform(0.08, 0.2)
                    muref = math.exp(rng.uniform(math.log(2.2), math.log(30.0)))
                    s_t, nl = mtau2 * math.exp(-rng.uniform(0.15, 0.6)), 2
                else:
                    alphas = rng.uniform(0.15, 0.3)
                    muref = math.sqrt(mtau2 * math.exp(-rng.uniform(0.1, 0.5)))
                    s_t, nl = mtau2 * math.exp(rng.uniform(0.3, 1.5)), 3
                sc = _couplings(order, qed, running, method, nf, alphas, alphaem, muref)

                def a_at(u):
                    return np.array(sc.a(s_t * math.exp(u), nf), dtype=float)

                lo = a_at(-2 * h)
                if np.all(np.isfinite(lo)) and 0.0 < lo[0] < 0.04:   # perturbative range (alpha_s < 0.5) on the whole stencil
                    break
            else:
                raise RuntimeError("no perturbative instance")
            d = (-a_at(2 * h) + 8 * a_at(h) - 8 * a_at(-h) + a_at(-2 * h)) / (12 * h)
            ds, de = _beta_indep(a_at(0.0), order, qed, running, nf, nl)
            res = max(abs(d[0] - ds) / abs(ds), abs(d[1] - de) / abs(de))
        elif clause in ("tau-cont-down", "tau-cont-up"):
            from eko import constants

            mtau2 = constants.MTAU**2
            delta = 1e-4   # the couplings move by ~ 2 delta beta0 a^2 < 1e-4 a over the stencil
            for _try in range(50):
                if clause == "tau-cont-down":
                    alphas = rng.uniform(0.08, 0.2)
                    muref = math.exp(rng.uniform(math.log(2.2), math.log(30.0)))
                else:
                    alphas = rng.uniform(0.15, 0.3)
                    muref = math.sqrt(mtau2 * math.exp(-rng.uniform(0.1, 0.5)))
                sc = _couplings(order, qed, running, method, nf, alphas, alphaem, muref)
                far = np.array(sc.a(mtau2 * math.exp(-0.3 if clause == "tau-cont-down" else 0.3), nf), dtype=float)
                if np.all(np.isfinite(far)) and 0.0 < far[0] < 0.04:
                    break
            else:
                raise RuntimeError("no perturbative instance")
            below = np.array(sc.a(mtau2 * math.exp(-delta), nf), dtype=float)
            above = np.array(sc.a(mtau2 * math.exp(delta), nf), dtype=float)
            res = float(np.max(np.abs(above - below) / np.abs(below)))
        else:  # expanded-order
            u = rng.uniform(0.7, 2.0) * (1 if rng.random() < 0.7 else -0.3)
            d = []
            for lam in (0.5, 0.25):
                ex = _couplings(order, qed, running, "exact", nf, lam * alphas, lam * alphaem, muref)
                xp = _couplings(order, qed, running, "expanded", nf, lam * alphas, lam * alphaem, muref)
                s2 = muref**2 * math.exp(u)
                ae, ax = np.array(ex.a(s2, nf)), np.array(xp.a(s2, nf))
                # absolute difference of a_s, in units of the reference a_s at lambda = 1
                d.append((abs(ae[0] - ax[0]), abs(ae[0] - ex.a_ref[0]), ex.a_ref[0]))
            if max(d[0][0], d[1][0]) <= 1e-15 * d[0][2]:
                exps.append(90.0)  # identical to rounding: nothing beyond any order
                continue
            # the exact branch is a numerical ODE solution (Radau, rtol 1e-6): differences below
            # 1e-5 of the evolved distance are not resolved
            if min(d[0][0] / d[0][1], d[1][0] / d[1][1]) < 1e-5:
                continue
            exps.append(math.log2(d[0][0] / d[1][0]))
            res = 0.0
        worst = c.worse(worst, res)
    if clause == "expanded-order":
        if not exps:
            return {"resolved": False, "exp100": 0, "why": "expanded-exact below the resolution of the numerical exact solution (1e-5 of the evolved distance)"}
        e = c.low_quartile(exps)
        return {"exp100": c.exp100(e), "raw_exp": e, "resolved": True, "n": len(exps)}
    return {"dec": c.decades(worst), "raw": worst, "resolved": True}
