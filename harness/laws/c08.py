"""C08 OrderAgreement: |E_method - E_exact| = O(a^n) when both couplings are scaled together.

Observation: log2( D(lambda/2) / D(lambda/4) ), kept only where it agrees within 0.15 with
log2( D(lambda) / D(lambda/2) ) (asymptotic regime), lower quartile over the points, at small couplings (10*a ~ 0.01..0.06 for towers
with |gamma_k| ~ 3*10^k), D relative to |E_exact|.
Non-singlet reference: the closed-form exact kernel (judged by C07).
Singlet reference, commuting towers (gamma_k = V diag V^-1 with a common V): V diag(exact
non-singlet kernel of the eigenvalue towers) V^-1, exact to rounding; a method that agrees
with it to 1e-12 agrees at every order (observation capped at 90).
Singlet reference, non-commuting towers: iterate-exact at N, 2N, 4N steps, Romberg-extrapolated (its error expansion
is even in 1/N, cf. C12); the reference error (difference of the two Richardson values) must be
>= 2 decades below both differences, otherwise the point is dropped; a cell without points is
'unresolved'.
"""

import math

import numpy as np

from . import common as c
from . import kern

LAW = "C08"
N_REF = 40


def _ref_singlet(order, G, a1, a0, nf):
    e = [kern.singlet(order, "iterate-exact", G, a1, a0, nf, N_REF * 2**k) for k in range(3)]
    r1 = (4 * e[1] - e[0]) / 3
    r2 = (4 * e[2] - e[1]) / 3
    ref = (16 * r2 - r1) / 15
    return ref, float(np.linalg.norm(r2 - r1))


def _commuting(rng, order):
    v = c.well_conditioned_basis(rng, 2)
    lam = np.array([c.separated_eigs(rng, 2, 3.0 * 10.0**k) for k in range(order)])  # (order, 2)
    G = np.array([v @ np.diag(lam[k]) @ np.linalg.inv(v) for k in range(order)], dtype=complex)
    return G, v, lam


def measure(cell, seed, npts):
    sec, m, order, nf = cell["sector"], cell["method"], cell["order"], cell["nf"]
    exps = []
    dropped = 0
    for k in range(npts):
        rng = c.rng_for(seed, LAW, cell, k)
        s, l = c.coupling_pair(rng, 0.002, 0.006, 1.5, 3.0)
        a1, a0 = c.directed((s, l), "fwd" if rng.random() < 0.5 else "bwd")
        d = []
        ok = True
        if sec == "ns":
            g = c.ns_tower(rng, order)
            for lam in (1.0, 0.5, 0.25):
                ex = kern.ns(order, "iterate-exact", g, lam * a1, lam * a0, nf)
                d.append(abs(kern.ns(order, m, g, lam * a1, lam * a0, nf) - ex) / abs(ex))
        else:
            if cell["comm"]:
                G, v, ev = _commuting(rng, order)
            else:
                G = c.singlet_tower(rng, order)
            for lam in (1.0, 0.5, 0.25):
                if cell["comm"]:
                    es = [kern.ns(order, "iterate-exact", ev[:, i], lam * a1, lam * a0, nf) for i in range(2)]
                    ref, err = v @ np.diag(es) @ np.linalg.inv(v), 0.0
                else:
                    ref, err = _ref_singlet(order, G, lam * a1, lam * a0, nf)
                # ev_op_max_order = order + 1: the smallest setting, truncation error O(a^(n+1))
                dd = float(np.linalg.norm(kern.singlet(order, m, G, lam * a1, lam * a0, nf, 1, order + 1) - ref))
                if not dd >= 100.0 * err:
                    ok = False
                d.append(dd / float(np.linalg.norm(ref)))
        if cell["comm"] and max(d) < 1e-12:
            exps.append(90.0)  # agrees to rounding with the closed form: vanishes at every order
            continue
        if not ok or not min(d) > 0:
            dropped += 1
            continue
        e1, e2 = math.log2(d[0] / d[1]), math.log2(d[1] / d[2])
        # asymptotic regime only: the local exponent must have settled between the two scales
        # (an accidentally small leading coefficient makes it drift towards n from below)
        if abs(e2 - e1) > 0.15:
            dropped += 1
            continue
        exps.append(e2)
    if not exps:
        return {"resolved": False, "exp100": 0, "why": "no point in the asymptotic regime with the difference 2 decades above the error of the extrapolated reference"}
    e = c.low_quartile(exps)
    return {"exp100": c.exp100(e), "raw_exp": e, "resolved": True, "n": len(exps), "dropped_points": dropped}
