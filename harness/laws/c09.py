"""C09 DiagReduction: with diagonal singlet towers every singlet method returns a diagonal
operator whose entries equal the non-singlet kernel of the counterpart method (derived in
Laws.tla: NsCounterpart) on each diagonal entry.

rounding   : truncated, ordered-truncated (-> NS truncated), decompose-*
convergent : iterate-* (-> NS exact; refine = iterations n -> 2n), perturbative-* (refine =
             ev_op_max_order K -> K+2): observation = log2(residual(coarse)/residual(fine)).
"""

import math

import numpy as np

from . import common as c
from . import kern

LAW = "C09"
N_ITER = 8
K_ORDER = 4


def _res(S, e):
    scale = max(abs(e[0]), abs(e[1]))
    return max(abs(S[0, 0] - e[0]) / abs(e[0]), abs(S[1, 1] - e[1]) / abs(e[1]),
               abs(S[0, 1]) / scale, abs(S[1, 0]) / scale)


def measure(cell, seed, npts, aux):
    m, order, nf = cell["method"], cell["order"], cell["nf"]
    cp, refine = aux["counterpart"], aux["refine"]
    worst = 0.0
    exps = []
    for k in range(npts):
        rng = c.rng_for(seed, LAW, cell, k)
        D = c.diagonal_tower(rng, order)
        # the U series converges like (a / |nearest zero of beta|)^K: keep a well inside
        hi = 0.02 if refine == "max-order" else 0.05
        a1, a0 = c.directed(c.coupling_pair(rng, 0.002, hi), cell["dir"])
        e = [kern.ns(order, cp, D[:, i, i], a1, a0, nf) for i in range(2)]
        if refine == "none":
            worst = c.worse(worst, _res(kern.singlet(order, m, D, a1, a0, nf), e))
        elif refine == "iterations":
            d1 = _res(kern.singlet(order, m, D, a1, a0, nf, N_ITER), e)
            d2 = _res(kern.singlet(order, m, D, a1, a0, nf, 2 * N_ITER), e)
            worst = c.worse(worst, d2)
            exps.append(math.log2(d1 / d2) if d1 > 0 and d2 > 0 else float("nan"))
        else:
            d1 = _res(kern.singlet(order, m, D, a1, a0, nf, 1, order + K_ORDER - 2), e)
            d2 = _res(kern.singlet(order, m, D, a1, a0, nf, 1, order + K_ORDER), e)
            worst = c.worse(worst, d2)
            exps.append(math.log2(d1 / d2) if d1 > 0 and d2 > 0 else float("nan"))
    out = {"dec": c.decades(worst), "raw": worst, "resolved": True}
    if exps:
        e = min(exps) if all(math.isfinite(x) for x in exps) else float("nan")
        out["exp100"] = c.exp100(e)
        out["raw_exp"] = e
    return out


measure.wants_aux = True
