"""C23 Spectral: eigen-projectors and exponentials returned by exp_matrix_2D / exp_matrix.

P_i P_j = delta_ij P_i, sum P_i = 1, M = sum lambda_i P_i, exp(M) = sum e^{lambda_i} P_i (by the
spectral theorem this IS the exponential once the first three hold), plus a comparison with an
independent Pade exponential (scipy.linalg.expm).  Random complex matrices
M = V diag(lambda) V^-1 with cond(V) <= 8, |lambda| <= norm, eigenvalues separated by 0.25 norm
(shape generic), and structured ones with the same spectral guarantees: all diagonal entries
equal, upper triangular, real, one index decoupled.
"""

import numpy as np

from . import common as c

LAW = "C23"


def _call(impl, m):
    from ekore import anomalous_dimensions as ad

    if impl == "2D":
        ex, lp, lm, ep, em = ad.exp_matrix_2D(m)
        return np.array(ex), np.array([lp, lm]), np.array([ep, em])
    ex, w, e = ad.exp_matrix(m)
    return np.array(ex), np.array(w), np.array(e)


def _matrix(rng, dim, norm, shape):
    """matrix and its eigenvalues; diagonalisable, eigenvalues separated by 0.25 norm, eigenbasis cond <= 8."""
    if shape == "generic":
        v = c.well_conditioned_basis(rng, dim)
        lam = c.separated_eigs(rng, dim, norm)
        return v @ np.diag(lam) @ np.linalg.inv(v), lam
    for _ in range(20000):
        m = c.random_matrix(rng, dim, 0.15, 1.0) * norm / dim
        if shape == "eqdiag":
            m[np.arange(dim), np.arange(dim)] = m[0, 0]
        elif shape == "triangular":
            m = np.triu(m)
            m[np.arange(dim), np.arange(dim)] = c.separated_eigs(rng, dim, norm)
        elif shape == "real":
            m = (m.real * (1 if rng.random() < 0.5 else -1)).astype(complex)
            if dim == 2 and m[0, 1] * m[1, 0] < 0:   # keep the spectrum separated and well conditioned
                m[0, 1] = -m[0, 1]
        elif shape == "decoupled":
            j = int(rng.integers(0, dim))
            d = m[j, j]
            m[j, :] = 0.0
            m[:, j] = 0.0
            m[j, j] = d
        lam, vec = np.linalg.eig(m)
        sep = min(abs(lam[i] - lam[k]) for i in range(dim) for k in range(i))
        if sep >= 0.25 * norm and max(abs(lam)) <= 1.5 * norm and np.linalg.cond(vec) <= 8.0:
            return m, lam
    raise RuntimeError(f"no {shape} matrix")


def measure(cell, seed, npts):
    import scipy.linalg

    dim = 4 if cell["impl"] == "gen4" else 2
    norm = float(cell["norm"])
    worst = 0.0
    for k in range(npts):
        rng = c.rng_for(seed, LAW, cell, k)
        m, lam = _matrix(rng, dim, norm, cell.get("shape", "generic"))
        ex, w, P = _call(cell["impl"], m)
        nm = np.linalg.norm(m)
        cl = cell["clause"]
        if cl == "proj":
            res = 0.0
            for i in range(dim):
                for j in range(dim):
                    tgt = P[i] if i == j else np.zeros((dim, dim))
                    res = max(res, np.linalg.norm(P[i] @ P[j] - tgt) / max(1.0, np.linalg.norm(P[i]) * np.linalg.norm(P[j])))
        elif cl == "complete":
            res = np.linalg.norm(P.sum(axis=0) - np.eye(dim))
        elif cl == "recon":
            res = np.linalg.norm(sum(w[i] * P[i] for i in range(dim)) - m) / nm
            # the returned values are the eigenvalues of M
            res = max(res, max(min(abs(w[i] - l) for l in lam) for i in range(dim)) / norm)
        elif cl == "exp":
            ref = sum(np.exp(w[i]) * P[i] for i in range(dim))
            res = np.linalg.norm(ex - ref) / np.linalg.norm(ref)
        else:  # expm
            ref = scipy.linalg.expm(m)
            res = np.linalg.norm(ex - ref) / np.linalg.norm(ref)
        worst = c.worse(worst, res)
    return {"dec": c.decades(worst), "raw": worst, "resolved": True}
