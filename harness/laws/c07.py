"""C07 OdeLocal: the exact non-singlet kernels solve dE/da1 = gamma(a1)/beta(a1) E, E(a0->a0)=1.

Sign convention (fixed once from the LO closed form E = (a1/a0)^(gamma0/beta0), i.e.
dlnE/da1 = gamma0/(beta0 a1)): gamma(a) = sum gamma_k a^(k+1), beta(a) = sum beta_k a^(k+2)
with the positive literature coefficients of harness.laws.common (NOT eko.beta).

QED fixed-alpha_em variant: E(a1, mu2_to) with the shifted beta_0 -> beta_0 + a_em beta_(2,1),
gamma_k(a_em) = sum_j gamma[k, j] a_em^j (k >= 1) and the pure-QED factor
exp(-gamma_qed(a_em) ln(mu2_to/mu2_from)), gamma_qed = sum_j gamma[0, j] a_em^j; two local laws
(in a1 at fixed scales, in ln mu2_to at fixed couplings) and the initial condition.
"""

import numpy as np

from . import common as c

LAW = "C07"


def _kernel_qcd(cell):
    from eko.kernels import non_singlet as ns

    m = c.method(cell["method"])
    order = (cell["order"], 0)
    nf = cell["nf"]

    def f(g, a1, a0):
        return complex(ns.dispatcher(order, m, g, a1, a0, nf))

    return f


def _points(cell, seed, npts):
    for k in range(npts):
        rng = c.rng_for(seed, LAW, cell, k)
        pair = c.coupling_pair(rng)
        a1, a0 = c.directed(pair, cell["dir"])
        yield rng, a1, a0


def measure(cell, seed, npts):
    worst = 0.0
    order, nf = cell["order"], cell["nf"]
    bvec = c.beta_vec_indep(order, nf)
    if cell["variant"] == "qcd":
        f = _kernel_qcd(cell)
        for rng, a1, a0 in _points(cell, seed, npts):
            g = c.ns_tower(rng, order)
            if cell["clause"] == "init":
                res = abs(f(g, a0, a0) - 1.0)
            else:
                h = 2e-3 * a1
                e = f(g, a1, a0)
                de = c.d5(lambda x: f(g, x, a0), a1, h)
                rhs = c.gamma_of_a(a1, g) / c.beta_of_a(a1, bvec)
                res = abs(de / e - rhs) / abs(rhs)
            worst = c.worse(worst, res)
        return {"dec": c.decades(worst), "raw": worst, "resolved": True}

    # QED, alpha_em fixed during the step
    from eko.kernels import non_singlet_qed as nsq

    oq = 1 if cell["variant"] == "qed1" else 2
    ordr = (order, oq)
    mix = c.beta_qcd_mix_indep(nf)
    for rng, a1, a0 in _points(cell, seed, npts):
        g = np.array(
            [[c.cplx(rng, 0.3, 1.0) * 3.0 * 10.0 ** max(i - 1, 0) * 3.0**j for j in range(oq + 1)]
             for i in range(order + 1)],
            dtype=complex,
        )
        aem = rng.uniform(0.0005, 0.003)
        mu2f = np.exp(rng.uniform(np.log(2.0), np.log(1e4)))
        mu2t = mu2f * np.exp(rng.uniform(0.3, 3.0) * (1 if cell["dir"] == "fwd" else -1))

        def f(x1, x0, mt, mf=mu2f):
            return complex(nsq.fixed_alphaem_exact(ordr, g, x1, x0, aem, nf, mf, mt))

        bq = list(bvec)
        bq[0] = bq[0] + aem * mix
        gq = [sum(g[k, j] * aem**j for j in range(oq + 1)) for k in range(1, order + 1)]
        gpure = sum(g[0, j] * aem**j for j in range(oq + 1))
        if cell["clause"] == "init":
            res = abs(f(a0, a0, mu2f) - 1.0)
        elif cell["clause"] == "ode":
            h = 2e-3 * a1
            e = f(a1, a0, mu2t)
            de = c.d5(lambda x: f(x, a0, mu2t), a1, h)
            rhs = c.gamma_of_a(a1, gq) / c.beta_of_a(a1, bq)
            res = abs(de / e - rhs) / abs(rhs)
        elif cell["clause"] == "steps":
            # through the dispatcher, alpha_em "running" but equal on every step: the product over the steps
            # (couplings and scales cut geometrically) is the one-step solution between the end points
            from harness.laws import kern

            iters = 2 + (int(rng.random() * 4))
            as_list, a_half = kern.steps(a0, a1, iters, aem)
            got = kern.ns_qed(order, oq, g, as_list, a_half[:, 1], nf, iters, mu2f, mu2t, running=True)
            one = f(a1, a0, mu2t)
            res = abs(got - one) / abs(one)
        else:  # "scale": d ln E / d ln mu2_to = -gamma_qed(a_em)
            lt = np.log(mu2t)
            e = f(a1, a0, mu2t)
            de = c.d5(lambda x: f(a1, a0, np.exp(x)), lt, 2e-3)
            res = abs(de / e + gpure) / abs(gpure)
        worst = c.worse(worst, res)
    return {"dec": c.decades(worst), "raw": worst, "resolved": True}
