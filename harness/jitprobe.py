"""Probe for C48: evaluate the numba-decorated functions of the evolution path on a fixed list of
inputs and dump the values.  The same script runs twice per group, once with the JIT enabled
(NUMBA_DISABLE_JIT=0, fresh NUMBA_CACHE_DIR) and once interpreted (NUMBA_DISABLE_JIT=1); the check
compares the two dumps cell by cell.

usage: python -m harness.jitprobe <group> <out.json>      (EKO_SRC selects the sources)
"""
import json
import os
import sys
import time

import numpy as np

NS = (2.3 + 0.7j, 1.5 - 2.0j, 4.0 + 0.0j)
N3LO = (0, 0, 0, 0, 0, 0, 0)


def _flat(v):
    a = np.atleast_1d(np.asarray(v, dtype=complex)).ravel()
    return [[float(x.real), float(x.imag)] for x in a]


class Rec:
    def __init__(self):
        self.cells = {}

    def run(self, name, fn):
        t0 = time.time()
        try:
            self.cells[name] = {"val": _flat(fn()), "err": "", "t": round(time.time() - t0, 2)}
        except Exception as ex:  # noqa: BLE001 - the exception class is the observation
            self.cells[name] = {"val": [], "err": type(ex).__name__ + ": " + str(ex).splitlines()[0][:200] if str(ex) else type(ex).__name__,
                                "t": round(time.time() - t0, 2)}


def _tower(rng, n, dim):
    if dim == 0:
        return np.array([complex(rng.normal(), rng.normal()) * 3.0 * 8.0**k for k in range(n)])
    return np.array([(rng.normal(size=(dim, dim)) + 1j * rng.normal(size=(dim, dim))) * 3.0 * 8.0**k for k in range(n)])


def g_harmonics(r):
    from ekore.harmonics import cache as c

    nkeys = int(c.CACHE_SIZE)
    for sing in (True, False):
        for order, keys in (("fwd", range(nkeys)), ("rev", range(nkeys - 1, -1, -1))):
            def f(keys=keys, sing=sing):
                out = []
                for n in NS:
                    ca = c.reset()
                    out.append([c.get(k, ca, n, sing) for k in keys])
                return np.array(out)
            r.run(f"cache.get all keys {order} singlet={sing}", f)


def g_ad_us(r):
    import ekore.anomalous_dimensions.unpolarized.space_like as ad

    for o in (1, 2, 3, 4):
        for fh in (True, False):
            if o < 4 and not fh:
                continue
            for nf in (3, 5):
                for mode in (10101, 10201, 10200):
                    r.run(f"gamma_ns order={o} mode={mode} nf={nf} fhmruvv={fh}",
                          lambda o=o, mode=mode, nf=nf, fh=fh: np.array([ad.gamma_ns((o, 0), mode, n, nf, N3LO, fh) for n in NS]))
                r.run(f"gamma_singlet order={o} nf={nf} fhmruvv={fh}",
                      lambda o=o, nf=nf, fh=fh: np.array([ad.gamma_singlet((o, 0), n, nf, N3LO, fh) for n in NS]))


def g_ad_qed(r):
    import ekore.anomalous_dimensions.unpolarized.space_like as ad

    for o, q in ((1, 1), (2, 1), (3, 2), (4, 2)):
        for nf in (3, 4):
            for mode in (10102, 10103, 10202, 10203):
                r.run(f"gamma_ns_qed order=({o},{q}) mode={mode} nf={nf}",
                      lambda o=o, q=q, mode=mode, nf=nf: np.array([ad.gamma_ns_qed((o, q), mode, n, nf, N3LO, True) for n in NS]))
            r.run(f"gamma_singlet_qed order=({o},{q}) nf={nf}",
                  lambda o=o, q=q, nf=nf: np.array([ad.gamma_singlet_qed((o, q), n, nf, N3LO, True) for n in NS]))
            r.run(f"gamma_valence_qed order=({o},{q}) nf={nf}",
                  lambda o=o, q=q, nf=nf: np.array([ad.gamma_valence_qed((o, q), n, nf, N3LO, True) for n in NS]))


def g_ad_ps_ut(r):
    import ekore.anomalous_dimensions.polarized.space_like as ps
    import ekore.anomalous_dimensions.unpolarized.time_like as ut

    for name, ad in (("polarized", ps), ("time-like", ut)):
        for o in (1, 2, 3):
            for nf in (3, 5):
                for mode in (10101, 10201, 10200):
                    r.run(f"{name} gamma_ns order={o} mode={mode} nf={nf}",
                          lambda ad=ad, o=o, mode=mode, nf=nf: np.array([ad.gamma_ns((o, 0), mode, n, nf) for n in NS]))
                r.run(f"{name} gamma_singlet order={o} nf={nf}",
                      lambda ad=ad, o=o, nf=nf: np.array([ad.gamma_singlet((o, 0), n, nf) for n in NS]))


def g_ome(r):
    import ekore.operator_matrix_elements.polarized.space_like as ps
    import ekore.operator_matrix_elements.unpolarized.space_like as us
    import ekore.operator_matrix_elements.unpolarized.time_like as ut

    for k in (1, 2, 3):
        for nf in (3, 4):
            for L in (0.0, 0.7):
                for msbar in (False, True):
                    r.run(f"A_singlet order={k} nf={nf} L={L} msbar={msbar}",
                          lambda k=k, nf=nf, L=L, msbar=msbar: np.array([us.A_singlet((k, 0), n, nf, L, msbar) for n in NS]))
                r.run(f"A_non_singlet order={k} nf={nf} L={L}",
                      lambda k=k, nf=nf, L=L: np.array([us.A_non_singlet((k, 0), n, nf, L) for n in NS]))
    for k in (1, 2):
        for L in (0.0, 0.7):
            r.run(f"polarized A_singlet order={k} L={L}", lambda k=k, L=L: np.array([ps.A_singlet((k, 0), n, 4, L) for n in NS]))
            r.run(f"polarized A_non_singlet order={k} L={L}", lambda k=k, L=L: np.array([ps.A_non_singlet((k, 0), n, L) for n in NS]))
    for L in (0.0, 0.7):
        r.run(f"time-like A_singlet order=1 L={L}", lambda L=L: np.array([ut.A_singlet((1, 0), n, L) for n in NS]))
        r.run(f"time-like A_non_singlet order=1 L={L}", lambda L=L: np.array([ut.A_non_singlet((1, 0), n, L) for n in NS]))


def _module_functions(r, modnames, prefixes):
    """Every function defined in the module whose name starts with one of the prefixes and whose
    parameters are among (n, N, nf, cache, L, is_msbar): called by parameter NAME (the modules do not agree
    on the order), once per Mellin moment with a fresh harmonics cache."""
    import importlib
    import inspect

    from ekore.harmonics import cache as hc

    for mn in modnames:
        mod = importlib.import_module(mn)
        for name in sorted(dir(mod)):
            f = getattr(mod, name)
            py = getattr(f, "py_func", f)
            if not inspect.isfunction(py) or py.__module__ != mn or not name.startswith(prefixes):
                continue
            params = list(inspect.signature(py).parameters)
            if not set(params) <= {"n", "N", "nf", "cache", "L", "is_msbar"}:
                continue
            for nf in (3, 4):
                for L in ((0.0, 0.7) if "L" in params else (0.0,)):
                    def call(f=f, params=params, nf=nf, L=L):
                        out = []
                        for n in NS:
                            vals = {"n": n, "N": n, "nf": nf, "cache": hc.reset(), "L": L, "is_msbar": False}
                            out.append(np.asarray(f(*[vals[p] for p in params]), dtype=complex).ravel())
                        return np.concatenate(out) if out else np.zeros(1)
                    r.run(f"{mn.replace('ekore.', '')}.{name} nf={nf} L={L}", call)
                if "nf" not in params:
                    break


AD = "ekore.anomalous_dimensions."
OME = "ekore.operator_matrix_elements."


def g_ad_low(r):
    mods = [AD + "unpolarized.space_like." + m for m in ("as1", "as2", "as3", "aem1", "as1aem1", "aem2")]
    mods += [AD + "polarized.space_like." + m for m in ("as1", "as2", "as3")]
    mods += [AD + "unpolarized.time_like." + m for m in ("as1", "as2", "as3")]
    _module_functions(r, mods, ("gamma_",))


def g_ome_low(r):
    mods = [OME + "unpolarized.space_like." + m for m in ("as1", "as2")]
    mods += [OME + "polarized.space_like." + m for m in ("as1", "as2")] + [OME + "unpolarized.time_like.as1"]
    _module_functions(r, mods, ("A_",))


def g_kernels(r):
    from harness.laws import common as c
    from harness.laws import kern

    rng = np.random.default_rng(48)
    for o in (1, 2, 3, 4):
        g0, g2 = _tower(rng, o, 0), _tower(rng, o, 2)
        for m in c.METHODS:
            for nf in (4, 6):
                r.run(f"ns.dispatcher order={o} {m} nf={nf}", lambda o=o, m=m, nf=nf, g0=g0: kern.ns(o, m, g0, 0.021, 0.034, nf))
                r.run(f"singlet.dispatcher order={o} {m} nf={nf}",
                      lambda o=o, m=m, nf=nf, g2=g2: kern.singlet(o, m, g2, 0.021, 0.034, nf, 3, 5))
    for o, q in ((1, 1), (2, 1), (3, 2), (4, 1)):
        for nf in (3, 4):
            as_list, a_half = kern.steps(0.034, 0.021, 3, lambda a: 0.0006 * (1.0 + 9.0 * a))
            g4, g2v, g1 = kern.qed_grid(rng, o, q, 4), kern.qed_grid(rng, o, q, 2), kern.qed_grid(rng, o, q, 0)
            r.run(f"singlet_qed.dispatcher order=({o},{q}) nf={nf}",
                  lambda o=o, q=q, nf=nf, g4=g4, as_list=as_list, a_half=a_half: kern.singlet_qed(o, q, g4, as_list, a_half, nf, 3))
            r.run(f"valence_qed.dispatcher order=({o},{q}) nf={nf}",
                  lambda o=o, q=q, nf=nf, g2v=g2v, as_list=as_list, a_half=a_half: kern.valence_qed(o, q, g2v, as_list, a_half, nf, 3))
            for running in (False, True):
                r.run(f"non_singlet_qed.dispatcher order=({o},{q}) nf={nf} running={running}",
                      lambda o=o, q=q, nf=nf, g1=g1, as_list=as_list, a_half=a_half, running=running:
                      kern.ns_qed(o, q, g1, as_list, a_half[:, 1], nf, 3, 4.0, 30.0, running))


def g_misc(r):
    from eko import beta, gamma, interpolation, mellin
    from eko.scale_variations import expanded as xe
    from eko.scale_variations import exponentiated as xo
    import ekore.anomalous_dimensions as ad
    import eko.couplings as cp

    rng = np.random.default_rng(481)
    # scale variations
    for o in (1, 2, 3, 4):
        g0, g2, g4 = _tower(rng, o, 0), _tower(rng, o, 2), _tower(rng, o, 4)
        for L in (0.0, 0.7, -1.1):
            r.run(f"sv.expanded non_singlet order={o} L={L}", lambda o=o, L=L, g0=g0: xe.non_singlet_variation(g0.copy(), 0.02, (o, 0), 4, L))
            r.run(f"sv.expanded singlet order={o} L={L}", lambda o=o, L=L, g2=g2: xe.singlet_variation(g2.copy(), 0.02, (o, 0), 4, L, 2))
            r.run(f"sv.expanded singlet dim4 order={o} L={L}", lambda o=o, L=L, g4=g4: xe.singlet_variation(g4.copy(), 0.02, (o, 0), 4, L, 4))
            r.run(f"sv.exponentiated gamma_variation ns order={o} L={L}", lambda o=o, L=L, g0=g0: xo.gamma_variation(g0.copy(), (o, 0), 4, L))
            r.run(f"sv.exponentiated gamma_variation singlet order={o} L={L}", lambda o=o, L=L, g2=g2: xo.gamma_variation(g2.copy(), (o, 0), 4, L))
    for o, q in ((1, 1), (2, 2), (4, 2)):
        shape0 = np.array([[complex(rng.normal(), rng.normal()) for _ in range(q + 1)] for _ in range(o + 1)])
        shape4 = np.array([[rng.normal(size=(4, 4)) + 1j * rng.normal(size=(4, 4)) for _ in range(q + 1)] for _ in range(o + 1)])
        shape2 = np.array([[rng.normal(size=(2, 2)) + 1j * rng.normal(size=(2, 2)) for _ in range(q + 1)] for _ in range(o + 1)])
        for running in (False, True):
            r.run(f"sv.expanded ns qed order=({o},{q}) running={running}",
                  lambda o=o, q=q, running=running, shape0=shape0: xe.non_singlet_variation_qed(shape0.copy(), 0.02, 0.0006, running, (o, q), 4, 0.7))
            r.run(f"sv.expanded singlet qed order=({o},{q}) running={running}",
                  lambda o=o, q=q, running=running, shape4=shape4: xe.singlet_variation_qed(shape4.copy(), 0.02, 0.0006, running, (o, q), 4, 0.7))
            r.run(f"sv.expanded valence qed order=({o},{q}) running={running}",
                  lambda o=o, q=q, running=running, shape2=shape2: xe.valence_variation_qed(shape2.copy(), 0.02, 0.0006, running, (o, q), 4, 0.7))
            r.run(f"sv.exponentiated qed order=({o},{q}) running={running}",
                  lambda o=o, q=q, running=running, shape0=shape0: xo.gamma_variation_qed(shape0.copy(), (o, q), 4, 3, 0.7, running))
    # beta / gamma coefficients
    for nf in (3, 4, 5, 6):
        r.run(f"beta_qcd nf={nf}", lambda nf=nf: np.array([beta.beta_qcd((k, 0), nf) for k in (2, 3, 4, 5)] + [beta.beta_qcd((2, 1), nf)]))
        r.run(f"beta_qed nf={nf}", lambda nf=nf: np.array([beta.beta_qed((0, 2), nf, 3), beta.beta_qed((0, 3), nf, 3), beta.beta_qed((1, 2), nf, 3)]))
        r.run(f"b_qcd nf={nf}", lambda nf=nf: np.array([beta.b_qcd((k, 0), nf) for k in (3, 4, 5)]))
        r.run(f"gamma (mass) nf={nf}", lambda nf=nf: np.array([gamma.gamma(k, nf) for k in (1, 2, 3, 4)]))
    # expanded coupling solutions
    for o in (1, 2, 3, 4):
        r.run(f"couplings_expanded_fixed_alphaem order={o}",
              lambda o=o: cp.couplings_expanded_fixed_alphaem((o, 0), np.array([0.02, 0.0006]), 4, 10.0, 300.0))
        for q in (1, 2):
            for dec in (False, True):
                r.run(f"couplings_expanded_alphaem_running order=({o},{q}) decoupled={dec}",
                      lambda o=o, q=q, dec=dec: cp.couplings_expanded_alphaem_running((o, q), np.array([0.02, 0.0006]), 4, 3, 10.0, 300.0, dec))
    # matrix exponentials
    m2 = rng.normal(size=(2, 2)) + 1j * rng.normal(size=(2, 2))
    m4 = rng.normal(size=(4, 4)) + 1j * rng.normal(size=(4, 4))
    r.run("exp_matrix_2D", lambda: np.concatenate([np.asarray(x, dtype=complex).ravel() for x in ad.exp_matrix_2D(m2)]))
    r.run("exp_matrix 2x2", lambda: np.asarray(ad.exp_matrix(m2)[0]))
    r.run("exp_matrix 4x4", lambda: np.asarray(ad.exp_matrix(m4)[0]))
    # Mellin path
    for sing in (True, False):
        def path(sing=sing):
            out = []
            for t in (0.55, 0.7, 0.93):
                for logx in (-20.0, -15.0, -7.0, -2.0, -0.1):     # down to x = 2e-9
                    p = mellin.Path(t, logx, sing)
                    out += [p.n, p.jac, p.prefactor]
            return np.array(out)
        r.run(f"mellin.Path singlet={sing}", path)
    # interpolation in x and N space
    for log in (True, False):
        for deg in (1, 3):
            xg = interpolation.XGrid([1e-3, 1e-2, 0.1, 0.3, 0.6, 1.0], log=log)
            disp = interpolation.InterpolatorDispatcher(xg, deg, mode_N=False)
            r.run(f"interpolation x-space log={log} deg={deg}",
                  lambda disp=disp: np.array([[bf.evaluate_x(x) for bf in disp] for x in (1e-3, 5e-3, 0.2, 0.6, 1.0)]))
            dn = interpolation.InterpolatorDispatcher(xg, deg, mode_N=True)

            def nsp(dn=dn, log=log):
                out = []
                for bf in dn:
                    for n in NS:
                        for lx in (-5.0, -1.0):
                            fn = interpolation.log_evaluate_Nx if log else interpolation.evaluate_Nx
                            out.append(fn(n, lx, bf.areas_representation))
                            out.append(interpolation.evaluate_grid(n, log, lx, bf.areas_representation))
                return np.array(out)
            r.run(f"interpolation N-space log={log} deg={deg}", nsp)


def g_solve(r):
    """The whole evolution path through the real solver (fixed-node quadrature shim), thorough tier."""
    import random

    from harness.drivers import dispatch

    rng = random.Random(48)
    dom = [c for c in dispatch.domain() if not (c["qed"] and c["method"] != "iterate-exact")]
    picks = rng.sample(dom, 90)
    for k, cfg in enumerate(picks):
        tag = " ".join(f"{a}={cfg[a]}" for a in ("qcd", "qed", "method", "sv", "pol", "tl", "shape", "inv", "emrun", "top"))

        def f(cfg=cfg, k=k):
            o = dispatch.solve(cfg, seed=k)
            if o["kind"] != "finite":
                return np.array([hash(o["kind"]) % 1000])     # refused the same way in both modes
            return np.concatenate([np.asarray(v).ravel() for _, v in sorted(o["arrays"].items())])
        r.run(f"solve {tag}", f)


GROUPS = {"harmonics": g_harmonics, "ad-low": g_ad_low, "ome-low": g_ome_low, "ad-us": g_ad_us, "ad-qed": g_ad_qed, "ad-ps-ut": g_ad_ps_ut, "ome": g_ome,
          "kernels": g_kernels, "misc": g_misc, "solve": g_solve}


def main():
    group, out = sys.argv[1], sys.argv[2]
    src = os.environ.get("EKO_SRC", "/repo/src")
    sys.path.insert(0, src)
    sys.path.insert(0, str(__import__("pathlib").Path(__file__).resolve().parent.parent))
    import numba

    r = Rec()
    t0 = time.time()
    GROUPS[group](r)
    json.dump({"group": group, "jit": not bool(numba.config.DISABLE_JIT), "wall": round(time.time() - t0, 1), "cells": r.cells},
              open(out, "w"))


if __name__ == "__main__":
    import warnings

    warnings.filterwarnings("ignore")
    main()
