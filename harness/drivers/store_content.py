"""Content-level round-trip experiments on real EKO archives (C36)."""
import copy
import dataclasses
import pathlib
import random
import shutil
import tempfile

import numpy as np


def deep_eq(a, b):
    """Field-wise equality with the library's own notion for leaves (== / array_equal)."""
    if dataclasses.is_dataclass(a) and dataclasses.is_dataclass(b) and type(a) is type(b):
        return all(deep_eq(getattr(a, f.name), getattr(b, f.name)) for f in dataclasses.fields(a) if not f.name.startswith("_"))
    if isinstance(a, np.ndarray) or isinstance(b, np.ndarray):
        return np.array_equal(np.asarray(a), np.asarray(b), equal_nan=True)
    if isinstance(a, (list, tuple)) and isinstance(b, (list, tuple)):
        return len(a) == len(b) and all(deep_eq(x, y) for x, y in zip(a, b))
    if isinstance(a, float) and isinstance(b, float) and a != a and b != b:
        return True
    try:
        return bool(a == b)
    except Exception:  # noqa: BLE001
        return False


def bits_eq(x, y):
    if x is None or y is None:
        return x is None and y is None
    return x.shape == y.shape and x.dtype == y.dtype and x.tobytes() == y.tobytes()


def random_cards(rng):
    from ekobox.cards import example
    from eko.io import runcards

    th = example.raw_theory()
    th = copy.deepcopy(th)
    th["order"] = [rng.choice([1, 2, 3, 4]), rng.choice([0, 0, 1, 2])]
    th["couplings"]["alphas"] = rng.uniform(0.1, 0.4)
    th["couplings"]["ref"] = (rng.uniform(2, 100), rng.choice([3, 4, 5]))
    th["heavy"]["masses_scheme"] = rng.choice(["POLE", "MSBAR"])
    th["heavy"]["matching_ratios"] = [rng.uniform(0.5, 2.0) for _ in range(3)]
    th["xif"] = rng.choice([1.0, 0.5, 2.0, rng.uniform(0.5, 2)])
    th["n3lo_ad_variation"] = tuple(rng.randrange(0, 3) for _ in range(7))
    th["use_fhmruvv"] = rng.random() < 0.5
    th["matching_order"] = [max(th["order"][0] - 1, 0), 0]
    op = copy.deepcopy(example.raw_operator())
    n = rng.randrange(2, 9)
    xg = sorted({float(f"{x:.6g}") for x in np.geomspace(10 ** rng.uniform(-8, -1), 1.0, n)})
    xg[-1] = 1.0
    op["xgrid"] = xg
    op["init"] = (rng.uniform(1, 5), rng.choice([3, 4, 5]))
    op["mugrid"] = [(rng.uniform(2, 200), rng.choice([3, 4, 5, 6])) for _ in range(rng.randrange(1, 4))]
    c = op["configs"]
    c["evolution_method"] = rng.choice(["iterate-exact", "truncated", "decompose-exact", "perturbative-expanded", "ordered-truncated", "iterate-expanded"])
    c["ev_op_iterations"] = rng.randrange(1, 30)
    c["interpolation_polynomial_degree"] = rng.randrange(1, min(5, len(xg)))
    c["scvar_method"] = rng.choice([None, "exponentiated", "expanded"])
    c["inversion_method"] = rng.choice([None, "exact", "expanded"])
    c["polarized"] = rng.random() < 0.3
    c["time_like"] = rng.random() < 0.3
    c["interpolation_is_log"] = rng.random() < 0.7     # the grid follows the declared mode: log flag on or off
    return runcards.TheoryCard.from_dict(th), runcards.OperatorCard.from_dict(op), len(xg)


def random_op(nrng, nx, with_err):
    from eko.io.items import Operator

    shape = (14, nx, 14, nx) if nrng.random() < 0.5 else (nrng.integers(1, 4),) * 1 + (nx,) + (nrng.integers(1, 4),) + (nx,)
    shape = tuple(int(s) for s in shape)
    # loading requires squared operators
    shape = (shape[0], shape[1], shape[0], shape[1])
    arr = nrng.normal(size=shape) * 10.0 ** nrng.integers(-300, 300)
    flat = arr.reshape(-1)
    for val in (-0.0, 0.0, np.inf, -np.inf, np.nan, 5e-324, 1.7976931348623157e308):
        flat[nrng.integers(0, flat.size)] = val
    err = None
    if with_err:
        err = np.abs(nrng.normal(size=shape))
        err.reshape(-1)[nrng.integers(0, flat.size)] = np.nan
    return Operator(arr, err)


def make_key(rng, base_nf=None):
    nf = base_nf or rng.choice([3, 4, 5, 6])
    kind = rng.choice(["py", "np", "int", "np32", "npnf"])
    if kind == "int":
        return (rng.randrange(2, 10**6), nf), kind
    s = rng.uniform(1.0, 1e6)
    if kind == "np":
        return (np.float64(s), nf), kind
    if kind == "np32":
        return (np.float32(s), np.int64(nf)), kind
    if kind == "npnf":
        return (s, rng.choice([np.int64, np.int32])(nf)), kind
    return (s, nf), kind


def read_phase(path, theory, operator, version, expect):
    """Re-read the archive; compare with `expect` = {idx: ((scale, nf), Operator)}."""
    from eko.io.struct import EKO
    from eko.version import __data_version__

    out = {"exc": "", "expect": sorted(expect), "got": [], "same": [], "unknown": 0,
           "theoryEq": False, "operatorEq": False, "metaEq": False}
    try:
        with EKO.read(path) as eko:
            for ep in eko:
                idx = [i for i, (k, _) in expect.items() if float(k[0]) == float(ep[0]) and int(k[1]) == int(ep[1])]
                if not idx:
                    out["unknown"] += 1
                    continue
                out["got"].append(idx[0])
            for i, (k, op) in expect.items():
                try:
                    got = eko[(float(k[0]), int(k[1]))]
                except Exception:  # noqa: BLE001
                    continue
                if got is not None and bits_eq(got.operator, op.operator) and bits_eq(got.error, op.error):
                    out["same"].append(i)
            out["theoryEq"] = deep_eq(eko.theory_card, theory)
            # (the library's == of two grids compares the nodes only: the interpolation mode is compared here)
            out["operatorEq"] = deep_eq(eko.operator_card, operator) and bool(eko.operator_card.xgrid.log) == bool(operator.xgrid.log)
            md = eko.metadata
            out["metaEq"] = bool(
                md.version == version
                and float(md.origin[0]) == float(operator.init[0] ** 2)
                and int(md.origin[1]) == int(operator.init[1])
                and np.array_equal(md.xgrid.raw, operator.xgrid.raw)
                and bool(md.xgrid.log) == bool(operator.xgrid.log)
                and md.data_version == __data_version__
            )
    except Exception as ex:  # noqa: BLE001
        out["exc"] = type(ex).__name__
    out["got"].sort()
    out["same"].sort()
    return out


def experiment(seed):
    from eko.io.struct import EKO

    rng = random.Random(seed)
    nrng = np.random.default_rng(seed)
    old = tempfile.tempdir
    root = pathlib.Path(tempfile.mkdtemp(prefix="verif-eko-c36-"))
    (root / "tmp").mkdir()
    tempfile.tempdir = str(root / "tmp")
    rec = {"seed": seed, "forms": []}
    try:
        theory, operator, nx = random_cards(rng)
        path = root / "e.tar"
        expect = {}
        n = rng.randrange(1, 6)
        keys = []
        for _ in range(n):
            k, kind = make_key(rng)
            keys.append((k, kind))
            if rng.random() < 0.35:  # a neighbour one ulp away, same nf
                s = float(k[0])
                keys.append(((float(np.nextafter(s, np.inf)), int(k[1])), "ulp"))
        p1 = None
        try:
            with EKO.create(path) as b:
                eko = b.load_cards(theory, operator).build()
                version = eko.metadata.version
                for j, (k, kind) in enumerate(keys, start=1):
                    op = random_op(nrng, nx, rng.random() < 0.5)
                    eko[k] = op
                    expect[j] = (k, op)
                    rec["forms"].append(kind)
                    if rng.random() < 0.3:
                        del eko[k]
        except Exception as ex:  # noqa: BLE001
            p1 = {"exc": "write-" + type(ex).__name__, "expect": sorted(expect), "got": [], "same": [], "unknown": 0,
                  "theoryEq": False, "operatorEq": False, "metaEq": False}
            version = ""
        rec["p1"] = p1 or read_phase(path, theory, operator, version, expect)
        # ---- phase 2: edit
        p2 = None
        if rec["p1"]["exc"] == "":
            try:
                with EKO.edit(path) as eko:
                    j = rng.choice(sorted(expect))
                    k = expect[j][0]
                    op = random_op(nrng, nx, rng.random() < 0.5)  # possibly the other kind
                    eko[k] = op
                    expect[j] = (k, op)
                    if rng.random() < 0.5 and len(expect) > 1:
                        # the explicit-save idiom: load an operator, change its arrays in place, assign the same
                        # object back to its own point - what is written is what the object holds now
                        j3 = rng.choice([q for q in sorted(expect) if q != j])
                        k3 = (float(expect[j3][0][0]), int(expect[j3][0][1]))
                        held = eko[k3]
                        if held is not None:
                            held.operator[...] = np.where(np.isfinite(held.operator), held.operator * 0.5 + 1.0, held.operator)
                            if held.error is not None:
                                held.error[...] = np.where(np.isfinite(held.error), held.error + 0.25, held.error)
                            from eko.io.items import Operator as _Op

                            snapshot = _Op(held.operator.copy(), None if held.error is None else held.error.copy())
                            eko[k3] = held
                            expect[j3] = (expect[j3][0], snapshot)
                    k2, kind2 = make_key(rng)
                    if not any(float(k2[0]) == float(kk[0]) and int(k2[1]) == int(kk[1]) for kk, _ in expect.values()):
                        op2 = random_op(nrng, nx, rng.random() < 0.5)
                        eko[k2] = op2
                        expect[len(keys) + 1] = (k2, op2)
                        rec["forms"].append(kind2)
                    if rng.random() < 0.5:
                        eko.metadata.version = "9.9.9"
                        eko.update()
                        version = "9.9.9"
                    if rng.random() < 0.3:
                        eko.unload()
            except Exception as ex:  # noqa: BLE001
                p2 = {"exc": "edit-" + type(ex).__name__, "expect": sorted(expect), "got": [], "same": [], "unknown": 0,
                      "theoryEq": False, "operatorEq": False, "metaEq": False}
            rec["p2"] = p2 or read_phase(path, theory, operator, version, expect)
        else:
            rec["p2"] = rec["p1"]
        return rec
    finally:
        tempfile.tempdir = old
        shutil.rmtree(root, ignore_errors=True)
