"""Driver for spec/Runner.tla: abstract instances (scale tokens) -> concrete cards -> real
eko.runner.managed.solve, with the calls of the runner recorded by wrappers installed from
the harness (no change to eko).  Two kinds of parts:

* synthetic parts: parts.evolve / parts.match are replaced by functions returning generators of
  a free monoid of 2x2 integer matrices embedded in the operator tensor, so that the ORDER of
  the product can be decoded exactly from the operator the implementation stored;
* real parts with the quadrature shim (4 fixed nodes instead of scipy.integrate.quad)."""

from __future__ import annotations

import contextlib
import copy
import hashlib
import pathlib
import shutil
import tempfile

import numpy as np
import yaml

NX = 2


# ------------------------------------------------------------------------------------------
# instances -> cards
# ------------------------------------------------------------------------------------------

def scale_table(rng, ntok=6, lo=1.5, hi=60.0, near=False):
    """token -> linear scale (GeV), increasing; mu^2 tokens are the squares (as the code squares).

    near=True makes one token a near-duplicate of its lower neighbour (relative 5e-8): two
    distinct scales that np.isclose would call equal."""
    vals = sorted(rng.uniform(lo, hi) for _ in range(ntok))
    # keep them well separated so that np.isclose never merges two tokens
    for i in range(1, len(vals)):
        if vals[i] < vals[i - 1] * 1.05:
            vals[i] = vals[i - 1] * 1.05 + 0.01
    if near:
        j = rng.randrange(1, ntok)
        vals[j] = vals[j - 1] * (1 + 5e-8)
    return {k + 1: float(v) for k, v in enumerate(vals)}


def cards_for(inst, tab, order=(1, 0), method="iterate-exact", sv=None, xif=1.0, xgrid=None, ratios=None, **cfg):
    """inst = dict(ms=[3 tokens], o=[tok,nf], targets=[[tok,nf],...])."""
    from ekobox.cards import example
    from eko.io import runcards

    th = copy.deepcopy(example.raw_theory())
    op = copy.deepcopy(example.raw_operator())
    th["order"] = list(order)
    th["matching_order"] = [max(order[0] - 1, 0), 0]
    # matching ratios (powers of two: exact) with the masses divided by them: the matching scales stay at the tokens
    ratios = list(ratios or [1.0, 1.0, 1.0])
    # (pow() is not exactly a product: keep a ratio only where the library's k^2 * m^2 reproduces the token bit by bit)
    ratios = [k if float(np.power(k, 2.0) * (tab[t] / k) ** 2) == tab[t] ** 2 else 1.0 for t, k in zip(inst["ms"], ratios)]
    th["heavy"]["masses"] = [[tab[t] / k, float("nan")] for t, k in zip(inst["ms"], ratios)]
    th["heavy"]["matching_ratios"] = ratios
    th["xif"] = xif
    th["couplings"]["ref"] = (91.2, 5)
    op["init"] = (tab[inst["o"][0]], inst["o"][1])
    op["mugrid"] = [(tab[t[0]], t[1]) for t in inst["targets"]]
    op["xgrid"] = xgrid or [0.1, 1.0]
    op["configs"]["evolution_method"] = method
    op["configs"]["scvar_method"] = sv
    op["configs"]["interpolation_polynomial_degree"] = 1
    op["configs"].update(cfg)
    return runcards.TheoryCard.from_dict(th), runcards.OperatorCard.from_dict(op)


def tokmap(tab):
    return {v ** 2: k for k, v in tab.items()}


# ------------------------------------------------------------------------------------------
# free monoid encoding
# ------------------------------------------------------------------------------------------

def gen_matrix(g):
    """M_g = A^(g+1) B with A=[[1,1],[0,1]], B=[[1,0],[1,1]]."""
    return np.array([[g + 2, g + 1], [1, 1]], dtype=float)


def embed(m2, nx=NX):
    n = 14 * nx
    full = np.eye(n)
    full[:2, :2] = m2
    return full.reshape(14, nx, 14, nx)


def decode(op, nx=NX):
    """Operator tensor -> list of generator ids (leftmost factor first), or None."""
    n = 14 * nx
    full = np.asarray(op).reshape(n, n)
    rest = full.copy()
    rest[:2, :2] = np.eye(2)
    if not np.array_equal(rest, np.eye(n)):
        return None
    p = [[int(full[0, 0]), int(full[0, 1])], [int(full[1, 0]), int(full[1, 1])]]
    if not np.array_equal(np.array(p, dtype=float), full[:2, :2]):
        return None
    letters = []
    guard = 0
    while p != [[1, 0], [0, 1]]:
        guard += 1
        if guard > 10000 or min(min(r) for r in p) < 0:
            return None
        if p[0][0] >= p[1][0] and p[0][1] >= p[1][1]:
            letters.append("A")
            p = [[p[0][0] - p[1][0], p[0][1] - p[1][1]], p[1]]
        elif p[1][0] >= p[0][0] and p[1][1] >= p[0][1]:
            letters.append("B")
            p = [p[0], [p[1][0] - p[0][0], p[1][1] - p[0][1]]]
        else:
            return None
    ids = []
    run = 0
    for c in letters:
        if c == "A":
            run += 1
        else:
            if run == 0:
                return None
            ids.append(run - 1)
            run = 0
    if run:
        return None
    return ids


# ------------------------------------------------------------------------------------------
# recording
# ------------------------------------------------------------------------------------------

def hdr_rec(h, f2t):
    """eko.io.items header -> record in the vocabulary of Runner.tla."""
    from eko.io import items

    def tok(x):
        return f2t.get(float(x), -1)

    if isinstance(h, items.Evolution):
        return {"kind": "E", "origin": tok(h.origin), "target": tok(h.target), "nf": int(h.nf), "cliff": bool(h.cliff)}
    if isinstance(h, items.Matching):
        return {"kind": "M", "scale": tok(h.scale), "hq": int(h.hq), "inverse": bool(h.inverse)}
    if isinstance(h, items.Target):
        return {"kind": "T", "scale": tok(h.scale), "nf": int(h.nf)}
    raise TypeError(h)


@contextlib.contextmanager
def scratch():
    old = tempfile.tempdir
    root = pathlib.Path(tempfile.mkdtemp(prefix="verif-eko-run-"))
    (root / "tmp").mkdir()
    tempfile.tempdir = str(root / "tmp")
    try:
        yield root
    finally:
        tempfile.tempdir = old
        shutil.rmtree(root, ignore_errors=True)


def list_headers(d, f2t):
    """Headers (yaml) found in an inventory directory of the extracted archive."""
    from eko.io import items

    out = []
    if not d.exists():
        return out
    for p in sorted(d.iterdir()):
        if p.suffix != ".yaml":
            continue
        h = yaml.safe_load(p.read_text())
        if "origin" in h:
            out.append(hdr_rec(items.Evolution(**h), f2t))
        elif "hq" in h:
            out.append(hdr_rec(items.Matching(**h), f2t))
        else:
            out.append(hdr_rec(items.Target(**h), f2t))
    return out


def solve_synthetic(inst, tab, sv=None, xif=1.0, order=(1, 0), ratios=None):
    """Run managed.solve with synthetic parts; returns the trace record for RunnerTrace."""
    import eko
    from eko.io.items import Operator
    from eko.io.struct import EKO
    from eko.runner import operators, parts

    f2t = tokmap(tab)
    th, op = cards_for(inst, tab, sv=sv, xif=xif, order=order, ratios=ratios)
    ids = {}
    calls = []
    retrieves = []

    def key(r):
        return tuple(sorted(hdr_rec(r, f2t).items()))

    def synth(kind):
        def f(eko_, recipe):
            k = key(recipe)
            if k not in ids:
                ids[k] = len(ids)
            calls.append(hdr_rec(recipe, f2t))
            return Operator(embed(gen_matrix(ids[k])))
        return f

    saved = (parts.evolve, parts.match, operators._retrieve)

    def retrieve(headers, p, pm):
        retrieves.append([hdr_rec(h, f2t) for h in headers])
        return saved[2](headers, p, pm)

    rec = {"ms": list(inst["ms"]), "o": list(inst["o"]), "targets": [list(t) for t in inst["targets"]],
           "sv": {None: "none", "exponentiated": "expo", "expanded": "expanded"}[sv], "xifOne": bool(xif == 1.0),
           "err": "", "calls": [], "retrieves": [], "ids": [], "words": [], "arcRecipes": [], "arcParts": [], "arcOps": []}
    with scratch() as root:
        path = root / "o.tar"
        parts.evolve, parts.match, operators._retrieve = synth("E"), synth("M"), retrieve
        try:
            eko.solve(th, op, path)
        except Exception as ex:  # noqa: BLE001
            rec["err"] = type(ex).__name__ + ":" + str(ex)[:80]
        finally:
            parts.evolve, parts.match, operators._retrieve = saved
        rec["calls"] = calls
        rec["retrieves"] = retrieves
        rec["ids"] = [{"hdr": dict(k), "id": v} for k, v in ids.items()]
        if not rec["err"]:
            with EKO.read(path) as e:
                d = pathlib.Path(e.metadata.path)
                rec["arcRecipes"] = list_headers(d / "recipes", f2t) + list_headers(d / "recipes" / "matching", f2t)
                rec["arcParts"] = list_headers(d / "parts", f2t) + list_headers(d / "parts" / "matching", f2t)
                rec["arcOps"] = list_headers(d / "operators", f2t)
                for t in inst["targets"]:
                    ep = (tab[t[0]] ** 2, t[1])
                    o = e[ep]
                    w = decode(o.operator) if o is not None else None
                    rec["words"].append({"t": list(t), "ok": w is not None, "word": w or []})
    return rec


# ------------------------------------------------------------------------------------------
# quadrature shim
# ------------------------------------------------------------------------------------------

class _Shim:
    """Stand-in for scipy.integrate inside eko.evolution_operator: a fixed 4-node rule."""

    NODES = (0.55, 0.65, 0.78, 0.9)

    @staticmethod
    def quad(func, a, b, **kw):
        s = 0.0
        for u in _Shim.NODES:
            s += func(a + (b - a) * u)
        val = s * (b - a) / len(_Shim.NODES)
        return (val, abs(val) * 1e-3, {})


@contextlib.contextmanager
def shimmed():
    import eko.evolution_operator as evop

    saved = evop.integrate
    evop.integrate = _Shim
    try:
        yield
    finally:
        evop.integrate = saved


def digest(arr):
    if arr is None:
        return "none"
    a = np.ascontiguousarray(arr)
    return hashlib.sha256(str(a.shape).encode() + a.tobytes()).hexdigest()[:24]


# ------------------------------------------------------------------------------------------
# real solves (real or shimmed quadrature), with pool logs
# ------------------------------------------------------------------------------------------

def solve_real(inst, tab, *, cores=1, shim=False, pool_log=False, order=(1, 0), method="iterate-exact",
               sv=None, xif=1.0, xgrid=None, theory_update=None, operator_update=None, **cfg):
    """Run the real managed.solve on the concrete cards of `inst`.

    Returns dict(err, ops={"tok,nf": [digest(operator), digest(error)]}, pools=[...], arrays)."""
    import os

    import eko
    import eko.evolution_operator as evop
    from eko.io.struct import EKO

    th, op = cards_for(inst, tab, order=order, method=method, sv=sv, xif=xif, xgrid=xgrid or [0.1, 0.5, 1.0],
                       n_integration_cores=cores, **cfg)
    if theory_update:
        theory_update(th)
    if operator_update:
        operator_update(op)
    out = {"err": "", "ops": {}, "pools": [], "arrays": {}}
    with scratch() as root:
        logdir = root / "poollog"
        logdir.mkdir()
        saved_run = evop.Operator.run_op_integration
        saved_int = evop.Operator.integrate
        counter = {"n": 0}
        seqs = {}

        def run_op_integration(self, log_grid):
            if self.n_pools > 1:
                # adversarial schedule: earlier grid points finish later
                import time as _t

                _t.sleep(0.03 * (self.grid_size - log_grid[0]))
            res = saved_run(self, log_grid)
            pid = os.getpid()
            seqs[pid] = seqs.get(pid, 0) + 1
            with open(logdir / f"{getattr(self, '_verif_id', 0)}-{pid}.log", "a") as fd:
                fd.write(f"{pid} {seqs[pid]} {log_grid[0]}\n")
            return res

        def integrate(self):
            counter["n"] += 1
            self._verif_id = counter["n"]
            self._verif_items = self.grid_size
            out["pools"].append({"id": counter["n"], "n": self.n_pools, "items": self.grid_size})
            return saved_int(self)

        if pool_log:
            evop.Operator.run_op_integration = run_op_integration
            evop.Operator.integrate = integrate
        ctx = shimmed() if shim else contextlib.nullcontext()
        path = root / "o.tar"
        try:
            with ctx:
                eko.solve(th, op, path)
        except Exception as ex:  # noqa: BLE001
            out["err"] = type(ex).__name__ + ":" + str(ex)[:120]
        finally:
            evop.Operator.run_op_integration = saved_run
            evop.Operator.integrate = saved_int
        if pool_log:
            for p in out["pools"]:
                log = []
                for f in sorted(logdir.glob(f"{p['id']}-*.log")):
                    for line in f.read_text().splitlines():
                        pid, seq, k = line.split()
                        log.append({"pid": int(pid) % 1000000, "seq": int(seq), "k": int(k)})
                p["log"] = log
        if not out["err"]:
            with EKO.read(path) as e:
                for t in inst["targets"]:
                    ep = (tab[t[0]] ** 2, t[1])
                    o = e[ep]
                    out["ops"][f"{t[0]},{t[1]}"] = [digest(o.operator), digest(o.error)]
                    out["arrays"][f"{t[0]},{t[1]}"] = (o.operator.copy(), None if o.error is None else o.error.copy())
    return out


# ------------------------------------------------------------------------------------------
# structure of scale-variation factors (C53) and continuity measurements
# ------------------------------------------------------------------------------------------

def solve_structure(inst, tab, sv=None, xif=1.0, order=(1, 0)):
    """Shimmed real solve recording, per evolution part, is_threshold and whether it integrated."""
    import eko
    import eko.evolution_operator as evop
    from eko.runner import operators, parts

    f2t = tokmap(tab)
    th, op = cards_for(inst, tab, order=order, sv=sv, xif=xif, xgrid=[0.2, 1.0])
    rec = {"ev": "structure", "ms": list(inst["ms"]), "o": list(inst["o"]), "targets": [list(t) for t in inst["targets"]],
           "sv": {None: "none", "exponentiated": "expo", "expanded": "expanded"}[sv], "xifOne": bool(xif == 1.0),
           "err": "", "parts": [], "retrieves": []}
    saved = (parts.evolve, operators._retrieve, evop.Operator.integrate, evop.Operator.__init__)
    cur = {}

    def init(self, *a, **kw):
        saved[3](self, *a, **kw)
        if type(self) is evop.Operator:
            cur["op"] = self
            self._verif_integrated = False

    def integrate(self):
        self._verif_integrated = True
        return saved[2](self)

    def evolve(eko_, recipe):
        cur.pop("op", None)
        res = saved[0](eko_, recipe)
        o = cur.get("op")
        rec["parts"].append({"hdr": hdr_rec(recipe, f2t), "isThreshold": bool(o.is_threshold), "integrated": bool(o._verif_integrated)})
        return res

    def retrieve(headers, p, pm):
        rec["retrieves"].append([hdr_rec(h, f2t) for h in headers])
        return saved[1](headers, p, pm)

    with scratch() as root, shimmed():
        parts.evolve, operators._retrieve = evolve, retrieve
        evop.Operator.integrate, evop.Operator.__init__ = integrate, init
        try:
            eko.solve(th, op, root / "o.tar")
        except Exception as ex:  # noqa: BLE001
            rec["err"] = type(ex).__name__ + ":" + str(ex)[:100]
        finally:
            parts.evolve, operators._retrieve, evop.Operator.integrate, evop.Operator.__init__ = saved
    return rec


def _cls(a, b):
    """ceil(-log10(relative difference)); 99 when bitwise equal."""
    import math

    d = float(np.max(np.abs(a - b)))
    if d == 0.0:
        return 99
    ref = float(np.max(np.abs(a)))
    return int(math.floor(-math.log10(d / ref)))


def continuity(where, tab_vals, sv, xif, order=(1, 0)):
    """Operator at a boundary point versus displaced targets in the same patch.

    where: dict(kind, scale (linear), nf, side (+1/-1: direction that stays inside the patch),
    walls=[3 linear scales], origin=(linear scale, nf))."""
    from ekobox.cards import example
    from eko.io import runcards
    import eko
    from eko.io.struct import EKO

    th = copy.deepcopy(example.raw_theory())
    op = copy.deepcopy(example.raw_operator())
    th["order"] = list(order)
    th["matching_order"] = [max(order[0] - 1, 0), 0]
    th["heavy"]["masses"] = [[m, float("nan")] for m in where["walls"]]
    th["xif"] = xif
    th["couplings"]["ref"] = (91.2, 5)
    op["init"] = tuple(where["origin"])
    s = where["scale"]
    eps = where["side"]
    pts = [s, s * (1 + eps * 1e-6) ** 0.5, s * (1 + eps * 1e-7) ** 0.5]
    op["mugrid"] = [(p, where["nf"]) for p in pts]
    op["xgrid"] = [0.1, 0.5, 1.0]
    op["configs"]["evolution_method"] = "truncated" if order[0] > 1 else "iterate-exact"
    op["configs"]["scvar_method"] = sv
    op["configs"]["interpolation_polynomial_degree"] = 1
    rec = {"ev": "continuity", "where": where["kind"], "sv": {None: "none", "exponentiated": "expo", "expanded": "expanded"}[sv],
           "xifOne": bool(xif == 1.0), "nf": where["nf"], "err": "", "jump": 0, "drift": 0, "order": list(order)}
    with scratch() as root:
        try:
            eko.solve(runcards.TheoryCard.from_dict(th), runcards.OperatorCard.from_dict(op), root / "o.tar")
            with EKO.read(root / "o.tar") as e:
                arrs = [e[(p ** 2, where["nf"])].operator.copy() for p in pts]
            rec["jump"] = _cls(arrs[0], arrs[1])
            rec["drift"] = _cls(arrs[0], arrs[2])
        except Exception as ex:  # noqa: BLE001
            rec["err"] = type(ex).__name__ + ":" + str(ex)[:100]
    return rec


def cheap_sibling(th, op):
    """A solve earlier in the same process on almost the same raw cards: another initial nf at the same scale and
    an x-grid with the same size and end points but other interior nodes, with both sectors skipped (so it costs
    no integration).  Its result is thrown away; whatever module-level state it leaves behind (memo tables keyed
    too coarsely) must not reach the next solve."""
    import copy

    import eko
    from eko.io import runcards

    th2, op2 = copy.deepcopy(th), copy.deepcopy(op)
    mu0, nf0 = op2["init"]
    op2["init"] = (mu0, nf0 + 1 if nf0 < 6 else nf0 - 1)
    xs = [float(x) for x in op2["xgrid"]]
    op2["xgrid"] = [xs[0]] + [x ** (0.93 if k % 2 else 1.06) for k, x in enumerate(xs[1:-1])] + [xs[-1]]
    op2["xgrid"] = sorted(set(op2["xgrid"]))
    op2.setdefault("debug", {})
    op2["debug"]["skip_singlet"] = True
    op2["debug"]["skip_non_singlet"] = True
    import logging

    logging.disable(logging.CRITICAL)
    try:
        with scratch() as root:
            try:
                eko.solve(runcards.TheoryCard.from_dict(th2), runcards.OperatorCard.from_dict(op2), root / "sibling.tar")
            except Exception:  # noqa: BLE001 - only its side effects matter
                pass
    finally:
        logging.disable(logging.NOTSET)
