"""Numeric instances of MSbar mass inputs with recorded sign patterns (C18)."""
import math
import random

import numpy as np

QREF = {3: 1.0, 4: 3.0, 5: 91.2, 6: 400.0}


def instance(seed):
    from eko import msbar_masses
    from eko.couplings import Couplings
    from eko.io.types import ReferenceRunning
    from eko.quantities.couplings import CouplingEvolutionMethod, CouplingsInfo
    from eko.quantities.heavy_quarks import HeavyQuarkMasses, QuarkMassScheme

    rng = random.Random(seed)
    nfref = rng.choice([3, 4, 5, 6])
    qref = QREF[nfref] * rng.uniform(0.95, 1.05)
    alphas = {3: 0.45, 4: 0.25, 5: 0.118, 6: 0.095}[nfref]
    base = [rng.uniform(1.2, 1.6), rng.uniform(4.0, 5.0), rng.uniform(160.0, 175.0)]
    on_threshold = None
    if nfref in (4, 5) and rng.random() < 0.25:
        # the coupling reference sits exactly on a heavy-quark threshold: alpha_s^(4)(m_b) or alpha_s^(5)(m_b),
        # with that quark given at its own scale
        on_threshold = 2
        qref = base[1]
        alphas = 0.22
    order = (rng.choice([1, 2, 3, 4]), 0)
    meth = rng.choice([CouplingEvolutionMethod.EXACT, CouplingEvolutionMethod.EXPANDED])
    quarks = []
    refs = []
    consistent_bias = rng.random() < 0.6
    for q in (1, 2, 3):
        m = base[q - 1]
        active = q + 3 <= nfref
        if on_threshold == q:
            rm = "eq"
        elif consistent_bias:
            rm = rng.choice(["eq", "gt"] if active else ["eq", "lt"]) if rng.random() < 0.9 else rng.choice(["lt", "gt"])
        else:
            rm = rng.choice(["lt", "eq", "gt"])
        if rm == "eq":
            qm = m
        elif rm == "lt":
            qm = m * rng.uniform(0.55, 0.9)
            # far below (the reference lies beyond other quarks' thresholds): the top only - it may be quoted below the
            # charm; a bottom mass quoted at 1 GeV with alpha_s = 0.45 there runs to a fixed point below the charm mass
            # and the library rightly refuses masses that are not ordered
            if rng.random() < 0.4 and q == 3:
                qm = max(1.05, m * math.exp(-rng.uniform(math.log(2.0), math.log(400.0))))
        else:
            qm = m * rng.uniform(1.1, 1.8)
            if rng.random() < 0.4:      # far above
                qm = min(2000.0, m * math.exp(rng.uniform(math.log(2.0), math.log(1000.0))))
        quarks.append({"q": q, "rm": rm, "rq": "lt" if qm < qref else "gt"})
        refs.append(ReferenceRunning([m, qm]))
    rec = {"seed": seed, "nfref": nfref, "quarks": quarks, "outcome": "ok", "sorted": True, "resid": [99, 99, 99], "comp": [99, 99, 99], "patch": [0, 0, 0],
           "order": order[0], "method": meth.value}
    info = CouplingsInfo(alphas=alphas, alphaem=0.00781, ref=(qref, nfref))
    # half of the instances at unit ratios, the others with matching ratios and xif away from one
    if rng.random() < 0.5:
        ratios, xif2 = [1.0, 1.0, 1.0], 1.0
    else:
        ratios, xif2 = [rng.uniform(0.8, 1.3) for _ in range(3)], rng.choice([0.5, 1.0, 2.0, rng.uniform(0.6, 1.8)])
    rec["ratios_unit"] = ratios == [1.0, 1.0, 1.0] and xif2 == 1.0
    try:
        res = msbar_masses.compute(HeavyQuarkMasses(refs), info, order, meth, ratios, xif2)
    except Exception as ex:  # noqa: BLE001
        rec["outcome"] = type(ex).__name__
        rec["msg"] = str(ex)[:100]
        return rec
    res = np.asarray(res, dtype=float)
    rec["sorted"] = bool(np.all(np.diff(res) >= 0)) and bool(np.all(np.isfinite(res)))
    # the documented coupling: thresholds at m^2 * k^2 * xif^2
    sc = Couplings(info, order=order, method=meth, masses=res.tolist(), thresholds_ratios=(np.array(ratios) * xif2).tolist(),
                   hqm_scheme=QuarkMassScheme.MSBAR)
    for j, q in enumerate((1, 2, 3)):
        if quarks[j]["rm"] == "eq":
            continue
        m2_ref = refs[j].value ** 2
        q2m = refs[j].scale ** 2
        nf_from = 3 + int(np.sum(q2m > res))
        nf_to = q + 3 if q + 3 <= nfref else q + 2
        rec["patch"][j] = nf_to
        try:
            back = msbar_masses.evolve(m2_ref, q2m, sc, ratios, xif2, res[j], nf_ref=nf_from, nf_to=nf_to)
            rel = abs(back - res[j]) / res[j]
            rec["resid"][j] = 99 if rel == 0 else int(math.floor(-math.log10(rel)))
        except Exception as ex:  # noqa: BLE001
            rec["resid"][j] = -1
            rec["msg"] = "fixed-point evaluation failed: " + type(ex).__name__
            continue
        if abs(nf_from - nf_to) >= 2:
            # the path crosses two or more matching scales: the running mass composes along it - stopping in the
            # patch after the first crossing (at the geometric mean of the first two matching scales) and going on
            # from there gives the same mass as the direct evolution
            ms = (np.array(sc.atlas.walls)[1:-1] * np.array(ratios)).tolist()   # as evolve places its steps
            up = nf_to > nf_from
            nf_mid = nf_from + (1 if up else -1)
            a, b = (ms[nf_from - 3], ms[nf_from - 2]) if up else (ms[nf_from - 4], ms[nf_from - 5])
            s_mid = math.sqrt(a * b)
            try:
                mid = msbar_masses.evolve(m2_ref, q2m, sc, ratios, xif2, s_mid, nf_ref=nf_from, nf_to=nf_mid)
                two = msbar_masses.evolve(mid, s_mid, sc, ratios, xif2, res[j], nf_ref=nf_mid, nf_to=nf_to)
                rel = abs(two - back) / abs(back)
                rec["comp"][j] = 99 if rel == 0 else int(math.floor(-math.log10(rel)))
            except Exception as ex:  # noqa: BLE001
                rec["comp"][j] = -1
                rec["msg"] = "composition along the path failed: " + type(ex).__name__
    return rec


def _dec(x):
    x = abs(float(x))
    return 99 if x == 0 else int(math.floor(-math.log10(x)))


def crossing(seed):
    """The running mass across ONE matching scale with no evolution on either side: evolve() from the
    matching scale in one scheme to the same scale in the other.  The decoupling relation is stated for the
    mass, evolve() returns its square: the returned ratio must be zeta_m^2 (zeta_m from the code's own table
    and the coupling of the upper scheme at the matching scale)."""
    from eko import msbar_masses
    from eko.couplings import Couplings
    from eko.quantities.couplings import CouplingEvolutionMethod, CouplingsInfo
    from eko.quantities.heavy_quarks import QuarkMassScheme

    rng = random.Random(seed)
    order = rng.choice([3, 4])
    q = rng.choice([1, 2, 3])          # the quark whose matching scale is crossed
    down = rng.random() < 0.5
    ratios = [1.0, 1.0, 1.0]
    ratios[q - 1] = rng.choice([1.0, 0.7, 1.6, 2.0])
    masses2 = [1.51**2, 4.92**2, 172.5**2]
    info = CouplingsInfo(alphas=0.118, alphaem=0.00781, ref=(91.2, 5))
    sc = Couplings(info, order=(order, 0), method=rng.choice([CouplingEvolutionMethod.EXACT, CouplingEvolutionMethod.EXPANDED]),
                   masses=masses2, thresholds_ratios=ratios, hqm_scheme=QuarkMassScheme.MSBAR)
    wall = (np.array(sc.atlas.walls)[1:-1] * np.array(ratios)).tolist()[q - 1]   # where evolve() places the step
    lo, hi = q + 2, q + 3
    m2_in = rng.uniform(1.0, 30.0) ** 2
    rec = {"ev": "cross", "order": order, "quark": q, "dir": "down" if down else "up", "unit_ratio": ratios[q - 1] == 1.0,
           "sq": -1, "lin": -1, "exc": ""}
    try:
        out = msbar_masses.evolve(m2_in, wall, sc, ratios, 1.0, wall, nf_ref=hi if down else lo, nf_to=lo if down else hi)
    except Exception as ex:  # noqa: BLE001
        rec["exc"] = type(ex).__name__
        return rec
    a_up = sc.a(wall, hi)[0]
    tab = msbar_masses.compute_matching_coeffs_down(lo) if down else msbar_masses.compute_matching_coeffs_up(lo)
    L = math.log(ratios[q - 1])
    zeta = 1.0 + sum(a_up**p * L**k * tab[p, k] for p in range(1, order) for k in range(p + 1))
    r = out / m2_in
    rec["sq"] = _dec((r - zeta**2) / (zeta**2 - 1.0))
    rec["lin"] = _dec((r - zeta) / (zeta**2 - 1.0))
    rec["values"] = {"returned_ratio_of_squares": float(r), "zeta_m": float(zeta), "zeta_m_squared": float(zeta**2)}
    return rec


def decoupling_law(nf):
    """RG law of the logarithms of the mass decoupling table (upwards, m' = zeta m):
         d zeta / d ln mu^2 = zeta [gamma_m^(nf)(a) - gamma_m^(nf+1)(a')],  a = a' (1 + d1 a' + d2 a'^2),
         dL/d ln mu^2 = 1 + 2 gamma_m^(nf+1)(a')   (L in terms of the running heavy-quark mass)
       order a'^2:  dz2/dL = gamma1(nf) - gamma1(nf+1) + gamma0 d1
       order a'^3:  dz3/dL = -2 gamma0 dz2/dL + 2 beta0' z2 + gamma0 d2 + 2 gamma1(nf) d1 + gamma2(nf) - gamma2(nf+1)
    with the code's own gamma_m, beta0 and MSBAR coupling decoupling (downwards).  Returns the decades of
    the relative mismatch per power of L."""
    from eko import beta, gamma, msbar_masses
    from eko.couplings import compute_matching_coeffs_down

    P = np.polynomial.polynomial
    up = msbar_masses.compute_matching_coeffs_up(nf)
    dn = compute_matching_coeffs_down("MSBAR", nf)
    g0 = gamma.gamma_qcd_as1()
    g1, g2 = gamma.gamma_qcd_as2, gamma.gamma_qcd_as3
    b0p = beta.beta_qcd((2, 0), nf + 1)
    z2, z3 = np.array(up[2, :3]), np.array(up[3, :4])
    d1, d2 = np.array(dn[1, :2]), np.array(dn[2, :3])
    lhs2, rhs2 = P.polyder(z2), P.polyadd([g1(nf) - g1(nf + 1)], g0 * d1)
    lhs3 = P.polyder(z3)
    rhs3 = P.polyadd(P.polyadd(-2 * g0 * P.polyder(z2), 2 * b0p * z2),
                     P.polyadd(P.polyadd(g0 * d2, 2 * g1(nf) * d1), [g2(nf) - g2(nf + 1)]))

    def decs(lhs, rhs, n):
        lhs, rhs = np.resize(np.append(lhs, [0.0] * n), n), np.resize(np.append(rhs, [0.0] * n), n)
        return [_dec((lhs[k] - rhs[k]) / max(abs(rhs[k]), 1.0)) for k in range(n)]

    return {"ev": "declaw", "nf": nf, "a2": decs(lhs2, rhs2, 2), "a3": decs(lhs3, rhs3, 3),
            "lead_zero": bool(np.all(up[1] == 0) and up[0].tolist() == [0.0] * 4)}
