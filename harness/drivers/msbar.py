"""Numeric instances of MSbar mass inputs with recorded sign patterns (C18)."""
import math
import random

import numpy as np

QREF = {3: 1.0, 4: 3.0, 5: 91.2, 6: 400.0}


def instance(seed):
    from eko import msbar_masses
    from eko.couplings import Couplings
    from eko.io.types import ReferenceRunning
    from eko.quantities.couplings import CouplingEvolutionMethod, CouplingsInfo
    from eko.quantities.heavy_quarks import HeavyQuarkMasses, QuarkMassScheme

    rng = random.Random(seed)
    nfref = rng.choice([3, 4, 5, 6])
    qref = QREF[nfref] * rng.uniform(0.95, 1.05)
    alphas = {3: 0.45, 4: 0.25, 5: 0.118, 6: 0.095}[nfref]
    base = [rng.uniform(1.2, 1.6), rng.uniform(4.0, 5.0), rng.uniform(160.0, 175.0)]
    on_threshold = None
    if nfref in (4, 5) and rng.random() < 0.25:
        # the coupling reference sits exactly on a heavy-quark threshold: alpha_s^(4)(m_b) or alpha_s^(5)(m_b),
        # with that quark given at its own scale
        on_threshold = 2
        qref = base[1]
        alphas = 0.22
    order = (rng.choice([1, 2, 3, 4]), 0)
    meth = rng.choice([CouplingEvolutionMethod.EXACT, CouplingEvolutionMethod.EXPANDED])
    quarks = []
    refs = []
    consistent_bias = rng.random() < 0.6
    for q in (1, 2, 3):
        m = base[q - 1]
        active = q + 3 <= nfref
        if on_threshold == q:
            rm = "eq"
        elif consistent_bias:
            rm = rng.choice(["eq", "gt"] if active else ["eq", "lt"]) if rng.random() < 0.9 else rng.choice(["lt", "gt"])
        else:
            rm = rng.choice(["lt", "eq", "gt"])
        if rm == "eq":
            qm = m
        elif rm == "lt":
            qm = m * rng.uniform(0.55, 0.9)
            if rng.random() < 0.4:      # far below: the reference lies beyond other quarks' thresholds
                qm = max(1.05, m * math.exp(-rng.uniform(math.log(2.0), math.log(400.0 if q == 3 else 100.0))))  # the top may be quoted below the charm
        else:
            qm = m * rng.uniform(1.1, 1.8)
            if rng.random() < 0.4:      # far above
                qm = min(2000.0, m * math.exp(rng.uniform(math.log(2.0), math.log(1000.0))))
        quarks.append({"q": q, "rm": rm, "rq": "lt" if qm < qref else "gt"})
        refs.append(ReferenceRunning([m, qm]))
    rec = {"seed": seed, "nfref": nfref, "quarks": quarks, "outcome": "ok", "sorted": True, "resid": [99, 99, 99], "comp": [99, 99, 99], "patch": [0, 0, 0],
           "order": order[0], "method": meth.value}
    info = CouplingsInfo(alphas=alphas, alphaem=0.00781, ref=(qref, nfref))
    # half of the instances at unit ratios, the others with matching ratios and xif away from one
    if rng.random() < 0.5:
        ratios, xif2 = [1.0, 1.0, 1.0], 1.0
    else:
        ratios, xif2 = [rng.uniform(0.8, 1.3) for _ in range(3)], rng.choice([0.5, 1.0, 2.0, rng.uniform(0.6, 1.8)])
    rec["ratios_unit"] = ratios == [1.0, 1.0, 1.0] and xif2 == 1.0
    try:
        res = msbar_masses.compute(HeavyQuarkMasses(refs), info, order, meth, ratios, xif2)
    except Exception as ex:  # noqa: BLE001
        rec["outcome"] = type(ex).__name__
        rec["msg"] = str(ex)[:100]
        return rec
    res = np.asarray(res, dtype=float)
    rec["sorted"] = bool(np.all(np.diff(res) >= 0)) and bool(np.all(np.isfinite(res)))
    # the documented coupling: thresholds at m^2 * k^2 * xif^2
    sc = Couplings(info, order=order, method=meth, masses=res.tolist(), thresholds_ratios=(np.array(ratios) * xif2).tolist(),
                   hqm_scheme=QuarkMassScheme.MSBAR)
    for j, q in enumerate((1, 2, 3)):
        if quarks[j]["rm"] == "eq":
            continue
        m2_ref = refs[j].value ** 2
        q2m = refs[j].scale ** 2
        nf_from = 3 + int(np.sum(q2m > res))
        nf_to = q + 3 if q + 3 <= nfref else q + 2
        rec["patch"][j] = nf_to
        try:
            back = msbar_masses.evolve(m2_ref, q2m, sc, ratios, xif2, res[j], nf_ref=nf_from, nf_to=nf_to)
            rel = abs(back - res[j]) / res[j]
            rec["resid"][j] = 99 if rel == 0 else int(math.floor(-math.log10(rel)))
        except Exception as ex:  # noqa: BLE001
            rec["resid"][j] = -1
            rec["msg"] = "fixed-point evaluation failed: " + type(ex).__name__
            continue
        if abs(nf_from - nf_to) >= 2:
            # the path crosses two or more matching scales: the running mass composes along it - stopping in the
            # patch after the first crossing (at the geometric mean of the first two matching scales) and going on
            # from there gives the same mass as the direct evolution
            ms = (np.array(sc.atlas.walls)[1:-1] * np.array(ratios)).tolist()   # as evolve places its steps
            up = nf_to > nf_from
            nf_mid = nf_from + (1 if up else -1)
            a, b = (ms[nf_from - 3], ms[nf_from - 2]) if up else (ms[nf_from - 4], ms[nf_from - 5])
            s_mid = math.sqrt(a * b)
            try:
                mid = msbar_masses.evolve(m2_ref, q2m, sc, ratios, xif2, s_mid, nf_ref=nf_from, nf_to=nf_mid)
                two = msbar_masses.evolve(mid, s_mid, sc, ratios, xif2, res[j], nf_ref=nf_mid, nf_to=nf_to)
                rel = abs(two - back) / abs(back)
                rec["comp"][j] = 99 if rel == 0 else int(math.floor(-math.log10(rel)))
            except Exception as ex:  # noqa: BLE001
                rec["comp"][j] = -1
                rec["msg"] = "composition along the path failed: " + type(ex).__name__
    return rec
