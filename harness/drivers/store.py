"""Driver for spec/Store.tla: executes abstract histories on real eko.io.struct.EKO objects
and records, after every call, the reply and the projection of the implementation state
(cache, temporary directory, archive) in the vocabulary of the specification."""

from __future__ import annotations

import hashlib
import io
import pathlib
import shutil
import tarfile
import tempfile

import numpy as np
import yaml

KEYS = ("k1", "k2", "k3")
NF = {"k1": 4, "k2": 4, "k3": 5}


class World:
    """One file-system world: a permanent path, at most one EKO object."""

    def __init__(self, rng, nvals=("a", "b", "e"), shape=None):
        import lz4.frame  # noqa: F401
        from ekobox.cards import example

        self.rng = rng
        self._oldtmp = tempfile.tempdir
        self.root = pathlib.Path(tempfile.mkdtemp(prefix="verif-eko-store-"))
        self.path = self.root / "out.tar"
        self.path2 = self.root / "copy.tar"
        self._arc2_cache = (None, None)
        # the library's own temporary directories land inside this world
        (self.root / "tmp").mkdir()
        tempfile.tempdir = str(self.root / "tmp")
        self.theory = example.theory()
        self.operator = example.operator()
        base = rng.uniform(2.0, 1e4)
        self.scales = {"k1": base, "k2": base * (1 + 2e-8), "k3": base}
        sh = shape or rng.choice([(2, 2, 2, 2), (14, 3, 14, 3), (3, 1, 3, 1)])
        nrng = np.random.default_rng(rng.randrange(2**32))
        self.vals = {}
        for name in nvals:
            arr = nrng.normal(size=sh)
            # special values must survive: signed zero, inf, nan
            flat = arr.reshape(-1)
            flat[0] = -0.0
            if flat.size > 3:
                flat[1] = np.inf
                flat[2] = np.nan
            err = nrng.normal(size=sh) if name == "e" else None
            self.vals[name] = (arr, err)
        self.digest = {self._dig(a, e): n for n, (a, e) in self.vals.items()}
        self.eko = None
        self.tmpdirs = set()
        self.version0 = None
        self._arc_cache = (None, None)

    # ---- tokens ------------------------------------------------------------------------
    @staticmethod
    def _dig(arr, err):
        h = hashlib.sha256()
        h.update(str(arr.shape).encode() + str(arr.dtype).encode() + np.ascontiguousarray(arr).tobytes())
        if err is not None:
            h.update(b"|err|" + str(err.shape).encode() + np.ascontiguousarray(err).tobytes())
        return h.hexdigest()

    def ep(self, k, form="py"):
        s = self.scales[k]
        if form == "np":
            return (np.float64(s), NF[k])
        return (float(s), NF[k])

    def keytok(self, scale, nf):
        for k in KEYS:
            if float(scale) == self.scales[k] and int(nf) == NF[k]:
                return k
        return "k?"

    def valtok(self, op):
        if op is None:
            return "None"
        return self.digest.get(self._dig(op.operator, op.error), "v?")

    def metatok(self, version):
        if version == self.version0:
            return "m0"
        if version == "9.9.9":
            return "m1"
        return "m?"

    # ---- projection ---------------------------------------------------------------------
    def proj_fs(self, d: pathlib.Path | None):
        import lz4.frame

        fs = {"exists": False, "hdr": [], "bad": [], "npy": {k: "-" for k in KEYS},
              "npz": {k: "-" for k in KEYS}, "meta": "m0", "rec": False}
        if d is None or not d.exists():
            return fs
        fs["exists"] = True
        opdir = d / "operators"
        stems = {}
        if opdir.exists():
            for p in sorted(opdir.iterdir()):
                if p.suffix == ".yaml":
                    txt = p.read_text()
                    bad = False
                    try:
                        h = yaml.safe_load(txt)
                    except yaml.YAMLError:
                        bad = True
                        h = yaml.unsafe_load(txt)
                    k = self.keytok(h["scale"], h["nf"])
                    stems[p.name[: -len(".yaml")]] = k
                    fs["hdr"].append(k)
                    if bad:
                        fs["bad"].append(k)
            for p in sorted(opdir.iterdir()):
                for ext in ("npy", "npz"):
                    suf = f".{ext}.lz4"
                    if p.name.endswith(suf):
                        k = stems.get(p.name[: -len(suf)], "k?")
                        content = np.load(io.BytesIO(lz4.frame.decompress(p.read_bytes())))
                        if isinstance(content, np.ndarray):
                            tok = self.digest.get(self._dig(content, None), "v?")
                        else:
                            tok = self.digest.get(self._dig(content["operator"], content["error"]), "v?")
                        if k in fs[ext]:
                            fs[ext][k] = tok
        rd = d / "recipes"
        fs["rec"] = rd.exists() and any(p.suffix == ".yaml" for p in rd.iterdir())
        mf = d / "metadata.yaml"
        if mf.exists():
            fs["meta"] = self.metatok(yaml.safe_load(mf.read_text())["version"])
        fs["hdr"].sort()
        fs["bad"].sort()
        return fs

    def proj_arc(self, second=False):
        path = self.path2 if second else self.path
        cache = self._arc2_cache if second else self._arc_cache
        if not path.exists():
            if second:
                self._arc2_cache = (None, None)
            else:
                self._arc_cache = (None, None)
            return self.proj_fs(None), "absent"
        sha = hashlib.sha256(path.read_bytes()).hexdigest()
        if cache[0] == sha:
            return cache[1], sha
        tmp = pathlib.Path(tempfile.mkdtemp(prefix="verif-eko-arc-"))
        try:
            with tarfile.open(path) as tar:
                tar.extractall(tmp, filter="data")
            fs = self.proj_fs(tmp)
        except tarfile.TarError:
            fs = self.proj_fs(None)
            fs["exists"] = True
            fs["bad"] = ["k?"]
        finally:
            shutil.rmtree(tmp, ignore_errors=True)
        if second:
            self._arc2_cache = (sha, fs)
        else:
            self._arc_cache = (sha, fs)
        return fs, sha

    def proj_obj(self):
        if self.eko is None:
            return {"exists": False, "open": False, "ro": False, "cache": {}, "rc": False}
        e = self.eko
        cache = {}
        for hdr, op in e.operators.cache.items():
            cache[self.keytok(hdr.scale, hdr.nf)] = self.valtok(op)
        return {"exists": True, "open": bool(e.access.open), "ro": bool(e.access.readonly), "cache": cache,
                "rc": len(e.recipes.cache) > 0}

    def snapshot(self):
        arc, sha = self.proj_arc()
        d = None
        if self.eko is not None and self.eko.metadata._path is not None:
            d = pathlib.Path(self.eko.metadata._path)
        return {
            "obj": self.proj_obj(),
            "dir": self.proj_fs(d),
            "arc": arc,
            "arc2": self.proj_arc(second=True)[0],
            "arcsha": sha,
            "mmeta": self.metatok(self.eko.metadata.version) if self.eko is not None else "m0",
        }

    # ---- operations ---------------------------------------------------------------------
    @staticmethod
    def _r(kind, s="", ks=(), ps=()):
        return {"kind": kind, "s": s, "ks": sorted(ks), "ps": sorted(list(p) for p in ps)}

    def do(self, op, k=None, v=None, f="py", m=None):
        """Execute one abstract operation; return the event record."""
        from eko.io.items import Operator
        from eko.io.struct import EKO

        r = self._r
        try:
            if op == "create":
                b = EKO.create(self.path)
                self.eko = b.load_cards(self.theory, self.operator).build()
                if self.version0 is None:
                    self.version0 = self.eko.metadata.version
                out = r("ok")
            elif op in ("read", "edit"):
                self.eko = EKO.read(self.path) if op == "read" else EKO.edit(self.path)
                if self.version0 is None:
                    self.version0 = self.eko.metadata.version
                out = r("ok")
            elif op == "set":
                arr, err = self.vals[v]
                self.eko[self.ep(k, f)] = Operator(arr.copy(), None if err is None else err.copy())
                out = r("ok")
            elif op == "get":
                out = r("val", self.valtok(self.eko[self.ep(k, f)]))
            elif op == "del":
                del self.eko[self.ep(k, f)]
                out = r("ok")
            elif op == "contains":
                out = r("bool", "T" if self.ep(k, f) in self.eko else "F")
            elif op == "iter":
                out = r("keys", ks=[self.keytok(*ep) for ep in self.eko])
            elif op == "items":
                out = r("pairs", ps=[(self.keytok(*ep), self.valtok(o)) for ep, o in self.eko.items()])
            elif op == "approx":
                res = self.eko.approx(self.ep(k, f))
                out = r("none") if res is None else r("key", self.keytok(*res))
            elif op in ("approxfar", "approxwide"):
                mu2, nf = self.ep(k, f)
                far = (float(mu2) * (1 + 1e-4), nf)
                res = self.eko.approx(far) if op == "approxfar" else self.eko.approx(far, rtol=1e-3)
                out = r("none") if res is None else r("key", self.keytok(*res))
            elif op == "unload":
                self.eko.unload()
                out = r("ok")
            elif op == "sync":
                self.eko.operators.sync()
                out = r("ok")
            elif op == "setmeta":
                self.eko.metadata.version = self.version0 if m == "m0" else "9.9.9"
                out = r("ok")
            elif op == "update":
                self.eko.update()
                out = r("ok")
            elif op == "withop":
                with self.eko.operator(self.ep(k, f)) as o:
                    out = r("val", self.valtok(o))
            elif op == "deepcopy":
                self.eko.deepcopy(self.path2)
                out = r("ok")
            elif op == "createbad":
                if v == "suffix":
                    EKO.create(self.root / "out.dat")
                else:
                    b = EKO.create(self.root / "nocards.tar")
                    try:
                        b.build()
                    finally:
                        shutil.rmtree(b.path, ignore_errors=True)
                out = r("ok")
            elif op == "recipe":
                from eko.io.items import Evolution

                self.eko.load_recipes([Evolution(self.scales["k1"], self.scales["k1"] * 2, 4)])
                out = r("ok")
            elif op == "getrecipe":
                from eko.io.items import Evolution

                self.eko.recipes[Evolution(self.scales["k1"], self.scales["k1"] * 2, 4)]
                out = r("ok")
            elif op == "dump":
                self.eko.dump()
                out = r("ok")
            elif op == "close":
                self.eko.close()
                out = r("ok")
            elif op == "drop":
                self._forget()
                out = r("ok")
            else:
                raise ValueError(op)
        except Exception as ex:  # noqa: BLE001 - the exception class is the observation
            out = r("exc", type(ex).__name__)
        ev = {"op": op, "k": k or "-", "v": v or "-", "f": f, "m": m or "-", "reply": out}
        ev.update(self.snapshot())
        return ev

    def _forget(self):
        if self.eko is not None:
            p = self.eko.metadata._path
            if p is not None:
                shutil.rmtree(p, ignore_errors=True)
        self.eko = None

    def cleanup(self):
        self._forget()
        tempfile.tempdir = self._oldtmp
        shutil.rmtree(self.root, ignore_errors=True)


def enabled(op, has_obj):
    """The alphabet of Store.tla: which calls make sense with / without an object."""
    if op in ("create", "read", "edit", "createbad"):
        return not has_obj
    return has_obj


def run_history(rng, hist, audit=True, nvals=("a", "b", "e")):
    """Execute a history (list of dicts op/k/v/f/m) in a fresh world; return the event list.

    With audit=True the history is followed by a final audit that observes everything through
    the public API: iter, contains/get for every key, items, and (writable sessions) close,
    re-read, iter, get for every key."""
    w = World(rng, nvals=nvals)
    evs = []
    try:
        has = False
        for h in hist:
            if not enabled(h["op"], has):
                continue
            ev = w.do(**h)
            evs.append(ev)
            has = ev["obj"]["exists"]
        if audit:
            if has:
                for k in KEYS:
                    evs.append(w.do("approx", k=k))
                    evs.append(w.do("approxfar", k=k))
                    evs.append(w.do("approxwide", k=k))
                evs.append(w.do("iter"))
                for k in KEYS:
                    evs.append(w.do("contains", k=k))
                    evs.append(w.do("get", k=k))
                evs.append(w.do("items"))
                o = evs[-1]["obj"]
                if o["open"]:
                    evs.append(w.do("close"))
                evs.append(w.do("drop"))
            if w.path.exists():
                evs.append(w.do("read"))
                if evs[-1]["obj"]["exists"]:
                    evs.append(w.do("iter"))
                    for k in KEYS:
                        evs.append(w.do("get", k=k))
                    evs.append(w.do("close"))
                    evs.append(w.do("drop"))
        return evs
    finally:
        w.cleanup()
