"""Driver for spec/Couplings.tla: histories of queries and caller mutations on real
eko.couplings.Couplings objects, with compute() calls recorded by a wrapper."""
import random

import numpy as np

# walls at tokens 2 and 4 (perfect squares: a reference given as sqrt(mu2) lands exactly on them);
# default reference at token 3
TOK_MU2 = {1: 1.69, 2: 2.25, 3: 9.0, 4: 25.0, 5: 289.0}
DEFAULT_REF = (3, 4)
TOP = 1e16


def make(cfg):
    from eko.couplings import Couplings
    from eko.quantities.couplings import CouplingEvolutionMethod
    from eko.quantities.couplings import CouplingsInfo
    from eko.quantities.heavy_quarks import QuarkMassScheme

    rtok, rnf = cfg.get("ref", DEFAULT_REF)
    info = CouplingsInfo(alphas=cfg["alphas"], alphaem=0.00781, ref=(TOK_MU2[rtok] ** 0.5, rnf), em_running=cfg["running"])
    return Couplings(info, order=(cfg["qcd"], cfg["qed"]),
                     method=CouplingEvolutionMethod.EXACT if cfg["method"] == "exact" else CouplingEvolutionMethod.EXPANDED,
                     masses=[TOK_MU2[2], TOK_MU2[4], cfg.get("top", TOP)], hqm_scheme=QuarkMassScheme.POLE if cfg["scheme"] == "POLE" else QuarkMassScheme.MSBAR,
                     thresholds_ratios=[1.0, 1.0, 1.0])


def _bits(a):
    return np.asarray(a, dtype=float).tobytes()


def run_history(cfg, hist, tokens=True):
    """hist: list of ("q", scale, nf) / ("m", j). Scales are tokens when tokens=True, else mu2 floats."""
    from eko.couplings import Couplings

    obj = make(cfg)
    ref0 = _bits(obj.a_ref)
    f2t = {v: k for k, v in TOK_MU2.items()}
    from eko import constants as _c

    f2t[float(_c.MTAU**2)] = 100     # token of the tau mass in Couplings.tla
    steps = []
    orig = Couplings.compute

    def compute(self, a_ref, nf, nl, scale_from, scale_to):
        if self is obj:
            key = (float(a_ref[0]), float(a_ref[1]), nf, nl, scale_from, float(scale_to))
            steps.append([int(nf), f2t.get(float(scale_from), 0), f2t.get(float(scale_to), 0), 1 if key in self.cache else 0])
        return orig(self, a_ref, nf, nl, scale_from, scale_to)

    Couplings.compute = compute
    events = []
    rets = []
    nq = 0
    try:
        for h in hist:
            if h[0] == "q":
                mu2 = TOK_MU2[h[1]] if tokens else h[1]
                before = {k: _bits(v) for k, v in obj.cache.items()}
                steps.clear()
                nq += 1
                # every fifth query is put with NumPy scalars (as taken from an array of scales / flavour numbers);
                # the fresh object is always asked with Python numbers
                amu2, anf = (np.float64(mu2), np.int64(h[2])) if nq % 5 == 3 and h[2] else (mu2, h[2])
                try:
                    got = obj.a(amu2, anf)
                except Exception as ex:  # noqa: BLE001
                    # a query the library refuses (e.g. the coupling leaves the perturbative range): history
                    # independence means that a fresh object refuses it in the same way
                    Couplings.compute = orig
                    try:
                        make(cfg).a(mu2, h[2])
                        same = False
                    except Exception as ex2:  # noqa: BLE001
                        same = type(ex2) is type(ex)
                    Couplings.compute = compute
                    events.append({"ev": "query", "q": [h[1] if tokens else 0, h[2]], "eqFresh": bool(same), "aliasFree": True,
                                   "refIntact": _bits(obj.a_ref) == ref0, "cacheStable": True, "steps": [], "exc": type(ex).__name__})
                    continue
                mine = list(steps)
                Couplings.compute = orig
                fresh = make(cfg).a(mu2, h[2])
                Couplings.compute = compute
                alias = any(np.shares_memory(got, v) for v in obj.cache.values()) or np.shares_memory(got, obj.a_ref)
                stable = all(k in obj.cache and _bits(obj.cache[k]) == b for k, b in before.items())
                events.append({"ev": "query", "q": [h[1] if tokens else 0, h[2]], "eqFresh": _bits(got) == _bits(fresh),
                               "aliasFree": not alias, "refIntact": _bits(obj.a_ref) == ref0, "cacheStable": stable, "steps": mine, "exc": ""})
                rets.append(got)
            else:
                j = h[1]
                if 1 <= j <= len(rets):
                    rets[j - 1][:] = np.array([123.456, -7.0])
                    events.append({"ev": "mutate", "j": j})
    finally:
        Couplings.compute = orig
    # conformance replay (Couplings!Query) is defined for token histories from the default reference
    return {"cfg": cfg, "tokens": bool(tokens and tuple(cfg.get("ref", DEFAULT_REF)) == DEFAULT_REF), "events": events}


def random_cfg(rng):
    qed = rng.choice([0, 0, 1, 2])
    # the reference: mostly the default point inside its natural patch (conformance replay), else any
    # token - also exactly on a matching scale - with any nf
    ref = DEFAULT_REF if rng.random() < 0.6 else (rng.choice([1, 2, 2, 3, 4, 4, 5]), rng.choice([3, 4, 5]))
    return {"qcd": rng.choice([1, 2, 3, 4]), "qed": qed, "running": bool(qed and rng.random() < 0.5),
            "method": rng.choice(["exact", "expanded"]), "alphas": rng.choice([0.118, 0.2, 0.35]), "scheme": rng.choice(["POLE", "MSBAR"]),
            "ref": ref}


def random_token_history(rng, n):
    hist = []
    nq = 0
    for _ in range(n):
        if nq and rng.random() < 0.3:
            hist.append(("m", rng.randrange(1, nq + 1)))
        else:
            hist.append(("q", rng.choice([1, 2, 3, 4, 5]), rng.choice([3, 4, 5])))
            nq += 1
    return hist


FREE_TOP = 1e4   # a reachable top matching scale for the free histories (the token model keeps it out of reach)


def random_free_history(rng, n, top=None):
    """Arbitrary scales: repeated, close to walls and to the reference (short segments), downward.
    With a reachable top matching scale: also six flavours and scales on both sides of it."""
    specials = [TOK_MU2[2], TOK_MU2[4], TOK_MU2[3], TOK_MU2[2] * (1 + 1e-7), TOK_MU2[4] * (1 - 1e-7), TOK_MU2[3] * (1 + 3e-6)]
    if top:
        specials += [top, top * (1 + 1e-7), top * 3.0]
    hist = []
    nq = 0
    for _ in range(n):
        u = rng.random()
        if nq and u < 0.25:
            hist.append(("m", rng.randrange(1, nq + 1)))
            continue
        if u < 0.6:
            mu2 = rng.choice(specials)
        elif u < 0.75 and hist:
            prev = [h for h in hist if h[0] == "q"]
            mu2 = rng.choice(prev)[1] if prev else rng.uniform(1.5, 500)
        else:
            mu2 = 10 ** rng.uniform(0.2, 5.0 if top else 2.7)
        hist.append(("q", mu2, rng.choice([3, 4, 5, 6] if top else [3, 4, 5])))
        nq += 1
    return hist


# ------------------------------------------------------------------------------------------
# decoupling steps of a single query from an arbitrary reference point (C16)
# ------------------------------------------------------------------------------------------

class _RecList(list):
    def __init__(self, it, log):
        super().__init__(it)
        self._log = log

    def __getitem__(self, k):
        self._log.append(("ratio", int(k) % 3 if isinstance(k, int) and k < 0 else int(k), int(k)))
        return super().__getitem__(k)


def steps_instance(seed):
    """Random walls / reference (any patch, any nf) / target; record what Couplings.a does."""
    import eko.couplings as ec
    from eko.couplings import Couplings
    from eko.quantities.couplings import CouplingEvolutionMethod, CouplingsInfo
    from eko.quantities.heavy_quarks import QuarkMassScheme

    rng = random.Random(seed)
    vals = sorted(rng.uniform(1.5, 400.0) for _ in range(6))
    for j in range(1, 6):
        if vals[j] < vals[j - 1] * 1.2:
            vals[j] = vals[j - 1] * 1.2
    tab = {k + 1: v for k, v in enumerate(vals)}       # token -> mu^2
    ms = sorted(rng.sample(range(1, 7), 3))
    ref = [rng.choice(range(1, 7)), rng.choice([3, 4, 5, 6])]
    if rng.random() < 0.3:
        ref[0] = rng.choice(ms)                          # reference exactly on a matching scale
    target = [rng.choice(range(1, 7)), rng.choice([3, 4, 5, 6])]
    # matching ratios anywhere in [0.5, 2], a quarter of them exactly one
    ratios = [1.0 if rng.random() < 0.25 else rng.uniform(0.5, 2.0) for _ in range(3)]
    masses = [tab[m] / r for m, r in zip(ms, ratios)]
    order = (rng.choice([1, 2, 3, 4]), 0)
    scheme = rng.choice([QuarkMassScheme.POLE, QuarkMassScheme.MSBAR])
    rec = {"ms": ms, "ref": ref, "target": target, "exc": "", "dec": [], "runs": [], "order": order[0], "scheme": scheme.name,
           "val": "na"}
    info = CouplingsInfo(alphas=0.118 if tab[ref[0]] > 50 else 0.25, alphaem=0.00781, ref=(tab[ref[0]] ** 0.5, ref[1]))
    method = CouplingEvolutionMethod.EXACT if rng.random() < 0.3 else CouplingEvolutionMethod.EXPANDED
    obj = Couplings(info, order=order, method=method, masses=masses, hqm_scheme=scheme, thresholds_ratios=ratios)
    # the atlas squares the reference scale again: recover the token table from the object itself
    f2t = {}
    for k, v in tab.items():
        f2t[float(v)] = k
    f2t[float(obj.atlas.origin[0])] = ref[0]
    for m, w in zip(ms, obj.atlas.walls[1:-1]):
        f2t[float(w)] = m
    log = []
    obj.thresholds_ratios = _RecList(obj.thresholds_ratios, log)
    saved = (ec.compute_matching_coeffs_up, ec.compute_matching_coeffs_down, Couplings.compute)

    inside = {"down": False}

    def up(scheme_, nf):
        if not inside["down"]:     # the downward table is built from the upward one internally
            log.append(("up", int(nf)))
        return saved[0](scheme_, nf)

    def down(scheme_, nf):
        log.append(("down", int(nf)))
        inside["down"] = True
        try:
            return saved[1](scheme_, nf)
        finally:
            inside["down"] = False

    def compute(self, a_ref, nf, nl, scale_from, scale_to):
        if self is obj:
            log.append(("run", int(nf), f2t.get(float(scale_from), -1), f2t.get(float(scale_to), -1)))
        return saved[2](self, a_ref, nf, nl, scale_from, scale_to)

    ec.compute_matching_coeffs_up, ec.compute_matching_coeffs_down, Couplings.compute = up, down, compute
    val = None
    try:
        if rng.random() < 0.5:
            # an earlier query on the same object (any scale, any nf): the judged value may depend only
            # on the path dictated by the matching scales, not on what was asked before
            obj.a(tab[rng.choice(range(1, 7))], rng.choice([3, 4, 5, 6]))
            del log[:]
        val = obj.a(tab[target[0]], target[1])
        if not np.all(np.isfinite(val)):
            rec["exc"] = "non-finite"
    except Exception as ex:  # noqa: BLE001
        rec["exc"] = type(ex).__name__
    finally:
        ec.compute_matching_coeffs_up, ec.compute_matching_coeffs_down, Couplings.compute = saved
    cur = {}
    for ev in log:
        if ev[0] == "ratio":
            cur = {"quark": ev[2] if ev[2] >= 0 else ev[2] + 100}
        elif ev[0] in ("up", "down"):
            cur.update(dir=ev[0], arg=ev[1])
            cur.setdefault("quark", -1)
            rec["dec"].append(cur)
            cur = {}
        else:
            rec["runs"].append({"nf": ev[1], "from": ev[2], "to": ev[3]})
    # numbers for the value clause (kept out of the TLC trace: floats)
    t2f = dict(tab)
    t2f[ref[0]] = float(obj.atlas.origin[0])
    for m, w in zip(ms, obj.atlas.walls[1:-1]):
        t2f[m] = float(w)
    rec["_num"] = {"t2f": t2f, "masses": masses, "ratios": ratios, "alphas": info.alphas, "refscale": info.ref[0], "method": method.value,
                   "refnf": ref[1], "order": order, "scheme": scheme.name,
                   "val": [float(v) for v in val] if val is not None and rec["exc"] == "" else None}
    return rec


def steps_expected(num, steps):
    """Compose the steps TLC derived from Atlas!Path with the library's primitives: per-patch
    running by Couplings.compute of a fresh object, decoupling by the coefficient tables."""
    import eko.couplings as ec
    from eko import matchings
    from eko.couplings import Couplings
    from eko.quantities.couplings import CouplingEvolutionMethod, CouplingsInfo
    from eko.quantities.heavy_quarks import QuarkMassScheme

    scheme = QuarkMassScheme[num["scheme"]]
    info = CouplingsInfo(alphas=num["alphas"], alphaem=0.00781, ref=(num["refscale"], num["refnf"]))
    fresh = Couplings(info, order=tuple(num["order"]), method=CouplingEvolutionMethod(num.get("method", "expanded")), masses=num["masses"],
                      hqm_scheme=scheme, thresholds_ratios=num["ratios"])
    a = fresh.a_ref.copy()
    for st in steps:
        if st["k"] == "run":
            s0, s1 = num["t2f"][st["a"]], num["t2f"][st["b"]]
            a = fresh.compute(a, st["nf"], matchings.lepton_number(s0), s0, s1).copy()
        else:
            L = np.log(num["ratios"][st["q"]])
            tabc = (ec.compute_matching_coeffs_down if st["dir"] == "down" else ec.compute_matching_coeffs_up)(fresh.hqm_scheme, st["nf"])
            fact = 1.0
            for n in range(1, num["order"][0]):
                for lp in range(n + 1):
                    fact += a[0] ** n * L**lp * tabc[n, lp]
            a[0] *= fact
    return [float(v) for v in a]
