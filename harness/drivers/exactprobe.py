"""Exact probing helpers shared by the exact-algebra checks (C20, C22, C21, C16).

The un-jitted eko functions are called on inputs for which the result is a small rational
(small integers, zeta constants patched to basis vectors); the float that comes back is turned
into a ``Fraction`` with a residual guard.  Nothing here decides a property: the recovered
numbers travel to TLC as ``[num, den]`` pairs and the TLA+ predicates judge them.
"""

from __future__ import annotations

import contextlib
import math
from fractions import Fraction

from harness.core import MachineryError

MAXDEN = 20000
ABS_TOL = 1e-9
INT32 = 2**31 - 1


def to_fraction(x, maxden=MAXDEN, tol=ABS_TOL):
    """Return (Fraction, exact?) for a float produced by rational arithmetic.

    exact=True: the unique rational with denominator <= maxden within the guard
    (two such rationals differ by >= 1/maxden^2 = 2.5e-9 > 2*tol).  exact=False: no small
    rational is that close; the returned Fraction is the best 32-bit approximation and can only
    be used to show that the value differs from a table entry.
    """
    if isinstance(x, complex):
        if x.imag != 0.0:
            raise MachineryError(f"unexpected imaginary part in exact probe: {x!r}")
        x = x.real
    x = float(x)
    if not math.isfinite(x):
        raise MachineryError(f"non-finite value in exact probe: {x!r}")
    fr = Fraction(x).limit_denominator(maxden)
    if abs(float(fr) - x) <= tol and abs(x) < 1e6:
        return fr, True
    den = 10**6
    while den > 1:
        fr = Fraction(x).limit_denominator(den)
        if abs(fr.numerator) < INT32:
            return fr, False
        den //= 10
    raise MachineryError(f"value {x!r} does not fit 32-bit rationals")


def pair(fr: Fraction):
    if abs(fr.numerator) > INT32 or fr.denominator > INT32:
        raise MachineryError(f"rational {fr} does not fit TLC's 32 bit")
    return [int(fr.numerator), int(fr.denominator)]


def decimal_fraction(x, digits=8):
    """Exact Fraction of the shortest decimal string of a float (for decimal literals)."""
    s = repr(float(x))
    if "e" in s or "E" in s:
        s = f"{float(x):.{digits}f}"
    return Fraction(s)


@contextlib.contextmanager
def patched(objs_attrs_values):
    """Temporarily set attributes: iterable of (obj, name, value)."""
    saved = []
    try:
        for obj, name, val in objs_attrs_values:
            had = hasattr(obj, name)
            saved.append((obj, name, getattr(obj, name, None), had))
            setattr(obj, name, val)
        yield
    finally:
        for obj, name, old, had in reversed(saved):
            if had:
                setattr(obj, name, old)
            else:
                delattr(obj, name)


def lagrange_coeffs(xs, ys):
    """Coefficients (ascending powers) of the interpolating polynomial through Fractions."""
    n = len(xs)
    coeffs = [Fraction(0)] * n
    for j in range(n):
        # basis polynomial l_j
        num = [Fraction(1)]
        den = Fraction(1)
        for m in range(n):
            if m == j:
                continue
            # multiply num by (x - xs[m])
            new = [Fraction(0)] * (len(num) + 1)
            for k, c in enumerate(num):
                new[k + 1] += c
                new[k] -= c * xs[m]
            num = new
            den *= xs[j] - xs[m]
        for k, c in enumerate(num):
            coeffs[k] += ys[j] * c / den
    return coeffs


def polyval(coeffs, x):
    acc = Fraction(0)
    for c in reversed(coeffs):
        acc = acc * x + c
    return acc


def parallel_tlc(chk, jobs):
    """Run several trace-less `chk.tlc` jobs concurrently (each job: dict of args with keys
    module, cfg and keyword arguments).  Results in the order of `jobs`; the first exception
    (MachineryError of a failed vacuity guard, ...) is re-raised."""
    from concurrent.futures import ThreadPoolExecutor

    def one(job):
        job = dict(job)
        module = job.pop("module")
        cfg = job.pop("cfg")
        return chk.tlc(module, cfg, **job)

    with ThreadPoolExecutor(max_workers=max(1, len(jobs))) as ex:
        futs = [ex.submit(one, j) for j in jobs]
        return [f.result() for f in futs]


def validate_parallel(chk, module, cfg, recs, label, nchunks=4):
    """Trace-validate `recs` with `nchunks` TLC processes in parallel.

    Returns [(index into recs, verdict string)] for every record TLC printed as BAD.
    Each chunk must be accepted (completed, postcondition = all records walked)."""
    import json

    from harness.core import tla_json

    n = len(recs)
    if n == 0:
        return []
    nchunks = max(1, min(nchunks, n))
    # round-robin so that expensive record kinds spread over the chunks
    chunks = [list(range(k, n, nchunks)) for k in range(nchunks)]
    jobs = []
    for k, idxs in enumerate(chunks):
        tf = chk.scratch / f"ptrace-{len(chk.cov['tlc_runs'])}-{k}.json"
        tf.write_text(json.dumps(tla_json([recs[i] for i in idxs])))
        jobs.append({"module": module, "cfg": cfg, "workers": 1, "label": f"{label} [{k + 1}/{nchunks}]", "env": {"TRACE_FILE": str(tf)}})
    results = parallel_tlc(chk, jobs)
    bad = []
    for idxs, r in zip(chunks, results):
        if r.violated or not r.completed:
            raise MachineryError(f"{module} did not accept the trace: {r.out[-1500:]}")
        for t in r.printed("BAD"):
            bad.append((idxs[t[1] - 1], t[2]))
    chk.cov["traces_validated_against_impl"] += n
    return sorted(bad)
