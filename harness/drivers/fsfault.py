"""Fault enumeration for C38: record every file-system effect of a session through
sys.addaudithook, then re-run the session once per effect with that effect failing."""

from __future__ import annotations

import os
import pathlib
import shutil
import sys
import tarfile
import tempfile

import numpy as np

_STATE = {"armed": False, "root": None, "root2": None, "log": None, "count": 0, "fail_at": None, "fired": False}
_INSTALLED = False

_EVENTS = {"open", "os.mkdir", "os.remove", "os.rename", "os.rmdir", "shutil.rmtree", "tempfile.mkdtemp",
           "os.truncate", "os.link", "os.symlink", "shutil.copyfile", "shutil.move"}


XDEV = "/dev/shm"


def xdev_available():
    """Is there a writable directory on another device than the scratch area?"""
    try:
        return os.access(XDEV, os.W_OK) and os.stat(XDEV).st_dev != os.stat(tempfile.gettempdir()).st_dev
    except OSError:
        return False


class InjectedFault(OSError):
    pass


def _hook(event, args):
    st = _STATE
    if not st["armed"] or event not in _EVENTS:
        return
    try:
        p = args[0]
        if isinstance(p, bytes):
            p = p.decode()
        if isinstance(p, int):
            return
        p = os.fspath(p)
    except Exception:  # noqa: BLE001
        return
    dir_fd = None
    if event in ("os.remove", "os.rmdir", "shutil.rmtree") and len(args) > 1:
        dir_fd = args[1]
    elif event == "os.mkdir" and len(args) > 2:
        dir_fd = args[2]
    root = st["root"]
    inside = p.startswith(root) or (dir_fd is not None and not os.path.isabs(p)) or bool(st.get("root2") and p.startswith(st["root2"]))
    if not inside:
        return
    mode = ""
    if event == "open":
        mode = args[1] if len(args) > 1 and isinstance(args[1], str) else ""
        if mode == "" and len(args) > 2 and isinstance(args[2], int):
            fl = args[2]
            mode = "w" if fl & (os.O_WRONLY | os.O_RDWR | os.O_CREAT | os.O_TRUNC) else "r"
    dst = ""
    if event == "os.rename" and len(args) > 1:
        dst = os.fspath(args[1])
    st["count"] += 1
    st["log"].append((event, p, mode, dst))
    if st["fail_at"] is not None and st["count"] == st["fail_at"]:
        st["fired"] = True
        raise InjectedFault(f"injected fault at effect {st['count']}: {event} {p}")


def install():
    global _INSTALLED
    if not _INSTALLED:
        sys.addaudithook(_hook)
        _INSTALLED = True


# ----------------------------------------------------------------------------------------
# sessions
# ----------------------------------------------------------------------------------------

NX = 2


def tiny_cards():
    from ekobox.cards import example

    th = example.theory()
    op = example.operator()
    op.xgrid = __import__("eko").interpolation.XGrid([0.1, 1.0])
    op.init = (1.65, 4)
    op.mugrid = [(3.0, 4), (10.0, 5)]
    return th, op


def _synth(tag):
    rng = np.random.default_rng(abs(hash(tag)) % (2**32))
    from eko.io.items import Operator

    return Operator(rng.integers(-3, 4, size=(14, NX, 14, NX)).astype(float), np.abs(rng.integers(0, 3, size=(14, NX, 14, NX)).astype(float)))


class Env:
    """A scratch world with its own temp dir; sessions run inside with synthetic parts."""

    def __init__(self, xdev=False):
        self.oldtmp = tempfile.tempdir
        self.root = pathlib.Path(tempfile.mkdtemp(prefix="verif-eko-fault-"))
        self.tmp = self.root / "tmp"
        if xdev:
            # the temporary area on another file system than the output folder (TMPDIR on a tmpfs is common)
            self.tmp = pathlib.Path(tempfile.mkdtemp(prefix="verif-eko-fault-", dir=XDEV))
        self.tmp.mkdir(exist_ok=True)
        (self.root / "out").mkdir()
        tempfile.tempdir = str(self.tmp)
        self.path = self.root / "out" / "e.tar"
        self.path2 = self.root / "out2" / "copy.tar"
        (self.root / "out2").mkdir()
        self.compute_fail_at = None
        self.compute_exc = RuntimeError
        self.compute_calls = 0

    def close(self):
        tempfile.tempdir = self.oldtmp
        shutil.rmtree(self.root, ignore_errors=True)
        shutil.rmtree(self.tmp, ignore_errors=True)

    # -- the two sessions -------------------------------------------------------------
    def _patch_parts(self):
        from eko.runner import parts

        env = self

        def evolve(eko, recipe):
            env.compute_calls += 1
            if env.compute_fail_at == env.compute_calls:
                raise env.compute_exc("injected computation failure")
            return _synth(("E", recipe.origin, recipe.target, recipe.nf))

        def match(eko, recipe):
            env.compute_calls += 1
            if env.compute_fail_at == env.compute_calls:
                raise env.compute_exc("injected computation failure")
            return _synth(("M", recipe.scale, recipe.hq, recipe.inverse))

        self._saved = (parts.evolve, parts.match)
        parts.evolve, parts.match = evolve, match

    def _unpatch_parts(self):
        from eko.runner import parts

        parts.evolve, parts.match = self._saved

    def session_new(self):
        import eko

        th, op = tiny_cards()
        self._patch_parts()
        try:
            eko.solve(th, op, self.path)
        finally:
            self._unpatch_parts()

    def session_edit(self):
        from eko.io.struct import EKO

        with EKO.edit(self.path) as e:
            self.compute_calls += 1
            if self.compute_fail_at == self.compute_calls:
                raise self.compute_exc("injected user-code failure")
            e[(77.0, 5)] = _synth(("new", 77.0))
            self.compute_calls += 1
            if self.compute_fail_at == self.compute_calls:
                raise self.compute_exc("injected user-code failure")
            e.metadata.version = "9.9.9"
            e.update()
            self.compute_calls += 1
            if self.compute_fail_at == self.compute_calls:
                raise self.compute_exc("injected user-code failure")

    def session_copy(self):
        """An edit session that ends with a deep copy to a second path (the edit itself is abandoned)."""
        from eko.io.struct import EKO

        class _Abandon(Exception):
            pass

        try:
            with EKO.edit(self.path) as e:
                e[(77.0, 5)] = _synth(("new", 77.0))
                e.metadata.version = "9.9.9"
                e.update()
                self.compute_calls += 1
                if self.compute_fail_at == self.compute_calls:
                    raise self.compute_exc("injected user-code failure")
                e.deepcopy(self.path2)
                raise _Abandon()
        except _Abandon:
            pass

    def prepare_prev(self):
        """A complete previous archive for the edit session (no faults, not recorded)."""
        self.session_new()
        self.prev_bytes = self.path.read_bytes()

    # -- observation --------------------------------------------------------------------
    def classify_archive(self, kind):
        from eko.io.struct import EKO

        path = self.path2 if kind == "copy" else self.path
        if not path.exists():
            return "absent"
        if kind == "edit" and path.read_bytes() == self.prev_bytes:
            return "prev"
        try:
            with EKO.read(path) as e:
                eps = sorted(e)
                ok = True
                for ep in eps:
                    ok = ok and e[ep] is not None and bool(np.isfinite(e[ep].operator).all())
                want = [(9.0, 4), (100.0, 5)]
                if kind in ("edit", "copy"):
                    want = sorted(want + [(77.0, 5)])
                    ok = ok and e.metadata.version == "9.9.9"
                ok = ok and [(float(a), int(b)) for a, b in eps] == want
                e.theory_card, e.operator_card  # noqa: B018 - must be loadable
            return "new" if ok else "corrupt"
        except Exception:  # noqa: BLE001
            return "partial"

    def classify_step(self, rec):
        """Name of an effect in the vocabulary of FsFault.tla."""
        event, p, mode, dst = rec
        arch = str(self.path2 if getattr(self, "kind", "") == "copy" else self.path)
        outdir = str(pathlib.Path(arch).parent)
        tmpdir = str(self.tmp)
        if p.startswith(tmpdir + os.sep) and dst != arch:
            return "tmp"
        if p == arch:
            if event == "os.remove":
                return "unlink"
            if event == "open":
                return "taropen" if any(c in mode for c in "wax+") else "arcread"
            if event == "os.rename":
                return "renamefrom"
            return "arc-" + event
        if dst == arch:
            return "replace"
        if p.startswith(outdir + os.sep) and not p.startswith(tmpdir):
            if event == "open":
                return "sideopen" if any(c in mode for c in "wax+") else "sideread"
            if event == "os.remove":
                return "sideunlink"
            return "side-" + event
        return "tmp"


INTERRUPTS = {"kbdint": KeyboardInterrupt, "sysexit": SystemExit, "genexit": GeneratorExit}


def _bulk_wrappers(st_bulk):
    """Count (and fail, with ENOSPC) the calls of the stdlib's bulk data transfers: a failure in the middle of
    writing a file, which no audit event marks."""
    import errno

    saved = {}

    def wrap(mod, name):
        orig = getattr(mod, name, None)
        if orig is None:
            return
        saved[(mod, name)] = orig

        def f(*a, **kw):
            if st_bulk["armed"]:
                st_bulk["n"] += 1
                if st_bulk["fail_at"] == st_bulk["n"]:
                    st_bulk["fired"] = True
                    raise OSError(errno.ENOSPC, "injected: no space left on device (bulk transfer %d, %s)" % (st_bulk["n"], name))
            return orig(*a, **kw)

        setattr(mod, name, f)

    wrap(os, "sendfile")
    wrap(os, "copy_file_range")
    wrap(shutil, "copyfileobj")

    def restore():
        for (mod, name), orig in saved.items():
            setattr(mod, name, orig)

    return restore


def run_session(kind, fail_at=None, compute_fail_at=None, tar_member_fail=None, retry_fail_at=None, compute_exc=None, xdev=False,
                bulk_fail=None):
    """Run one session in a fresh world; returns dict(steps, raised, arc, retry, n, fired)."""
    install()
    env = Env(xdev=xdev)
    env.kind = kind
    st = _STATE
    try:
        if kind in ("edit", "copy"):
            env.prepare_prev()
            env.compute_calls = 0
        env.compute_fail_at = compute_fail_at
        env.compute_exc = INTERRUPTS.get(compute_exc, RuntimeError)
        st.update(armed=True, root=str(env.root), root2=str(env.tmp) if xdev else None, log=[], count=0, fail_at=fail_at, fired=False)
        raised = ""
        orig_addfile = tarfile.TarFile.addfile
        calls = {"n": 0}
        if tar_member_fail is not None:
            def addfile(self, tarinfo, fileobj=None):
                calls["n"] += 1
                res = orig_addfile(self, tarinfo, fileobj)
                if calls["n"] == tar_member_fail:
                    st["fired"] = True
                    raise InjectedFault(f"injected failure after tar member {calls['n']}")
                return res
            tarfile.TarFile.addfile = addfile
        else:
            def addfile(self, tarinfo, fileobj=None):
                calls["n"] += 1
                return orig_addfile(self, tarinfo, fileobj)
            tarfile.TarFile.addfile = addfile
        bulk = {"armed": True, "n": 0, "fail_at": bulk_fail, "fired": False}
        restore_bulk = _bulk_wrappers(bulk)
        try:
            {"new": env.session_new, "edit": env.session_edit, "copy": env.session_copy}[kind]()
        except BaseException as ex:  # noqa: BLE001
            raised = type(ex).__name__
        finally:
            st["armed"] = False
            bulk["armed"] = False
            restore_bulk()
            tarfile.TarFile.addfile = orig_addfile
        log = list(st["log"])
        fired = st["fired"] or bulk["fired"] or (compute_fail_at is not None and raised != "")
        steps = [env.classify_step(r) for r in log]
        arc = env.classify_archive(kind)
        orig_intact = True
        if kind == "copy":
            orig_intact = env.path.exists() and env.path.read_bytes() == env.prev_bytes
        # a subsequent run on the same path; optionally with a second fault, followed by a clean one
        retry = True
        env.compute_fail_at = None
        arc_after_second = ""

        def again():
            if kind == "new":
                if env.classify_archive("new") != "new":
                    env.session_new()
                return env.classify_archive("new") == "new"
            if kind == "copy":
                if env.classify_archive("copy") != "new":
                    env.compute_calls = 0
                    env.session_copy()
                return env.classify_archive("copy") == "new"
            env.compute_calls = 0
            env.session_edit()
            return env.classify_archive("edit") == "new"

        if retry_fail_at is not None:
            st.update(armed=True, root=str(env.root), root2=str(env.tmp) if xdev else None, log=[], count=0, fail_at=retry_fail_at, fired=False)
            try:
                again()
            except BaseException:  # noqa: BLE001
                pass
            finally:
                st["armed"] = False
            arc_after_second = env.classify_archive(kind)
        try:
            retry = again()
        except BaseException:  # noqa: BLE001
            retry = False
        return {"kind": kind, "steps": steps, "raised": raised, "arc": arc, "retry": retry, "origIntact": bool(orig_intact),
                "arc2nd": arc_after_second,
                "n": len(log), "fired": bool(fired), "members": calls["n"], "computes": env.compute_calls, "bulk": bulk["n"]}
    finally:
        st["armed"] = False
        env.close()
