"""Driver for spec/Cards.tla (C40).

* materialise: abstract (type, value) states enumerated by TLC (CardsMC) -> dynamically created
  dataclasses deriving from eko.io.dictlike.DictLike and concrete values
* abstract: real objects (TheoryCard, OperatorCard, ...) and their type annotations -> the
  value / type vocabulary of Cards.tla (projection function)
* observe: obj.raw -> plain? -> yaml.safe_dump -> yaml.safe_load -> from_dict -> field-wise
  comparison; the outcome is reported in the vocabulary of Cards!Outcome
"""

from __future__ import annotations

import dataclasses
import enum
import math
import re
import typing

import numpy as np
import numpy.typing as npt
import yaml

from harness.core import MachineryError, parse_tla_value


class Color(enum.Enum):
    RED = "red"
    BLUE = "blue"


# --------------------------------------------------------------------------------------
# TLC dump -> states
# --------------------------------------------------------------------------------------

def parse_dump(text: str):
    """States of a TLC `-dump` file as [{var: value}]."""
    states = []
    for block in re.split(r"\nState \d+:\n", "\n" + text):
        block = block.strip()
        if not block:
            continue
        vars_ = {}
        for part in re.split(r"(?:^|\n)/\\ ", "\n" + block):
            part = part.strip()
            if not part:
                continue
            name, val = part.split("=", 1)
            vars_[name.strip()] = parse_tla_value(val.strip())
        states.append(vars_)
    return states


# --------------------------------------------------------------------------------------
# abstract -> concrete
# --------------------------------------------------------------------------------------

class Env:
    """Token -> concrete number, fixed per materialised instance."""

    def __init__(self, rng):
        xs = sorted({round(rng.uniform(1e-4, 0.9), 6) for _ in range(3)} | {1.0})
        while len(xs) < 4:
            xs = sorted(set(xs) | {round(rng.uniform(1e-4, 0.9), 6)})
        self.tok = {
            "f1": rng.uniform(-50, 50), "f2": rng.choice([0.5, 1.25, -3.0, 1e-3 * rng.randrange(1, 999)]),
            "f3": rng.choice([math.nan, rng.uniform(1, 200)]),
            "i1": rng.randrange(-9, 99), "i2": rng.randrange(0, 7),
            "x1": xs[0], "x2": xs[1], "x3": xs[2],
            "s1": rng.choice(["abc", "x y", "0.14.2", "true", ""]),
        }

    def num(self, a):
        return self.tok[a]


def py_type(T, classes):
    """Type record of Cards.tla -> Python annotation (classes: cache of created dataclasses)."""
    from eko.interpolation import XGrid
    from eko.io.dictlike import DictLike
    from eko.io.types import ReferenceRunning

    t = T["t"]
    if t in ("float", "int", "bool", "str", "dict"):
        return {"float": float, "int": int, "bool": bool, "str": str, "dict": dict}[t]
    if t == "none":
        return type(None)
    if t == "enum":
        return Color
    if t == "array":
        return {"NDArray": npt.NDArray, "NDArray[float64]": npt.NDArray[np.float64], "ndarray": np.ndarray}[T["cls"]]
    if t == "xgrid":
        return XGrid
    if t == "tuple":
        return typing.Tuple[tuple(py_type(a, classes) for a in T["args"])]
    if t == "list":
        inner = py_type(T["args"][0], classes)
        if T["cls"] == "ReferenceRunning":
            return ReferenceRunning[inner]
        return typing.List[inner]
    if t == "union":
        return typing.Union[tuple(py_type(a, classes) for a in T["args"])]
    if t == "obj":
        key = repr(T)
        if key not in classes:
            fields = [(n, py_type(a, classes)) for n, a in zip(T["names"], T["args"])]
            classes[key] = dataclasses.make_dataclass(T["cls"], fields, bases=(DictLike,))
        return classes[key]
    raise MachineryError(f"unknown type tag {t}")


def py_value(v, T, env, classes):
    """Value record -> concrete Python object of the annotated type."""
    from eko.interpolation import XGrid
    from eko.io.types import ReferenceRunning

    T = unwrap_opt(T, v)
    k = v["k"]
    if k == "pyfloat":
        return float(env.num(v["a"]))
    if k == "pyint":
        return int(env.num(v["a"]))
    if k == "npfloat64":
        return np.float64(env.num(v["a"]))
    if k == "npfloat32":
        return np.float32(env.num(v["a"]))
    if k == "npint64":
        return np.int64(env.num(v["a"]))
    if k == "npint32":
        return np.int32(env.num(v["a"]))
    if k == "pybool":
        return v["a"] == "True"
    if k == "npbool":
        return np.bool_(v["a"] == "True")
    if k == "pystr":
        return str(env.tok.get(v["a"], v["a"]))
    if k == "none":
        return None
    if k == "enum":
        return Color[v["a"]]
    if k == "array":
        def arr(x):
            if x["k"] == "array":
                return [arr(c) for c in x["kids"]]
            return float(env.num(x["a"])) if x["k"] == "pyfloat" else int(env.num(x["a"]))
        return np.array(arr(v))
    if k == "xgrid":
        return XGrid([env.num(c["a"]) for c in v["kids"]], log=v["a"] == "log")
    if k == "dict":
        return {n: py_value(c, None, env, classes) for n, c in zip(v["n"], v["kids"])}
    if k == "tuple":
        return tuple(py_value(c, None, env, classes) for c in v["kids"])
    if k == "list":
        sub = T["args"][0] if T and T["t"] == "list" else None
        items = [py_value(c, sub, env, classes) for c in v["kids"]]
        return ReferenceRunning(items) if v["a"] == "ReferenceRunning" else items
    if k == "obj":
        cls = py_type(T, classes)
        return cls(**{n: py_value(c, a, env, classes) for n, c, a in zip(v["n"], v["kids"], T["args"])})
    raise MachineryError(f"unknown value kind {k}")


def unwrap_opt(T, v):
    """The type a value of an Optional has when present."""
    if T is not None and T["t"] == "union" and v["k"] != "none":
        return T["args"][0]
    return T


def materialise(T, v, rng):
    """State (T, v) of CardsMC -> (Holder class, holder instance, holder type/value records)."""
    classes = {}
    HT = {"t": "obj", "cls": "Holder", "args": [T], "names": ["x"], "en": []}
    HV = {"k": "obj", "a": "Holder", "kids": [v], "n": ["x"]}
    env = Env(rng)

    cls = py_type(HT, classes)
    obj = py_value(HV, HT, env, classes)
    return cls, obj, HT, HV


# --------------------------------------------------------------------------------------
# concrete -> abstract (projection)
# --------------------------------------------------------------------------------------

def atom(x):
    x = float(x)
    if math.isnan(x):
        return "nan"
    return repr(x)


def abs_value(o):
    from eko.interpolation import XGrid
    from eko.io.dictlike import DictLike

    def V(k, a="", kids=(), n=()):
        return {"k": k, "a": a, "kids": list(kids), "n": list(n)}

    if o is None:
        return V("none")
    if isinstance(o, (bool,)):
        return V("pybool", "True" if o else "False")
    if isinstance(o, np.bool_):
        return V("npbool", "True" if o else "False")
    if isinstance(o, np.floating):
        return V({"float64": "npfloat64", "float32": "npfloat32"}.get(o.dtype.name, "npfloat32"), atom(o))
    if isinstance(o, np.integer):
        return V({"int64": "npint64", "int32": "npint32"}.get(o.dtype.name, "npint32"), atom(o))
    if isinstance(o, float):
        return V("pyfloat", atom(o))
    if isinstance(o, int):
        return V("pyint", atom(o))
    if isinstance(o, str):
        return V("pystr", o)
    if isinstance(o, enum.Enum):
        return V("enum", o.name, [abs_value(o.value)], [type(o).__name__])
    if isinstance(o, np.ndarray):
        def arr(x):
            if isinstance(x, list):
                return V("array", "", [arr(c) for c in x])
            return abs_value(x)
        return arr(o.tolist())
    if isinstance(o, XGrid):
        return V("xgrid", "log" if o.log else "lin", [V("pyfloat", atom(x)) for x in o.raw])
    if isinstance(o, DictLike):
        fs = dataclasses.fields(o)
        return V("obj", type(o).__name__, [abs_value(getattr(o, f.name)) for f in fs], [f.name for f in fs])
    if isinstance(o, tuple):
        return V("tuple", "", [abs_value(c) for c in o])
    if isinstance(o, list):
        return V("list", "" if type(o) is list else type(o).__name__, [abs_value(c) for c in o])
    if isinstance(o, dict):
        return V("dict", "", [abs_value(c) for c in o.values()], [str(k) for k in o])
    raise MachineryError(f"cannot abstract {type(o)}")


def abs_type(tp):
    """Annotation -> type record, following load_field's own case analysis of annotations."""
    from eko.interpolation import XGrid
    from eko.io.dictlike import DictLike

    def Ty(t, cls="", args=(), names=(), en=()):
        return {"t": t, "cls": cls, "args": list(args), "names": list(names), "en": list(en)}

    if hasattr(tp, "__supertype__"):
        return abs_type(tp.__supertype__)
    if tp is npt.NDArray:
        return Ty("array", "NDArray")
    origin = typing.get_origin(tp)
    if origin is npt.NDArray:
        return Ty("array", "NDArray[float64]")
    if origin is not None:
        args = typing.get_args(tp)
        if origin is typing.Union:
            return Ty("union", "", [abs_type(a) for a in args])
        if origin is np.ndarray:
            return Ty("array", "ndarray")
        if isinstance(origin, type) and issubclass(origin, (list, typing.Generic)):
            return Ty("list", "" if origin is list else origin.__name__, [abs_type(args[0])])
        if origin is tuple:
            return Ty("tuple", "", [abs_type(a) for a in args])
        return abs_type(origin)
    if tp is type(None):
        return Ty("none")
    if tp in (float, int, bool, str):
        return Ty(tp.__name__)
    if tp in (dict, typing.Dict):
        return Ty("dict")
    if isinstance(tp, type) and issubclass(tp, np.ndarray):
        return Ty("array", "ndarray")
    if isinstance(tp, type) and issubclass(tp, XGrid):
        return Ty("xgrid")
    if isinstance(tp, type) and issubclass(tp, DictLike):
        fs = dataclasses.fields(tp)
        return Ty("obj", tp.__name__, [abs_type(f.type) for f in fs], [f.name for f in fs])
    if isinstance(tp, type) and issubclass(tp, enum.Enum):
        return Ty("enum", tp.__name__, en=[{"n": m.name, "v": abs_value(m.value)} for m in tp])
    raise MachineryError(f"cannot abstract annotation {tp!r}")


# --------------------------------------------------------------------------------------
# observation
# --------------------------------------------------------------------------------------

def kind_of(x):
    if isinstance(x, np.bool_):
        return "npbool"
    if isinstance(x, np.floating):
        return {"float64": "npfloat64", "float32": "npfloat32"}.get(x.dtype.name, "npfloat32")
    if isinstance(x, np.integer):
        return {"int64": "npint64", "int32": "npint32"}.get(x.dtype.name, "npint32")
    if isinstance(x, np.ndarray):
        return "array"
    if isinstance(x, tuple):
        return "tuple"
    if isinstance(x, enum.Enum):
        return "enum"
    if isinstance(x, list):
        return "list"
    if dataclasses.is_dataclass(x):
        return "obj"
    return type(x).__name__


def is_plain(x):
    if x is None or type(x) in (bool, int, float, str):
        return True
    if type(x) is list:
        return all(is_plain(c) for c in x)
    if type(x) is dict:
        return all(type(k) is str and is_plain(c) for k, c in x.items())
    return False


def bad_pos(obj, raw, parent="field"):
    """First non-plain leaf of `raw`, descending in parallel with the original object."""
    from eko.io.dictlike import DictLike

    if is_plain(raw):
        return ("", "")
    if isinstance(obj, DictLike) and type(raw) is dict:
        for f in dataclasses.fields(obj):
            if f.name in raw and not is_plain(raw[f.name]):
                return bad_pos(getattr(obj, f.name), raw[f.name], "obj")
    if isinstance(obj, (list, tuple)) and type(raw) is list and len(obj) == len(raw):
        for o, r in zip(obj, raw):
            if not is_plain(r):
                return bad_pos(o, r, "tuple" if isinstance(obj, tuple) else "list")
    return (kind_of(raw), parent)


def diff(a, b, path="$"):
    """'' when b carries the same field values as a, else (class, path) of the first difference."""
    from eko.interpolation import XGrid
    from eko.io.dictlike import DictLike

    if a is None or b is None:
        if a is None and b is None:
            return ""
        if isinstance(a, np.ndarray):
            return ("array-not-restored", path)
        return ("optional-none-coerced" if a is None else "value-differs", path)
    if isinstance(a, XGrid):
        if not isinstance(b, XGrid) or len(a.raw) != len(b.raw) or not np.array_equal(a.raw, b.raw):
            return ("value-differs", path)
        if bool(a.log) != bool(b.log):
            return ("xgrid-log-flag-lost", path)
        return ""
    if isinstance(a, np.ndarray):
        if not isinstance(b, np.ndarray):
            return ("array-not-restored", path)
        if a.shape != b.shape:
            return ("value-differs", path)
        same = np.array_equal(a, b, equal_nan=True) if a.dtype.kind in "fc" else np.array_equal(a, b)
        return "" if same else ("value-differs", path)
    if isinstance(a, enum.Enum):
        return "" if a is b else ("value-differs", path)
    if isinstance(a, DictLike):
        if type(a) is not type(b):
            return ("value-differs", path)
        for f in dataclasses.fields(a):
            d = diff(getattr(a, f.name), getattr(b, f.name), f"{path}.{f.name}")
            if d:
                return d
        return ""
    if isinstance(a, tuple):
        if not isinstance(b, tuple) or len(a) != len(b):
            return ("value-differs", path)
        for i, (x, y) in enumerate(zip(a, b)):
            d = diff(x, y, f"{path}[{i}]")
            if d:
                return d
        return ""
    if isinstance(a, list):
        if type(a) is not type(b) or len(a) != len(b):
            return ("value-differs", path)
        for i, (x, y) in enumerate(zip(a, b)):
            d = diff(x, y, f"{path}[{i}]")
            if d:
                return d
        return ""
    if isinstance(a, dict):
        if not isinstance(b, dict) or list(a) != list(b) and set(a) != set(b):
            return ("value-differs", path)
        for k in a:
            d = diff(a[k], b[k], f"{path}[{k!r}]")
            if d:
                return d
        return ""
    if isinstance(a, (bool, np.bool_)):
        return "" if isinstance(b, (bool, np.bool_)) and bool(a) == bool(b) else ("value-differs", path)
    if isinstance(a, (int, float, np.number)):
        if isinstance(b, (bool, np.bool_)) or not isinstance(b, (int, float, np.number)):
            return ("value-differs", path)
        fa, fb = float(a), float(b)
        return "" if fa == fb or (math.isnan(fa) and math.isnan(fb)) else ("value-differs", path)
    return "" if type(a) is type(b) and a == b else ("value-differs", path)


def show(o):
    """repr with grids written out (the default repr of XGrid is an address)."""
    from eko.interpolation import XGrid
    from eko.io.dictlike import DictLike

    if isinstance(o, XGrid):
        return f"XGrid({[float(x) for x in o.raw]}, log={o.log})"
    if isinstance(o, DictLike):
        inner = ", ".join(f"{f.name}={show(getattr(o, f.name))}" for f in dataclasses.fields(o))
        return f"{type(o).__name__}({inner})"
    if isinstance(o, tuple):
        return "(" + ", ".join(show(c) for c in o) + ("," if len(o) == 1 else "") + ")"
    if type(o) is list:
        return "[" + ", ".join(show(c) for c in o) + "]"
    if isinstance(o, list):
        return f"{type(o).__name__}([" + ", ".join(show(c) for c in o) + "])"
    return repr(o)


def observe(cls, obj):
    """raw -> safe_dump -> safe_load -> from_dict -> compare.

    Returns the observation {oc, d1, d2, where, exc} (oc/d1/d2 as in CardsTrace!ObsStr)."""
    rec = {"oc": "", "d1": "", "d2": "", "where": "", "exc": ""}
    try:
        raw = obj.raw
    except Exception as ex:  # noqa: BLE001
        rec.update(oc="raw-failed:" + type(ex).__name__, exc=repr(ex)[:200])
        return rec
    plain = is_plain(raw)
    try:
        text = yaml.safe_dump(raw)
        dumped = True
    except yaml.YAMLError as ex:
        dumped = False
        rec["exc"] = type(ex).__name__
    if not dumped:
        kind, parent = bad_pos(obj, raw)
        rec.update(oc="not-plain", d1=kind, d2=parent)
        return rec
    if not plain:
        kind, parent = bad_pos(obj, raw)
        rec["where"] = f"non-plain-but-dumped:{kind}-in-{parent}"
    try:
        back_raw = yaml.safe_load(text)
    except yaml.YAMLError as ex:
        rec.update(oc="safe-load-refused", exc=type(ex).__name__)
        return rec
    try:
        back = cls.from_dict(back_raw)
    except Exception as ex:  # noqa: BLE001
        rec.update(oc="load-failed", d1=type(ex).__name__, exc=repr(ex)[:200])
        return rec
    d = diff(obj, back)
    if d:
        rec.update(oc="differs", d1=d[0], where=d[1])
    else:
        rec["oc"] = "ok"
    return rec


# --------------------------------------------------------------------------------------
# real cards
# --------------------------------------------------------------------------------------

def leaf_paths(o, path=()):
    """Paths of all scalar leaves (python float/int/bool) of a card object."""
    from eko.interpolation import XGrid
    from eko.io.dictlike import DictLike

    if isinstance(o, DictLike):
        for f in dataclasses.fields(o):
            yield from leaf_paths(getattr(o, f.name), path + (("attr", f.name),))
    elif isinstance(o, (list, tuple)):
        for i, c in enumerate(o):
            yield from leaf_paths(c, path + (("idx", i),))
    elif isinstance(o, (XGrid, np.ndarray, str, enum.Enum)) or o is None:
        return
    elif isinstance(o, (bool, int, float)):
        yield path, o


def replace_at(o, path, new):
    """Copy of `o` (containers rebuilt, tuples included) with the leaf at `path` replaced."""
    import copy

    if not path:
        return new
    (kind, key), rest = path[0], path[1:]
    if kind == "attr":
        c = copy.copy(o)
        setattr(c, key, replace_at(getattr(o, key), rest, new))
        return c
    items = list(o)
    items[key] = replace_at(items[key], rest, new)
    if isinstance(o, tuple):
        return tuple(items)
    c = copy.copy(o)
    c[:] = items
    return c


def path_text(path):
    return "".join(f".{k}" if kind == "attr" else f"[{k}]" for kind, k in path)


NP_FOR = {
    float: (("npfloat64", np.float64), ("npfloat32", np.float32)),
    int: (("npint64", np.int64), ("npint32", np.int32)),
    bool: (("npbool", np.bool_),),
}


def random_theory(rng):
    from eko.io.runcards import TheoryCard
    from eko.io.types import ReferenceRunning
    from eko.quantities.couplings import CouplingsInfo
    from eko.quantities.heavy_quarks import HeavyInfo, HeavyQuarks, QuarkMassScheme

    scheme = rng.choice(list(QuarkMassScheme))
    ms = sorted(rng.uniform(1.2, 200.0) for _ in range(3))
    masses = HeavyQuarks([
        ReferenceRunning([m, math.nan if scheme is QuarkMassScheme.POLE else rng.uniform(1.0, 200.0)]) for m in ms
    ])
    order = (rng.randrange(1, 5), rng.randrange(0, 3))
    return TheoryCard(
        order=order,
        couplings=CouplingsInfo(alphas=rng.uniform(0.1, 0.4), alphaem=rng.uniform(0.007, 0.008),
                                ref=(rng.uniform(1.5, 100.0), rng.randrange(3, 7)), em_running=rng.random() < 0.5),
        heavy=HeavyInfo(masses=masses, masses_scheme=scheme,
                        matching_ratios=HeavyQuarks([rng.choice([1.0, 0.5, 2.0, rng.uniform(0.5, 2)]) for _ in range(3)])),
        xif=rng.choice([1.0, 0.5, 2.0, rng.uniform(0.5, 2.0)]),
        n3lo_ad_variation=tuple(rng.randrange(0, 4) for _ in range(7)),
        use_fhmruvv=rng.choice([True, False]),
        matching_order=rng.choice([None, (order[0] - 1, 0), (rng.randrange(0, 4), 0)]),
    )


def random_operator(rng, log=None, degree=None):
    from eko.interpolation import XGrid
    from eko.io.runcards import Configs, Debug, OperatorCard
    from eko.io.types import EvolutionMethod, InversionMethod, ScaleVariationsMethod

    log = rng.random() < 0.5 if log is None else log
    npts = rng.randrange(5, 9)
    if log:
        pts = np.geomspace(10 ** rng.uniform(-7, -2), 1.0, npts)
    else:
        pts = np.linspace(rng.uniform(0.01, 0.3), 1.0, npts)
    degree = degree or rng.randrange(1, 5)
    return OperatorCard(
        init=(rng.uniform(1.0, 5.0), rng.randrange(3, 5)),
        mugrid=[(rng.uniform(2.0, 1e3), rng.randrange(3, 7)) for _ in range(rng.randrange(1, 4))],
        xgrid=XGrid(pts.tolist(), log=log),
        configs=Configs(
            evolution_method=rng.choice(list(EvolutionMethod)),
            ev_op_max_order=(rng.randrange(1, 11), rng.randrange(0, 3)),
            ev_op_iterations=rng.randrange(1, 31),
            scvar_method=rng.choice([None] + list(ScaleVariationsMethod)),
            inversion_method=rng.choice([None] + list(InversionMethod)),
            interpolation_polynomial_degree=degree,
            interpolation_is_log=log,
            polarized=rng.random() < 0.5,
            time_like=rng.random() < 0.5,
            n_integration_cores=rng.randrange(1, 5),
        ),
        debug=Debug(skip_singlet=rng.random() < 0.5, skip_non_singlet=rng.random() < 0.5),
    )
