"""Driver for spec/Dispatch.tla: a configuration record -> concrete tiny cards -> shimmed real
solve -> outcome record (kind, exception class, message, finiteness)."""
import copy
import itertools
import random

import numpy as np

METHODS = ["iterate-exact", "iterate-expanded", "perturbative-exact", "perturbative-expanded",
           "truncated", "ordered-truncated", "decompose-exact", "decompose-expanded"]
SVS = ["none", "expo", "expanded"]
SHAPES = ["single", "up", "down", "point", "wall"]
DEGENERATE_METHODS = ("iterate-exact", "truncated")
INVS = ["none", "exact", "expanded"]


def domain():
    for qcd, qed, m, sv, pol, tl, shape, inv, emrun, top in itertools.product(
            (1, 2, 3, 4), (0, 1, 2), METHODS, SVS, (False, True), (False, True), SHAPES, INVS, (False, True), (False, True)):
        if qed == 0 and emrun:
            continue  # em_running without QED is C55's subject
        if shape != "down" and inv != "none":
            continue  # inversion method without a downward matching is C55's subject
        if shape in ("point", "wall") and m not in DEGENERATE_METHODS:
            continue
        yield dict(qcd=qcd, qed=qed, method=m, sv=sv, pol=pol, tl=tl, shape=shape, inv=inv, emrun=emrun, top=top)


def cards(cfg, seed=0, iterations=2, max_order=(3, 0), xif=None, n3lo=(0,) * 7, fhmruvv=True):
    from ekobox.cards import example
    from eko.io import runcards

    rng = random.Random(seed)
    th = copy.deepcopy(example.raw_theory())
    op = copy.deepcopy(example.raw_operator())
    th["order"] = [cfg["qcd"], cfg["qed"]]
    th["matching_order"] = [cfg["qcd"] - 1, 0]
    th["couplings"]["em_running"] = bool(cfg["emrun"])
    th["couplings"]["alphas"] = 0.118
    th["couplings"]["ref"] = (91.2, 5)
    th["heavy"]["masses"] = [[1.51, float("nan")], [4.92, float("nan")], [172.5, float("nan")]]
    th["heavy"]["matching_ratios"] = [1.0, rng.choice([1.0, 1.3]), 1.0]
    th["xif"] = 1.0 if cfg["sv"] == "none" else (xif or rng.choice([0.7, 2.0]))
    th["n3lo_ad_variation"] = tuple(n3lo)
    th["use_fhmruvv"] = fhmruvv
    mb = 4.92 * th["heavy"]["matching_ratios"][1]
    # the flavour window is drawn from the seed: single patch nf 3..6, one crossing 3-4, 4-5 or 5-6;
    # in the nf = 4 patch half of the cards start below the tau mass (1.777 GeV)
    mus = {3: 1.25, 4: rng.choice([1.6, 2.2]), 5: mb * 1.4, 6: 300.0}
    hi = {3: 1.45, 4: 3.9, 5: 60.0, 6: 500.0}
    th["heavy"]["matching_ratios"][0] = 1.0
    if cfg["shape"] in ("single", "point"):
        nf = 6 if cfg.get("top") else rng.choice([3, 4, 4, 5])
        op["init"] = (mus[nf], nf)
        op["mugrid"] = [(hi[nf], nf)] if cfg["shape"] == "single" else [(mus[nf], nf)]
    elif cfg["shape"] == "wall":
        lo_nf = 5 if cfg.get("top") else rng.choice([3, 4, 4])
        op["init"] = (mus[lo_nf] if lo_nf != 4 else rng.choice([1.6, 3.0]), lo_nf)
        op["mugrid"] = [({3: 1.51, 4: mb, 5: 172.5}[lo_nf], lo_nf + 1)]
    else:
        lo_nf = 5 if cfg.get("top") else rng.choice([3, 4, 4])
        a = (mus[lo_nf] if lo_nf != 4 else rng.choice([1.6, 3.0]), lo_nf)
        b = (hi[lo_nf + 1] if lo_nf + 1 != 5 else mb * 1.4, lo_nf + 1)
        if cfg["shape"] == "up":
            op["init"], op["mugrid"] = a, [b]
        else:
            op["init"], op["mugrid"] = b, [a]
    op["xgrid"] = [0.2, 1.0]
    c = op["configs"]
    c["evolution_method"] = cfg["method"]
    c["ev_op_iterations"] = iterations
    c["ev_op_max_order"] = list(max_order)
    c["interpolation_polynomial_degree"] = 1
    c["scvar_method"] = {"none": None, "expo": "exponentiated", "expanded": "expanded"}[cfg["sv"]]
    c["inversion_method"] = None if cfg["inv"] == "none" else cfg["inv"]
    c["polarized"] = cfg["pol"]
    c["time_like"] = cfg["tl"]
    return runcards.TheoryCard.from_dict(th), runcards.OperatorCard.from_dict(op)


def solve(cfg, seed=0, cores=1, **kw):
    """Returns the outcome record for DispatchTrace plus digests of the operators."""
    import eko
    from eko.io.struct import EKO
    from harness.drivers import runner

    out = dict(cfg=dict(cfg), kind="finite", exc="", msg="", allFinite=True, digest="")
    try:
        th, op = cards(cfg, seed=seed, **kw)
        op.configs.n_integration_cores = cores
    except Exception as ex:  # noqa: BLE001
        out.update(kind=type(ex).__name__, exc=type(ex).__name__, msg="cards:" + str(ex)[:150])
        return out
    with runner.scratch() as root, runner.shimmed():
        try:
            eko.solve(th, op, root / "o.tar")
            with EKO.read(root / "o.tar") as e:
                ds = []
                for ep in sorted(e):
                    o = e[ep]
                    fin = bool(np.isfinite(o.operator).all()) and (o.error is None or bool(np.isfinite(o.error).all()))
                    out["allFinite"] = out["allFinite"] and fin
                    ds.append(runner.digest(o.operator) + runner.digest(o.error))
                out["digest"] = "|".join(ds)
                out["arrays"] = {str(ep): e[ep].operator.copy() for ep in e}
        except Exception as ex:  # noqa: BLE001
            name = type(ex).__name__
            out.update(kind=name if name in ("NotImplementedError", "ValueError") else "other", exc=name, msg=str(ex)[:150])
    return out


# ------------------------------------------------------------------------------------------
# flavour-block projections (C01, C52)
# ------------------------------------------------------------------------------------------

PATCH_MU = {3: 1.2, 4: 3.0, 5: 20.0, 6: 300.0}
MASSES = [1.51, 4.92, 172.5]


ROUNDING = 1e-14


def blocks(op):
    """14 x 14 codes: 0 zero block, 1 the identity, 2 anything else.

    The flavour rotation multiplies by weights like 1/3 and 1/6, which leaves rounding noise of a
    few 1e-17 in the stored identity; a block counts as zero / identity when it is within
    ROUNDING = 1e-14 (absolute) of it - nine decades below any perturbative or interpolation effect."""
    n = op.shape[1]
    eye = np.eye(n)
    out = []
    for a in range(14):
        row = []
        for b in range(14):
            blk = op[a, :, b, :]
            if not np.isfinite(blk).all():
                row.append(2)
            elif np.abs(blk).max() <= ROUNDING:
                row.append(0)
            elif np.abs(blk - eye).max() <= ROUNDING:
                row.append(1)
            else:
                row.append(2)
        out.append(row)
    return out


def general_cards(rng, nf_from, nf_to, *, qcd=1, qed=0, sv="none", xif=1.0, pol=False, tl=False, method=None,
                  same_point=False, on_wall=False, xgrid=None, degree=None):
    from ekobox.cards import example
    from eko.io import runcards

    th = copy.deepcopy(example.raw_theory())
    op = copy.deepcopy(example.raw_operator())
    th["order"] = [qcd, qed]
    th["matching_order"] = [qcd - 1, 0]
    th["couplings"]["em_running"] = bool(qed and rng.random() < 0.5)
    th["couplings"]["ref"] = (91.2, 5)
    th["heavy"]["masses"] = [[m, float("nan")] for m in MASSES]
    th["heavy"]["matching_ratios"] = [1.0, 1.0, 1.0]
    th["xif"] = xif
    mu0 = PATCH_MU[nf_from] * rng.uniform(0.9, 1.1)
    if on_wall and nf_from >= 4:
        mu0 = MASSES[nf_from - 4]  # exactly on the lower wall of its patch
    op["init"] = (mu0, nf_from)
    if same_point:
        op["mugrid"] = [(mu0, nf_from)]
    else:
        op["mugrid"] = [(PATCH_MU[nf_to] * rng.uniform(1.15, 1.3), nf_to)]
    op["xgrid"] = xgrid or [0.2, 1.0]
    c = op["configs"]
    c["evolution_method"] = method or ("iterate-exact" if qed else rng.choice(METHODS))
    c["ev_op_iterations"] = 2
    c["ev_op_max_order"] = [3, 0]
    c["interpolation_polynomial_degree"] = degree or 1
    c["scvar_method"] = {"none": None, "expo": "exponentiated", "expanded": "expanded"}[sv]
    c["inversion_method"] = rng.choice(["exact", "expanded"])
    c["polarized"] = pol
    c["time_like"] = tl
    return runcards.TheoryCard.from_dict(th), runcards.OperatorCard.from_dict(op)


def sibling_solve(th, op, rng):
    """A solve earlier in the same process that differs from (th, op) in ONE field: the initial nf
    (same scale: also an accepted point), or the QCD order, or the method.  Its result is thrown
    away; whatever module-level state it leaves behind must not reach the next solve."""
    import eko
    from harness.drivers import runner

    th2, op2 = copy.deepcopy(th), copy.deepcopy(op)
    what = rng.choice(["nf0", "nf0", "order", "method"])
    if what == "nf0":
        mu0, nf0 = op2.init
        nf2 = rng.choice([n for n in (nf0 - 1, nf0 + 1) if 3 <= n <= 6])
        op2.init = (mu0, nf2)
        op2.mugrid = [(mu0, nf2)] if len(op2.mugrid) == 1 and tuple(op2.mugrid[0]) == (mu0, nf0) else op2.mugrid
    elif what == "order":
        qcd = th2.order[0]
        th2.order = (qcd - 1 if qcd > 1 else qcd + 1, th2.order[1])
        th2.matching_order = (th2.order[0] - 1, 0)
    else:
        from eko.io.types import EvolutionMethod

        op2.configs.evolution_method = EvolutionMethod.TRUNCATED if op2.configs.evolution_method != EvolutionMethod.TRUNCATED else EvolutionMethod.ITERATE_EXACT
    with runner.scratch() as root, runner.shimmed():
        try:
            eko.solve(th2, op2, root / "sib.tar")
        except Exception:  # noqa: BLE001 - only its side effects matter
            pass
    return what


def solve_blocks(th, op):
    import eko
    from eko.io.struct import EKO
    from harness.drivers import runner

    out = dict(kind="finite", exc="none", msg="", blocks=[])
    with runner.scratch() as root, runner.shimmed():
        try:
            eko.solve(th, op, root / "o.tar")
            with EKO.read(root / "o.tar") as e:
                ep = list(e)[0]
                out["blocks"] = blocks(e[ep].operator)
        except Exception as ex:  # noqa: BLE001
            name = type(ex).__name__
            out.update(kind=name if name in ("NotImplementedError", "ValueError") else "other", exc=name, msg=str(ex)[:150])
    return out
