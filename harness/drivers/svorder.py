"""Measurements for C51 (scale-varied versus central operators), shimmed real solves."""
import copy
import math
import random

import numpy as np


def _solve(order, sv, xif, lam, method, pol, shape, seed):
    import eko
    from ekobox.cards import example
    from eko.io import runcards
    from eko.io.struct import EKO
    from harness.drivers import runner

    th = copy.deepcopy(example.raw_theory())
    op = copy.deepcopy(example.raw_operator())
    th["order"] = [order, 0]
    th["matching_order"] = [order - 1, 0]
    th["couplings"]["alphas"] = 0.35 * lam
    th["couplings"]["ref"] = (3.0, 4)
    mb = 30.0 if shape == "single" else 4.5
    th["heavy"]["masses"] = [[1.2, float("nan")], [mb, float("nan")], [172.0, float("nan")]]
    th["xif"] = xif
    if shape == "down":
        op["init"] = (6.0, 5)
        op["mugrid"] = [(3.0, 4)]
    else:
        op["init"] = (3.0, 4)
        op["mugrid"] = [(6.0, 4 if shape == "single" else 5)]
    op["xgrid"] = [0.2, 1.0]
    c = op["configs"]
    c["evolution_method"] = method
    c["interpolation_polynomial_degree"] = 1
    c["scvar_method"] = sv
    c["polarized"] = pol
    c["ev_op_iterations"] = 3
    c["inversion_method"] = "expanded"
    with runner.scratch() as root, runner.shimmed():
        eko.solve(runcards.TheoryCard.from_dict(th), runcards.OperatorCard.from_dict(op), root / "o.tar")
        with EKO.read(root / "o.tar") as e:
            o = e[list(e)[0]]
            return o.operator.copy(), None if o.error is None else o.error.copy()


SV = {"expo": "exponentiated", "expanded": "expanded"}


def unit_cell(args):
    cell, seed = args
    rec = {"ev": "unit", "cell": cell, "err": "", "same": False}
    try:
        a = _solve(cell["order"], None, 1.0, 1.0, cell["method"], False, cell["shape"], seed)
        b = _solve(cell["order"], SV[cell["scheme"]], 1.0, 1.0, cell["method"], False, cell["shape"], seed)
        rec["same"] = bool(a[0].tobytes() == b[0].tobytes() and a[1].tobytes() == b[1].tobytes())
    except Exception as ex:  # noqa: BLE001
        rec["err"] = type(ex).__name__ + ":" + str(ex)[:80]
    return rec


def order_cell(args):
    cell, seed = args
    rng = random.Random(seed)
    xif = rng.uniform(0.6, 0.85) if cell["side"] == "below" else rng.uniform(1.3, 1.8)
    rec = {"ev": "order", "cell": cell, "err": "", "e100": 0, "resolved": True, "ds": []}
    try:
        ds = []
        for lam in (0.0625, 0.03125, 0.015625):
            o0 = _solve(cell["order"], None, 1.0, lam, "truncated", cell["pol"], cell["shape"], seed)[0]
            o1 = _solve(cell["order"], SV[cell["scheme"]], xif, lam, "truncated", cell["pol"], cell["shape"], seed)[0]
            ds.append(float(np.abs(o1 - o0).max() / np.abs(o0).max()))
        rec["ds"] = ["%.3e" % d for d in ds]
        if min(ds) < 1e-13:
            rec["resolved"] = False   # below rounding: nothing to classify
        else:
            rec["e100"] = int(round(100 * max(math.log2(ds[0] / ds[1]), math.log2(ds[1] / ds[2]))))
    except Exception as ex:  # noqa: BLE001
        rec["err"] = type(ex).__name__ + ":" + str(ex)[:80]
    return rec
