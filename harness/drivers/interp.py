"""Driver shared by C34 / C35 / C42 / C43: exact probing of eko.interpolation on dyadic grids
(rationals recovered with fractions.Fraction under a residual + uniqueness guard), law
measurements on random grids (integer decades only), synthetic EKOs written through the real
store, small exact-integer helpers.

Nothing here decides a property: records are written for spec/InterpTrace.tla and
spec/ApplyTrace.tla, TLC evaluates the predicates."""

from __future__ import annotations

import math
import pathlib
import shutil
import tempfile
from fractions import Fraction as F

import numpy as np

EPS = float(np.finfo(float).eps)


# --------------------------------------------------------------------------------------
# rationals
# --------------------------------------------------------------------------------------


def rj(fr: F):
    """Fraction -> [num, den] (ints) for TLC."""
    return [int(fr.numerator), int(fr.denominator)]


def recover(v: float, maxden: int, tol: float):
    """Recover the rational a float stands for: the unique fraction with denominator <= maxden
    within `tol` of v, or None (guard failed: "unresolved")."""
    v = float(v)
    if not math.isfinite(v):
        return None
    fv = F(v)
    f = fv.limit_denominator(maxden)
    if abs(fv - f) > tol:
        return None
    # two distinct fractions with denominators <= B differ by at least 1/B^2
    if 2.0 * tol * maxden * maxden >= 1.0:
        return None
    return f


def rounded(v: float):
    """A value that is NOT the small-denominator rational it should be (recover failed): the
    nearest multiple of 1/256 (TLC integers are 32 bit and the predicates multiply these numbers),
    so that TLC can still see that it differs from the exact result (deviations below 1/512 may
    round onto it: those are left to the law part)."""
    v = float(v)
    den = 256 if abs(v) < 1.0e5 else 1
    return F(int(round(v * den)), den)


def exact_int_array(a):
    """numpy array of floats holding integers -> nested lists of int, or None."""
    a = np.asarray(a)
    r = np.rint(a)
    if not np.all(r == a):
        return None
    return r.astype(np.int64).tolist()


# --------------------------------------------------------------------------------------
# C34 exact probing (linear mode, dyadic grids)
# --------------------------------------------------------------------------------------


def eval_set(g):
    """nodes and midpoints (same as Interp!EvalSet)."""
    pts = []
    for k, x in enumerate(g):
        pts.append(x)
        if k + 1 < len(g):
            pts.append((x + g[k + 1]) / 2)
    return pts


def _block_bound(g, kmin, kmax, j, S):
    """|prod_k (K_j - K_k)| with K = S x integers: every coefficient of the Lagrange polynomial
    of node j in this block has a denominator dividing it."""
    d = 1
    for k in range(kmin, kmax + 1):
        if k != j:
            d *= int((g[j] - g[k]) * S)
    return max(abs(d), 1)


def probe(raw, deg, targets=None):
    """Run the real InterpolatorDispatcher on the point list `raw` (Fractions, dyadic) in linear
    mode; return the trace record (kind "probe") and the number of unresolved recoveries."""
    from eko import interpolation

    rec = {"kind": "probe", "raw": [rj(x) for x in raw], "deg": int(deg), "err": "",
           "nonfinite": False, "offgrid": False, "areas": [], "pts": [], "vals": [], "tgts": []}
    try:
        xg = interpolation.XGrid([float(x) for x in raw], log=False)
        disp = interpolation.InterpolatorDispatcher(xg, deg, mode_N=False)
    except Exception as ex:  # noqa: BLE001 - the exception class is the observation
        rec["err"] = type(ex).__name__
        return rec, 0
    try:
        return _probe_body(rec, raw, deg, targets, disp)
    except _NonFinite:
        return {"kind": "probe", "raw": rec["raw"], "deg": int(deg), "err": "", "nonfinite": True, "offgrid": False,
                "areas": [], "pts": [], "vals": [], "tgts": []}, 0
    except Exception as ex:  # noqa: BLE001 - an accepted grid that cannot be evaluated
        return {"kind": "probe", "raw": rec["raw"], "deg": int(deg), "err": type(ex).__name__ + "-on-use",
                "nonfinite": False, "offgrid": False, "areas": [], "pts": [], "vals": [], "tgts": []}, 0


class _NonFinite(Exception):
    pass


def _finite(v):
    v = float(v)
    if not math.isfinite(v):
        raise _NonFinite()
    return v


def _off_lattice(v, maxden, scale):
    """True if v is farther than 1e-6 * scale from every fraction with denominator <= maxden."""
    fv = F(float(v))
    return abs(float(fv - fv.limit_denominator(max(int(maxden), 1)))) > 1e-6 * max(float(scale), 1e-300)


def _probe_body(rec, raw, deg, targets, disp):
    g = sorted(raw)
    if [float(x) for x in g] != [float(x) for x in disp.xgrid.raw]:
        rec["err"] = "grid-not-sorted-unique"
        return rec, 0
    n = len(g)
    lcm_den = 1
    for x in g:
        lcm_den = lcm_den * x.denominator // math.gcd(lcm_den, x.denominator)
    unresolved = 0
    pts = eval_set(g)
    rec["pts"] = [rj(x) for x in pts]
    for j, bf in enumerate(disp):
        arecs = []
        for a in bf.areas:
            kmin, kmax = int(a.kmin), int(a.kmax)
            ok = 0 <= kmin <= kmax < n
            dj = _block_bound(g, kmin, kmax, int(a.poly_number), lcm_den) if ok and kmin <= a.poly_number <= kmax else 1
            # the denominators of the coefficients divide D_j (see _block_bound); factor 4 slack
            maxden = dj
            coefs = []
            cmax = max(abs(_finite(c)) for c in a.coefs)
            for c in a.coefs:
                f = recover(c, maxden * 4, 64 * EPS * max(cmax, 1e-300))
                if f is None:
                    unresolved += 1
                    rec["offgrid"] = rec["offgrid"] or _off_lattice(c, maxden * 4, cmax)
                    f = F(float(c)).limit_denominator(maxden * 4)
                coefs.append(f)
            arecs.append({
                "xmin": rj(F(float(a.xmin))), "xmax": rj(F(float(a.xmax))),
                "kmin": kmin, "kmax": kmax, "coefs": [rj(c) for c in coefs],
                "_coefs": coefs, "_dj": dj,
            })
        rec["areas"].append(arecs)
    # values at the evaluation set
    def value(j, x):
        bf = disp[j]
        v = _finite(bf.evaluate_x(float(x)))
        scale = 0.0
        djmax = 1
        for a in rec["areas"][j]:
            s = sum(abs(c) * abs(x) ** i for i, c in enumerate(a["_coefs"]))
            scale = max(scale, float(s))
            djmax = max(djmax, a["_dj"])
        maxden = djmax * int((x * lcm_den).denominator) ** deg
        f = recover(v, maxden, 64 * EPS * max(scale, 1.0))
        if f is None:
            rec["offgrid"] = rec["offgrid"] or _off_lattice(v, maxden, max(scale, 1.0))
            return None
        return f

    for j in range(n):
        row = []
        for x in pts:
            f = value(j, x)
            if f is None:
                unresolved += 1
                f = F(0)
            row.append(rj(f))
        rec["vals"].append(row)
    for tgt in targets or []:
        R = disp.get_interpolation(np.array([float(x) for x in tgt]))
        rows = []
        for t, x in enumerate(tgt):
            row = []
            for j in range(n):
                v = _finite(R[t][j])
                scale = 1.0
                djmax = 1
                for a in rec["areas"][j]:
                    s = sum(abs(c) * abs(x) ** i for i, c in enumerate(a["_coefs"]))
                    scale = max(scale, float(s))
                    djmax = max(djmax, a["_dj"])
                f = recover(v, djmax * int((x * lcm_den).denominator) ** deg, 64 * EPS * scale)
                if f is None:
                    unresolved += 1
                    rec["offgrid"] = rec["offgrid"] or _off_lattice(v, djmax * int((x * lcm_den).denominator) ** deg, scale)
                    f = F(0)
                row.append(rj(f))
            rows.append(row)
        rec["tgts"].append({"tgt": [rj(x) for x in tgt], "R": rows})
    for arecs in rec["areas"]:
        for a in arecs:
            del a["_coefs"], a["_dj"]
    return rec, unresolved


# --------------------------------------------------------------------------------------
# C34 law measurements (random grids, log and linear mode)
# --------------------------------------------------------------------------------------


def decade(x: float) -> int:
    """ceil(log10(x)) clipped to [-20, 9]; 0 -> -20; nan/inf -> 9."""
    if not math.isfinite(x):
        return 9
    if x <= 1e-20:
        return -20
    return int(max(-20, min(9, math.ceil(math.log10(x) - 1e-12))))


def random_grid(rng, n, lo_dec, hi_dec, mode):
    """Sorted grid of n points in [x_min, 1] with x_min = 10**U(lo_dec, hi_dec), 1 included."""
    xmin = 10.0 ** rng.uniform(lo_dec, hi_dec)
    while True:
        pts = {xmin, 1.0}
        while len(pts) < n:
            if rng.random() < (0.8 if mode == "log" else 0.4):
                x = math.exp(rng.uniform(math.log(xmin), 0.0))
            else:
                x = rng.uniform(xmin, 1.0)
            pts.add(x)
        g = np.array(sorted(pts))
        # keep neighbouring points distinguishable in the interpolation variable
        u = np.log(g) if mode == "log" else g
        if np.min(np.diff(u)) > 1e-6 * (u[-1] - u[0]):
            return g


class Measured:
    """One real dispatcher with what the laws need: node variable u, normalised polynomials,
    conditioning bounds derived from the code's own coefficients."""

    def __init__(self, grid, deg, mode):
        from eko import interpolation

        self.mode = mode
        self.deg = deg
        self.grid = np.asarray(grid, dtype=float)
        self.xg = interpolation.XGrid(self.grid, log=(mode == "log"))
        self.disp = interpolation.InterpolatorDispatcher(self.xg, deg, mode_N=False)
        self.u = np.array(self.disp.xgrid.grid, dtype=float)
        self.n = len(self.u)
        self.c = 0.5 * (self.u[0] + self.u[-1])
        self.h = 0.5 * (self.u[-1] - self.u[0])

    def var(self, x):
        return math.log(x) if self.mode == "log" else x

    def q(self, m, u):
        """normalised monomial ((u - c)/h)^m, |q| <= 1 on the grid"""
        return ((u - self.c) / self.h) ** m

    def values(self, x):
        """basis values at x and the rounding bound of each (from the code's coefficients)"""
        u = self.var(x)
        vals = np.empty(self.n)
        bnd = np.empty(self.n)
        for j, bf in enumerate(self.disp):
            vals[j] = bf.evaluate_x(x)
            b = 0.0
            for a in bf.areas_representation:
                if a[0] - 1e-9 <= u <= a[1] + 1e-9:
                    s = 0.0
                    for i, cf in enumerate(a[2:]):
                        s += abs(cf) * abs(u) ** i
                    b = max(b, s)
            bnd[j] = b
        return vals, bnd

    def row_resid(self, x, vals, bnd, law):
        """residual and bound (floats) of one law at one point given the basis values there"""
        u = self.var(x)
        k = 8.0 * (self.deg + 2)
        if law == "Partition":
            return abs(vals.sum() - 1.0), EPS * (k * bnd.sum() + self.n)
        if law == "Kronecker":
            i = int(np.argmin(np.abs(self.u - u)))
            if abs(self.u[i] - u) > 0:
                return 0.0, 0.0
            d = np.zeros(self.n)
            d[i] = 1.0
            return float(np.max(np.abs(vals - d))), EPS * k * float(bnd.max())
        # PolyReproduce / Reinterp: all normalised monomials up to the degree
        r = 0.0
        for m in range(self.deg + 1):
            qn = self.q(m, self.u)
            r = max(r, abs(float(np.dot(qn, vals)) - self.q(m, u)))
        return r, EPS * (k * bnd.sum() + self.n * float(np.abs(vals).sum()) + 8.0)


def measure_cell(cell, sample, seed):
    """Measure one planned law cell on one random grid; returns the trace record (ints only)
    and a replay description.  An exception of the code on a valid request is reported as the
    worst class (the law cannot hold where the basis cannot be built / evaluated)."""
    try:
        return _measure_cell(cell, sample, seed)
    except Exception as ex:  # noqa: BLE001
        rec = {"kind": "law", "cell": cell, "sample": int(sample), "resid_e": 9, "bound_e": -20}
        return rec, {"cell": cell, "sample": sample, "raised": f"{type(ex).__name__}: {ex}",
                     "grid": [], "target": [0.0], "resid": float("inf"), "bound": 0.0}


def _measure_cell(cell, sample, seed):
    import random

    rng = random.Random(f"{seed}|{sorted(cell.items())}|{sample}")
    mode, deg, law = cell["mode"], cell["deg"], cell["law"]
    nlo, nhi = cell["size"]
    n = rng.randint(max(nlo, deg + 1), nhi)
    lo, hi = cell["xmin"]
    if law == "ReinterpTinyX":
        grid = random_grid(rng, n, -9.0, math.log10(4e-9), mode)
    else:
        grid = random_grid(rng, n, lo, hi, mode)
    ms = Measured(grid, deg, mode)
    resid, bound = 0.0, 0.0
    where = None
    if law in ("Partition", "Kronecker", "PolyReproduce"):
        pts = list(grid)
        if law != "Kronecker":
            pts += [0.5 * (a + b) for a, b in zip(grid[:-1], grid[1:])]
            for _ in range(2 * n):
                pts.append(math.exp(rng.uniform(math.log(grid[0]), 0.0)) if rng.random() < 0.6
                           else rng.uniform(grid[0], 1.0))
        for x in pts:
            x = min(max(float(x), float(grid[0])), 1.0)
            vals, bnd = ms.values(x)
            r, b = ms.row_resid(x, vals, bnd, law)
            bound = max(bound, b)
            if r >= resid:
                resid, where = r, x
    else:
        if law == "ReinterpTinyX":
            tgt = np.array(grid, dtype=float)
            # differs from the nodes only at the smallest point, by less than 1e-8 in x
            tgt[0] = grid[0] * (1.0 + rng.uniform(0.2, 1.0))
            if not tgt[0] < tgt[1]:
                tgt[0] = 0.5 * (grid[0] + grid[1])
        else:
            nt = rng.randint(2, 40)
            tl = [math.exp(rng.uniform(math.log(grid[0]), 0.0)) if rng.random() < 0.6
                  else rng.uniform(grid[0], 1.0) for _ in range(nt)]
            tl += [float(rng.choice(list(grid))) for _ in range(rng.randint(0, 3))]
            tgt = np.array(sorted(set(tl)))
        R = ms.disp.get_interpolation(tgt)
        for t, x in enumerate(tgt):
            _, bnd = ms.values(float(x))
            vals = np.asarray(R[t], dtype=float)
            for lw in ("Partition", "PolyReproduce"):
                r, b = ms.row_resid(float(x), vals, bnd, lw)
                bound = max(bound, b)
                if r >= resid:
                    resid, where = r, float(x)
    rec = {"kind": "law", "cell": cell, "sample": int(sample),
           "resid_e": decade(resid), "bound_e": decade(bound)}
    replay = {"cell": cell, "sample": sample, "grid": [float(x) for x in grid], "deg": deg,
              "mode": mode, "resid": resid, "bound": bound, "at": where}
    if law.startswith("Reinterp"):
        replay["target"] = [float(x) for x in tgt]
    return rec, replay


# --------------------------------------------------------------------------------------
# synthetic EKOs through the real store (C42, C43)
# --------------------------------------------------------------------------------------


class SyntheticEko:
    """An EKO created with eko.io.struct.EKO.create + Builder from the example cards with the
    operator card's xgrid / mugrid / interpolation settings replaced, holding given arrays."""

    def __init__(self, xgrid, deg, is_log, points, qed=False, reread=False):
        """points: list of ((mu, nf), operator array, error array | None)."""
        from eko.interpolation import XGrid
        from eko.io.items import Operator
        from eko.io.struct import EKO
        from ekobox.cards import example

        self.root = pathlib.Path(tempfile.mkdtemp(prefix="verif-eko-synth-"))
        self._oldtmp = tempfile.tempdir
        (self.root / "tmp").mkdir()
        tempfile.tempdir = str(self.root / "tmp")
        self.path = self.root / "synthetic.tar"
        th = example.theory()
        if qed:
            th.order = (1, 1)
        op = example.operator()
        op.xgrid = XGrid(list(xgrid), log=is_log)
        op.configs.interpolation_polynomial_degree = int(deg)
        op.configs.interpolation_is_log = bool(is_log)
        op.mugrid = [(float(mu), int(nf)) for (mu, nf), _, _ in points]
        self.eko = EKO.create(self.path).load_cards(th, op).build()
        self.eps = []
        for (mu, nf), arr, err in points:
            ep = (float(mu) ** 2, int(nf))
            self.eko[ep] = Operator(np.array(arr, dtype=float), None if err is None else np.array(err, dtype=float))
            self.eps.append(ep)
        if reread:
            self.eko.close()
            self.eko = EKO.read(self.path)

    def close(self):
        try:
            if self.eko is not None:
                p = self.eko.metadata._path
                try:
                    self.eko.close()
                except Exception:  # noqa: BLE001
                    pass
                if p is not None:
                    shutil.rmtree(p, ignore_errors=True)
        finally:
            tempfile.tempdir = self._oldtmp
            shutil.rmtree(self.root, ignore_errors=True)


class PdfLike:
    """lhapdf-like object: xfxQ2(pid, x, Q2) = x * f[pid](x) from a table on the grid points,
    hasFlavor false for the missing flavours."""

    def __init__(self, table, xs, missing=()):
        self.table = table  # pid -> list of values f(x_k) (not multiplied by x)
        self.xs = [float(x) for x in xs]
        self.missing = set(missing)
        self.calls = []

    def hasFlavor(self, pid):
        return pid in self.table and pid not in self.missing

    def xfxQ2(self, pid, x, Q2):
        k = self.xs.index(float(x))
        self.calls.append((pid, float(x), float(Q2)))
        return float(x) * float(self.table[pid][k])


# --------------------------------------------------------------------------------------
# concurrent TLC runs, chunked trace validation
# --------------------------------------------------------------------------------------


class ManyTlc:
    """Several TLC jobs running concurrently in threads; `finish()` waits and does the
    bookkeeping (as chk.tlc) in the calling thread.
    job: dict(module, cfg, label, workers=4, expect_violation=None, trace=None)."""

    _seq = 0

    def __init__(self, chk, jobs, threads=6):
        import json
        from concurrent.futures import ThreadPoolExecutor

        from harness.core import run_tlc, tla_json

        self.chk = chk
        self.jobs = jobs

        def one(k_job):
            k, job = k_job
            env = {}
            if job.get("trace") is not None:
                tf = chk.scratch / f"many-{id(self)}-{k}-{job['module']}.json"
                tf.write_text(json.dumps(tla_json(job["trace"])))
                env["TRACE_FILE"] = str(tf)
            r = run_tlc(job["module"], job["cfg"], workers=job.get("workers", 4), env=env)
            if env:
                tf.unlink(missing_ok=True)
            return r

        self.ex = ThreadPoolExecutor(max_workers=threads)
        self.futs = [self.ex.submit(one, kj) for kj in enumerate(jobs)]

    def finish(self):
        from harness.core import MachineryError

        chk = self.chk
        results = [f.result() for f in self.futs]
        self.ex.shutdown()
        for job, r in zip(self.jobs, results):
            rec = {
                "module": job["module"], "cfg": str(job["cfg"]), "label": job.get("label", ""),
                "generated": r.generated, "distinct": r.distinct, "depth": r.depth,
                "wall_s": round(r.wall, 2),
                "outcome": "violated:" + r.violated[1] if r.violated else ("ok" if r.completed else f"error:{r.error}"),
            }
            chk.cov["tlc_runs"].append(rec)
            if r.error and not r.violated:
                raise MachineryError(f"TLC failed on {job['module']}/{job['cfg']}: {r.error}\n{r.out[-3000:]}")
            ev = job.get("expect_violation")
            if ev is not None:
                if not r.violated or (ev is not True and r.violated[1] != ev):
                    raise MachineryError(
                        f"vacuity guard: {job['module']}/{job['cfg']} should violate {ev}, got {rec['outcome']}")
            else:
                chk.cov["states"] += r.distinct
                chk.cov["transitions"] += r.generated
        return results


def run_many(chk, jobs, threads=6):
    return ManyTlc(chk, jobs, threads).finish()


def trace_jobs(module, cfg, records, nchunks, label):
    """Split records into nchunks trace-validation jobs (linear walk each, one worker); records
    are dealt round-robin so that heavy records spread over the chunks."""
    nchunks = max(1, min(nchunks, len(records)))
    jobs = []
    for c in range(nchunks):
        idx = list(range(c, len(records), nchunks))
        jobs.append({"module": module, "cfg": cfg, "workers": 1, "trace": [records[k] for k in idx],
                     "label": f"{label} [chunk {c + 1}/{nchunks}, {len(idx)} records]", "_idx": idx})
    return jobs


def trace_bad(chk, jobs, results):
    """(record index, verdict) of the BAD lines of finished trace jobs; acceptance required."""
    from harness.core import MachineryError

    bad = []
    for job, r in zip(jobs, results):
        if r.violated or not r.completed:
            raise MachineryError(f"{job['module']} did not accept the trace {job['label']}: {r.out[-2500:]}")
        chk.cov["traces_validated_against_impl"] += len(job["_idx"])
        for t in r.printed("BAD"):
            bad.append((job["_idx"][t[1] - 1], t[2]))
    return sorted(bad)


# --------------------------------------------------------------------------------------
# C35: Mellin inversion of the interpolation basis along the solver's own path
# --------------------------------------------------------------------------------------


def solver_kernel(label, logx, areas, a_s=0.02):
    """The partial Operator.quad_ker builds, with equal couplings at both ends (LO, trivial
    evolution: the evolution kernel is exactly 1 / the identity)."""
    import functools

    from eko import scale_variations as sv
    from eko.evolution_operator import quad_ker
    from eko.kernels import EvoMethods

    return functools.partial(
        quad_ker, order=(1, 0), mode0=label[0], mode1=label[1], ev_method=EvoMethods.ITERATE_EXACT,
        is_log=True, logx=logx, areas=areas, as_list=np.array([a_s, a_s]), mu2_from=10.0, mu2_to=10.0,
        a_half=np.zeros((1, 2)), alphaem_running=False, nf=4, Lsv=0.0, ev_op_iterations=1,
        ev_op_max_order=(1, 0), sv_mode=sv.Modes.unvaried, is_threshold=False,
        n3lo_ad_variation=(0, 0, 0, 0, 0, 0, 0), is_polarized=False, is_time_like=False, use_fhmruvv=True)


def invert(label, logx, areas, cut=5e-2):
    """scipy.integrate.quad exactly as Operator.run_op_integration calls it."""
    from scipy import integrate

    res = integrate.quad(solver_kernel(label, logx, areas), 0.5, 1.0 - cut,
                         epsabs=1e-12, epsrel=1e-5, limit=100, full_output=1)
    return float(res[0])


C35_LABELS = {"ns": (10201, 0), "singlet": (100, 100)}


def mellin_grid(rng, n, lo, hi):
    """Random logarithmic grid: x_min = 10**U(lo, hi), 1 included, node spacings in log x
    uniform with a jitter of +-45 % (so that close and wide neighbours both occur)."""
    xmin = 10.0 ** rng.uniform(lo, hi)
    w = [1.0 + rng.uniform(-0.45, 0.45) for _ in range(n - 1)]
    tot = sum(w)
    u = [math.log(xmin)]
    for wi in w:
        u.append(u[-1] - math.log(xmin) * wi / tot)
    grid = np.exp(np.array(u))
    grid[-1] = 1.0
    return grid


def measure_mellin(cell, sample, seed, interior=False):
    """One C35 cell: a random log grid, every node as inversion point (except x = 1, which the
    solver never inverts) x basis functions; per node k the conditioning class
    k4 = floor(4 r_k dmin) and the decade of max_j |result - delta_jk|."""
    import random

    from eko import interpolation

    rng = random.Random(f"{seed}|{sorted(cell.items())}|{sample}")
    deg = cell["deg"]
    n = rng.randint(max(cell["size"][0], deg + 1), cell["size"][1])
    grid = mellin_grid(rng, n, *cell["xmin"])
    u = np.log(grid)
    dmin = float(np.min(np.diff(u)))
    disp = interpolation.InterpolatorDispatcher(interpolation.XGrid(grid, log=True), deg, mode_N=True)
    label = C35_LABELS[cell["contour"]]
    pts, detail = [], []
    npairs = 0
    for k in range(n - 1):
        logx = float(u[k])
        r_k = 0.4 * 16.0 / (0.1 - logx)
        js = range(n) if n <= 6 else sorted(set(range(max(0, k - 3), min(n, k + 4))) | set(rng.sample(range(n), 2)))
        w, at = 0.0, None
        for j in js:
            val = invert(label, logx, disp[j].areas_representation)
            r = abs(val - (1.0 if j == k else 0.0))
            npairs += 1
            if r >= w:
                w, at = r, (j, val)
        pts.append([int(min(40, math.floor(4.0 * r_k * dmin))), decade(w)])
        detail.append({"k": k, "x": float(grid[k]), "r_dmin": r_k * dmin, "worst": w, "at_j_value": at})
    worst_in = None
    interm = 0
    if deg >= 2:
        # gross interior clause: arbitrary points, also in the last area (x <= 0.99), must give a
        # finite value within 0.1 of evaluate_x (clean tree: <= 1.5e-2 inside, <= 1e-3 in the last area)
        worst_in = 0.0
        xs = [math.exp(rng.uniform(math.log(grid[0]), math.log(grid[-2]))) for _ in range(2)]
        xs += [math.exp(rng.uniform(math.log(grid[-2]), math.log(0.99))) for _ in range(2)] if grid[-2] < 0.98 else []
        for x in xs:
            for j in rng.sample(range(n), min(n, 4)):
                val = invert(label, math.log(x), disp[j].areas_representation)
                d = abs(val - float(disp[j].evaluate_x(x)))
                worst_in = max(worst_in, d) if d == d and worst_in == worst_in else float("nan")
        interm = 9999 if worst_in != worst_in or worst_in == float("inf") else int(min(9999, round(1000 * worst_in)))
    rec = {"kind": "mellin", "cell": cell, "sample": int(sample), "pts": pts, "pairs": int(npairs), "interm": int(interm)}
    rp = {"cell": cell, "sample": sample, "grid": [float(x) for x in grid], "deg": deg, "nodes": detail,
          "interior_worst": worst_in, "interior_r_dmin_min": 0.4 * 16.0 / (0.1 - float(u[0])) * dmin}
    return rec, rp
