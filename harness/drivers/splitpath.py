"""Measurements for C06 (split-path evolution versus direct evolution): real solves, real quadrature."""
import copy
import math
import random

import numpy as np

MB = 4.92
SHAPES = {   # (mu0, nf0), (mu1, nf1), (mu2, nf2)
    "up-inside": ((2.0, 4), (3.0, 4), (4.5, 4)),
    "down-inside": ((4.5, 4), (3.0, 4), (2.0, 4)),
    "up-across-low": ((2.5, 4), (3.8, 4), (8.0, 5)),
    "up-across-high": ((2.5, 4), (6.5, 5), (10.0, 5)),
    "down-across": ((10.0, 5), (6.5, 5), (3.0, 4)),
    "updown": ((2.0, 4), (3.4, 4), (2.6, 4)),
    # points whose nf is not the default one of their scale: nf = 4 kept above the bottom matching scale; the
    # second leg then runs DOWN within nf = 4 to the matching scale before it crosses
    "forced-split": ((2.5, 4), (6.5, 4), (10.0, 5)),
    "forced-init": ((7.0, 4), (6.0, 4), (10.0, 5)),
    # an initial point ABOVE the charm matching scale (1.51 GeV) with nf = 3: the path runs down within nf = 3,
    # crosses UPWARDS in nf and ends below its starting scale at the split point (scale direction and nf
    # direction disagree on the first leg)
    "forced-down-up": ((3.0, 3), (2.5, 4), (4.0, 4)),
}


def _solve(order, xg, init, targets, jit):
    import eko
    from ekobox.cards import example
    from eko.io import runcards
    from eko.io.struct import EKO
    from harness.drivers import runner

    th = copy.deepcopy(example.raw_theory())
    op = copy.deepcopy(example.raw_operator())
    th["order"] = [order, 0]
    th["matching_order"] = [order - 1, 0]
    th["couplings"]["alphas"] = 0.118
    th["couplings"]["ref"] = (91.2, 5)
    th["heavy"]["masses"] = [[1.51, float("nan")], [MB, float("nan")], [172.5, float("nan")]]
    op["init"] = init
    op["mugrid"] = targets
    op["xgrid"] = [float(x) for x in xg]
    c = op["configs"]
    c["evolution_method"] = "iterate-exact"
    c["ev_op_iterations"] = 10
    c["inversion_method"] = "exact"
    c["interpolation_polynomial_degree"] = 3
    c["n_integration_cores"] = 1
    runner.cheap_sibling(th, op)
    with runner.scratch() as root:
        eko.solve(runcards.TheoryCard.from_dict(th), runcards.OperatorCard.from_dict(op), root / "o.tar")
        with EKO.read(root / "o.tar") as e:
            return {int(k[1]) * 1000000 + int(round(float(k[0]) * 1000)): e[k].operator.copy() for k in e}


def _key(mu, nf):
    return int(nf) * 1000000 + int(round(float(mu) ** 2 * 1000))


def _toy(x, rng):
    """a smooth random toy input: 14 flavours of x^-a (1-x)^b with mild exponents"""
    out = np.zeros((14, len(x)))
    for j in range(14):
        out[j] = rng.uniform(0.5, 2.0) * x ** (-rng.uniform(0.0, 0.3)) * (1 - x) ** rng.uniform(2.0, 5.0)
    out[0] = 0.0   # photon: not part of a QCD run
    return out


def discrepancy(order, shape, n, jit):
    from eko import interpolation

    (m0, n0), (m1, n1), (m2, n2) = [(mu * j, nf) for (mu, nf), j in zip(SHAPES[shape], jit)]
    xg = interpolation.lambertgrid(n, 1e-2)
    a = _solve(order, xg, (m0, n0), [(m1, n1), (m2, n2)], jit)
    b = _solve(order, xg, (m1, n1), [(m2, n2)], jit)
    e01, e02, e12 = a[_key(m1, n1)], a[_key(m2, n2)], b[_key(m2, n2)]
    fx = _toy(np.array(xg), random.Random(int(sum(jit) * 1e6)))
    direct = np.einsum("ajbk,bk->aj", e02, fx)
    split = np.einsum("ajbk,bk->aj", e12, np.einsum("ajbk,bk->aj", e01, fx))
    # judged per evolution-basis combination (singlet, gluon, valence, the non-singlet T's and V's), each
    # relative to its own size: an inconsistency confined to one sector is not diluted by the others
    from eko import basis_rotation as br

    rot = np.asarray(br.rotate_flavor_to_evolution, dtype=float)
    de, se = rot @ direct, rot @ split
    top = float(np.abs(de).max())
    worst = 0.0
    for a in range(de.shape[0]):
        size = float(np.abs(de[a]).max())
        if size > 1e-6 * top:
            worst = max(worst, float(np.abs(de[a] - se[a]).max()) / size)
    return worst


def split_cell(args):
    cell, seed, coarse = args
    rng = random.Random(seed)
    jit = tuple(round(rng.uniform(0.97, 1.03), 4) for _ in range(3))
    rec = {"ev": "split", "cell": cell, "err": "", "decFine": 0, "ratio100": 0, "ds": [], "jitter": ["%.4f" % j for j in jit]}
    try:
        d1 = discrepancy(cell["order"], cell["shape"], coarse, jit)
        d2 = discrepancy(cell["order"], cell["shape"], 2 * coarse, jit)
        rec["ds"] = ["%.3e" % d1, "%.3e" % d2]
        rec["decFine"] = 99 if d2 == 0 else int(math.floor(-math.log10(d2)))
        rec["ratio100"] = 9999 if d2 == 0 or d1 == 0 else int(round(100 * math.log2(d1 / d2)))
    except Exception as ex:  # noqa: BLE001
        rec["err"] = type(ex).__name__ + ":" + str(ex)[:80]
    return rec
