"""Driver for spec/Cli.tla (C49): command sequences executed by subprocess in fresh working
directories; the file system is projected into the vocabulary of the specification before
and after every command."""

from __future__ import annotations

import hashlib
import os
import pathlib
import shutil
import subprocess
import tempfile

import numpy as np
import yaml

from harness.core import SRC, MachineryError
from harness.drivers import cards as dc

DIRS = {"rc": "runcards", "D": "dest"}
STALE = b"previous content, not an archive\n"
EKO_BIN = "/venv/bin/eko"


def env():
    e = dict(os.environ)
    e["NUMBA_DISABLE_JIT"] = "1"
    e["PYTHONDONTWRITEBYTECODE"] = "1"
    e["PYTHONPATH"] = str(SRC) + (":" + e["PYTHONPATH"] if e.get("PYTHONPATH") else "")
    e["COLUMNS"] = "200"
    return e


def check_entry():
    """The console script must import the sources under test."""
    p = subprocess.run([EKO_BIN.replace("/eko", "/python"), "-c", "import ekobox.cli, sys; print(ekobox.cli.__file__)"],
                       env=env(), capture_output=True, text=True, timeout=300)
    got = pathlib.Path(p.stdout.strip() or "/nonexistent").resolve()
    if SRC.resolve() not in got.parents:
        raise MachineryError(f"the eko console entry imports {got}, not {SRC}: {p.stderr[-300:]}")


def argv(cmd):
    d = DIRS[cmd["l"]]
    if cmd["op"] == "gen":
        return ["runcards", "example"] + ([] if cmd["l"] == "rc" else ["-d", d])
    if cmd["op"] == "run1":
        return ["run", d]
    if cmd["op"] == "run2":
        return ["run", f"{d}/theory.yaml", f"{d}/operator.yaml"]
    if cmd["op"] in INSPECTS:
        return ["inspect", "-p", f"{d}/eko.tar", INSPECTS[cmd["op"]]]
    if cmd["op"] == "run2x":   # the operator card lives in the other location
        return ["run", f"{d}/theory.yaml", f"{DIRS[other(cmd['l'])]}/operator.yaml"]
    return ["run", f"{d}/theory.yaml", f"{d}/operator.yaml", "out.tar"]


INSPECTS = {"insp_mu2": "mu2grid", "insp_cards": "cards"}


def inspected(path, what):
    """What the library reads from the archive, as the normalised JSON text `eko inspect` should print."""
    import json

    from eko.io import EKO

    with EKO.read(path) as e:
        data = e.mu2grid if what == "mu2grid" else dict(theory=e.theory_card.raw, operator=e.operator_card.raw)
    return json.dumps(json.loads(json.dumps(data)), sort_keys=True)


def other(l):
    return "D" if l == "rc" else "rc"


def target(cmd):
    return "X" if cmd["op"] == "run3" else (other(cmd["l"]) if cmd["op"] == "run2x" else cmd["l"])


def text(cmd):
    return "eko " + " ".join(argv(cmd))


def out_path(root, o):
    return root / "out.tar" if o == "X" else root / DIRS[o] / "eko.tar"


# --------------------------------------------------------------------------------------
# tiny valid cards and the library's answer on them
# --------------------------------------------------------------------------------------

def tiny_cards(rng):
    from eko.interpolation import XGrid
    from eko.io.types import EvolutionMethod
    from ekobox.cards import example

    t = example.theory()
    t.order = (1, 0)
    t.couplings.alphas = round(rng.uniform(0.11, 0.13), 4)
    o = example.operator()
    mu0 = round(rng.uniform(1.5, 1.9), 3)
    o.init = (mu0, 4)
    o.mugrid = [(round(mu0 * rng.uniform(1.02, 1.2), 3), 4)]
    pts = sorted({round(rng.uniform(0.05, 0.8), 3) for _ in range(rng.choice([1, 2]))} | {1.0})
    if len(pts) < 2:
        pts = [0.3, 1.0]
    o.xgrid = XGrid(pts)
    o.configs.interpolation_polynomial_degree = 1
    o.configs.ev_op_iterations = rng.choice([1, 2])
    o.configs.evolution_method = rng.choice([EvolutionMethod.ITERATE_EXACT, EvolutionMethod.TRUNCATED])
    return t, o


def write_cards(d: pathlib.Path, t, o):
    d.mkdir(parents=True, exist_ok=True)
    (d / "theory.yaml").write_text(yaml.safe_dump(t.raw), encoding="utf-8")
    (d / "operator.yaml").write_text(yaml.safe_dump(o.raw), encoding="utf-8")


def load_cards(d: pathlib.Path):
    from eko.io.runcards import OperatorCard, TheoryCard

    t = TheoryCard.from_dict(yaml.safe_load((d / "theory.yaml").read_text(encoding="utf-8")))
    o = OperatorCard.from_dict(yaml.safe_load((d / "operator.yaml").read_text(encoding="utf-8")))
    return t, o


def digest_archive(path: pathlib.Path):
    """{evolution point: sha256 of operator and error bytes} of an archive."""
    from eko.io import EKO

    res = {}
    with EKO.read(path) as e:
        for ep in e:
            op = e[ep]
            h = hashlib.sha256()
            h.update(str(op.operator.shape).encode() + np.ascontiguousarray(op.operator).tobytes())
            if op.error is not None:
                h.update(b"|" + np.ascontiguousarray(op.error).tobytes())
            res[repr((float(ep[0]), int(ep[1])))] = h.hexdigest()
    return res


def library_answer(t, o, scratch: pathlib.Path):
    import eko

    d = pathlib.Path(tempfile.mkdtemp(prefix="ref-", dir=scratch))
    old = tempfile.tempdir
    tempfile.tempdir = str(d)      # the library's own temporary directories land in the scratch space
    try:
        eko.solve(t, o, d / "ref.tar")
        return digest_archive(d / "ref.tar")
    finally:
        tempfile.tempdir = old


def example_reference():
    """The card objects `eko runcards example` builds: its own callback is run in-process with
    the example constructors observed and the dump suppressed (so the reference follows the
    command's code, not a copy of it)."""
    import ekobox.cli.runcards as rc
    from ekobox import cards

    seen = {}
    orig_t, orig_o, orig_dump = cards.example.theory, cards.example.operator, cards.dump

    def theory():
        seen["t"] = orig_t()
        return seen["t"]

    def operator():
        seen["o"] = orig_o()
        return seen["o"]

    tmp = pathlib.Path(tempfile.mkdtemp(prefix="verif-eko-cli-ref-"))
    try:
        cards.example.theory, cards.example.operator = theory, operator
        cards.dump = lambda card, path: None
        rc.sub_example.callback(tmp / "runcards")
    finally:
        cards.example.theory, cards.example.operator, cards.dump = orig_t, orig_o, orig_dump
        shutil.rmtree(tmp, ignore_errors=True)
    if set(seen) != {"t", "o"}:
        raise MachineryError("sub_example did not build its cards through cards.example")
    return seen["t"], seen["o"]


# --------------------------------------------------------------------------------------
# projection
# --------------------------------------------------------------------------------------

def project(root: pathlib.Path):
    fs = {"dir": {}, "cards": {}, "out": {}}
    for l, name in DIRS.items():
        d = root / name
        fs["dir"][l] = d.is_dir()
        have = [(d / f).is_file() for f in ("theory.yaml", "operator.yaml")]
        if not any(have):
            fs["cards"][l] = "none"
        else:
            try:
                load_cards(d)
                fs["cards"][l] = "valid"
            except Exception:  # noqa: BLE001
                fs["cards"][l] = "partial"
    for o in ("rc", "D", "X"):
        p = out_path(root, o)
        if not p.exists():
            fs["out"][o] = "none"
        elif p.read_bytes() == STALE:
            fs["out"][o] = "stale"
        else:
            try:
                digest_archive(p)
                fs["out"][o] = "eko"
            except Exception:  # noqa: BLE001
                fs["out"][o] = "corrupt"
    return fs


def setup(root: pathlib.Path, init, tiny):
    for l, name in DIRS.items():
        if init["dir"][l]:
            (root / name).mkdir()
            if init["cards"][l] == "valid":
                write_cards(root / name, *tiny)
    for o in ("rc", "D", "X"):
        if init["out"][o] == "stale":
            out_path(root, o).write_bytes(STALE)


def run_sequence(args):
    """Execute one command sequence in a fresh cwd; returns the step records."""
    sid, init, cmds, tiny, ref, scratch, (ex_t, ex_o) = args
    root = pathlib.Path(tempfile.mkdtemp(prefix=f"cwd-{sid}-", dir=scratch))
    tmpd = pathlib.Path(tempfile.mkdtemp(prefix=f"tmp-{sid}-", dir=scratch))
    steps = []
    try:
        setup(root, init, tiny)
        got = project(root)
        if got != init:
            raise MachineryError(f"initial state not realised: {got} != {init}")
        for cmd in cmds:
            pre = project(root)
            e = env()
            e["TMPDIR"] = str(tmpd)
            p = subprocess.run([EKO_BIN] + argv(cmd), cwd=str(root), env=e, capture_output=True, text=True, timeout=900)
            post = project(root)
            st = {"seq": sid, "cmd": cmd, "pre": pre, "post": post, "exit": "ok" if p.returncode == 0 else "fail",
                  "rc": p.returncode, "cardsEq": "na", "ops": "na", "msg": ""}
            err = (p.stderr or p.stdout).strip().splitlines()
            st["msg"] = err[-1][:200] if err and p.returncode != 0 else ""
            d = root / DIRS[cmd["l"]]
            if cmd["op"] == "gen" and post["cards"][cmd["l"]] == "valid":
                t, o = load_cards(d)
                dt, do = dc.diff(ex_t, t), dc.diff(ex_o, o)
                st["cardsEq"] = "equal" if not dt and not do else "differ"
                if dt or do:
                    st["msg"] = f"theory {dt} operator {do}"
                # the example cards take minutes to solve: continue with tiny ones
                write_cards(d, *tiny)
            if cmd["op"] in INSPECTS and p.returncode == 0:
                import json

                try:
                    got = json.dumps(json.loads(p.stdout), sort_keys=True)
                    st["ops"] = "same" if got == inspected(out_path(root, cmd["l"]), INSPECTS[cmd["op"]]) else "differ"
                except Exception as ex:  # noqa: BLE001
                    st["ops"] = "differ"
                    st["msg"] = f"inspect output unreadable: {type(ex).__name__}"
            elif cmd["op"] != "gen" and p.returncode == 0:
                tgt = out_path(root, target(cmd))
                if post["out"][target(cmd)] == "eko":
                    try:
                        same = digest_archive(tgt) == ref and load_cards(d) is not None
                    except Exception as ex:  # noqa: BLE001
                        same = False
                        st["msg"] = f"archive unreadable: {type(ex).__name__}"
                    st["ops"] = "same" if same else "differ"
            steps.append(st)
    finally:
        shutil.rmtree(root, ignore_errors=True)
        shutil.rmtree(tmpd, ignore_errors=True)
    return steps
