"""Exact probing of eko's flavour algebra for the Flavors specification (C31, C32, C33, C46).

The real, un-jitted functions are called; every float they return is converted to the unique
small rational next to it (``fractions.Fraction.limit_denominator`` plus a residual guard) and
written as ``[num, den]`` into a trace that TLC judges with ``spec/FlavorsTrace.tla``.  A value
that is not a small rational (or is not finite) travels as ``[0, 0]`` and fails ``IsRat`` in
the specification.  Nothing in this module decides a property.
"""

from __future__ import annotations

import math
from fractions import Fraction

import numpy as np

from harness.core import MachineryError

MAXDEN = 100000  # two rationals with denominators <= MAXDEN differ by >= 1e-10
REL_TOL = 1e-11  # residual guard, far above float noise (1e-15) and far below 1e-10
NOT_RATIONAL = [0, 0]

NFS = (3, 4, 5, 6)

# Sector labels of the two bases, mirrored from Flavors.tla (SectorLabels); TLC checks the
# mirror with the "coverage" record, so a drift between the two is a machinery error.
QCD_SECTORS = [(100, 100), (100, 21), (21, 100), (21, 21), (10201, 0), (10101, 0), (10200, 0)]
_SING = (21, 22, 100, 101)
_VAL = (10200, 10204)
QED_SECTORS = (
    [(a, b) for a in _SING for b in _SING]
    + [(a, b) for a in _VAL for b in _VAL]
    + [(10103, 0), (10203, 0), (10102, 0), (10202, 0)]
)


def sectors(qed):
    return QED_SECTORS if qed else QCD_SECTORS


def is_diagonal(lab):
    return lab[1] == 0 or lab[0] == lab[1]


def basis_labels(nf, qed):
    """Labels of the (intrinsic) evolution basis with nf light flavours - mirror of Basis(nf, qed)."""
    heavy = [f"{q}{s}" for k, q in ((4, "c"), (5, "b"), (6, "t")) if k > nf for s in "+-"]
    if not qed:
        lad = [f"{t}{k * k - 1}" for k in range(2, nf + 1) for t in "TV"]
        out = ["ph", "g", "S", "V"] + lad + heavy
    else:
        need = {"d3": 3, "u3": 4, "d8": 5, "u8": 6}
        lad = [f"{t}{n}" for n, k in need.items() if k <= nf for t in "TV"]
        out = ["ph", "g", "S", "V", "Sdelta", "Vdelta"] + lad + heavy
    if len(out) != 14:
        raise MachineryError(f"basis mirror wrong for nf={nf} qed={qed}: {out}")
    return out


# --------------------------------------------------------------------------------------
# float -> exact rational
# --------------------------------------------------------------------------------------


def rat(x):
    """[num, den] of the small rational next to the float x, or [0, 0]."""
    try:
        x = float(x)
    except (TypeError, ValueError):
        return list(NOT_RATIONAL)
    if not math.isfinite(x):
        return list(NOT_RATIONAL)
    fr = Fraction(x).limit_denominator(MAXDEN)
    if abs(float(fr) - x) > REL_TOL * max(1.0, abs(x)) or abs(fr.numerator) >= 2**31:
        return list(NOT_RATIONAL)
    return [int(fr.numerator), int(fr.denominator)]


def vec(a):
    return [rat(x) for x in np.asarray(a, dtype=float).ravel()]


def mat(a):
    a = np.asarray(a, dtype=float)
    if a.ndim != 2:
        raise MachineryError(f"matrix expected, got shape {a.shape}")
    return [[rat(x) for x in row] for row in a]


def exc_name(ex):
    return type(ex).__name__


# --------------------------------------------------------------------------------------
# C31
# --------------------------------------------------------------------------------------


def c31_tables():
    from eko import basis_rotation as br

    recs = [
        {
            "ev": "flavour-table",
            "pids": [int(p) for p in br.flavor_basis_pids],
            "names": [str(n) for n in br.flavor_basis_names],
        }
    ]
    pairs = lambda t: [[int(a), int(b)] for a, b in t]  # noqa: E731
    for qed, labels, pids, rot, keys, amap, groups in (
        (False, br.evol_basis, br.evol_basis_pids, br.rotate_flavor_to_evolution,
         br.full_labels, br.map_ad_to_evolution,
         (br.singlet_labels, (), br.non_singlet_labels)),
        (True, br.unified_evol_basis, br.unified_evol_basis_pids,
         br.rotate_flavor_to_unified_evolution, br.full_unified_labels,
         br.map_ad_to_unified_evolution,
         (br.singlet_unified_labels, br.valence_unified_labels, br.non_singlet_unified_labels)),
    ):
        recs.append(
            {
                "ev": "rotation",
                "qed": qed,
                "labels": [str(x) for x in labels],
                "pids": [int(p) for p in pids],
                "rows": mat(rot),
            }
        )
        recs.append(
            {
                "ev": "sectors",
                "qed": qed,
                "keys": pairs(keys),
                "singlet": pairs(groups[0]),
                "valence": pairs(groups[1]),
                "nonsinglet": pairs(groups[2]),
                "entries": [
                    {"lab": [int(k[0]), int(k[1])], "elems": [el.split(".") for el in v]}
                    for k, v in amap.items()
                ],
            }
        )
    for nf in NFS:
        rec = {"ev": "intrinsic-labels", "nf": nf, "qed": True, "err": "", "labels": []}
        try:
            rec["labels"] = [str(x) for x in br.intrinsic_unified_evol_labels(nf)]
        except Exception as ex:  # noqa: BLE001
            rec["err"] = exc_name(ex)
        recs.append(rec)
    return recs


def c31_projectors():
    """ad_projector for every sector x nf x {QCD, QED}; ad_projectors; the diagonal families."""
    from eko import basis_rotation as br

    recs = []
    cells = []
    for qed in (False, True):
        for nf in NFS:
            good = {}
            for lab in sectors(qed):
                cells.append([nf, int(qed), lab[0], lab[1]])
                rec = {"ev": "proj", "nf": nf, "qed": qed, "lab": list(lab), "err": "", "mat": []}
                try:
                    with np.errstate(all="ignore"):
                        p = br.ad_projector(lab, nf, qed)
                    rec["mat"] = mat(p)
                    good[lab] = rec["mat"]
                except Exception as ex:  # noqa: BLE001 - the exception class is the observation
                    rec["err"] = exc_name(ex)
                recs.append(rec)
            rec = {"ev": "projs", "nf": nf, "qed": qed, "err": "", "labs": [], "mats": []}
            try:
                with np.errstate(all="ignore"):
                    ps = br.ad_projectors(nf, qed)
                labs = br.full_unified_labels if qed else br.anomalous_dimensions_basis
                rec["labs"] = [[int(a), int(b)] for a, b in labs][: len(ps)]
                while len(rec["labs"]) < len(ps):
                    rec["labs"].append([0, 0])
                rec["mats"] = [mat(p) for p in ps]
            except Exception as ex:  # noqa: BLE001
                rec["err"] = exc_name(ex)
            recs.append(rec)
            diag = [lab for lab in sectors(qed) if is_diagonal(lab)]
            if all(lab in good for lab in diag):
                recs.append(
                    {
                        "ev": "diag",
                        "nf": nf,
                        "qed": qed,
                        "labs": [list(lab) for lab in diag],
                        "mats": [good[lab] for lab in diag],
                    }
                )
    recs.append({"ev": "coverage", "cells": cells})
    return recs


# --------------------------------------------------------------------------------------
# C32
# --------------------------------------------------------------------------------------

OME_LABELS = [
    (100, 100), (100, 21), (21, 100), (21, 21), (200, 200), (90, 100), (90, 21), (90, 90),
    (100, 90), (21, 90), (91, 91), (200, 91), (91, 200),
]


def c32_weights():
    from eko.evolution_operator import flavors

    recs = []
    for qed in (False, True):
        fn = flavors.pids_from_intrinsic_unified_evol if qed else flavors.pids_from_intrinsic_evol
        for nf in NFS:
            for label in basis_labels(nf, qed):
                for normalize in (False, True):
                    rec = {"ev": "weights", "label": label, "nf": nf, "qed": qed,
                           "normalize": normalize, "err": "", "w": []}
                    try:
                        with np.errstate(all="ignore"):
                            rec["w"] = vec(fn(label, nf, normalize))
                    except Exception as ex:  # noqa: BLE001
                        rec["err"] = exc_name(ex)
                    recs.append(rec)
    for label in ("g", "ph", "c+", "c-", "b+", "b-", "t+", "t-"):
        rec = {"ev": "pm", "label": label, "err": "", "w": []}
        try:
            rec["w"] = vec(flavors.rotate_pm_to_flavor(label))
        except Exception as ex:  # noqa: BLE001
            rec["err"] = exc_name(ex)
        recs.append(rec)
    return recs


XPAT = np.array([[1.0, 2.0], [4.0, 8.0]])


def _members(labels, rng):
    """1x1 members holding distinct small integers (value) and distinct small integers (error)."""
    from eko import member

    vals = rng.sample(range(2, 98), len(labels))
    errs = rng.sample(range(2, 98), len(labels))
    # every member is its integer times the fixed 2 x 2 pattern XPAT on the grid indices (powers of two: exact)
    ops = {
        lab: member.OpMember(float(v) * XPAT, float(e) * XPAT)
        for lab, v, e in zip(labels, vals, errs)
    }
    ad = [
        [int(lab[0]), int(lab[1]), int(v)] for lab, v in zip(labels, vals) if isinstance(lab, tuple)
    ]
    return ops, ad


def _blow(op, qed, rec):
    from eko.evolution_operator import flavors

    rec["members"] = [[k.target, k.input, rat(v.value[0, 0])] for k, v in op.op_members.items()]
    rec["emembers"] = [[k.target, k.input, rat(v.error[0, 0])] for k, v in op.op_members.items()]
    rec["range"] = [int(x) for x in flavors.get_range(op.op_members.keys(), qed)]
    with np.errstate(all="ignore"):
        val, err = op.to_flavor_basis_tensor(qed)
    if val.shape != (14, 2, 14, 2) or err.shape != (14, 2, 14, 2):
        raise MachineryError(f"unexpected tensor shape {val.shape}")
    rec["tensor"] = mat(val[:, 0, :, 0])
    rec["etensor"] = mat(err[:, 0, :, 0])
    # index placement (flavour, x, flavour, x): every grid entry of a flavour pair is the pattern times its weight
    # (identity members of inert quarks contribute a multiple of the unit matrix: block = x XPAT + y 1)
    def placed(t):
        b00, b01, b10, b11 = t[:, 0, :, 0], t[:, 0, :, 1], t[:, 1, :, 0], t[:, 1, :, 1]
        scale = max(float(np.max(np.abs(t))), 1.0)
        return bool(np.max(np.abs(b10 - 2.0 * b01)) <= 1e-12 * scale and np.max(np.abs(2.0 * (b11 - b00) - 7.0 * b01)) <= 1e-12 * scale)

    rec["xOk"] = placed(val) and placed(err)


def c32_blowup(fam, nf, qed, rng):
    """One blow-up of a label set produced by the code, with fresh integer members."""
    from eko import basis_rotation as br
    from eko import member
    from eko.evolution_operator import flavors, matching_condition, physical

    rec = {"ev": "blowup", "fam": fam, "nf": nf, "qed": qed, "nfin": nf, "nfout": nf, "err": "",
           "ad": [], "members": [], "emembers": [], "range": [0, 0], "tensor": [], "etensor": [], "xOk": True}
    try:
        if fam == "physical":
            labs = list(br.full_unified_labels if qed else br.full_labels)
            ops, rec["ad"] = _members(labs, rng)
            op = physical.PhysicalOperator.ad_to_evol_map(ops, nf, 1.0, qed)
        else:
            ops, ad = _members(OME_LABELS, rng)
            op = matching_condition.MatchingCondition.split_ad_to_evol_map(ops, nf, 1.0, qed)
            if fam == "matching":
                rec["ad"] = ad
            else:
                # label sets of the products with the threshold rotation: one side lives in the
                # basis of nf+1 flavours, the other in the basis of nf flavours
                if fam == "rot-match":
                    rot = member.ScalarOperator.promote_names(flavors.rotate_matching(nf + 1, qed), 1.0)
                    prod = rot @ op
                    rec["nfout"] = nf + 1
                elif fam == "match-rotinv":
                    rot = member.ScalarOperator.promote_names(
                        flavors.rotate_matching_inverse(nf + 1, qed), 1.0
                    )
                    prod = op @ rot
                    rec["nfin"] = nf + 1
                else:
                    raise MachineryError(f"unknown family {fam}")
                names = sorted(str(k) for k in prod.op_members)
                fresh, _ = _members(names, rng)
                op = member.OperatorBase.promote_names(fresh, 1.0)
        _blow(op, qed, rec)
    except MachineryError:
        raise
    except Exception as ex:  # noqa: BLE001
        rec["err"] = exc_name(ex)
    return rec


def _with_t_ladder(label):
    """get_range documents the assumption that the T member of a ladder accompanies its V."""
    if label[0] == "V" and len(label) > 1 and label not in ("Vdelta",):
        return "T" + label[1:]
    return None


def c32_range_records(rng, n):
    """get_range on random label sets (pairs target.input drawn from two bases), closed under
    the documented assumption of get_range (a V ladder never comes without its T ladder)."""
    from eko import member
    from eko.evolution_operator import flavors

    recs = []
    for _ in range(n):
        qed = rng.random() < 0.5
        nfi, nfo = rng.choice(NFS), rng.choice(NFS)
        li, lo = basis_labels(nfi, qed), basis_labels(nfo, qed)
        labs = [[rng.choice(lo), rng.choice(li)] for _ in range(rng.randint(1, 6))]
        for t, i in list(labs):
            tt, ti = _with_t_ladder(t), _with_t_ladder(i)
            if tt or ti:
                labs.append([tt or t, ti or i])
        rec = {"ev": "range", "qed": qed, "labs": labs, "err": "", "got": [0, 0]}
        try:
            got = flavors.get_range([member.MemberName(f"{t}.{i}") for t, i in labs], qed)
            rec["got"] = [int(got[0]), int(got[1])]
        except Exception as ex:  # noqa: BLE001
            rec["err"] = exc_name(ex)
        recs.append(rec)
    return recs


# --------------------------------------------------------------------------------------
# C33
# --------------------------------------------------------------------------------------


def _entries(m):
    out = []
    for k, v in m.items():
        parts = k.split(".")
        if len(parts) != 2:
            raise MachineryError(f"unexpected key {k!r} in rotate_matching")
        out.append([parts[0], parts[1], rat(v)])
    return out


def c33_records():
    from eko.evolution_operator import flavors

    recs = []
    for nf in (4, 5, 6):
        rec = {"ev": "params", "nf": nf, "vals": []}
        with np.errstate(all="ignore"):
            rec["vals"] = [rat(x) for x in flavors.qed_rotation_parameters(nf)]
        recs.append(rec)
        for qed in (False, True):
            rec = {"ev": "matching", "nf": nf, "qed": qed, "err": "", "fwd": [], "inv": []}
            try:
                with np.errstate(all="ignore"):
                    rec["fwd"] = _entries(flavors.rotate_matching(nf, qed))
                    rec["inv"] = _entries(flavors.rotate_matching_inverse(nf, qed))
            except MachineryError:
                raise
            except Exception as ex:  # noqa: BLE001
                rec["err"] = exc_name(ex)
            recs.append(rec)
    return recs


# --------------------------------------------------------------------------------------
# C46
# --------------------------------------------------------------------------------------

_BLOCKS = {
    1: [[[1]], [[2]], [[3]]],
    2: [[[1, 1], [1, -1]], [[1, 2], [2, -1]], [[3, 4], [4, -3]]],
    3: [[[1, 1, 1], [1, -1, 0], [1, 1, -2]], [[1, 2, 2], [2, 1, -2], [2, -2, 1]]],
    4: [[[1, 1, 1, 1], [1, -1, 1, -1], [1, 1, -1, -1], [1, -1, -1, 1]]],
}


def random_orthogonal_basis(rng):
    """A complete orthogonal basis of Z^14: direct sum of small orthogonal integer blocks on a
    random partition of the flavours, rows rescaled by small non-zero integers."""
    idx = list(range(14))
    rng.shuffle(idx)
    rows = []
    k = 0
    while k < 14:
        size = min(rng.choice((1, 2, 2, 3, 3, 4)), 14 - k)
        blk = rng.choice(_BLOCKS[size])
        for r in blk:
            row = [0] * 14
            for j, c in enumerate(r):
                row[idx[k + j]] = c
            s = rng.choice((-2, -1, 1, 1, 2, 3))
            rows.append([s * c for c in row])
        k += size
    rng.shuffle(rows)
    return rows


def random_blocks(rng, extra_vectors=()):
    """1-2 PDF blocks with integer data: random PID subset in random order, m points."""
    from eko import basis_rotation as br

    pids_all = [int(p) for p in br.flavor_basis_pids]
    blocks = []
    for _ in range(rng.choice((1, 1, 2))):
        m = rng.choice((1, 2, 3))
        if rng.random() < 0.5:
            pids = list(pids_all)
        else:
            pids = rng.sample(pids_all, rng.randint(1, 14))
        rng.shuffle(pids)
        data = [[rng.randint(-9, 9) for _ in range(m)] for _ in pids]  # one row per pid
        if extra_vectors and len(pids) == 14:
            # one point that is exactly one of the given flavour vectors
            v = rng.choice(list(extra_vectors))
            for row, p in zip(data, pids):
                row[0] = int(v[pids_all.index(p)])
        blocks.append({"pids": pids, "data": data, "m": m})
    return blocks


def c46_reprs_record(kind, sel):
    from ekobox.genpdf import flavors as gf

    rec = {"ev": "reprs", "kind": kind, "sel": list(sel), "err": "", "out": []}
    try:
        arr = gf.pid_to_flavor(sel) if kind == "pid" else gf.evol_to_flavor(sel)
        arr = np.asarray(arr, dtype=float).reshape(len(sel), -1) if len(sel) else np.zeros((0, 14))
        rec["out"] = [vec(r) for r in arr]
    except Exception as ex:  # noqa: BLE001
        rec["err"] = exc_name(ex)
        arr = None
    return rec, arr


def c46_project_record(reprs, blocks):
    """project(blocks, reprs) and project(project(blocks, reprs), reprs) on integer blocks."""
    from ekobox.genpdf import flavors as gf

    reprs = np.asarray(reprs, dtype=float).reshape(-1, 14)
    rec = {"ev": "project", "reprs": [vec(r) for r in reprs], "blocks": blocks, "err": "",
           "out": [], "out2": []}
    try:
        inp = [
            {"pids": list(b["pids"]), "data": np.array(b["data"], dtype=float).T.copy()}
            for b in blocks
        ]
        with np.errstate(all="ignore"):
            o1 = gf.project(inp, reprs)
            o2 = gf.project(o1, reprs)
        for dst, res in ((rec["out"], o1), (rec["out2"], o2)):
            for b in res:
                dst.append({"pids": [int(p) for p in b["pids"]], "data": mat(np.asarray(b["data"]).T)})
    except Exception as ex:  # noqa: BLE001
        rec["err"] = exc_name(ex)
    return rec


# --------------------------------------------------------------------------------------
# TLC
# --------------------------------------------------------------------------------------


def _account(chk, module, cfg, label, r, expect_violation=None):
    """Book a finished TLC run exactly as ``Check.tlc`` does (called from the main thread only;
    the runs themselves are started with ``harness.core.run_tlc`` from worker threads)."""
    rec = {
        "module": module,
        "cfg": str(cfg),
        "label": label or "",
        "generated": r.generated,
        "distinct": r.distinct,
        "depth": r.depth,
        "wall_s": round(r.wall, 2),
        "outcome": "violated:" + r.violated[1] if r.violated else ("ok" if r.completed else f"error:{r.error}"),
    }
    chk.cov["tlc_runs"].append(rec)
    if r.error and not r.violated:
        raise MachineryError(f"TLC failed on {module}/{cfg}: {r.error}\n{r.out[-3000:]}")
    if expect_violation is not None:
        if not r.violated or (expect_violation is not True and r.violated[1] != expect_violation):
            raise MachineryError(
                f"vacuity guard: {module}/{cfg} should violate {expect_violation}, got {rec['outcome']}"
            )
    else:
        chk.cov["states"] += r.distinct
        chk.cov["transitions"] += r.generated
    return r


class Design:
    """B1 runs of FlavorsMC started in background threads, so that the exhaustive design
    exploration overlaps with the probing of the implementation; booked at ``join``."""

    def __init__(self, chk):
        from concurrent.futures import ThreadPoolExecutor

        self.chk = chk
        self.pool = ThreadPoolExecutor(max_workers=4)
        self.futs = []

    def run(self, cfg, label, expect_violation=None, workers=8):
        from harness.core import run_tlc

        fut = self.pool.submit(run_tlc, "FlavorsMC", cfg, workers=workers)
        self.futs.append((cfg, label, expect_violation, fut))

    def join(self):
        """Results in submission order (vacuity guards enforced)."""
        out = []
        try:
            for cfg, label, expect, f in self.futs:
                out.append(_account(self.chk, "FlavorsMC", cfg, label, f.result(), expect))
        finally:
            self.pool.shutdown(wait=True)
        return out


def validate(chk, recs, label, batch=120, threads=6):
    """Run FlavorsTrace over the records (batches in parallel TLC processes, one worker each:
    a trace is a single chain of states); returns [(record, verdict)] for every non-ok verdict."""
    import json
    import uuid
    from concurrent.futures import ThreadPoolExecutor

    from harness.core import run_tlc, tla_json

    nparts = max(1, -(-len(recs) // batch))
    parts = [recs[k::nparts] for k in range(nparts)]  # strided: cheap and costly records mixed
    files = []
    for part in parts:
        tf = chk.scratch / f"flavors-trace-{uuid.uuid4().hex}.json"
        tf.write_text(json.dumps(tla_json(part)))
        files.append(tf)
    with ThreadPoolExecutor(max_workers=threads) as pool:
        futs = [
            pool.submit(run_tlc, "FlavorsTrace", "FlavorsTrace.cfg", workers=1, env={"TRACE_FILE": str(tf)})
            for tf in files
        ]
        results = [f.result() for f in futs]
    bad = []
    for part, r in zip(parts, results):
        _account(chk, "FlavorsTrace", "FlavorsTrace.cfg", f"{label} ({len(part)} records)", r)
        if r.violated or not r.completed:
            raise MachineryError(f"FlavorsTrace not accepted ({label}): {r.out[-2500:]}")
        for t in r.printed("BAD"):
            bad.append((part[t[1] - 1], t[2]))
        chk.cov["traces_validated_against_impl"] += len(part)
    return bad


def expect_rejected(chk, recs, prefix, label):
    """Binding demonstration: every corrupted record must get a property-grade verdict."""
    r = chk.tlc("FlavorsTrace", "FlavorsTrace.cfg", trace=recs, workers=1, label=label)
    if r.violated or not r.completed:
        raise MachineryError(f"FlavorsTrace failed on corrupted records: {r.out[-2000:]}")
    rej = {t[1]: t[2] for t in r.printed("BAD") if str(t[2]).startswith(prefix)}
    if set(rej) != set(range(1, len(recs) + 1)):
        raise MachineryError(
            f"binding demonstration failed: corrupted records accepted ({label}): {rej}"
        )
    chk.note("binding_demo", f"{len(recs)} corrupted records rejected by FlavorsTrace: {sorted(set(rej.values()))}")
    return rej
