"""Measurements for the end-to-end clause of C14 (QED x QCD operator -> QCD operator as
alpha_em -> 0), shimmed real solves."""
import copy
import math

import numpy as np

ALPHAEM = 1e-9
MB = 4.5
SHAPES = {   # init (mu, nf), target (mu, nf); mb = 4.5 GeV
    "natural": ((2.0, 4), (4.0, 4)),
    "forced-above": ((3.0, 4), (10.0, 4)),
    "forced-below": ((8.0, 5), (3.0, 5)),
    "cross-up": ((3.0, 4), (10.0, 5)),
    "cross-down": ((10.0, 5), (3.0, 4)),
}


def _solve(order, qed, shape, iters):
    import eko
    from ekobox.cards import example
    from eko.io import runcards
    from eko.io.struct import EKO
    from harness.drivers import runner

    th = copy.deepcopy(example.raw_theory())
    op = copy.deepcopy(example.raw_operator())
    th["order"] = [order, qed]
    th["matching_order"] = [order - 1, 0]
    th["couplings"]["alphas"] = 0.25
    th["couplings"]["alphaem"] = ALPHAEM
    th["couplings"]["ref"] = (3.0, 4)
    th["couplings"]["em_running"] = False
    th["heavy"]["masses"] = [[1.2, float("nan")], [MB, float("nan")], [172.0, float("nan")]]
    init, target = SHAPES[shape]
    op["init"] = init
    op["mugrid"] = [target]
    op["xgrid"] = [0.2, 0.6, 1.0]
    c = op["configs"]
    c["evolution_method"] = "iterate-exact"
    c["interpolation_polynomial_degree"] = 1
    c["ev_op_iterations"] = iters
    c["inversion_method"] = "expanded"
    with runner.scratch() as root:
        eko.solve(runcards.TheoryCard.from_dict(th), runcards.OperatorCard.from_dict(op), root / "o.tar")
        with EKO.read(root / "o.tar") as e:
            return e[list(e)[0]].operator.copy()


def limit_cell(cell):
    rec = {"ev": "limit", "cell": cell, "err": "", "e100": 0, "dec16": 0, "gaps": []}
    try:
        ref = _solve(cell["order"], 0, cell["shape"], 1 if cell["order"] == 1 else 64)[1:, :, 1:, :]
        gaps = []
        for n in (4, 16):
            o = _solve(cell["order"], cell["qed"], cell["shape"], n)[1:, :, 1:, :]
            gaps.append(float(np.abs(o - ref).max() / np.abs(ref).max()))
        rec["gaps"] = ["%.3e" % g for g in gaps]
        rec["dec16"] = 99 if gaps[1] == 0 else int(math.floor(-math.log10(gaps[1])))
        rec["e100"] = 999 if gaps[1] == 0 or gaps[0] == 0 else int(round(100 * math.log(gaps[0] / gaps[1], 4)))
    except Exception as ex:  # noqa: BLE001
        rec["err"] = type(ex).__name__ + ":" + str(ex)[:80]
    return rec
