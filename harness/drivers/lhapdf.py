"""Driver for spec/Lhapdf.tla (C45): synthetic EKOs written through the real store,
ekobox.evol_pdf.evolve_pdfs(..., path=<that eko>) (no solve), the written .info/.dat files
parsed back by an independent reader, numbers reported as ranks / integer classes."""

from __future__ import annotations

import math
import pathlib
import random
import shutil
import sys
import tempfile
import types

import numpy as np
import yaml


class ToyPDF:
    """lhapdf-like object: x f(x) polynomials, some flavours missing."""

    def __init__(self, rng):
        from eko import basis_rotation as br

        self.pids = {pid for pid in br.flavor_basis_pids if rng.random() < 0.7} | {21}
        self.c = {pid: (rng.uniform(0.2, 3.0), rng.uniform(0.0, 2.0), rng.uniform(0.5, 4.0)) for pid in self.pids}

    def hasFlavor(self, pid):
        return pid in self.pids

    def xfxQ2(self, pid, x, Q2):
        a, b, c = self.c[pid]
        return a * x ** (0.3 + b) * (1.0 - x) ** c + 0.01 * a * x


def read_info(path: pathlib.Path):
    """Independent reader of the .info file: one `Key: value` per line, values are YAML scalars
    or flow sequences."""
    info = {}
    for line in path.read_text(encoding="utf-8").splitlines():
        if not line.strip():
            continue
        key, _, val = line.partition(":")
        info[key.strip()] = yaml.safe_load(val.strip()) if val.strip() else None
    return info


def read_dat(path: pathlib.Path):
    """Independent reader of an lhagrid1 member file: header, then blocks separated by `---`;
    a block = x knots, Q knots, parton ids, then one line per (x, Q) pair, x outer loop."""
    lines = path.read_text(encoding="utf-8").splitlines()
    head = lines[: lines.index("---")]
    blocks = []
    cur = []
    for line in lines[lines.index("---") + 1:]:
        if line.strip() == "---":
            if cur:
                xs = [float(t) for t in cur[0].split()]
                qs = [float(t) for t in cur[1].split()]
                pids = [int(t) for t in cur[2].split()]
                rows = [[float(t) for t in l.split()] for l in cur[3:]]
                blocks.append({"xs": xs, "qs": qs, "pids": pids, "rows": rows})
            cur = []
        else:
            cur.append(line)
    return head, blocks


def rank(value, table, rel, abs_=0.0):
    """1-based position of `value` in the sorted table, 0 if it matches no entry."""
    for k, t in enumerate(table, start=1):
        if abs(value - t) <= rel * abs(t) + abs_:
            return k
    return 0


def cls(a, b, ok, bad):
    """0: |a-b| <= ok*scale, 2: >= bad*scale, 1: between (unresolved)."""
    a, b = np.asarray(a, float), np.asarray(b, float)
    if a.shape != b.shape:
        return 2
    if a.size == 0:
        return 0
    scale = np.maximum(np.abs(b), 1e-300)
    rel = np.abs(a - b) / scale
    rel = np.where((a == 0) & (b == 0), 0.0, rel)
    worst = float(np.max(rel))
    if not np.isfinite(worst):
        return 2
    return 0 if worst <= ok else (2 if worst >= bad else 1)


def run_case(args):
    """One evolve_pdfs call.  args = (case id, eg [[rank, nf]], tgt, seed, scratch)."""
    cid, eg, tgt, seed, scratch = args
    from eko import basis_rotation as br
    from eko.interpolation import InterpolatorDispatcher, XGrid
    from eko.io.items import Operator
    from eko.io.struct import EKO
    from eko.io.types import ReferenceRunning
    from eko.quantities.heavy_quarks import QuarkMassScheme
    from eko.runner import commons
    from ekobox import evol_pdf, genpdf
    from ekobox.cards import example
    from ekobox.genpdf import load as gload

    rng = random.Random(seed)
    root = pathlib.Path(tempfile.mkdtemp(prefix=f"lh-{cid}-", dir=scratch))
    oldtmp = tempfile.tempdir
    tempfile.tempdir = str(root)
    rec = {"eg": eg, "tgt": bool(tgt), "outcome": "written", "exc": "", "xs": [], "tx": [],
           "info": {"qmin": 0, "qmax": 0, "xmin": 0, "xmax": 0, "alphaQs": [], "members": 0}, "blocks": [],
           "files": 0, "gridsSame": True, "flavorsOk": True, "valCls": 0, "alphaCls": 0, "reloadCls": 0}
    extra = {"msg": "", "form": ""}
    try:
        # ---- concrete scales / grids --------------------------------------------------------
        nrank = max(q for q, _ in eg)
        scales = []
        s = rng.uniform(2.0, 6.0)
        for _ in range(nrank):
            scales.append(round(s, 3))
            s *= rng.uniform(1.2, 4.0)
        nx = rng.choice([3, 4])
        card_x = sorted({round(10 ** rng.uniform(-3, -0.15), 4) for _ in range(nx - 1)} | {1.0})
        while len(card_x) < 3:
            card_x = sorted(set(card_x) | {round(10 ** rng.uniform(-3, -0.15), 4)})
        mids = [round(math.sqrt(a * b), 5) for a, b in zip(card_x, card_x[1:])]
        tgt_x = sorted(rng.sample(mids, rng.choice([2, len(mids)])))
        if rng.random() < 0.25:
            # a target grid of the card grid's own length whose nodes sit a relative 6e-6 off the card's
            # (resolved by the printed precision 5e-7, and "close" for a tolerant comparison of grids)
            tgt_x = [x * (1 + rng.choice([-6e-6, 6e-6])) for x in card_x[:-1]] + [1.0]
        xtable = sorted(set(card_x) | (set(tgt_x) if tgt else set()))
        rec["xs"] = [rank(x, xtable, 1e-9) for x in card_x]
        rec["tx"] = [rank(x, xtable, 1e-9) for x in (tgt_x if tgt else card_x)]

        theory = example.theory()
        theory.order = (rng.choice([1, 2, 3]), 0)
        if rng.random() < 0.4:
            theory.heavy.masses_scheme = QuarkMassScheme.MSBAR
            for k, m in enumerate((2.0, 4.5, 173.07)):
                theory.heavy.masses[k] = ReferenceRunning([m, m])
        elif rng.random() < 0.5:
            theory.heavy.matching_ratios[rng.randrange(3)] = rng.choice([0.7, 2.0])
        operator = example.operator()
        operator.init = (1.65, 4)
        islog = rng.random() < 0.7
        operator.xgrid = XGrid(card_x, log=islog)
        operator.configs.interpolation_is_log = islog
        operator.configs.interpolation_polynomial_degree = rng.choice([1, 2])
        operator.mugrid = [(scales[q - 1], nf) for q, nf in eg]
        members = rng.choice([1, 2, 3])
        pdfs = [ToyPDF(rng) for _ in range(members)]
        extra["concrete"] = {"scales": scales, "mugrid": [list(x) for x in operator.mugrid], "card_x": card_x, "log": islog,
                             "target_x": tgt_x if tgt else None, "scheme": theory.heavy.masses_scheme.name,
                             "order": list(theory.order), "members": members}

        # ---- synthetic eko through the real store --------------------------------------------
        nrng = np.random.default_rng(seed)
        ekopath = root / "syn.tar"
        ops = {}
        eko = EKO.create(ekopath).load_cards(theory, operator).build()
        try:
            for mu, nf in operator.mugrid:
                ops[(mu * mu, nf)] = nrng.normal(size=(14, len(card_x), 14, len(card_x)))
                eko[(mu * mu, nf)] = Operator(operator=ops[(mu * mu, nf)])
        finally:
            eko.close()

        # ---- the call under test ---------------------------------------------------------------
        captured = {}
        orig_dump_set = genpdf.export.dump_set

        def spy(name, info, member_blocks, *a, **kw):
            captured["blocks"] = member_blocks
            return orig_dump_set(name, info, member_blocks, *a, **kw)

        name = "SynSet"
        out = root / name
        # a plain sequence may come in any order: the written nodes are sorted, and each value belongs to its node
        tl = list(tgt_x)
        if rng.random() < 0.6:
            rng.shuffle(tl) if rng.random() < 0.5 else tl.reverse()
        forms = [("none", None)] if not tgt else [("list", tl), ("XGrid", XGrid(tgt_x))]
        done = False
        genpdf.export.dump_set = spy
        try:
            for form, tg in forms:
                try:
                    evol_pdf.evolve_pdfs(pdfs, theory, operator, path=ekopath, name=str(out), targetgrid=tg)
                    extra["form"] = form
                    done = True
                    break
                except ValueError as ex:
                    if "is bigger than first" in str(ex):
                        rec["outcome"] = "refused"
                        return rec, extra
                    rec["exc"], extra["msg"] = type(ex).__name__, f"targetgrid as {form}: {ex!r}"[:300]
                except Exception as ex:  # noqa: BLE001
                    rec["exc"], extra["msg"] = type(ex).__name__, f"targetgrid as {form}: {ex!r}"[:300]
                shutil.rmtree(out, ignore_errors=True)
        finally:
            genpdf.export.dump_set = orig_dump_set
        if not done:
            rec["outcome"] = "crash"
            return rec, extra
        rec["exc"] = ""

        # ---- read back ------------------------------------------------------------------------
        info = read_info(out / f"{name}.info")
        files = sorted(out.glob(f"{name}_*.dat"))
        rec["files"] = len(files)
        parsed = [read_dat(f)[1] for f in files]
        qtable = scales
        rec["info"] = {
            "qmin": rank(float(info["QMin"]), qtable, 1e-6, 1.01e-4), "qmax": rank(float(info["QMax"]), qtable, 1e-6, 1.01e-4),
            "xmin": rank(float(info["XMin"]), xtable, 1e-6), "xmax": rank(float(info["XMax"]), xtable, 1e-6),
            "alphaQs": [rank(float(q), qtable, 1e-9) for q in info["AlphaS_Qs"]],
            "members": int(info["NumMembers"]),
        }
        extra["concrete"].update({k: info[k] for k in ("QMin", "QMax", "XMin", "XMax", "AlphaS_Qs", "NumMembers")})
        rec["blocks"] = [{"qs": [rank(q, qtable, 2e-6) for q in b["qs"]], "xs": [rank(x, xtable, 2e-6) for x in b["xs"]]}
                         for b in parsed[0]]
        rec["gridsSame"] = all([(b["qs"], b["xs"], b["pids"]) for b in p] == [(b["qs"], b["xs"], b["pids"]) for b in parsed[0]] for p in parsed)
        rec["flavorsOk"] = all(len(set(b["pids"])) == len(b["pids"]) and set(b["pids"]) == set(info["Flavors"]) for p in parsed for b in p)

        # ---- values: contraction of the stored operators with the toy PDFs, by hand -----------------
        written_x = tgt_x if tgt else card_x
        if tgt:
            disp = InterpolatorDispatcher(XGrid(card_x, log=islog), operator.configs.interpolation_polynomial_degree, mode_N=False)
            rot = disp.get_interpolation(np.array(tgt_x))
        else:
            rot = np.eye(len(card_x))
        groups = {}
        for q, nf in eg:
            groups.setdefault(nf, set()).add(scales[q - 1])
        order = [(nf, sorted(groups[nf])) for nf in sorted(groups)]
        worst = 0
        structure_ok = len(parsed[0]) == len(order) and all(
            [rank(q, qtable, 2e-6) for q in b["qs"]] == [rank(q, qtable, 1e-12) for q in qs] and len(b["xs"]) == len(written_x)
            and len(b["rows"]) == len(b["xs"]) * len(b["qs"])
            for b, (nf, qs) in zip(parsed[0], order))
        if not structure_ok:
            rec["valCls"] = 1   # nodes are judged by the structural clauses
        else:
            for m, pdf in enumerate(pdfs):
                f0 = np.zeros((14, len(card_x)))
                for j, pid in enumerate(br.flavor_basis_pids):
                    if pdf.hasFlavor(pid):
                        f0[j] = [pdf.xfxQ2(pid, x, operator.init[0] ** 2) / x for x in card_x]
                for b, (nf, qs) in zip(parsed[m], order):
                    ref = np.zeros((len(written_x), len(qs), len(b["pids"])))
                    for iq, mu in enumerate(qs):
                        ev = np.einsum("ajbk,bk->aj", ops[(mu * mu, nf)], f0)
                        ev = np.einsum("tj,aj->at", rot, ev)
                        for ip, pid in enumerate(b["pids"]):
                            ref[:, iq, ip] = np.array(written_x) * ev[br.flavor_basis_pids.index(pid)]
                    got = np.array(b["rows"]).reshape(len(written_x), len(qs), len(b["pids"]))
                    worst = max(worst, cls(got, ref, 2e-8, 1e-5))
            rec["valCls"] = worst

        # ---- alpha_s: the coupling the evolution uses (commons.couplings) at the listed nodes ---------
        qs_listed = [float(q) for q in info["AlphaS_Qs"]]
        flat = [(mu, nf) for nf, qs in order for mu in qs]
        if len(qs_listed) != len(flat) or any(abs(a - b[0]) > 1e-9 * b[0] for a, b in zip(qs_listed, flat)):
            rec["alphaCls"] = 1   # which nf a listed node belongs to is undefined: judged by the structural clause
        elif len(info["AlphaS_Vals"]) != len(flat):
            rec["alphaCls"] = 2
        else:
            sc = commons.couplings(theory, operator)
            ref = [float(4.0 * np.pi * sc.a_s(mu * mu, nf_to=nf)) for mu, nf in flat]
            rec["alphaCls"] = cls(info["AlphaS_Vals"], ref, 1e-9, 1e-6)

        # ---- dump -> load identity (the repository's loader, with the lhapdf module stubbed) ----------
        stub = types.ModuleType("lhapdf")
        stub.paths = lambda: [str(root)]
        had = sys.modules.get("lhapdf")
        sys.modules["lhapdf"] = stub
        try:
            worst = 0
            for m in range(len(files)):
                _head, loaded = gload.load_blocks_from_file(name, m)
                dumped = captured["blocks"][m]
                if len(loaded) != len(dumped):
                    worst = 2
                    continue
                for lb, db in zip(loaded, dumped):
                    worst = max(worst, cls(lb["data"], db["data"], 2e-8, 1e-5), cls(lb["xgrid"], db["xgrid"], 2e-6, 1e-3),
                                cls(lb["mu2grid"], db["mu2grid"], 4e-6, 1e-3),
                                0 if list(lb["pids"]) == list(db["pids"]) else 2)
            rec["reloadCls"] = worst
        except Exception as ex:  # noqa: BLE001
            rec["reloadCls"] = 2
            extra["msg"] = f"load_blocks_from_file: {ex!r}"[:300]
        finally:
            if had is None:
                sys.modules.pop("lhapdf", None)
            else:
                sys.modules["lhapdf"] = had
        return rec, extra
    finally:
        tempfile.tempdir = oldtmp
        shutil.rmtree(root, ignore_errors=True)
