"""Measurements for C05 (sum rules of applied EKOs): real solves, real quadrature."""
import copy
import math
import random

import numpy as np

MB = 4.92
SHAPES = {   # init, target
    "ffns-up": ((2.0, 4), (4.4, 4)),
    "ffns-down": ((4.4, 4), (2.0, 4)),
    "vfns-up": ((2.5, 4), (8.0, 5)),
    "vfns-down": ((8.0, 5), (2.5, 4)),
    "vfns-down-charm": ((3.0, 4), (1.3, 3)),   # downwards through the charm matching scale (1.51 GeV) into nf = 3
    "ffns5-up": ((6.0, 5), (14.0, 5)),     # a five-flavour segment (with QED: the down-type sectors of the unified basis)
}
NGRID = 24
XMIN = 1e-4
DEG = 3


def _solve(order, qed, pol, xg, init, target):
    import eko
    from ekobox.cards import example
    from eko.io import runcards
    from eko.io.struct import EKO
    from harness.drivers import runner

    th = copy.deepcopy(example.raw_theory())
    op = copy.deepcopy(example.raw_operator())
    th["order"] = [order, qed]
    th["matching_order"] = [order - 1, 0]
    th["couplings"]["alphas"] = 0.118
    th["couplings"]["ref"] = (91.2, 5)
    th["couplings"]["em_running"] = False
    th["heavy"]["masses"] = [[1.51, float("nan")], [MB, float("nan")], [172.5, float("nan")]]
    op["init"] = init
    op["mugrid"] = [target]
    op["xgrid"] = [float(x) for x in xg]
    c = op["configs"]
    c["evolution_method"] = "iterate-exact"
    c["ev_op_iterations"] = 4
    c["inversion_method"] = "exact"
    c["interpolation_polynomial_degree"] = DEG
    c["n_integration_cores"] = 1
    c["polarized"] = pol
    runner.cheap_sibling(th, op)
    with runner.scratch() as root:
        eko.solve(runcards.TheoryCard.from_dict(th), runcards.OperatorCard.from_dict(op), root / "o.tar")
        with EKO.read(root / "o.tar") as e:
            return [e[k].operator.copy() for k in e][0]


def weights(xg, power):
    """W_j = int_{xmin}^1 x^power p_j(x) dx with the library's own basis functions, Gauss-Legendre in
    ln x on every grid interval (the basis is a polynomial in ln x there)."""
    from eko import interpolation

    disp = interpolation.InterpolatorDispatcher(interpolation.XGrid([float(x) for x in xg]), DEG, mode_N=False)
    gx, gw = np.polynomial.legendre.leggauss(24)
    w = np.zeros(len(xg))
    lx = np.log(np.asarray(xg, dtype=float))
    for a, b in zip(lx[:-1], lx[1:]):
        u = 0.5 * (b - a) * gx + 0.5 * (a + b)
        wu = 0.5 * (b - a) * gw
        x = np.exp(u)
        for j, bf in enumerate(disp):
            vals = np.array([bf.evaluate_x(float(xx)) for xx in x])
            w[j] += float(np.sum(wu * x * x**power * vals))     # dx = x du
    return w


def _toy(x, rng, pids, pol, qed):
    """smooth toy input; valence-like parts vanish like x^0.5 and sea / gluon rise like x^-0.2 at most,
    so that what lies below the grid is negligible for the moments that are taken"""
    f = np.zeros((14, len(x)))

    def sea(c):
        return c * x ** (-rng.uniform(0.05, 0.2)) * (1 - x) ** rng.uniform(5.0, 8.0)

    def val(c):
        return c * x ** rng.uniform(0.4, 0.8) * (1 - x) ** rng.uniform(2.5, 4.5)

    if pol:   # polarised: everything integrable, no small-x rise
        f[pids.index(21)] = val(rng.uniform(0.5, 1.5))
        for q in (1, 2, 3):
            s = val(rng.uniform(-0.2, 0.2))
            f[pids.index(-q)] = s
            f[pids.index(q)] = s + val(rng.uniform(-1.0, 2.0))
        return f
    f[pids.index(21)] = sea(rng.uniform(2.0, 4.0))
    if qed:
        f[pids.index(22)] = sea(rng.uniform(0.01, 0.05))
    for q in (1, 2, 3, 4):
        s = sea(rng.uniform(0.1, 0.4))
        f[pids.index(-q)] = s
        # every quark carries a valence-like part (charm a small one): a flavour combination that is lost or
        # mapped with the wrong number of flavours changes the numbers
        f[pids.index(q)] = s + val(rng.uniform(1.0, 3.0) if q <= 3 else rng.uniform(0.3, 0.8))
    # a sizeable bottom content (about a sixth of the momentum), also where bottom is not active yet
    # (intrinsic): whatever a matching or a rotation does to the heavy-quark entries shows in the totals
    s = sea(rng.uniform(2.0, 3.0))
    f[pids.index(-5)] = s
    f[pids.index(5)] = s + val(rng.uniform(0.2, 0.6))
    return f


def sumrule_cell(args):
    cell, seed = args
    from eko import basis_rotation as br
    from eko import interpolation

    rng = random.Random(seed)
    rec = {"ev": "sumrule", "cell": cell, "err": "", "momDec": 0, "numDec": 0, "viol": []}
    try:
        pol = cell["kind"] == "polarized"
        init, target = SHAPES[cell["shape"]]
        j = rng.uniform(0.97, 1.03)
        init, target = (init[0] * j, init[1]), (target[0] * j, target[1])
        xg = interpolation.lambertgrid(NGRID, XMIN)
        op = _solve(cell["order"], cell["qed"], pol, xg, init, target)
        pids = list(br.flavor_basis_pids)
        fx = _toy(np.asarray(xg, dtype=float), rng, pids, pol, cell["qed"])
        out = np.einsum("ajbk,bk->aj", op, fx)
        w0, w1 = weights(xg, 0), weights(xg, 1)
        viol = {}
        if not pol:
            m0, m1 = float((fx @ w1).sum()), float((out @ w1).sum())
            viol["momentum"] = abs(m1 - m0) / abs(m0)
            nums = []
            ref = max(abs(float((fx[pids.index(q)] - fx[pids.index(-q)]) @ w0)) for q in (1, 2, 3))
            for q in (1, 2, 3, 4, 5, 6):
                v0 = float((fx[pids.index(q)] - fx[pids.index(-q)]) @ w0)
                v1 = float((out[pids.index(q)] - out[pids.index(-q)]) @ w0)
                nums.append(abs(v1 - v0) / ref)
            viol["number"] = max(nums)
        else:
            def plus(t, q):
                return t[pids.index(q)] + t[pids.index(-q)]

            t3 = lambda t: plus(t, 2) - plus(t, 1)                      # noqa: E731
            t8 = lambda t: plus(t, 2) + plus(t, 1) - 2.0 * plus(t, 3)   # noqa: E731
            ref = max(abs(float(t3(fx) @ w0)), abs(float(t8(fx) @ w0)))
            viol["number"] = max(abs(float(t3(out) @ w0) - float(t3(fx) @ w0)), abs(float(t8(out) @ w0) - float(t8(fx) @ w0))) / ref
            viol["momentum"] = 0.0

        def dec(v):
            return 99 if v == 0 else int(math.floor(-math.log10(v)))

        rec["momDec"], rec["numDec"] = dec(viol["momentum"]), dec(viol["number"])
        rec["viol"] = ["%s=%.3e" % kv for kv in sorted(viol.items())]
    except Exception as ex:  # noqa: BLE001
        rec["err"] = type(ex).__name__ + ":" + str(ex)[:80]
    return rec
