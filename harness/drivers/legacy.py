"""Driver for spec/Legacy.tla (C41): abstract legacy field combinations -> synthetic legacy
runcards -> eko.io.runcards.Legacy(...).new_theory / new_operator -> projection of the new
cards back into the vocabulary of the specification."""

from __future__ import annotations

import math

import numpy as np

ABSENT, NONE = "absent", "none"
COPY_TH = ("alphas", "Qref", "XIF", "masses", "ratios", "qm")
COPY_OP = ("xgrid", "interpolation_polynomial_degree", "interpolation_is_log", "ev_op_iterations",
           "n_integration_cores", "polarized", "time_like", "skip_singlet", "skip_non_singlet")


def concretise(o, rng):
    """Abstract fields -> (old theory dict, old operator dict, context for the projection)."""
    ms = sorted(rng.uniform(1.2, 2.0) * f for f in (1.0, 3.0, 100.0))
    ks = [rng.choice([1.0, 0.8, 1.5, 2.0]) for _ in range(3)]
    while not (ms[0] * ks[0] < 0.8 * ms[1] * ks[1] and ms[1] * ks[1] < 0.8 * ms[2] * ks[2]):
        ks = [rng.choice([1.0, 0.8, 1.5, 2.0]) for _ in range(3)]
    walls = [float(w) for w in np.array(ms) * np.array(ks)]      # linear matching scales
    # a point given exactly at a matching scale must square to exactly the wall the library computes
    if any(w ** 2.0 != float(q) or w ** 2 != float(q) for w, q in zip(walls, (np.array(ms) * np.array(ks)) ** 2)):
        return concretise(o, rng)
    mu = {2: walls[0], 4: walls[1], 6: walls[2], 1: 0.6 * walls[0], 3: math.sqrt(walls[0] * walls[1]),
          5: math.sqrt(walls[1] * walls[2]), 7: 2.0 * walls[2]}
    vals = {"v": rng.uniform(0.0070, 0.0080), "w": rng.uniform(0.0081, 0.0090)}
    qref = rng.uniform(80.0, 100.0)
    qms = [m * rng.uniform(0.9, 1.1) for m in ms]
    th = dict(PTO=o["PTO"], QED=o["qedo"], HQ=o["HQ"], ModEv=o["ModEv"], XIF=rng.choice([1.0, 0.5, 2.0]),
              alphas=rng.uniform(0.1, 0.13), Qref=qref, nfref=o["nfref"], Q0=mu[o["q0"]],
              nf0=None if o["nf0"] == 0 else o["nf0"],
              mc=ms[0], mb=ms[1], mt=ms[2], kcThr=ks[0], kbThr=ks[1], ktThr=ks[2],
              Qmc=qms[0], Qmb=qms[1], Qmt=qms[2], MaxNfAs=6, MaxNfPdf=6, IC=0, FNS="VFNS")
    if o["PTOm"] != 9:
        th["PTO_matching"] = [o["PTOm"], 0]
    if o["ModSV"] != ABSENT:
        th["ModSV"] = None if o["ModSV"] == NONE else o["ModSV"]
    if o["inv"] != ABSENT:
        th["backward_inversion"] = o["inv"]
    for key, fld in (("alphaqed", "aqed"), ("alphaem", "aem")):
        if o[fld] != ABSENT:
            th[key] = None if o[fld] == NONE else vals[o[fld]]
    if o["qedref"] != ABSENT:
        th["Qedref"] = qref if o["qedref"] == "same" else qref * 0.5
    if o["fhm"] != ABSENT:
        th["use_fhmruvv"] = o["fhm"] == "true"
    n3lo = tuple(rng.randrange(1, 4) for _ in range(7))
    if o["n3lo"] != ABSENT:
        th["n3lo_ad_variation"] = n3lo
    xgrid = sorted({round(10 ** rng.uniform(-4, -0.1), 5) for _ in range(4)} | {1.0})
    op = dict(interpolation_xgrid=xgrid, interpolation_polynomial_degree=rng.choice([1, 2, 3]),
              interpolation_is_log=rng.random() < 0.6, ev_op_max_order=o["maxo"], ev_op_iterations=rng.randrange(1, 30),
              n_integration_cores=rng.randrange(1, 4), debug_skip_non_singlet=rng.random() < 0.5,
              debug_skip_singlet=rng.random() < 0.5, polarized=rng.random() < 0.5, time_like=rng.random() < 0.5)
    pts = [mu[g] for g in o["grid"]]
    if o["gridkey"] == "mugrid":
        op["mugrid"] = pts
    else:
        op[o["gridkey"]] = [p * p for p in pts]
    ctx = {"mu": mu, "vals": vals, "ms": ms, "ks": ks, "qms": qms, "n3lo": n3lo, "th": th, "op": op}
    return th, op, ctx


def _tok(x, mu):
    for t, v in mu.items():
        if abs(float(x) - v) <= 1e-12 * v:
            return t
    return 0


def convert(o, rng):
    """One conversion; returns the trace record and the concrete cards (for replay)."""
    from eko.io.runcards import Legacy

    th, op, ctx = concretise(o, rng)
    rec = {"o": o, "copyBad": [],
           "t": {"err": "", "order": [0, 0], "morder": [0, 0], "scheme": "", "mscale": "", "alphaem": "", "emrun": False,
                 "nfref": 0, "fhm": False, "n3lo": ""},
           "p": {"err": "", "init": [0, 0], "mugrid": [], "method": "", "scvar": "", "inv": "", "maxorder": [0, 0]}}
    conv = Legacy(th, op)
    try:
        nt = conv.new_theory
    except Exception as ex:  # noqa: BLE001
        nt = None
        rec["t"]["err"] = type(ex).__name__
    if nt is not None:
        scales = [m.scale for m in nt.heavy.masses]
        if all(isinstance(s, float) and math.isnan(s) for s in scales):
            mscale = "nan"
        elif list(scales) == list(ctx["qms"]):
            mscale = "qm"
        else:
            mscale = "other"
        aem = nt.couplings.alphaem
        atok = next((k for k, v in ctx["vals"].items() if aem == v), "0.0" if aem == 0.0 else "other")
        var = tuple(nt.n3lo_ad_variation)
        rec["t"].update(order=[int(nt.order[0]), int(nt.order[1])], morder=[int(nt.matching_order[0]), int(nt.matching_order[1])],
                        scheme=nt.heavy.masses_scheme.name, mscale=mscale, alphaem=atok, emrun=bool(nt.couplings.em_running),
                        nfref=int(nt.couplings.ref[1]), fhm=bool(nt.use_fhmruvv),
                        n3lo="zeros" if var == (0,) * 7 else ("given" if var == ctx["n3lo"] else "other"))
        same = {"alphas": nt.couplings.alphas == th["alphas"], "Qref": nt.couplings.ref[0] == th["Qref"],
                "XIF": nt.xif == th["XIF"], "masses": [m.value for m in nt.heavy.masses] == ctx["ms"],
                "ratios": list(nt.heavy.matching_ratios) == ctx["ks"],
                "qm": th["HQ"] != "MSBAR" or list(scales) == ctx["qms"]}
        rec["copyBad"] += [k for k in COPY_TH if not same[k]]
    if th["HQ"] in ("POLE", "MSBAR"):
        try:
            no = conv.new_operator
        except Exception as ex:  # noqa: BLE001
            no = None
            rec["p"]["err"] = type(ex).__name__
        if no is not None:
            c = no.configs
            rec["p"].update(init=[_tok(no.init[0], ctx["mu"]), int(no.init[1])],
                            mugrid=[[_tok(m, ctx["mu"]), int(nf)] for m, nf in no.mugrid],
                            method=c.evolution_method.value, scvar=NONE if c.scvar_method is None else c.scvar_method.value,
                            inv=NONE if c.inversion_method is None else c.inversion_method.value,
                            maxorder=[int(c.ev_op_max_order[0]), int(c.ev_op_max_order[1])])
            same = {"xgrid": [float(x) for x in no.xgrid.raw] == op["interpolation_xgrid"]
                    and bool(no.xgrid.log) == op["interpolation_is_log"],
                    "skip_singlet": no.debug.skip_singlet == op["debug_skip_singlet"],
                    "skip_non_singlet": no.debug.skip_non_singlet == op["debug_skip_non_singlet"]}
            for k in COPY_OP[1:7]:
                same[k] = getattr(c, k) == op[k]
            rec["copyBad"] += [k for k in COPY_OP if not same[k]]
    return rec, {"theory": {k: (v if not isinstance(v, tuple) else list(v)) for k, v in th.items()}, "operator": op}


def random_combination(rng):
    """A full random combination of the legacy fields (every group varied at once)."""
    key = rng.choice(["mugrid", "Q2grid", "mu2grid"])
    toks = list(range(1, 8)) if key == "mugrid" else [1, 3, 5, 7]
    return {"PTO": rng.randrange(0, 4), "qedo": rng.randrange(0, 3), "PTOm": rng.choice([9, 0, 1, 2, 3]),
            "HQ": rng.choice(["POLE", "MSBAR", "MSBAR", "POLE", "BLUB"]),
            "ModEv": rng.choice(["EXA", "EXP", "TRN", "iterate-exact", "perturbative-exact", "perturbative-expanded",
                                 "ordered-truncated", "decompose-exact", "decompose-expanded", "truncated", "iterate-expanded"]),
            "ModSV": rng.choice([ABSENT, NONE, "expanded", "exponentiated"]), "inv": rng.choice([ABSENT, "exact", "expanded"]),
            "aqed": rng.choice([ABSENT, NONE, "v"]), "aem": rng.choice([ABSENT, NONE, "w"]),
            "qedref": rng.choice([ABSENT, "same", "other"]), "nfref": rng.randrange(3, 7), "nf0": rng.choice([0, 0, 3, 4, 5, 6]),
            "q0": rng.randrange(1, 8), "gridkey": key, "grid": [rng.choice(toks) for _ in range(rng.randrange(1, 5))],
            "maxo": rng.choice([1, 5, 10]), "fhm": rng.choice([ABSENT, "true", "false"]), "n3lo": rng.choice([ABSENT, "given"])}
