"""Synthetic archives in the data-version 1 / 2 layouts (C41): a current archive is written through
the real store, its YAML members are rewritten by the INVERSE of the documented patches, the result
is read back with EKO.read and compared field by field with the original."""
import io
import random
import tarfile

import numpy as np
import yaml


def downgrade(th, op, md, v):
    th = dict(th)
    op = dict(op)
    md = dict(md)
    cp = dict(th["couplings"])
    scale, nfref = cp.pop("ref")
    cp.update(scale=scale, num_flavs_ref=nfref, max_num_flavs=6)
    th["couplings"] = cp
    hv = dict(th["heavy"])
    hv.update(intrinsic_flavors=[4], num_flavs_init=op["init"][1], num_flavs_max_pdf=6)
    th["heavy"] = hv
    op["mu0"] = op.pop("init")[0]
    if v == 1:
        th.pop("matching_order", None)
        th["use_fhmv"] = th.pop("use_fhmruvv")
        op["configs"] = {k: x for k, x in op["configs"].items() if k != "n_integration_cores"}
        md["version"] = "0.13.5"
    else:
        md["version"] = "0.14.2"
    md["data_version"] = 1          # both generations carry data_version 1 on disk
    md["bases"] = {"xgrid": md.pop("xgrid")}
    return th, op, md


def experiment(seed):
    from eko.io.items import Operator
    from eko.io.struct import EKO
    from harness.drivers import runner
    from harness.drivers.store_content import random_cards, bits_eq

    rng = random.Random(seed)
    nrng = np.random.default_rng(seed)
    v = rng.choice([1, 2])
    rec = {"v": v, "seed": seed, "exc": "", "same": []}
    with runner.scratch() as root:
        theory, operator, nx = random_cards(rng)
        if v == 1:
            theory.matching_order = (0, 0)
            operator.configs.n_integration_cores = 1
        pts = {}
        with EKO.create(root / "new.tar") as b:
            e = b.load_cards(theory, operator).build()
            for mu, nf in operator.mugrid:
                o = Operator(nrng.normal(size=(14, nx, 14, nx)), nrng.normal(size=(14, nx, 14, nx)) if rng.random() < 0.5 else None)
                e[(mu ** 2, nf)] = o
                pts[(float(mu ** 2), int(nf))] = o
        # rewrite the YAML members
        with tarfile.open(root / "new.tar") as tin, tarfile.open(root / "old.tar", "w") as tout:
            docs = {}
            for m in tin.getmembers():
                name = m.name.lstrip("./")
                if name in ("theory.yaml", "operator.yaml", "metadata.yaml"):
                    docs[name] = yaml.safe_load(tin.extractfile(m).read())
            th, op, md = downgrade(docs["theory.yaml"], docs["operator.yaml"], docs["metadata.yaml"], v)
            new = {"theory.yaml": th, "operator.yaml": op, "metadata.yaml": md}
            for m in tin.getmembers():
                name = m.name.lstrip("./")
                if name in new:
                    data = yaml.safe_dump(new[name]).encode()
                    m2 = tarfile.TarInfo(m.name)
                    m2.size = len(data)
                    tout.addfile(m2, io.BytesIO(data))
                elif m.isfile():
                    tout.addfile(m, tin.extractfile(m))
                else:
                    tout.addfile(m)
        try:
            with EKO.read(root / "old.tar") as old:
                t2, o2, m2 = old.theory_card, old.operator_card, old.metadata
                same = rec["same"]

                def eq(name, a, b):
                    try:
                        ok = bool(np.all(np.asarray(a, dtype=object) == np.asarray(b, dtype=object))) if not isinstance(a, np.ndarray) else bool(np.array_equal(a, b))
                    except Exception:  # noqa: BLE001
                        ok = a == b
                    if ok:
                        same.append(name)

                eq("order", tuple(t2.order), tuple(theory.order))
                eq("alphas", t2.couplings.alphas, theory.couplings.alphas)
                eq("alphaem", t2.couplings.alphaem, theory.couplings.alphaem)
                eq("ref-scale", float(t2.couplings.ref[0]), float(theory.couplings.ref[0]))
                eq("ref-nf", int(t2.couplings.ref[1]), int(theory.couplings.ref[1]))
                eq("masses", [float(x.value) for x in t2.heavy.masses], [float(x.value) for x in theory.heavy.masses])
                eq("scheme", t2.heavy.masses_scheme, theory.heavy.masses_scheme)
                eq("ratios", [float(x) for x in t2.heavy.matching_ratios], [float(x) for x in theory.heavy.matching_ratios])
                eq("xif", float(t2.xif), float(theory.xif))
                eq("n3lo-variation", tuple(t2.n3lo_ad_variation), tuple(theory.n3lo_ad_variation))
                eq("use-fhmruvv", t2.use_fhmruvv, theory.use_fhmruvv)
                eq("matching-order", tuple(t2.matching_order), tuple(theory.matching_order))
                eq("init-scale", float(o2.init[0]), float(operator.init[0]))
                eq("init-nf", int(o2.init[1]), int(operator.init[1]))
                eq("mugrid", [(float(a), int(b)) for a, b in o2.mugrid], [(float(a), int(b)) for a, b in operator.mugrid])
                eq("xgrid", o2.xgrid.raw, operator.xgrid.raw)
                c2, c1 = o2.configs, operator.configs
                eq("method", c2.evolution_method, c1.evolution_method)
                eq("iterations", c2.ev_op_iterations, c1.ev_op_iterations)
                eq("max-order", tuple(c2.ev_op_max_order), tuple(c1.ev_op_max_order))
                eq("sv-method", c2.scvar_method, c1.scvar_method)
                eq("inversion", c2.inversion_method, c1.inversion_method)
                eq("degree", c2.interpolation_polynomial_degree, c1.interpolation_polynomial_degree)
                eq("is-log", c2.interpolation_is_log, c1.interpolation_is_log)
                eq("polarized", c2.polarized, c1.polarized)
                eq("time-like", c2.time_like, c1.time_like)
                eq("cores", c2.n_integration_cores, c1.n_integration_cores)
                eq("points", sorted((float(a), int(b)) for a, b in old), sorted(pts))
                allsame = True
                for ep, o in pts.items():
                    got = old[ep]
                    allsame = allsame and got is not None and bits_eq(got.operator, o.operator) and bits_eq(got.error, o.error)
                if allsame:
                    same.append("operators")
                eq("metadata-xgrid", m2.xgrid.raw, operator.xgrid.raw)
                eq("metadata-origin", (float(m2.origin[0]), int(m2.origin[1])), (float(operator.init[0] ** 2), int(operator.init[1])))
        except Exception as ex:  # noqa: BLE001
            rec["exc"] = type(ex).__name__ + ":" + str(ex)[:100]
    return rec
