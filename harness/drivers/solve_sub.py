"""Executed in a fresh interpreter: solve the cards given as YAML files and print the archive manifest."""
import hashlib
import json
import pathlib
import sys
import tarfile
import tempfile


def manifest(path):
    out = []
    with tarfile.open(path) as tar:
        for m in tar.getmembers():
            if not m.isfile():
                continue
            data = tar.extractfile(m).read()
            name = m.name.lstrip("./")
            cls = name.split("/")[0] if "/" in name else ("metadata" if name.startswith("metadata") else "cards")
            out.append({"name": name, "sha": hashlib.sha256(data).hexdigest()[:32], "cls": cls})
    return sorted(out, key=lambda x: x["name"])


def main():
    src, thf, opf, shim = sys.argv[1:5]
    sys.path.insert(0, src)
    import yaml

    import eko
    from eko.io import runcards

    th = runcards.TheoryCard.from_dict(yaml.safe_load(pathlib.Path(thf).read_text()))
    op = runcards.OperatorCard.from_dict(yaml.safe_load(pathlib.Path(opf).read_text()))
    root = pathlib.Path(tempfile.mkdtemp(prefix="verif-eko-sub-"))
    tempfile.tempdir = str(root)
    res = {"err": "", "members": []}
    try:
        path = root / "o.tar"
        if shim == "1":
            sys.path.insert(0, str(pathlib.Path(__file__).resolve().parents[2]))
            from harness.drivers import runner

            with runner.shimmed():
                eko.solve(th, op, path)
        else:
            eko.solve(th, op, path)
        res["members"] = manifest(path)
    except Exception as ex:  # noqa: BLE001
        res["err"] = type(ex).__name__ + ":" + str(ex)[:200]
    finally:
        import shutil

        tempfile.tempdir = None
        shutil.rmtree(root, ignore_errors=True)
    print("MANIFEST " + json.dumps(res))


if __name__ == "__main__":
    main()
