"""Synthetic EKO pairs for ekobox.utils.ekos_product (C44)."""
import copy
import hashlib
import pathlib
import random

import numpy as np

NX = 2


def embed(m2, base):
    n = 14 * NX
    full = np.eye(n) if base == "eye" else np.zeros((n, n))
    full[:2, :2] = np.array(m2, dtype=float)
    return full.reshape(14, NX, 14, NX)


def block(t):
    n = 14 * NX
    full = np.asarray(t).reshape(n, n)
    return [[int(full[r, c]) for c in range(2)] for r in range(2)], full


def rand_m(rng):
    while True:
        m = [[rng.randrange(-3, 4) for _ in range(2)] for _ in range(2)]
        if m[0][1] or m[1][0]:
            return m


def make_eko(path, init, points, rng):
    """points: list of (mu, nf, val2x2, err2x2|None)."""
    from ekobox.cards import example
    from eko.io.items import Operator
    from eko.io.struct import EKO
    import eko.interpolation as interp

    th = example.theory()
    op = example.operator()
    op.init = init
    op.mugrid = [(p[0], p[1]) for p in points]
    op.xgrid = interp.XGrid([0.1, 1.0])
    with EKO.create(path) as b:
        e = b.load_cards(th, op).build()
        for mu, nf, v, er in points:
            e[(mu ** 2, nf)] = Operator(embed(v, "eye"), None if er is None else embed(er, "zero"))


def scenario(seed):
    from eko.io.struct import EKO
    from ekobox import utils
    from harness.drivers import runner

    rng = random.Random(seed)
    rec = {"seed": seed}
    with runner.scratch() as root:
        mus = sorted(rng.uniform(2, 50) for _ in range(6))
        nini = rng.randrange(1, 4)
        witherr_ini = rng.random() < 0.7
        witherr_fin = rng.random() < 0.7
        ini_pts = [(mus[j], 5, rand_m(rng), rand_m(rng) if witherr_ini else None) for j in range(nini)]
        mk = rng.randrange(nini)
        match = rng.choice(["one", "one", "one", "none", "many"])
        init_mu = ini_pts[mk][0]
        if match == "one":
            init_mu = init_mu * (1 + rng.choice([0.0, 1e-9, -1e-8]))
        elif match == "none":
            init_mu = init_mu * 1.01
        else:
            # a second point of ini within tolerance of the first
            ini_pts.append((ini_pts[mk][0] * (1 + 2e-8), 5, rand_m(rng), rand_m(rng) if witherr_ini else None))
        if rng.random() < 0.5:
            # the first EKO also holds targets of another nf - at the very scale of the matching point
            # and elsewhere - stored BEFORE it: the product must pick the point by scale AND nf
            decoys = [(ini_pts[mk][0], rng.choice([4, 6]), rand_m(rng), rand_m(rng) if witherr_ini else None)]
            if rng.random() < 0.5:
                decoys.append((mus[rng.randrange(3)] * 1.3, 4, rand_m(rng), rand_m(rng) if witherr_ini else None))
            ini_pts = decoys + ini_pts
            mk += len(decoys)
            nini += len(decoys)
        fin_pts = [(mus[3 + j], 5, rand_m(rng), rand_m(rng) if witherr_fin else None) for j in range(rng.randrange(1, 4))]
        if rng.random() < 0.4:   # a target of fin that ini already has: must be kept as in ini
            p = ini_pts[rng.randrange(nini)]
            fin_pts.append((p[0], 5, rand_m(rng), rand_m(rng) if witherr_fin else None))
        make_eko(root / "ini.tar", (1.5, 5), ini_pts, rng)
        make_eko(root / "fin.tar", (init_mu, 5), fin_pts, rng)
        mode = rng.choice(["inplace", "path"])
        key = {}

        def kname(mu, nf):
            return key.setdefault((float(mu) ** 2, nf), f"p{len(key) + 1}")

        rec["ini"] = [{"k": kname(p[0], p[1]), "val": p[2], "err": p[3] or [[0, 0], [0, 0]], "hasErr": p[3] is not None} for p in ini_pts]
        rec["fin"] = [{"k": kname(p[0], p[1]), "val": p[2], "err": p[3] or [[0, 0], [0, 0]], "hasErr": p[3] is not None} for p in fin_pts]
        rec["match"] = match
        rec["matchKey"] = kname(ini_pts[mk][0], 5)
        rec["mode"] = mode
        rec.update(exc="", out=[], outLive=[], restOk=True, iniUntouched=True)
        sha0 = hashlib.sha256((root / "ini.tar").read_bytes()).hexdigest()
        live = []
        try:
            with EKO.edit(root / "ini.tar") as ei, EKO.read(root / "fin.tar") as ef:
                if mode == "path":
                    utils.ekos_product(ei, ef, path=root / "res.tar")
                else:
                    utils.ekos_product(ei, ef)
                    # what the live object answers right after the product (no reload)
                    for ep in list(ei):
                        o = ei[ep]
                        live.append((ep, o.operator.copy(), None if o.error is None else o.error.copy()))
                if mode == "path":
                    raise _Abort()   # leave the initial EKO without closing: nothing may have been written
        except _Abort:
            pass
        except Exception as ex:  # noqa: BLE001
            rec["exc"] = type(ex).__name__
        if not rec["exc"]:
            if mode == "path":
                rec["iniUntouched"] = hashlib.sha256((root / "ini.tar").read_bytes()).hexdigest() == sha0
            from eko.io.items import Operator as _Op

            with EKO.read(root / ("res.tar" if mode == "path" else "ini.tar")) as er:
                stored = [(ep, er[ep]) for ep in er]
            # in-place: the live answers are judged like the stored ones (suffix "~live" is stripped)
            items = stored + [(ep, _Op(a, b)) for ep, a, b in live]
            nst = len(stored)
            rec["outLive"] = []
            for idx, (ep, o) in enumerate(items):
                if True:
                    v, full = block(o.operator)
                    rest = full.copy()
                    rest[:2, :2] = np.eye(2)
                    ok = np.array_equal(rest, np.eye(14 * NX)) and np.array_equal(np.array(v, dtype=float), full[:2, :2])
                    e2 = [[0, 0], [0, 0]]
                    if o.error is not None:
                        e2, efull = block(o.error)
                        erest = efull.copy()
                        erest[:2, :2] = 0
                        ok = ok and not erest.any() and np.array_equal(np.array(e2, dtype=float), efull[:2, :2])
                    rec["restOk"] = rec["restOk"] and bool(ok)
                    k = None
                    for (m2, nf), name in key.items():
                        if m2 == float(ep[0]) and nf == ep[1]:
                            k = name
                    (rec["out"] if idx < nst else rec["outLive"]).append({"k": k or "unknown", "val": v, "err": e2, "hasErr": o.error is not None})
    return rec


class _Abort(Exception):
    pass
