"""C30 QED-extended grids embed the QCD towers with the right charges (mode S+L, EkoreLaws.tla)."""

import math

from harness.ekorelaws import engine as E
from harness.ekorelaws import registry as R
from harness.ekorelaws.classes import ROUNDING

META = {
    "id": "C30",
    "level": "exploration",
    "technique": "table QedGrid in EkoreLaws.tla: linear relations with rational coefficients between entries of the QED grids (gamma_singlet_qed, gamma_valence_qed, gamma_ns_qed) and the QCD towers (gamma_singlet, gamma_ns) -- index map (g, photon, Sigma, Sigma_Delta) <- (q, g), structural zeros, charge factors e_u^2 = 4/9, e_d^2 = 1/9; TLC enumerates relation x order x nf x N3LO parametrisation x variation x point; each relation is evaluated on the real un-jitted dispatchers at random N and recorded as an integer class; trace validated by TLC (EkoreLawsTrace)",
    "text": "Pure-QCD orders (k,0), k = 1..4 (both N3LO parametrisations, FHMRUVV with the three uniform variation tuples): the four singlet entries equal the QCD singlet entries under the index map, Sigma_Delta equals gamma_ns+, V equals gamma_nsv, V_Delta equals gamma_ns-, the four gamma_ns_qed modes equal gamma_ns+/gamma_ns- (class rounding; reported how many are bitwise); every other entry of the 4x4 and 2x2 blocks, in particular the whole photon row and column, is exactly zero. Pure-QED and mixed orders: up/down non-singlet entries at (0,1) and (1,1) are in ratio e_u^2 : e_d^2 = 4 : 1 (u - 4 d = 0 to rounding); at (0,2) the two functions differ and obey 9/4 u - 9 d - 9/32 u^(1,1) = 0 (both carry e_q^2 gamma^(1,1)/(2 C_F) plus a common term); the gluon row and column of the singlet grid vanish exactly at orders (0,1), (0,2).",
    "note": "Random N: half on the Talbot contours, half in the box Re N in (-2.5, 30), |Im N| <= 40; J points per cell (4 quick, 30 thorough). N3LO variation tuples are uniform (same index for all seven entries): with non-uniform tuples the FHMRUVV Sigma_Delta entry follows the qq index while gamma_ns_qed follows the nsp index (observation, not judged: the statement does not quantify over variation tuples). The (0,2) relation is derived from the expressions (aem2.gamma_nspu/d); it is a relation among outputs, not a reference value.",
    "design_ref": "4.11, 5 C30",
    "rule": "cell = (relation, order k, nf, N3LO parametrisation, variation, point); distinct by cell; non-trivial = at least one non-zero entry involved (zero-entry cells are counted as evaluations only)",
}


def _entry(t, cell, n):
    g = t["g"]
    fam, sec = g.split(":")
    if fam == "qed":
        return R.ad_entry("qed", sec, t["k"], t["q"], cell["nf"], cell["fl"], cell["var"], n, t["a"], t["b"])
    return R.ad_entry("us", sec, t["k"], 0, cell["nf"], cell["fl"], cell["var"], n, t["a"], t["b"])


def measure_cell(cell, seed):
    rng = E.cell_rng(seed, cell, "C30")
    n = R.point_on_talbot(rng, rng.random() < 0.5) if cell["j"] % 2 else R.point_off_contour(rng)
    vals = [(t["num"] / t["den"]) * _entry(t, cell, n) for t in cell["rel"]["terms"]]
    tot = sum(vals)
    scale = sum(abs(v) for v in vals)
    if tot == 0:
        cls = 0
    elif not math.isfinite(scale) or scale == 0.0:
        cls = 15
    else:
        r = abs(tot) / scale
        cls = 1 if r <= ROUNDING else int(min(14, 2 + max(0, math.floor(math.log10(r / ROUNDING)))))
    return {"cls": cls}, {"n": [n.real, n.imag], "rel": abs(tot) / scale if scale else 0.0, "scale": scale}


def run(chk):
    J = E.points_per_cell(chk, 4, 30)
    cells = E.plan(chk, "C30", J)
    measured = E.measure(chk, cells, measure_cell)
    recs = [{"cell": c, "obs": o} for c, o, _ in measured]
    nb = {}
    for c, o, i in measured:
        chk.count(1, E.cell_key(c), nontrivial=i["scale"] > 0)
        name = c["rel"]["name"]
        a = nb.setdefault(name, [0, 0])
        a[0] += o["cls"] == 0
        a[1] += 1
    chk.note("bitwise_cells_per_relation", {k: f"{v[0]}/{v[1]}" for k, v in sorted(nb.items())})
    chk.sample({"cell": measured[0][0], "obs": measured[0][1]})
    chk.sample({"cell": measured[-1][0], "obs": measured[-1][1], "info": measured[-1][2]})
    bad, unres = E.validate(chk, "C30", J, recs, "measured cells of QedGrid")

    def describe(cell, obs, info):
        return (f"QED grid relation {cell['rel']['name']} {cell['rel']['terms']} fails at order k={cell['k']} nf={cell['nf']} "
                f"{cell['fl']} var={cell['var']} N={info['n']}: class {obs['cls']}, relative residual {info['rel']:.3e}")

    m2 = [({**c, "name": c["rel"]["name"], "entry": "/".join(f"{t['g']}[{t['k']},{t['q']}][{t['a']},{t['b']}]" for t in c["rel"]["terms"][:1])}, o, i)
          for c, o, i in measured]
    E.report(chk, "C30", m2, bad, unres, ("name", "entry", "fl"), describe)

    def corrupt(r):
        r["obs"]["cls"] = 3

    zero = next(r for r in recs if r["cell"]["rel"]["name"] == "zero-S")
    emb = next(r for r in recs if r["cell"]["rel"]["name"] == "embed-S")
    rat = next(r for r in recs if r["cell"]["rel"]["name"] == "charge-ratio")
    E.binding_demo(chk, "C30", J, [zero, emb, rat], corrupt, "C30:")
    # vacuity guard: demanding bitwise equality everywhere must refute the (rounding-class) real trace
    E.switch_guard(chk, "C30", J, recs, "all-bitwise", "C30:")
