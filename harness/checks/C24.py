"""C24 harmonic sums: cache (mode S, HarmonicCache.tla) + values (mode L, EkoreLaws.tla)."""

import copy

import numpy as np

from harness.core import MachineryError
from harness.ekorelaws import engine as E
from harness.ekorelaws import harmonics as H
from harness.ekorelaws.classes import cls_equal, cls_real, expo100

META = {
    "id": "C24",
    "level": "model_checking",
    "technique": "cache clause: TLA+ spec HarmonicCache (transcription of ekore.harmonics.cache.get with typed leaf functions and an independent Canon table), TLC exhaustive over all look-up sequences of length <= 3 x 3 parity flags, mutated transcriptions refuted; random look-up orders on the real cache.get validated by TLC (HarmonicCacheTrace: conformance of the filled-slot sets + every slot/reply equal to direct evaluation of Canon(k)). Value clauses: law plan SumInduction/Conj enumerated by TLC from EkoreLaws, residuals of the real functions recorded as integer classes, trace validated by TLC (EkoreLawsTrace)",
    "text": "Level model_checking holds for the cache clause only: TLC explores every sequence of at most 3 look-ups over the 31 keys for each parity flag (True/False/None) on the transcribed cache and checks that every filled slot and every reply is the canonical term (which sum at which argument: S1mh -> S1((n-1)/2), g3p2 -> g3(n+2), ...); four switches (flag changing between calls, three mutated branches) must be refuted. The real cache.get is then driven with random orders of all keys (and orders with repetitions) at random complex N; after every call every filled slot and the reply are compared with the direct evaluation of Canon(k) through the w1..w5 / mellin_g3 leaf functions, and TLC checks that the set of slots filled by each call is the one the transcription fills. The value clauses are level exploration: base case S(1) = term(1) and one-step recurrence S(N+1) - S(N) = term(N+1) at N = 1..60 (matching parity flag and generic flag) and at random complex N (Re N in [0.5, 50], |Im N| <= 60, both flags) for all 19 sums of weight 1-5, which by induction is equality with the defining finite nested sums at every positive integer; S(conj N) = conj S(N) and Im S = 0 on the real axis.",
    "note": "NOT decided: the clause that the Mellin transforms of the logarithmic and g-functions equal their defining integrals (needs a quadrature oracle outside the implementation). Required classes: simple sums 1e-11 absolute (unchanged tree <= 2e-15); nested sums evaluated through polynomial approximations of Mellin transforms: 3.2e-5 (S21, S31, S211, Sm2m1; unchanged tree <= 2.5e-8) and 3.2e-3 (Sm21, S2m1, Sm31, Sm22, Sm211; unchanged tree <= 2.0e-6), i.e. worst clean residual x 1e3: an error in a nested sum below these figures is not detected. Conj/real-axis: class rounding (unchanged tree: bitwise). Sequences longer than 3 are covered only by the random orders on the real cache.",
    "design_ref": "4.8, 4.11, 5 C24",
    "rule": "cache: history = sequence of get(key) calls on one cache array with one parity flag, distinct by (flag, key sequence), non-trivial = fills at least one dependency slot; values: cell = (law, sum, N or point index, flag), all non-trivial",
}

SIMPLE = {"S1", "S2", "S3", "S4", "S5", "Sm1", "Sm2", "Sm3", "Sm4", "Sm5"}
GUARDS = ["MixedParity", "S1ph-from-S1h", "g3p2-from-S1", "Sm22-skips-Sm31"]


def cache_part(chk):
    r = chk.tlc("HarmonicCacheMC", "HarmonicCacheMC.cfg", workers=4, label="all look-up sequences of length <= 3")
    if r.violated:
        chk.diag(f"design counterexample: {r.violated}: {r.counterexample()[:1500]}")
    canon = r.printed("CANON")
    if not canon:
        raise MachineryError("HarmonicCacheMC did not print the canonical table")
    canon = canon[0][1]
    guards = GUARDS if chk.thorough() else [GUARDS[0], GUARDS[1 + chk.seed % 3]]
    for g in guards:
        chk.tlc("HarmonicCacheMC", f"HarmonicCacheMC_{g}.cfg", workers=1, expect_violation="C24_Cache",
                label=f"vacuity guard: switch {g}", env=dict(E.FAST_JVM))
    # binding of names and indices
    from ekore.harmonics import cache as c

    for pos, e in enumerate(canon):
        if getattr(c, e["key"], None) != pos:
            raise MachineryError(f"key register differs: {e['key']} is {getattr(c, e['key'], None)}, spec says {pos}")
    if c.CACHE_SIZE != len(canon):
        raise MachineryError("cache size differs from the spec's key register")

    names = [e["key"] for e in canon]
    ntr = 600 if chk.thorough() else 90
    recs, starts = [], []
    for t in range(ntr):
        n = complex(chk.rng.uniform(0.5, 50.0), chk.rng.uniform(-60.0, 60.0))
        if t % 7 == 3:
            n = complex(chk.rng.randint(1, 60), 0.0)  # positive integers too
        par = chk.rng.choice(["S", "NS", "None"])
        if par == "None" and abs(n.imag) > 30:
            n = complex(n.real, n.imag / 4)  # (-1)^N stays moderate
        order = list(names)
        chk.rng.shuffle(order)
        if t % 3 == 0:
            order = [chk.rng.choice(names) for _ in range(31)]
        tr = H.run_cache_trace(canon, order, n, par, cls_equal)
        starts.append(len(recs))
        recs += tr
        chk.count(len(tr), (par, tuple(order)), nontrivial=True)
    chk.sample({"cache_call": recs[0]})
    chk.sample({"cache_call": recs[40]})
    r = chk.tlc("HarmonicCacheTrace", "HarmonicCacheTrace.cfg", workers=1, trace=recs, label="real cache.get traces",
                env=dict(E.FAST_JVM))
    if r.violated or not r.completed:
        raise MachineryError(f"HarmonicCacheTrace not accepted: {r.out[-1500:]}")
    chk.cov["traces_validated_against_impl"] += len(recs)
    seen = set()
    for t in r.printed("BAD"):
        rec = recs[t[1] - 1]
        if t[2] == "C24:slot-not-canon":
            # one finding per slot that ever differs from its canonical value
            for slot in rec["neq"]:
                fp = f"C24:slot-not-canon slot={slot}"
                if fp not in seen:
                    seen.add(fp)
                    chk.violation(fp, f"cache slot {slot} differs from the direct evaluation of its canonical function "
                                      f"after cache.get({rec['key']}, is_singlet={rec['par']})", rec)
        elif t[2].startswith("C24:"):
            fp = f"{t[2]} key={rec['key']}"
            if fp not in seen:
                seen.add(fp)
                chk.violation(fp, f"cache.get({rec['key']}, is_singlet={rec['par']}): {t[2]}", rec)
        else:
            chk.diag(f"{t[2]} at call {rec['key']} flag {rec['par']}")
    # binding demonstration
    good = [copy.deepcopy(x) for x in recs[:31]]
    good[5]["neq"] = [good[5]["filled"][0]]
    good[9]["reply"] = 2
    good[12]["same"] = False
    good[20]["filled"] = good[20]["filled"][:-1]
    r = chk.tlc("HarmonicCacheTrace", "HarmonicCacheTrace.cfg", workers=1, trace=good,
                label="corrupted cache records (must be rejected)", env=dict(E.FAST_JVM))
    got = {(t[1], t[2].split(":")[0]) for t in r.printed("BAD")}
    if not {(6, "C24"), (10, "C24"), (13, "C24"), (21, "CONF")} <= got:
        raise MachineryError(f"binding demonstration (cache) failed: {sorted(got)}")
    chk.note("binding_demo_cache", "4 corrupted cache records rejected by HarmonicCacheTrace")


def _point(cell, seed):
    rng = E.cell_rng(seed, {"sum": cell["sum"], "j": cell["j"]}, "C24")
    return complex(rng.uniform(0.5, 50.0), rng.uniform(-60.0, 60.0)), rng.uniform(0.5, 50.0)


def measure_cell(cell, seed):
    s = cell["sum"]
    law = cell["law"]
    if law in ("Base", "RecInt"):
        N = float(cell["N"])
        if cell["flag"] == "none":
            p = p1 = None
        else:
            p = int(N) % 2 == 0
            p1 = not p
        if law == "Base":
            res = abs(H.leaf(s, N, p) - H.term(s, N, p))
        else:
            res = abs(H.leaf(s, N + 1, p1) - H.leaf(s, N, p) - H.term(s, N + 1, p1))
        return {"e": expo100(res)}, {"res": float(res)}
    n, x = _point(cell, seed)
    p = cell["flag"] == "S"
    if law == "RecCplx":
        p1 = not p
        res = abs(H.leaf(s, n + 1, p1) - H.leaf(s, n, p) - H.term(s, n + 1, p1))
        return {"e": expo100(res)}, {"res": float(res), "n": [n.real, n.imag]}
    a = H.leaf(s, n, p)
    b = H.leaf(s, n.conjugate(), p)
    r = H.leaf(s, complex(x, 0.0), p)
    return {"cj": cls_equal(b, np.conj(a)), "re": cls_real(r)}, {"n": [n.real, n.imag], "x": x}


def values_part(chk):
    J = E.points_per_cell(chk, 12, 150)
    cells = E.plan(chk, "C24", J)
    measured = E.measure(chk, cells, measure_cell)
    recs = [{"cell": c, "obs": o} for c, o, _ in measured]
    for c, o, i in measured:
        chk.count(1, E.cell_key(c), nontrivial=True)
    worst = {}
    for c, o, i in measured:
        if "res" in i:
            tier = "simple" if c["sum"] in SIMPLE else c["sum"]
            worst[tier] = max(worst.get(tier, 0.0), i["res"])
    chk.note("worst_residual_per_sum", {k: f"{v:.2e}" for k, v in sorted(worst.items())})
    chk.sample({"cell": measured[0][0], "obs": measured[0][1]})
    chk.sample({"cell": measured[-1][0], "obs": measured[-1][1], "info": measured[-1][2]})
    bad, unres = E.validate(chk, "C24", J, recs, "measured cells of SumInduction / Conj")

    def describe(cell, obs, info):
        return f"harmonic sum {cell['sum']}: law {cell['law']} violated at N={cell['N'] or info.get('n')} flag={cell['flag']}: observation {obs} {info}"

    E.report(chk, "C24", measured, bad, unres, ("law", "sum", "flag"), describe)

    def corrupt(r):
        if "e" in r["obs"]:
            r["obs"]["e"] = -100
        else:
            r["obs"]["cj"] = 5

    pick = [recs[0], recs[200], next(r for r in recs if r["cell"]["law"] == "RecCplx"),
            next(r for r in recs if r["cell"]["law"] == "Conj")]
    E.binding_demo(chk, "C24", J, pick, corrupt, "C24:")
    E.switch_guard(chk, "C24", J, recs[:400], "strict-sums", "C24:")


def run(chk):
    cache_part(chk)
    values_part(chk)
