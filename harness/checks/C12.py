"""C12 exact singlet methods converge to the path-ordered solution (laws ConvergenceOrder, OdeLocal on the limit)."""

from harness.laws import c12, engine

META = {
    "id": "C12",
    "level": "exploration",
    "technique": "TLA+ law plan (Laws.tla cells enumerated by TLC; documented second-order midpoint rule as the required convergence class) + measurement of the real un-jitted eko_iterate / eko_perturbative / QED eko_iterate through their dispatchers + TLC trace validation (LawsTrace)",
    "text": "Random non-commuting complex 2x2 towers (orders 2-4, nf 3-6, both directions) and 4x4 / 2x2 QED grids (QCD order 1-4, QED order 1-2): (ratio) successive differences of the iterated kernel at 10,20,40,80 steps shrink by a factor in [3.5,4.5]; (pert-limit) the distance of perturbative-exact (ev_op_max_order = n+1, n+3, n+5) to the Romberg limit of the iterated kernel shrinks by >= 3x per refinement down to the limit's own residual; (ode) the Richardson-extrapolated limit (4E(160)-E(80))/3 satisfies dL/da1 = Gamma(a1)/B(a1) L with Gamma, B rebuilt from the inputs and an independent beta table (QED: sum_ij gamma[i,j] a^i aem^j over beta(a) + beta_(2,1) a^2 aem), which by uniqueness identifies the limit as the path-ordered solution without an external ODE integrator.",
    "note": "Clean tree: ratio exponent 1.99-2.00 (a first-order scheme gives 1.0; design switch FirstOrderScheme is refuted by the clean trace); pert-limit exponent >= 3.1 (couplings <= 0.02); local ODE residual of the limit <= 2e-8, required <= 1e-5, a wrong power or coefficient in the step kernel gives >= 1e-2. QED kernels are driven with geometric a_s steps, arithmetic midpoints and constant alpha_em, i.e. the 'supplied coupling steps' of the statement.",
    "design_ref": "1 (mode L), 4.11, 5 C12",
    "rule": "cell = (clause, sector, order, QED order, nf, direction); 3 (quick) / 20 (thorough) seeded towers and coupling pairs per cell; the exponent farthest from 2 / the smallest approach exponent / the worst ODE residual recorded",
}


def run(chk):
    engine.run_law(chk, "C12", c12.measure, npts_quick=3, npts_thorough=20, switches=("FirstOrderScheme",))
