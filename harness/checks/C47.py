"""C47 solving is reproducible across fresh processes and hash seeds."""
import json
import os
import pathlib
import subprocess
import sys
from concurrent.futures import ThreadPoolExecutor

import yaml

from harness.checks import _runner_common as rc
from harness.core import SRC, VERIF, MachineryError

META = {
    "id": "C47",
    "level": "model_checking",
    "technique": "TLA+ spec Runner (all iteration orders of the recipe set lead to the same stored words and items: the only nondeterminism of the design) checked by TLC; the same cards solved in fresh interpreter processes with different PYTHONHASHSEED values, archive manifests (member names, sha256 of every operator, part, recipe, card, metadata) compared by TLC (ReproTrace)",
    "text": "B1: TLC shows that every processing order of the de-duplicated recipe set (a Python set, whose iteration order is what a hash seed can change) ends in the same words and the same stored items. B2/B3: random small cards (1-3 targets across thresholds, LO/NLO, LO with real quadrature; NLO/NNLO/N3LO/QED with the fixed-node quadrature shim) are solved 3 times in fresh processes with PYTHONHASHSEED 1, 2 and 'random'; TLC compares the three archive manifests member by member and names the class of a differing member.",
    "note": "tar headers (mtime) are not compared, only member names and contents. Processes run on one machine with the same library versions.",
    "design_ref": "5 C47",
    "rule": "case = one random card pair solved in 3 fresh processes; non-trivial = at least 2 recipes; distinct by card content",
}


def _run(job):
    thf, opf, hashseed, shim = job
    env = dict(os.environ, PYTHONHASHSEED=hashseed, NUMBA_DISABLE_JIT="1")
    p = subprocess.run([sys.executable, str(VERIF / "harness" / "drivers" / "solve_sub.py"), str(SRC), thf, opf, shim],
                       capture_output=True, text=True, env=env, timeout=1200)
    for line in p.stdout.splitlines():
        if line.startswith("MANIFEST "):
            return json.loads(line[9:])
    return {"err": "no manifest: " + p.stderr[-300:], "members": []}


def run(chk):
    from harness.drivers import runner

    r = chk.tlc("RunnerMC", "RunnerMC_quick.cfg", label="runner design: terminal states independent of set iteration order")
    if r.violated:
        raise MachineryError(f"Runner design violated {r.violated}")
    ncase = 12 if chk.thorough() else 5
    jobs = []
    cases = []
    for c in range(ncase):
        inst = rc.random_instance(chk.rng, ntok=5, max_targets=3, nfs=(3, 4, 5))
        while rc.path_len(inst) < 2:
            inst = rc.random_instance(chk.rng, ntok=5, max_targets=3, nfs=(3, 4, 5))
        tab = runner.scale_table(chk.rng)
        # real quadrature at LO; higher orders and QED with the fixed-node quadrature shim
        # (reproducibility is about dispatch, naming and assembly, not the integrand values)
        shim = "0" if c % 2 == 0 else "1"
        order = (1, 0)
        if shim == "1":
            order = chk.rng.choice([(2, 0), (3, 0), (2, 1)] + ([(4, 0)] if chk.thorough() else []))
        if c % 4 == 3 or (c == 4 and not chk.thorough()):
            # always one QED case whose path has a five-flavour segment (all unified-basis sectors populated)
            order, shim = chk.rng.choice([(1, 1), (2, 1), (1, 2)]), "1"
            while rc.path_len(inst) < 2 or not any(t[1] == 5 for t in inst["targets"]):
                inst = rc.random_instance(chk.rng, ntok=5, max_targets=3, nfs=(3, 4, 5))
        th, op = runner.cards_for(inst, tab, order=order, xgrid=[0.1, 0.5, 1.0] if shim == "0" else [0.2, 1.0],
                                  method="iterate-exact" if order[1] else chk.rng.choice(["iterate-exact", "truncated", "decompose-exact"]))
        thf = chk.scratch / f"th{c}.yaml"
        opf = chk.scratch / f"op{c}.yaml"
        thf.write_text(yaml.safe_dump(th.raw))
        opf.write_text(yaml.safe_dump(op.raw))
        cases.append({"inst": inst, "order": list(order), "shim": shim})
        for hs in ("1", "2", "random"):
            jobs.append((str(thf), str(opf), hs, shim))
    with ThreadPoolExecutor(12) as ex:
        outs = list(ex.map(_run, jobs))
    recs = []
    for c, case in enumerate(cases):
        runs = outs[3 * c : 3 * c + 3]
        for x in runs:
            if x["err"]:
                raise MachineryError(f"solve failed for case {case}: {x['err']}")
        recs.append({"case": c, "runs": runs})
        nrec = sum(1 for m in runs[0]["members"] if m["cls"] == "recipes")
        chk.count(3, json.dumps(case, sort_keys=True), nontrivial=nrec >= 2)
    chk.sample({"case": cases[0], "members": [m["name"] for m in recs[0]["runs"][0]["members"]]})
    res = chk.tlc("ReproTrace", "ReproTrace.cfg", trace=recs, workers=1, label="manifests compared")
    if res.violated or not res.completed:
        raise MachineryError(f"ReproTrace not accepted: {res.out[-2000:]}")
    chk.cov["traces_validated_against_impl"] += len(recs)
    for t in res.printed("BAD"):
        rec = recs[t[1] - 1]
        if t[2].startswith("C47:"):
            chk.violation(t[2], f"{t[2]} for case {cases[rec['case']]}", {"case": cases[rec["case"]], "runs": rec["runs"]})
        else:
            chk.diag(t[2])
    import copy
    g = copy.deepcopy(recs[0])
    g["runs"][1]["members"][0]["sha"] = "0" * 32
    r2 = chk.tlc("ReproTrace", "ReproTrace.cfg", trace=[g], workers=1, label="corrupted manifest (must be rejected)")
    if not [t for t in r2.printed("BAD") if t[2].startswith("C47:")]:
        raise MachineryError("binding demonstration failed")
