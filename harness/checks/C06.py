"""C06 split-path evolutions compose consistently (convergence class on real solves)."""
import multiprocessing as mp

from harness.core import MachineryError

META = {
    "id": "C06",
    "level": "exploration",
    "technique": "TLA+ spec SplitPath: cell domain (perturbative order x where the three scales lie: inside one patch upwards / downwards / up and back, across the bottom matching scale with the split point below / above it, downwards within nf = 5 and then through the backward matching, and split / initial points that keep nf = 4 above the matching scale so that the next leg runs down within the patch before it crosses) and the required convergence class, enumerated and validated by TLC (SplitPathTrace, with a coverage record); measurements on the real solver with REAL quadrature: two separate solves per grid (mu0 -> {mu1, mu2} and mu1 -> mu2), the x-space operators contracted with a smooth random toy input, discrepancy between split and direct evolution on an 8- and a 16-point grid on [1e-2, 1], sent to TLC as decade and 100 x log2 of the shrink factor",
    "text": "For every cell TLC requires the discrepancy on the finer grid to be at most 1e-2 and to shrink by at least a factor 2 when the grid is refined from 8 to 16 points (clean tree: 1e-4..3e-3 at 16 points, factors 5-10, i.e. below the 1e-3 the statement quotes for >= 25 points). A composition that is wrong at O(1) - a wrong flavour path, a matching applied on the wrong side, a backward matching that is not the inverse of the forward one, parts joined in the wrong order - stays at 1e-2..1 on every grid and fails the shrink clause. Quick: LO inside one patch and for the non-default-nf points, NLO across the matching scale and an initial point above the charm matching scale with nf = 3 whose first leg ends below its starting scale, at NLO (9 cells); thorough: all nine shapes at LO, NLO and NNLO (27 cells).",
    "note": "Decided as a convergence class with wide margins, not as an accuracy. iterate-exact with 10 iterations, exact inversion of the backward matching, interpolation degree 3, Lambert grids on [1e-2, 1]; scales jittered by +-3% per run. Level exploration (law over measured classes). Cost: a 16-point NLO solve takes about a minute interpreted.",
    "design_ref": "6 (planned as not applicable), 11.3",
    "rule": "cell = (order, shape); one seeded jitter of the three scales per cell and run; non-trivial = both grids solved",
}


def run(chk):
    from harness.drivers import splitpath

    inside = ("up-inside", "down-inside", "updown")
    across = ("up-across-low", "up-across-high", "down-across")
    forced = ("forced-split", "forced-init")
    downup = ("forced-down-up",)
    if chk.thorough():
        cells = [dict(order=o, shape=s) for o in (1, 2, 3) for s in inside + across + forced + downup]
    else:
        cells = [dict(order=1, shape=s) for s in inside + forced] + [dict(order=2, shape=s) for s in across + downup]
    jobs = [(c, chk.rng.randrange(2**31), 8) for c in sorted(cells, key=lambda c: -c["order"])]
    with mp.get_context("fork").Pool(min(16, len(jobs))) as pool:
        recs = pool.map(splitpath.split_cell, jobs, chunksize=1)
    for r in recs:
        chk.count(1, ("split", tuple(sorted(r["cell"].items()))), nontrivial=r["err"] == "")
    chk.sample(recs[0])
    chk.note("discrepancies", {f"{r['cell']['order']}-{r['cell']['shape']}": [r["ds"], r["ratio100"]] for r in recs})
    trace = recs + [{"ev": "coverage", "cells": cells}]
    cfg = "SplitPathTrace_thorough.cfg" if chk.thorough() else "SplitPathTrace.cfg"
    res = chk.tlc("SplitPathTrace", cfg, trace=trace, workers=1, label="cells judged, coverage checked")
    if res.violated or not res.completed:
        raise MachineryError(f"SplitPathTrace not accepted: {res.out[-2000:]}")
    chk.cov["traces_validated_against_impl"] += len(recs)
    seen = set()
    for t in res.printed("BAD"):
        rec = trace[t[1] - 1]
        v = t[2]
        if v.startswith("C06:"):
            c = rec["cell"]
            fp = f"{v} order={c['order']} shape={c['shape']}"
            if fp not in seen:
                seen.add(fp)
                chk.violation(fp, f"{v}: discrepancy on 8 / 16 points {rec['ds']} (100 x log2 of the shrink factor = {rec['ratio100']}), scales jittered by {rec['jitter']}", rec)
        elif v.startswith("COVERAGE"):
            raise MachineryError("cells not exhausted")
        elif v.startswith("CONF:solve-raised"):
            raise MachineryError(f"measurement failed: {rec}")
        else:
            chk.diag(f"{v}: {rec['cell']}")
    bad = [dict(recs[0], decFine=1, ratio100=5)]
    r2 = chk.tlc("SplitPathTrace", cfg, trace=bad, workers=1, label="corrupted record (must be rejected)")
    if not [t for t in r2.printed("BAD") if t[2].startswith("C06:")]:
        raise MachineryError("binding demonstration failed")
