"""C18 MSbar heavy-quark masses are computable fixed points m(m) = m."""
import multiprocessing as mp
import warnings

from harness.core import MachineryError

META = {
    "id": "C18",
    "level": "model_checking",
    "technique": "TLA+ spec Msbar: every sign pattern (quark x reference scale vs mass x reference scale vs coupling reference x nfref, 72 patterns) with the transcribed acceptance table checked by TLC against an independent statement of consistency and of the target patch; numeric instances of every pattern run through the real msbar_masses.compute (orders 1-4, exact/expanded); outcome class, sortedness and the fixed-point residual class (m(m)=m re-evaluated with the repository's evolve in the adjoining patch) and, where the path from the reference to the fixed point crosses two or more matching scales, the class of 'direct evolution = evolution in two legs' judged by TLC (MsbarTrace); the decoupling relation itself: the mass taken across one matching scale with no evolution (returned ratio of squared masses against zeta_m^2 from the code's own table) and the RG law of the table's logarithms (per power of L, closed on the code's own gamma_m, beta0 and MSBAR coupling decoupling), classes judged by TLC",
    "text": "B1 exhaustive over the 72 patterns. B2/B3: random numeric inputs covering consistent and inconsistent patterns for all three quarks and nfref 3-6; consistent inputs must return without error (any exception other than ValueError is a crash violation), sorted, with |m(m)-m|/m <= 1e-6 (clean tree: <= 1e-13); inconsistent ones must raise ValueError.",
    "note": "Half of the numeric instances use matching ratios in [0.8,1.3] and xif^2 in [0.5,2]; the fixed point is re-evaluated with the documented coupling (thresholds at m^2 k^2 xif^2); the decoupling relations' logarithms are covered by C16/C22. Level model_checking for the bookkeeping table, exploration for the numeric fixed point.",
    "design_ref": "5 C18",
    "rule": "instance = (nfref, 3 quark patterns, order, method); distinct by seed; non-trivial = accepted with at least one quark not given at its own scale",
}


def _inst(seed):
    from harness.drivers import msbar

    warnings.filterwarnings("ignore")
    return msbar.instance(seed)


def _cross(seed):
    from harness.drivers import msbar

    return msbar.crossing(seed)


def run(chk):
    r = chk.tlc("MsbarMC", "MsbarMC.cfg", workers=4, label="acceptance table vs consistency statement (72 patterns)")
    if r.violated:
        raise MachineryError(f"Msbar table violated: {r.counterexample()[:1500]}")
    n = 6000 if chk.thorough() else 1500
    seeds = [chk.rng.randrange(2**31) for _ in range(n)]
    with mp.get_context("fork").Pool(16) as pool:
        recs = pool.map(_inst, seeds, chunksize=8)
    ncross = 1000 if chk.thorough() else 200
    with mp.get_context("fork").Pool(16) as pool:
        crosses = pool.map(_cross, [chk.rng.randrange(2**31) for _ in range(ncross)], chunksize=8)
    from harness.drivers import msbar as _msbar

    laws = [_msbar.decoupling_law(nf) for nf in (3, 4, 5)]
    for x in crosses:
        chk.count(1, ("cross", x["order"], x["quark"], x["dir"], x["unit_ratio"]), nontrivial=not x["exc"])
    chk.sample(crosses[0])
    chk.sample(laws[0])
    pats = set()
    for rec in recs:
        for q in rec["quarks"]:
            pats.add((q["q"], q["rm"], q["rq"], rec["nfref"]))
        chk.count(1, rec["seed"], nontrivial=rec["outcome"] == "ok" and any(q["rm"] != "eq" for q in rec["quarks"]))
    chk.note("patterns_exercised", len(pats))
    chk.note("paths_with_two_or_more_matchings_composed", sum(1 for rec in recs for c in rec.get("comp", []) if c != 99))
    chk.sample(recs[0])
    chk.sample(next(x for x in recs if x.get("outcome") == "ok"))
    nfix = len(recs)
    recs = recs + [{k: v for k, v in x.items() if k != "values"} for x in crosses] + laws
    res = chk.tlc("MsbarTrace", "MsbarTrace.cfg", trace=recs, workers=1, label="real outcomes judged")
    if res.violated or not res.completed:
        raise MachineryError(f"MsbarTrace not accepted: {res.out[-2000:]}")
    chk.cov["traces_validated_against_impl"] += len(recs)
    seen = set()
    for t in res.printed("BAD"):
        rec = recs[t[1] - 1]
        if t[2].startswith("C18:") and "ev" in rec:
            fp = t[2] if rec["ev"] == "cross" else f"{t[2]} nf={rec['nf']}"
            if fp in seen:
                continue
            seen.add(fp)
            full = crosses[t[1] - 1 - nfix] if rec["ev"] == "cross" else rec
            chk.violation(fp, f"{t[2]}: {full}", full)
        elif t[2].startswith("C18:"):
            pat = [(q["q"], q["rm"], q["rq"]) for q in rec["quarks"]]
            fp = f"{t[2]} nfref={rec['nfref']}"
            if fp in seen:
                continue
            seen.add(fp)
            chk.violation(fp, f"{t[2]}: nfref={rec['nfref']} patterns={pat} order={rec['order']} method={rec['method']} {rec.get('msg', '')}", rec)
        else:
            chk.diag(f"{t[2]} seed={rec['seed']}")
    bad = [dict(next(x for x in recs if x.get("outcome") == "ok"), outcome="TypeError")]
    r2 = chk.tlc("MsbarTrace", "MsbarTrace.cfg", trace=bad, workers=1, label="corrupted outcome (must be rejected)")
    if not [t for t in r2.printed("BAD") if t[2].startswith("C18:")]:
        raise MachineryError("binding demonstration failed")
