"""C15 running couplings solve their renormalisation group equations (laws RefPoint, RgeLocal, ExpandedOrder, Monotone)."""

from harness.laws import c15, engine

META = {
    "id": "C15",
    "level": "exploration",
    "technique": "TLA+ law plan (Laws.tla: order x QED order x running x method x nf cells enumerated by TLC, required order of expanded-exact derived from the truncation of the RGE) + measurement of the real Couplings object inside one flavour patch + TLC trace validation (LawsTrace)",
    "text": "Couplings objects (QCD order 1-4, QED order 0-2, alpha_em fixed or running, exact and expanded, nf 3-5, alpha_s in [0.08,0.35], alpha_em in [0.001,0.01], reference scale 2.5-200 GeV, matching scales moved out of the way): a(mu_ref) == a_ref bitwise; local RGE of the exact solution at the reference point, da/dln mu^2 from a 5-point difference (h = 0.006) against -beta(a_ref) rebuilt from an independent table of beta coefficients (QCD beta_0-3, mixed a_s^2 a_em and a_em^2 a_s terms, QED beta_0-1), with a_em bitwise constant when it does not run; |expanded - exact| under a_ref -> a_ref/2 at fixed ln mu^2 vanishes like a^(n+2) (the first power the truncated RGE neglects), like a^3 when alpha_em runs; a_s strictly decreasing along 22 increasing scales.",
    "note": "Local RGE: clean residual <= 2e-10 (pure FD truncation; the Radau solution is far more accurate than its rtol over such a span), required <= 1e-7; a 10% error in beta_3 shows at >= 3e-5 for the smallest alpha_s and >= 5e-4 for alpha_s >= 0.2, the mixed term at 6e-6. Expanded order: clean exponents >= n+2.4 for NLO/NNLO, required >= n+2-0.35; the exact branch is itself numerical (rtol 1e-6), differences below 1e-5 of the evolved distance are dropped and cells without points are 'unresolved'. The law is local in the patch: threshold matching is C16, history independence C17.",
    "design_ref": "1 (mode L), 4.11, 5 C15",
    "rule": "cell = (clause, QCD order, QED order, running, method, nf); 6 (quick) / 40 (thorough) seeded (alpha_s, alpha_em, mu_ref) per cell; worst residual / lower-quartile exponent recorded",
}


def run(chk):
    engine.run_law(chk, "C15", c15.measure, npts_quick=6, npts_thorough=40, switches=("Strict",))
