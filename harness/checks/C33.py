"""C33 threshold flavour rotations: Flavors.tla exhaustive over nf 4-6 x {QCD, QED} (B1); the
dictionaries returned by rotate_matching / rotate_matching_inverse judged by TLC as exact
rationals against the bases defined from their meaning (B3)."""

import copy

from harness.core import MachineryError
from harness.drivers import flavors as F

META = {
    "id": "C33",
    "level": "model_checking",
    "technique": "TLA+ spec Flavors (intrinsic evolution bases with nf-1 and nf flavours defined from their meaning over exact rationals; predicate C33_Threshold; transcription of rotate_matching and qed_rotation_parameters), TLC exhaustive over nf 4-6 x {QCD,QED}; real rotate_matching / rotate_matching_inverse / qed_rotation_parameters outputs validated by TLC trace spec FlavorsTrace",
    "text": "TLC checks on the design that the transcribed rotation reproduces, for every crossing nf = 4, 5, 6 in QCD and QED, the flavour content of all 14 distributions of the nf-flavour basis from the matching basis (basis with nf-1 flavours, which contains h+ and h-), and that forward and inverse coefficient matrices multiply to the identity in both orders; the real dictionaries returned by rotate_matching(nf, qed), rotate_matching_inverse(nf, qed) and the numbers of qed_rotation_parameters(nf) are converted to exact rationals and TLC evaluates the same predicates on them (labels inside the two bases, flavour content of every new-basis distribution, inverse o forward = forward o inverse = identity), plus equality with the transcription.",
    "note": "Domain finite and fully covered (3 crossings x 2 bases), both tiers identical. The matching basis is the intrinsic evolution basis with nf-1 light flavours as documented in FlavorSpace.rst; Sdelta/Vdelta carry the nd/nu weight there.",
    "design_ref": "4.1, 4.6, 5 C31-C33",
    "rule": "instance = (nf crossing, QCD|QED); non-trivial = every instance (each mixes S/V with the new quark); distinct by the instance tuple",
}


def run(chk):
    design = F.Design(chk)
    design.run("FlavorsMC_C33.cfg", "design: threshold rotations nf 4-6 x {QCD,QED}")
    design.run("FlavorsMC_C33_othcoef.cfg", "switch: T_(nf^2-1) = S - nf h+ instead of S - (nf-1) h+",
               expect_violation="InvC33", workers=2)

    recs = F.c33_records()
    for rec in recs:
        chk.count(1, (rec["ev"], rec["nf"], rec.get("qed")))
    chk.sample(recs[1])
    chk.sample(recs[2])
    bad = F.validate(chk, recs, "real rotate_matching dictionaries")
    for rec, verdict in bad:
        if verdict.startswith("CONF:") or verdict.startswith("DIAG:"):
            chk.diag(f"{verdict} {rec['ev']} nf={rec['nf']} qed={rec.get('qed')}")
            continue
        if not verdict.startswith("C33:"):
            raise MachineryError(f"unexpected verdict {verdict}")
        b = "qed" if rec["qed"] else "qcd"
        chk.violation(
            f"{verdict} {b} nf={rec['nf']}",
            f"rotate_matching({rec['nf']}, qed={rec['qed']}) / rotate_matching_inverse violate {verdict}: "
            f"forward {rec['fwd']} inverse {rec['inv']}",
            rec,
        )

    r, _ = design.join()
    if r.violated:
        raise MachineryError(f"Flavors.tla: design violates {r.violated}: {r.counterexample()[:1500]}")

    # ---- binding demonstration ---------------------------------------------------------------
    good = next(x for x in recs if x["ev"] == "matching" and x["nf"] == 5 and x["qed"])
    c1 = copy.deepcopy(good)
    k = next(j for j, e in enumerate(c1["fwd"]) if e[:2] == ["Td8", "b+"])
    c1["fwd"][k][2] = [-1, 1]  # -2 b+ -> -1 b+
    c2 = copy.deepcopy(good)
    k = next(j for j, e in enumerate(c2["inv"]) if e[:2] == ["Sdelta", "Td8"])
    c2["inv"][k][2] = [c2["inv"][k][2][0] + c2["inv"][k][2][1], c2["inv"][k][2][1]]
    c3 = copy.deepcopy(next(x for x in recs if x["ev"] == "matching" and x["nf"] == 4 and not x["qed"]))
    c3["fwd"] = [e for e in c3["fwd"] if e[:2] != ["V15", "c-"]]
    c4 = copy.deepcopy(next(x for x in recs if x["ev"] == "matching" and x["nf"] == 6 and not x["qed"]))
    c4["fwd"] = [e for e in c4["fwd"] if e[0] != "V8"]
    c4["inv"] = [e for e in c4["inv"] if e[0] != "V8"]  # still mutually inverse on the rest: a distribution is lost
    F.expect_rejected(chk, [c1, c2, c3, c4], "C33:", "corrupted records (must be rejected)")
