"""C29 sum rules (and RG structure) of the matching elements (mode L, EkoreLaws.tla)."""

import numpy as np

from harness.ekorelaws import engine as E
from harness.ekorelaws import omerge
from harness.ekorelaws import registry as R
from harness.ekorelaws.classes import expo100

META = {
    "id": "C29",
    "level": "exploration",
    "technique": "law SumRules for the unpolarised space-like matching elements (which column sums of the (g, light, heavy) singlet matrix vanish at N = 2, non-singlet entry at N = 1, accuracy class per order: table in EkoreLaws.tla) and laws OmeRge (first-order L-dependence of the singlet matrices tied to the code's own leading-order anomalous dimensions of the nf and nf+1 schemes) OmeRge2 (second-order L-dependence of every entry of the unpolarised and polarised singlet matrices, in the basis (g, Sigma_light, h+), tied to the code's own LO and NLO singlet and ns+ anomalous dimensions of both schemes, beta0 and the decoupling of the coupling) and OmeRgeNs (second- and third-order L-dependence of the non-singlet element tied to the code's own gamma_ns^-, beta coefficients and coupling decoupling table); TLC enumerates rule x order x nf x scheme x L point; residuals of the real un-jitted functions recorded as integer exponents; trace validated by TLC (EkoreLawsTrace)",
    "text": "Sum rules: for orders 1-3, nf 3-5, L drawn in [-3, 3] (J values per cell), pole-mass and MSbar variants at second order: A_gg + A_qg + A_Hg = 0 and A_gq + A_qq + A_Hq = 0 at N = 2 including the heavy-quark row (first order also the heavy-quark column), A_qq^NS = 0 at N = 1. Where an expression is singular at the point (third-order light-quark column: 1/(N-2)), N is approached from four directions of the complex plane at distance 1e-7. Residuals are relative to the sum of the moduli of the entries, maximised over nf and over L in {L, -3, 3}. Required: first order 1e-9, second order 1e-5, third order (parametrised a_Hg^(3), fitted a_qq^NS(3)) 1e-4. RG law, first order only: dA^(1)/dL = Gamma_0^(nf) - Gamma_0^(nf+1) entry by entry in the basis (g, Sigma_light, h+) with the heavy quark inert in the nf scheme and gamma_qg (time-like: gamma_gq) split nf : 1 in the nf+1 scheme, built from the code's own leading-order anomalous dimensions, for unpolarised (all three columns), polarised and time-like matching (gluon and light-quark columns) at random complex N; the derivative is the exact difference A(L+1/2) - A(L-1/2) of a polynomial of degree 1 (class 1e-8; unchanged tree 2.5e-16 for the space-like variants).",
    "note": "The RG clause is decided at first order only. At second and third order the law needs the products A^(1) Gamma_0, the two-loop decoupling and the scheme-dependent mass terms with the conventions of the heavy-quark column, which the code truncates differently per order (the intrinsic heavy-quark column exists at first order only); a sound acceptance class could not be derived within this round, so those cells are not planned (said so instead of a weak check). Unchanged tree: sum rules <= 2e-16 (first), <= 1.6e-8 (second), <= 1.3e-7 (third order, dominated by the distance 1e-7 of the limit): margins of 2.8 / 2.9 decades to the class; a violation below 1e-5 / 1e-4 relative is not detected.",
    "design_ref": "4.11, 5 C29",
    "rule": "cell = (rule, order, nf, mass scheme, L index) or (RG law, variant, order, nf, point); distinct by cell; all non-trivial",
}

L_EDGE = (-3.0, 3.0)


def _column(cell, nf, L, n):
    d = cell["def"]
    if d["sec"] == "S":
        a = R.ome_tower("us", "Smsbar" if cell["msbar"] else "S", cell["k"], nf, L, n)[cell["k"] - 1]
        return np.asarray(a[:, d["col"]], dtype=np.complex128)
    a = R.ome_tower("us", "NS", cell["k"], nf, L, n)[cell["k"] - 1]
    return np.asarray([a[0, 0]], dtype=np.complex128)


def measure_cell(cell, seed):
    if cell["law"] == "OmeRge":
        return omerge.measure_cell(cell, seed)
    if cell["law"] == "OmeRgeNs":
        return omerge.measure_ns_cell(cell, seed)
    if cell["law"] == "OmeRge2":
        return omerge.measure_rge2_cell(cell, seed)
    rng = E.cell_rng(seed, {"j": cell["j"]}, "C29")  # the same L for all rules of one index
    L = rng.uniform(-3.0, 3.0)
    at = float(cell["def"]["at"])
    vals, lim = R.at_or_limit(lambda n: _column(cell, cell["nf"], L, n), at)
    resid = max(abs(np.sum(x)) for x in vals)
    scale = 0.0
    single = cell["def"]["sec"] == "NS"
    for nf in (3, 4, 5):
        for LL in (L,) + L_EDGE:
            sv, _ = R.at_or_limit(lambda n: _column(cell, nf, LL, n), at + 1.0 if single else at)
            scale = max(scale, max(float(np.sum(np.abs(x))) for x in sv))
    res = 0.0 if resid == 0.0 else (resid / scale if scale > 0 else float("inf"))
    return {"e": expo100(res)}, {"res": res, "abs": float(resid), "scale": scale, "L": L, "limit": lim}


def run(chk):
    J = E.points_per_cell(chk, 6, 60)
    cells = E.plan(chk, "C29", J)
    measured = E.measure(chk, cells, measure_cell)
    recs = [{"cell": c, "obs": o} for c, o, _ in measured]
    worst = {}
    for c, o, i in measured:
        chk.count(1, E.cell_key(c), nontrivial=True)
        key = f"{c['law']} {c.get('rule', c.get('v'))} k={c['k']}" + (f" {c['entry']}" if "entry" in c else "")
        worst[key] = max(worst.get(key, 0.0), i["res"])
    chk.note("worst_relative_residual", {k: f"{v:.2e}" for k, v in sorted(worst.items())})
    chk.note("cells_evaluated_by_limit", sum(1 for _, _, i in measured if i.get("limit")))
    chk.sample({"cell": measured[0][0], "obs": measured[0][1], "info": measured[0][2]})
    chk.sample({"cell": measured[-1][0], "obs": measured[-1][1], "info": measured[-1][2]})
    bad, unres = E.validate(chk, "C29", J, recs, "measured cells of OME SumRules / OmeRge")

    def describe(cell, obs, info):
        if cell["law"] in ("OmeRge", "OmeRgeNs", "OmeRge2"):
            return (f"L-dependence of the {cell['v']} matching at order {cell['k']}, nf={cell['nf']}: dA/dL differs from the "
                    f"RG prediction by {info['res']:.3e} (relative) at N={info['n']}, L={info['L']:.3f}, entry {info.get('entry')}")
        return (f"OME sum rule {cell['rule']} order {cell['k']} nf={cell['nf']} msbar={cell['msbar']} L={info['L']:.3f}: "
                f"|column sum| = {info['abs']:.3e}, relative {info['res']:.3e}")

    E.report(chk, "C29", measured, bad, unres, ("law", "rule", "v", "k", "msbar", "entry"), describe)

    def corrupt(r):
        r["obs"]["e"] = -100

    E.binding_demo(chk, "C29", J, [recs[0], recs[len(recs) // 2], recs[-1]], corrupt, "C29:")
    E.switch_guard(chk, "C29", J, recs, "ome-exact", "C29:")
