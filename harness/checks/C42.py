"""C42 reshaping commutes with applying: flavour side exact (integer operators, unimodular /
evolution rotations), grid side exact on dyadic linear grids with polynomial inputs, random
logarithmic / linear grids through a TLC-planned integer-class law."""

import copy
import math
import multiprocessing as mp
import random
import warnings
from fractions import Fraction as F

import numpy as np

from harness.core import MachineryError
from harness.drivers import interp as drv

META = {
    "id": "C42",
    "level": "model_checking",
    "technique": "TLA+ spec Apply (transcription of flavor_reshape on integer tensors, C42 commutation predicates over exact integers / rationals, law plan); TLC on the design (unit operators, unimodular rotations, switch 'input side not inverted' refuted); exact probing of eko.io.manipulate flavor_reshape / to_evol / to_uni_evol / xgrid_reshape judged by TLC trace spec ApplyTrace; random log/linear grids by a TLC-planned law with integer classes (exploration)",
    "text": "Flavour side (model_checking): small-integer operators (14 flavours x 2 grid points, with/without error tensor) are reshaped by the real flavor_reshape with random integer unimodular target and/or input rotations and by to_evol / to_uni_evol (source, target, both); the reshaped operator is recovered exactly (integers, resp. rationals with the denominators of the inverse evolution rotation, uniqueness-guarded) and TLC checks O'(U f) = T(O f) for integer inputs f, with T/U of to_evol / to_uni_evol required to be the bases written in the spec from their meaning. Grid side (model_checking): operators whose output is a polynomial in x, inputs that are polynomials of degree <= interpolation degree, equally spaced dyadic old / target / input grids: xgrid_reshape output is exact and TLC checks that the reshaped operator applied to the input sampled on the new input grid gives the output polynomial at the new target nodes. Law part (exploration): random logarithmic and linear grids (6-25 points, x_min 1e-7..1e-1; and grids differing from the operator grid only below 1e-8) in every cell (mode x degree 1-4 x side x variant) of the plan TLC enumerates, residual and conditioning bound as integer decades, same classes as C34.",
    "note": "Exact grid side: linear mode, degree <= 2 (power-of-two Lagrange denominators keep every float exact). Error tensors: the code reshapes them with the same linear maps; reported as conformance (CONF) only, the statement does not define an error rule. level: model_checking for flavour side and dyadic grid side, exploration for random grids.",
    "design_ref": "4.6, 4.10, 5 C42",
    "rule": "flavour instance = (operator, T, U, via); grid instance = (old grid, degree, target grid, input grid, operator, polynomials); law instance = (cell, sample); non-trivial = at least one side actually reshaped",
}

NF = 14


# ------------------------------------------------------------------------------------------
# flavour side
# ------------------------------------------------------------------------------------------


def unimodular(rng, n=NF, steps=18):
    """Random integer matrix with determinant +-1 and its exact integer inverse."""
    U = [[1 if i == j else 0 for j in range(n)] for i in range(n)]
    V = [[1 if i == j else 0 for j in range(n)] for i in range(n)]  # inverse
    for _ in range(steps):
        kind = rng.random()
        i, j = rng.sample(range(n), 2)
        if kind < 0.6:
            k = rng.choice([-1, 1, 1, 2, -2])
            if max(abs(U[j][c]) for c in range(n)) * abs(k) > 3:
                k = 1 if k > 0 else -1
            # row_i += k row_j   <=>  U <- E U ; inverse: V <- V E^-1 (col_j -= k col_i)
            U[i] = [a + k * b for a, b in zip(U[i], U[j])]
            for r in range(n):
                V[r][j] -= k * V[r][i]
        elif kind < 0.85:
            U[i], U[j] = U[j], U[i]
            for r in range(n):
                V[r][i], V[r][j] = V[r][j], V[r][i]
        else:
            U[i] = [-a for a in U[i]]
            for r in range(n):
                V[r][i] = -V[r][i]
    prod = (np.array(U, dtype=object) @ np.array(V, dtype=object)).tolist()
    assert prod == [[1 if i == j else 0 for j in range(n)] for i in range(n)]
    return U, V


def inverse_den(M):
    """lcm of the denominators of the exact inverse of the integer matrix M (Gauss over Q)."""
    n = len(M)
    A = [[F(int(v)) for v in row] + [F(int(i == j)) for j in range(n)] for i, row in enumerate(M)]
    for c in range(n):
        p = next(r for r in range(c, n) if A[r][c] != 0)
        A[c], A[p] = A[p], A[c]
        pv = A[c][c]
        A[c] = [v / pv for v in A[c]]
        for r in range(n):
            if r != c and A[r][c] != 0:
                fac = A[r][c]
                A[r] = [a - fac * b for a, b in zip(A[r], A[c])]
    d = 1
    for r in range(n):
        for v in A[r][n:]:
            d = d * v.denominator // math.gcd(d, v.denominator)
    return d


def flavor_job(args):
    seed, via, sides = args
    from eko import basis_rotation as br
    from eko.io import manipulate
    from eko.io.items import Operator

    rng = random.Random(seed)
    nrng = np.random.default_rng(rng.randrange(2**32))
    n = 2
    O = nrng.integers(-3, 4, size=(NF, n, NF, n))
    E = nrng.integers(0, 3, size=(NF, n, NF, n)) if rng.random() < 0.5 else None
    elem = Operator(O.astype(float), None if E is None else E.astype(float))
    T = U = None
    maxden = 1
    rec = {"kind": "flavor", "via": via, "err": "", "exact": True, "O": O.tolist(),
           "haserr": E is not None, "E": E.tolist() if E is not None else [], "T": [], "U": [],
           "Onew": [], "Enew": [], "fs": []}
    try:
        with warnings.catch_warnings():
            warnings.simplefilter("ignore")
            if via == "flavor_reshape":
                if "t" in sides:
                    T, _ = unimodular(rng)
                if "u" in sides:
                    U, _ = unimodular(rng)
                new = manipulate.flavor_reshape(
                    elem, targetpids=None if T is None else np.array(T, dtype=float),
                    inputpids=None if U is None else np.array(U, dtype=float))
            else:
                fn = manipulate.to_evol if via == "to_evol" else manipulate.to_uni_evol
                M = br.rotate_flavor_to_evolution if via == "to_evol" else br.rotate_flavor_to_unified_evolution
                Mi = [[int(v) for v in row] for row in np.asarray(M).tolist()]
                if [[float(v) for v in row] for row in Mi] != np.asarray(M, dtype=float).tolist():
                    raise MachineryError("rotation table is not integer valued")
                if "t" in sides:
                    T = Mi
                if "u" in sides:
                    U = Mi
                    maxden = inverse_den(Mi)
                new = fn(elem, source="u" in sides, target="t" in sides)
    except MachineryError:
        raise
    except Exception as ex:  # noqa: BLE001
        rec["err"] = type(ex).__name__
        return rec
    rec["T"] = T if T is not None else []
    rec["U"] = U if U is not None else []

    def conv(arr):
        arr = np.asarray(arr, dtype=float)
        if arr.shape != (NF, n, NF, n):
            return None
        scale = max(1.0, float(np.max(np.abs(arr))))
        out = np.empty(arr.shape, dtype=object)
        for idx, v in np.ndenumerate(arr):
            if not math.isfinite(v) or abs(v) >= 2.0e9:
                return None
            f = drv.recover(v, maxden, 1e-9 * scale)
            if f is None:
                # not a rational with the denominators an exact reshape can produce: it cannot be the
                # right value; TLC gets the rounded number and judges the commutation on it
                f = drv.rounded(v)
                rec["rounded"] = rec.get("rounded", 0) + 1
            out[idx] = drv.rj(f)
        return out.tolist()

    on = conv(new.operator)
    if on is None:
        rec["exact"] = False
        return rec
    rec["Onew"] = on
    if E is not None:
        en = conv(new.error) if new.error is not None else None
        if en is None:
            rec["haserr"] = False
        else:
            rec["Enew"] = en
    rec["fs"] = [nrng.integers(-3, 4, size=(NF, n)).tolist() for _ in range(2)]
    return rec


# ------------------------------------------------------------------------------------------
# grid side, exact
# ------------------------------------------------------------------------------------------


def grid_job(args):
    seed, side, few = args
    from eko.interpolation import XGrid
    from eko.io import manipulate
    from eko.io.items import Operator

    rng = random.Random(seed)
    nrng = np.random.default_rng(rng.randrange(2**32))
    h = rng.choice([F(1, 8), F(1, 4)])
    n = rng.choice([3, 4]) if h == F(1, 8) else 3
    m0 = rng.randint(1, int(1 / h) - (n - 1))
    if rng.random() < 0.25:
        m0 = 0      # a linear grid may start at x = 0
    gold = [(m0 + i) * h for i in range(n)]
    deg = 2 if few else rng.randint(1, 2)
    sc = 8
    M0 = nrng.integers(-2, 3, size=(NF, NF, n))
    M1 = nrng.integers(-2, 3, size=(NF, NF, n))
    X = np.array([int(sc * x) for x in gold])
    O = M0[:, None, :, :] + M1[:, None, :, :] * X[None, :, None, None]
    tnew, inew = list(gold), list(gold)
    if side in ("target", "both"):
        # dyadic points inside the old grid (at least two, XGrid needs it)
        cand = [gold[0] + F(k, 2) * h for k in range(2 * (n - 1) + 1)]
        while True:
            # few: fewer target points than the degree needs nodes (the basis lives on the OLD grid)
            tnew = sorted(rng.sample(cand, 2 if few else rng.randint(2, min(4, len(cand)))))
            if tnew != gold:
                break
    if side in ("input", "both"):
        # an equally spaced dyadic grid whose hull contains the old grid
        hh = rng.choice([h / 2, h, 2 * h])
        lo = gold[0] - rng.choice([0, 1]) * hh
        while lo < 0 or (lo == 0 and gold[0] != 0):
            lo += hh
        lo = min(lo, gold[0])
        cnt = int(math.ceil((gold[-1] - lo) / hh)) + 1 + rng.choice([0, 1])
        inew = [lo + i * hh for i in range(max(cnt, deg + 1, 2))]
        if inew[-1] > 1 or inew == gold or inew[-1] < gold[-1]:
            inew = [gold[0] + F(i, 2) * h for i in range(2 * (n - 1) + 1)]
    rec = {"kind": "grid", "side": side, "err": "", "exact": True, "deg": deg, "sc": sc,
           "gold": [drv.rj(x) for x in gold], "tnew": [drv.rj(x) for x in tnew], "inew": [drv.rj(x) for x in inew],
           "M0": M0.tolist(), "M1": M1.tolist(), "Onew": [], "ps": []}
    try:
        with warnings.catch_warnings():
            warnings.simplefilter("ignore")
            new = manipulate.xgrid_reshape(
                Operator(O.astype(float), None), XGrid([float(x) for x in gold], log=False), deg,
                targetgrid=XGrid([float(x) for x in tnew], log=False) if side in ("target", "both") else None,
                inputgrid=XGrid([float(x) for x in inew], log=False) if side in ("input", "both") else None)
    except Exception as ex:  # noqa: BLE001
        rec["err"] = type(ex).__name__
        return rec
    arr = np.asarray(new.operator, dtype=float)
    out = np.empty(arr.shape, dtype=object)
    for idx, v in np.ndenumerate(arr):
        if not math.isfinite(v) or abs(v) >= 2.0e9:
            rec["exact"] = False
            return rec
        f = F(float(v))
        if abs(f.numerator) >= 2**31 or f.denominator >= 2**20:
            # on a dyadic linear grid the exact result is dyadic with a small denominator: rounding
            # noise (<= 1e-12) is snapped, anything else cannot be the right value and is sent
            # rounded to 1/256 so that TLC judges the commutation on it
            snap = F(float(v)).limit_denominator(4096)
            if abs(float(snap) - float(v)) <= 1e-12 * max(1.0, abs(float(v))):
                f = snap
            else:
                f = drv.rounded(v)
                rec["rounded"] = rec.get("rounded", 0) + 1
        out[idx] = drv.rj(f)
    rec["Onew"] = out.tolist()
    rec["ps"] = [nrng.integers(-2, 3, size=(NF, deg + 1)).tolist() for _ in range(2)]
    return rec


# ------------------------------------------------------------------------------------------
# law part
# ------------------------------------------------------------------------------------------


def law_job(args):
    cell, sample, seed = args
    try:
        return _law_job(cell, sample, seed)
    except Exception as ex:  # noqa: BLE001 - the code raised on a valid request
        return ({"kind": "law42", "cell": cell, "sample": sample, "resid_e": 9, "bound_e": -20},
                {"cell": cell, "sample": sample, "raised": f"{type(ex).__name__}: {ex}"})


def _law_job(cell, sample, seed):
    from eko.interpolation import XGrid
    from eko.io import manipulate
    from eko.io.items import Operator

    rng = random.Random(f"{seed}|{sorted(cell.items())}|{sample}")
    nrng = np.random.default_rng(rng.randrange(2**32))
    mode, deg, side, variant = cell["mode"], cell["deg"], cell["side"], cell["variant"]
    is_log = mode == "log"
    n = rng.randint(max(6, deg + 2), 25)
    if variant == "tinyx":
        gold = drv.random_grid(rng, n, -9.0, math.log10(4e-9), mode)
    else:
        gold = drv.random_grid(rng, n, -7.0, -1.0, mode)

    def newgrid():
        if variant == "tinyx":
            g = np.array(gold, dtype=float)
            g[0] = gold[0] * (1.0 + rng.uniform(0.2, 1.0))
            if not g[0] < g[1]:
                g[0] = 0.5 * (gold[0] + gold[1])
            return g
        k = rng.randint(max(deg + 1, 4), 25)
        return drv.random_grid(rng, k, math.log10(gold[0]), math.log10(gold[0]), mode)

    def few_targets():
        # fewer target points than the degree needs nodes: the basis lives on the OLD grid, so the
        # re-interpolation must still be of the full degree
        k = rng.randint(2, deg + 1)
        return drv.random_grid(rng, k, math.log10(gold[0]), math.log10(gold[0]), mode)

    tnew = (few_targets() if variant != "tinyx" and rng.random() < 0.4 else newgrid()) if side in ("target", "both") else np.array(gold)
    inew = newgrid() if side in ("input", "both") else np.array(gold)
    if variant == "tinyx" and side in ("input", "both"):
        # the new input grid must still contain the old points in its hull
        inew[0] = gold[0] / (1.0 + rng.uniform(0.2, 1.0))
    ms_old = drv.Measured(gold, deg, mode)
    nfl = 2
    # the operator depends on the OUTPUT point through a polynomial of the full degree (a target-side
    # re-interpolation of lower degree does not reproduce it)
    Ms = [nrng.integers(-2, 3, size=(nfl, nfl, n)).astype(float) for _ in range(deg + 1)]
    O = sum(Ms[m][:, None, :, :] * ms_old.q(m, ms_old.u)[None, :, None, None] for m in range(deg + 1))
    p = nrng.integers(-2, 3, size=(nfl, deg + 1)).astype(float)

    def poly(xs):
        u = np.array([ms_old.var(float(x)) for x in xs])
        return np.array([sum(p[b][m] * ms_old.q(m, u) for m in range(deg + 1)) for b in range(nfl)])

    with warnings.catch_warnings():
        warnings.simplefilter("ignore")
        new = manipulate.xgrid_reshape(
            Operator(O, None), XGrid(gold, log=is_log), deg,
            targetgrid=XGrid(tnew, log=is_log) if side in ("target", "both") else None,
            inputgrid=XGrid(inew, log=is_log) if side in ("input", "both") else None)
    On = np.asarray(new.operator)
    f_old, f_new = poly(gold), poly(inew)
    if On.shape != (nfl, len(tnew), nfl, len(inew)):
        resid, bound = float("inf"), 0.0
    else:
        lhs = np.einsum("ajbk,bk->aj", On, f_new)
        u_t = np.array([ms_old.var(float(x)) for x in tnew])
        Oexp = sum(Ms[m][:, None, :, :] * ms_old.q(m, u_t)[None, :, None, None] for m in range(deg + 1))
        rhs = np.einsum("ajbk,bk->aj", Oexp, f_old)
        scale = max(1.0, float(sum(np.sum(np.abs(M)) for M in Ms)) * float(np.max(np.abs(f_old))))
        resid = float(np.max(np.abs(lhs - rhs))) / scale
        bt = bi = 0.0
        if side in ("target", "both"):
            for x in tnew:
                vals, bnd = ms_old.values(float(min(max(x, gold[0]), 1.0)))
                bt = max(bt, float(bnd.sum() + np.abs(vals).sum()))
        if side in ("input", "both"):
            ms_in = drv.Measured(inew, deg, mode)
            for x in gold:
                vals, bnd = ms_in.values(float(min(max(x, inew[0]), 1.0)))
                bi = max(bi, float(bnd.sum() + np.abs(vals).sum()))
        bound = drv.EPS * (8.0 * (deg + 2) * (bt + bi) + 16.0 * n)
    rec = {"kind": "law42", "cell": cell, "sample": int(sample),
           "resid_e": drv.decade(resid), "bound_e": drv.decade(bound)}
    rp = {"cell": cell, "sample": sample, "old": [float(x) for x in gold], "target": [float(x) for x in tnew],
          "input": [float(x) for x in inew], "deg": deg, "resid": resid, "bound": bound}
    return rec, rp


def run(chk):
    ctx = mp.get_context("fork")
    rplan = chk.tlc("ApplyPlan", "ApplyPlan.cfg", workers=1, label="law plan (cells enumerated by TLC)")
    cells = [{"mode": t[1], "deg": t[2], "side": t[3], "variant": t[4]} for t in rplan.printed("CELL")]
    if len(cells) != rplan.distinct or not cells:
        raise MachineryError(f"plan not read: {len(cells)} cells printed, {rplan.distinct} states")
    nsamp = 8 if chk.thorough() else 2
    ljobs = [(c, s, chk.seed) for c in cells for s in range(nsamp)]
    rng = chk.rng
    fjobs = []
    reps = 6 if chk.thorough() else 1
    for _ in range(reps):
        for sides in ("t", "u", "tu"):
            fjobs.append((rng.randrange(2**32), "flavor_reshape", sides))
            fjobs.append((rng.randrange(2**32), "to_evol", sides))
            fjobs.append((rng.randrange(2**32), "to_uni_evol", sides))
    gjobs = [(rng.randrange(2**32), side, False) for side in ("target", "input", "both") for _ in range(8 if chk.thorough() else 3)]
    gjobs += [(rng.randrange(2**32), side, True) for side in ("target", "both") for _ in range(3 if chk.thorough() else 1)]

    with ctx.Pool(12) as pool:
        la = pool.map_async(law_job, ljobs, chunksize=2)
        fa = pool.map_async(flavor_job, fjobs)
        ga = pool.map_async(grid_job, gjobs)
        b1 = [
            {"module": "ApplyMC", "cfg": "ApplyMC.cfg", "label": "B1 unit operators: contraction, reshape lemma with unimodular rotations (design)", "workers": 6},
            {"module": "ApplyMC", "cfg": "ApplyMC_noinverse.cfg", "label": "design switch InputInverse=FALSE (must violate)", "workers": 2, "expect_violation": "InvReshape"},
        ]
        b1run = drv.ManyTlc(chk, b1, threads=2)
        frecs, grecs, lres = fa.get(), ga.get(), la.get()

    lrecs = [r for r, _ in lres]
    replays = [rp for _, rp in lres]
    exact = frecs + grecs
    for r in frecs:
        chk.count(1, ("f", r["via"], str(r["T"])[:200], str(r["U"])[:200], str(r["O"])[:200]), nontrivial=True)
    for r in grecs:
        chk.count(1, ("g", str(r["gold"]), str(r["tnew"]), str(r["inew"]), r["deg"]), nontrivial=True)
    for r in lrecs:
        chk.count(1, ("l", str(sorted(r["cell"].items())), r["sample"]), nontrivial=True)
    chk.sample({k: grecs[0][k] for k in ("side", "deg", "gold", "tnew", "inew", "exact", "err")})
    chk.sample({k: frecs[1][k] for k in ("via", "T", "U", "exact", "err")})
    chk.sample({"law_record": lrecs[0]})

    # corrupted copies (binding demonstration) ride along
    gf = next(r for r in frecs if r["via"] == "flavor_reshape" and r["exact"] and not r["err"] and r["U"])
    c1 = copy.deepcopy(gf)
    c1["Onew"][0][0][0][0] = [c1["Onew"][0][0][0][0][0] + c1["Onew"][0][0][0][0][1], c1["Onew"][0][0][0][0][1]]
    gg = next(r for r in grecs if r["exact"] and not r["err"])
    c2 = copy.deepcopy(gg)
    # bump a whole output row (every input flavour and grid point), so that the corruption is
    # visible whatever the test inputs of this seed are
    for _b in range(len(c2["Onew"][1][0])):
        for _k in range(len(c2["Onew"][1][0][_b])):
            _e = c2["Onew"][1][0][_b][_k]
            c2["Onew"][1][0][_b][_k] = [_e[0] + _e[1], _e[1]]
    ge = next(r for r in frecs if r["via"] == "to_evol" and r["exact"] and not r["err"] and r["U"])
    c3 = copy.deepcopy(ge)
    c3["U"][4][5] += 1
    nreal = len(exact)
    nchunks = 6 if chk.thorough() else 3
    jobs = drv.trace_jobs("ApplyTrace", "ApplyTrace.cfg", exact + [c1, c2, c3], nchunks, "reshaped operators")
    c5 = copy.deepcopy(next(x for x in lrecs if x["bound_e"] <= -12))
    c5["resid_e"] = -4
    c6 = copy.deepcopy(lrecs[0])
    c6["cell"] = dict(c6["cell"], deg=7)
    ljob = {"module": "ApplyTrace", "cfg": "ApplyTrace.cfg", "workers": 1,
            "trace": lrecs + [{"kind": "end42"}, c5, c6],
            "label": "law measurements (plan completeness + classes) + 2 corrupted records"}
    tres = drv.run_many(chk, jobs + [ljob], threads=nchunks + 1)
    bad = drv.trace_bad(chk, jobs, tres[:-1])
    demo = {k - nreal: v for k, v in bad if k >= nreal}
    if not all(demo.get(k, "").startswith("C42:") for k in range(3)):
        raise MachineryError(f"binding demonstration failed (corrupted records accepted): {demo}")
    chk.cov["traces_validated_against_impl"] -= 3
    n_unres_exact = 0
    for k, verdict in bad:
        if k >= nreal:
            continue
        r = exact[k]
        if r["kind"] == "flavor":
            inst = f"via={r['via']} target={'yes' if r['T'] else 'no'} input={'yes' if r['U'] else 'no'}"
        else:
            inst = f"side={r['side']} deg={r['deg']} old={r['gold']} target={r['tnew']} input={r['inew']}"
        if verdict.startswith("C42:"):
            chk.violation(f"{verdict} {r['kind']} {r.get('via', r.get('side'))}",
                          f"eko.io.manipulate violates {verdict} for {inst}", {"verdict": verdict, "record": r})
        elif verdict == "UNRESOLVED":
            n_unres_exact += 1
            chk.diag(f"exact recovery unresolved: {inst}")
        elif verdict.startswith("CONF:"):
            chk.diag(f"{verdict} {inst}")
        else:
            raise MachineryError(f"trace record rejected for a non-property reason: {verdict} {inst}")
    if n_unres_exact > nreal // 4:
        raise MachineryError(f"{n_unres_exact} of {nreal} exact reshape probes unresolved")
    chk.note("exact_flavor_records", len(frecs))
    chk.note("exact_grid_records", len(grecs))
    chk.note("exact_unresolved", n_unres_exact)

    rl = tres[-1]
    if rl.violated or not rl.completed:
        raise MachineryError(f"ApplyTrace did not accept the law trace: {rl.out[-2000:]}")
    lbad = {t[1] - 1: t[2] for t in rl.printed("BAD")}
    L = len(lrecs)
    if not lbad.get(L + 1, "").startswith("C42:law") or not lbad.get(L + 2, "").startswith("PLAN:"):
        raise MachineryError(f"binding demonstration failed (corrupted law records accepted): {lbad}")
    chk.cov["traces_validated_against_impl"] += L
    n_unres = 0
    for k, verdict in sorted(lbad.items()):
        if k > L:
            continue
        if verdict == "UNRESOLVED":
            n_unres += 1
            continue
        if k == L:
            raise MachineryError(f"law plan incomplete: {verdict}")
        r, rp = lrecs[k], replays[k]
        c = r["cell"]
        if verdict.startswith("C42:"):
            if c["variant"] == "tinyx" and "raised" not in rp:
                fp = "C42:xgrid-shortcut tiny-x grid"
                what = ("xgrid_reshape leaves the operator unchanged for a new grid that differs from the operator "
                        f"grid only below 1e-8 (np.allclose on raw x in xgrid_check): residual 1e{r['resid_e']} "
                        f"(bound 1e{r['bound_e']}) in log x, side={c['side']} degree {c['deg']}, old x_min={rp['old'][0]:.3e} "
                        f"target x_min={rp['target'][0]:.3e} input x_min={rp['input'][0]:.3e}")
            else:
                fp = f"{verdict} {c['mode']} {c['side']} deg={c['deg']}"
                what = f"law ReinterpCommute violated in cell {c}: residual 1e{r['resid_e']} with bound 1e{r['bound_e']}" + (f" ({rp['raised']})" if "raised" in rp else "")
            chk.violation(fp, what, rp)
        else:
            raise MachineryError(f"law record rejected: {verdict} {r}")
    chk.note("law_cells_planned", len(cells))
    chk.note("law_measurements", L)
    chk.note("law_unresolved", n_unres)
    chk.note("law_worst_resolved_residual_minus_bound_decades",
             max([r["resid_e"] - r["bound_e"] for r in lrecs if r["bound_e"] <= -7 and r["cell"]["variant"] == "random"], default=None))
    chk.note("binding_demo", "3 corrupted reshape records, 1 corrupted law class, 1 unplanned cell rejected by ApplyTrace")

    res = b1run.finish()
    if res[0].violated:
        raise MachineryError(f"Apply.tla lemmas violated on the design: {res[0].violated}: {res[0].counterexample()[:1500]}")
