"""C41 legacy runcards upgrade to equivalent current structures."""

import copy
import pathlib
from concurrent.futures import ThreadPoolExecutor
import random

from harness.core import MachineryError
from harness.drivers import cards as dc
from harness.drivers import legacy as lg

META = {
    "id": "C41",
    "level": "model_checking",
    "technique": "TLA+ spec Legacy (field relation old theory/operator runcard -> TheoryCard/OperatorCard transcribed from eko.io.runcards.Legacy, default flow through Atlas.tla; predicates C41_Order, C41_Matching, C41_Masses, C41_Couplings, C41_Flow, C41_Configs written from the meaning of the legacy keys); TLC enumerates legacy value combinations; each is materialised as a synthetic legacy runcard, converted by the real Legacy class, projected back and judged by TLC (LegacyTrace)",
    "text": "B1: TLC checks the transcribed relation against the predicates for every combination inside four key groups (PTO x QED x PTO_matching x HQ x ev_op_max_order; ModEv x ModSV x backward_inversion x use_fhmruvv x n3lo; alphaqed x alphaem x Qedref x nfref; nf0 x Q0 position x grid key x grid positions incl. points exactly on a matching scale), including the agreement of the default flow (digitize transcription) with its independent definition; a shifted PTO transcription must be refuted. B2/B3: every TLC state plus seeded full random combinations become concrete legacy runcards (random masses, matching ratios, scales realising the token order), are converted with Legacy(...).new_theory/new_operator, and TLC evaluates the predicates on the projected new cards; copied fields are compared value by value.",
    "note": "Archives: the repository's legacy archives in tests/data are emptied in this sandbox, so v1/v2 archives are synthesised: a current archive is written through the real store and its YAML members are rewritten by the inverse of the documented patches (spec ArchiveUpgrade: which fields an old layout can express); EKO.read must give back every expressible field, the evolution points and bitwise operators. Matching scales are sorted (default flow is undefined otherwise). Squared-scale keys (Q2grid, mu2grid) are exercised strictly between matching scales, linear mugrid also exactly on them. ev_op_max_order is an integer in legacy cards.",
    "design_ref": "4.10, 5 C41",
    "rule": "instance = combination of legacy field values (tokens) materialised with seeded masses/ratios/scales; distinct by the token combination; non-trivial = all",
}


def run(chk):
    dump = chk.scratch / "legacy-states"
    with ThreadPoolExecutor(2) as pool:   # two independent TLC runs
        f1 = pool.submit(chk.tlc, "LegacyMC", "LegacyMC.cfg", extra=("-dump", str(dump)), label="relation vs predicates, key groups exhaustive")
        f2 = pool.submit(chk.tlc, "LegacyMC", "LegacyMC_PtoShift.cfg", expect_violation="InvTheory", label="vacuity guard / PTO transcribed without the shift")
        r = f1.result()
        f2.result()
    if r.violated or not r.completed:
        raise MachineryError(f"Legacy.tla violates {r.violated}: {r.counterexample()[:2000]}")
    states = dc.parse_dump(pathlib.Path(str(dump) + ".dump").read_text())
    if len(states) != r.distinct:
        raise MachineryError(f"dump has {len(states)} states, TLC reports {r.distinct}")
    combos = [st["o"] for st in states]
    for o in combos:
        o["grid"] = list(o["grid"])
    combos += [lg.random_combination(chk.rng) for _ in range(6000 if chk.thorough() else 1200)]
    recs, cards = [], []
    for o in combos:
        rec, conc = lg.convert(o, random.Random(chk.rng.randrange(2**31)))
        recs.append(rec)
        cards.append(conc)
        chk.count(1, repr(sorted(o.items())), nontrivial=True)
    chk.sample({"legacy": cards[0], "projected": recs[0]})
    chk.sample({"legacy": cards[-1], "projected": recs[-1]})

    # binding demonstration rides along
    base = next(x for x in recs if x["t"]["err"] == "" and x["p"]["err"] == "" and x["o"]["HQ"] == "POLE" and len(x["p"]["mugrid"]) >= 1)
    c = [copy.deepcopy(base) for _ in range(4)]
    c[0]["t"]["order"][0] = c[0]["o"]["PTO"] + 5
    c[1]["p"]["mugrid"][0][1] = 9
    c[2]["p"]["method"] = "bogus"
    c[3]["copyBad"] = ["XIF"]
    expect = ["C41:order", "C41:evolution-points", "C41:configs", "C41:copied-field:XIF"]
    n = len(recs)
    r = chk.tlc("LegacyTrace", "LegacyTrace.cfg", trace=recs + c, workers=1, label="observed conversions")
    if r.violated or not r.completed:
        raise MachineryError(f"LegacyTrace not accepted: {r.out[-2000:]}")
    chk.cov["traces_validated_against_impl"] += n
    bad = {}
    for t in r.printed("BAD"):
        bad.setdefault(t[2], []).append(t[1] - 1)
    for j, name in enumerate(expect):
        if n + j not in bad.get(name, []):
            raise MachineryError(f"binding demonstration failed: corrupted record {j} not rejected with {name}")
    chk.note("binding_demo", "4 corrupted records rejected by LegacyTrace with the expected clause")
    for verdict, idx in sorted(bad.items()):
        idx = [k for k in idx if k < n]
        if not idx:
            continue
        k = idx[0]
        what = f"{verdict}: {len(idx)} of {n} conversions; e.g. legacy fields {recs[k]['o']} -> theory {recs[k]['t']} operator {recs[k]['p']} copied-field mismatches {recs[k]['copyBad']}"
        if verdict.startswith("C41:"):
            chk.violation(verdict, what[:1500], {"record": recs[k], "cards": cards[k]})
        else:
            chk.diag(what[:600])
    nconf = [t[1] - 1 for t in r.printed("CONF") if t[1] - 1 < n]
    chk.note("conformance", {"as transcribed": n - len(nconf), "differs": len(nconf)})
    if nconf:
        chk.diag(f"conformance: {len(nconf)} conversions differ from the transcription, e.g. {recs[nconf[0]]}")

    # ---- archives written with data versions 1 and 2 -----------------------------------------
    import multiprocessing as _mp

    from harness.drivers import oldarchive

    n = 600 if chk.thorough() else 80
    seeds = [chk.rng.randrange(2**31) for _ in range(n)]
    with _mp.get_context("fork").Pool(16) as pool:
        arecs = pool.map(oldarchive.experiment, seeds, chunksize=4)
    for ar in arecs:
        chk.count(1, ("archive", ar["seed"]), nontrivial=ar["exc"] == "")
    chk.sample({"archive_version": arecs[0]["v"], "fields_equal": arecs[0]["same"]})
    ra = chk.tlc("ArchiveUpgradeTrace", "ArchiveUpgradeTrace.cfg", trace=arecs, workers=1, label="synthetic v1/v2 archives read back")
    if ra.violated or not ra.completed:
        raise MachineryError(f"ArchiveUpgradeTrace not accepted: {ra.out[-1500:]}")
    chk.cov["traces_validated_against_impl"] += len(arecs)
    seen_a = set()
    for t in ra.printed("BAD"):
        ar = arecs[t[1] - 1]
        fp = f"{t[2]} data-version={ar['v']}"
        if t[2].startswith("C41:") and fp not in seen_a:
            seen_a.add(fp)
            chk.violation(fp, f"{t[2]}: archive in the data-version {ar['v']} layout (seed {ar['seed']}): equal fields {ar['same']} {ar['exc']}", ar)
    bad_a = [dict(arecs[0], same=[f for f in arecs[0]["same"] if f != "operators"])]
    rb = chk.tlc("ArchiveUpgradeTrace", "ArchiveUpgradeTrace.cfg", trace=bad_a, workers=1, label="corrupted archive record (must be rejected)")
    if not [t for t in rb.printed("BAD") if t[2].startswith("C41:")]:
        raise MachineryError("binding demonstration (archives) failed")
