"""C25 sum rules of the anomalous dimensions (mode L, EkoreLaws.tla)."""

import numpy as np

from harness.ekorelaws import engine as E
from harness.ekorelaws import registry as R
from harness.ekorelaws.classes import expo100

META = {
    "id": "C25",
    "level": "exploration",
    "technique": "law SumRules: the table of vanishing entry combinations per variant (unpolarised, time-like in the fragmentation convention, polarised incl. gamma_gg(1) = -beta_k, QED-extended) and the accuracy class per order live in EkoreLaws.tla; TLC enumerates the plan (every variant x rule x order x nf x N3LO parametrisation x variation index) and hands each cell its rule; residuals of the real un-jitted dispatchers are recorded as integer exponents; the trace is validated by TLC (EkoreLawsTrace). Law FhmruvvMean: central = mean(upper, lower) per FHMRUVV splitting function at random N",
    "text": "Every cell is deterministic (N = 2 or N = 1, fixed nf and variation): the weighted combination named by the specification (e.g. us: gamma_qq + gamma_gq and gamma_qg + gamma_gg at N = 2, gamma_ns- and gamma_nsv at N = 1; ut: 2 nf gamma[r,0] + gamma[r,1] per row; ps: gamma_ns+(1), gamma_qg(1), gamma_gg(1) + beta_k; qed: column sums over gluon, photon and singlet rows for all four columns at N = 2, all four valence entries and the up/down minus entries at N = 1) is evaluated on the real functions, relative to the sum of the moduli of its terms (single entries: relative to the entry at the next integer moment), maximised over nf. Where an expression has a removable singularity at the point (1/(N-1) in nsv), the point is approached from four directions of the complex plane at distance 1e-7. Required classes from the accuracy class of the order: exact closed forms 1e-9; exact expressions evaluated with approximated Mellin g-functions 1e-4; documented 0.1 % parametrisations (NNLO, both N3LO sets) 1e-2 = documented figure x 10. FHMRUVV central = mean(upper, lower): residual relative to max(|upper - lower|, 1e-4 |central|) <= 1e-5 (unchanged tree <= 6e-10).",
    "note": "Unchanged tree: exact <= 5e-15, g-function class <= 8e-7, parametrised <= 2.2e-4 relative; an observation within half a decade of its threshold is reported unresolved, not passed. Because the property itself is stated 'within the documented accuracy', a violation smaller than 1e-2 relative in a parametrised order (1e-4 in an NLO order) is not detected. All 20 (gg) variation indices of the in-house N3LO set and all 3 of FHMRUVV are planned for the momentum rules. The in-house N3LO set is classed 'param' although it is constructed to satisfy the sum rules exactly.",
    "design_ref": "4.11, 5 C25",
    "rule": "cell = (variant, rule, order (k,q), nf, N3LO parametrisation, variation index) or (FHMRUVV entry, nf, point); distinct by cell; all non-trivial",
}


def _combo(c, d, nf, n, vt):
    """values of the weighted terms of rule d at moment n for nf flavours (+ the extra term)."""
    vals = []
    for t in d["terms"]:
        x = R.ad_entry(c["v"], t["sec"], c["k"], c["q"], nf, c["fl"], vt, n, t["a"], t["b"])
        w = 2.0 * nf if t["w"] == "2nf" else 1.0
        vals.append(w * x)
    if d["extra"] == "beta":
        vals.append(complex(R.beta_qcd(c["k"], nf)))
    return np.array(vals, dtype=np.complex128)


def measure_cell(cc, seed):
    c, d = cc["cell"], cc["def"]
    if c["law"] == "FhmruvvMean":
        rng = E.cell_rng(seed, c, "C25")
        n = complex(rng.uniform(-2.0, 30.0), rng.uniform(0.05, 40.0) * rng.choice((-1, 1)))
        v = [R.fhmruvv_entry(c["rule"], n, c["nf"], k) for k in (0, 1, 2)]
        den = max(abs(v[1] - v[2]), 1e-4 * abs(v[0]))
        res = abs(v[0] - 0.5 * (v[1] + v[2])) / den
        return {"e": expo100(res)}, {"res": res, "n": [n.real, n.imag], "spread": abs(v[1] - v[2]) / abs(v[0])}
    at = float(d["at"])
    vt = tuple(cc["vt"])  # the variation tuple the specification assigns to the index
    vals, lim = R.at_or_limit(lambda n: _combo(c, d, c["nf"], n, vt), at)
    resid = max(abs(np.sum(x)) for x in vals)
    scale = 0.0
    for nf in cc["nfs"]:
        if d["sc"] == "terms":
            sv, _ = R.at_or_limit(lambda n: _combo(c, d, nf, n, vt), at)
            scale = max(scale, max(float(np.sum(np.abs(x))) for x in sv))
        else:
            sv, _ = R.at_or_limit(lambda n: _combo(c, d, nf, n, vt), at + 1.0)
            scale = max(scale, max(float(np.sum(np.abs(x))) for x in sv))
    # a combination of structural zeros vanishes identically
    res = 0.0 if resid == 0.0 else (resid / scale if scale > 0 else float("inf"))
    return {"e": expo100(res)}, {"res": res, "abs": float(resid), "scale": scale, "limit": lim}


def run(chk):
    J = E.points_per_cell(chk, 10, 120)
    cells = E.plan(chk, "C25", J)
    measured = E.measure(chk, cells, measure_cell)
    recs = [{"cell": c, "obs": o} for c, o, _ in measured]
    worst = {}
    for c, o, i in measured:
        chk.count(1, E.cell_key(c["cell"]), nontrivial=True)
        cl = c["cell"]
        key = "FhmruvvMean" if cl["law"] == "FhmruvvMean" else f"{cl['v']} ({cl['k']},{cl['q']}) {cl['fl']}"
        worst[key] = max(worst.get(key, 0.0), i["res"])
    chk.note("worst_relative_residual_per_order", {k: f"{v:.2e}" for k, v in sorted(worst.items())})
    chk.note("cells_evaluated_by_limit", sum(1 for _, _, i in measured if i.get("limit")))
    chk.sample({"cell": measured[0][0]["cell"], "obs": measured[0][1], "info": measured[0][2]})
    chk.sample({"cell": measured[-1][0]["cell"], "obs": measured[-1][1], "info": measured[-1][2]})
    bad, unres = E.validate(chk, "C25", J, recs, "measured cells of SumRules / FhmruvvMean")

    def describe(cc, obs, info):
        c = cc["cell"]
        if c["law"] == "FhmruvvMean":
            return f"FHMRUVV {c['rule']} nf={c['nf']}: central != mean(upper, lower) at N={info['n']}: residual/spread {info['res']:.3e}"
        return (f"sum rule {c['v']}:{c['rule']} order ({c['k']},{c['q']}) nf={c['nf']} {c['fl']} var={c['var']}: "
                f"|combination| = {info['abs']:.3e} relative {info['res']:.3e} (scale {info['scale']:.3e}), rule {cc['def']}")

    _report(chk, measured, bad, unres, describe)

    def corrupt(r):
        r["obs"]["e"] = -50

    pick = [recs[0], recs[len(recs) // 2], recs[-1]]
    E.binding_demo(chk, "C25", J, pick, corrupt, "C25:")
    E.switch_guard(chk, "C25", J, recs, "all-exact", "C25:")


def _report(chk, measured, bad, unres, describe):
    """E.report with the fingerprint taken from the inner cell."""
    m2 = [({**c["cell"], "_outer": c}, o, i) for c, o, i in measured]
    E.report(chk, "C25", m2, bad, unres, ("law", "k", "q", "fl"),
             lambda c, o, i: describe(c["_outer"], o, i))
