"""C55 settings that do not apply to a configuration do not change its EKO."""
import multiprocessing as mp

from harness.core import MachineryError

META = {
    "id": "C55",
    "level": "model_checking",
    "technique": "TLA+ spec Dispatch: Relevant(setting, configuration) derived from which methods iterate / expand, where a downward matching occurs, which orders use N3LO ingredients and QED; TLC enumerates all (configuration, setting) pairs with an irrelevant setting; each planned pair is executed as two real (shimmed) solves differing in exactly that setting and TLC (DispatchTrace) requires bitwise equal operator digests",
    "text": "The set Pairs = {(c, s) : ~Relevant(s, c), c supported} is enumerated by TLC. For a seeded covering subset (quick) or all pairs with the other fields sampled (thorough) the real solver runs twice: iterations 1 vs 7, ev_op_max_order (3,0) vs (8,0), inversion method exact vs expanded (vs none) on upward/fixed paths and at LO, N3LO variation tuples and the FHMRUVV switch below N3LO, em_running True vs False without QED. Operators and errors are compared by sha256.",
    "note": "Relevant is conservative: a setting is declared relevant wherever the documentation ties it to the configuration, even if the code happens not to use it there (e.g. iterations for iterate-exact at LO); only irrelevance is checked. Quadrature shim as in C04.",
    "design_ref": "4.9, 5 C55",
    "rule": "pair = (configuration, setting with ~Relevant); distinct by configuration and setting; non-trivial = both solves finite",
}

SETTINGS = ["iterations", "max_order", "inversion", "n3lo_variation", "use_fhmruvv", "emrun"]


def relevant(s, c):
    if s == "iterations":
        return c["qed"] > 0 or c["method"] in ("iterate-exact", "iterate-expanded", "perturbative-exact", "perturbative-expanded")
    if s == "max_order":
        return c["method"] in ("perturbative-exact", "perturbative-expanded")
    if s == "inversion":
        return c["shape"] == "down" and c["qcd"] >= 2
    if s in ("n3lo_variation", "use_fhmruvv"):
        return c["qcd"] == 4
    if s == "emrun":
        return c["qed"] > 0
    raise ValueError(s)


def _pair(args):
    from harness.drivers import dispatch

    cfg, setting, seed = args
    a, b = dict(cfg), dict(cfg)
    ka, kb = {}, {}
    if setting == "iterations":
        ka["iterations"], kb["iterations"] = 1, 7
    elif setting == "max_order":
        ka["max_order"], kb["max_order"] = (3, 0), (8, 0)
    elif setting == "inversion":
        a["inv"], b["inv"] = ("exact", "expanded") if seed % 2 else ("none", "exact")
    elif setting == "n3lo_variation":
        ka["n3lo"], kb["n3lo"] = (0,) * 7, (1, 2, 3, 4, 1, 2, 3)
    elif setting == "use_fhmruvv":
        ka["fhmruvv"], kb["fhmruvv"] = True, False
    elif setting == "emrun":
        a["emrun"], b["emrun"] = False, True
    oa = dispatch.solve(a, seed=seed, xif=2.0, **ka)
    ob = dispatch.solve(b, seed=seed, xif=2.0, **kb)
    return {"ev": "pair", "cfg": cfg, "setting": setting, "same": bool(oa["kind"] == ob["kind"] and oa["digest"] == ob["digest"]),
            "kinds": [oa["kind"], ob["kind"]], "msg": (oa["msg"] + "|" + ob["msg"])[:120]}


def run(chk):
    from harness.drivers import dispatch

    r = chk.tlc("DispatchMC", "DispatchMC.cfg", label="configuration product, Relevant table")
    if r.violated:
        raise MachineryError(f"Dispatch table inconsistent: {r.counterexample()[:2000]}")
    dom = [c for c in dispatch.domain() if not (c["pol"] and c["tl"]) and not (c["qed"] > 0 and (c["method"] != "iterate-exact" or c["pol"] or c["tl"]))
           and not ((c["pol"] or c["tl"]) and c["qcd"] == 4) and not (c["qcd"] == 4 and c["top"])]
    pairs = []
    for s in SETTINGS:
        # the domain used in C04 fixes inv="none" off downward paths and emrun=False without QED: exactly the irrelevant cases
        cand = [c for c in dom if not relevant(s, c)]
        chk.rng.shuffle(cand)
        n = 120 if chk.thorough() else 14
        # stratify by order and method
        seen = set()
        pick = []
        for c in cand:
            k = (c["qcd"], c["method"], c["shape"], c["sv"])
            if k in seen and len(pick) >= n // 2:
                continue
            seen.add(k)
            pick.append(c)
            if len(pick) >= n:
                break
        pairs += [(c, s, chk.rng.randrange(1000)) for c in pick]
    with mp.get_context("fork").Pool(16) as pool:
        recs = pool.map(_pair, pairs, chunksize=1)
    for rec in recs:
        chk.count(2, (tuple(sorted(rec["cfg"].items())), rec["setting"]), nontrivial=rec["kinds"] == ["finite", "finite"])
    chk.sample(recs[0])
    chk.note("pairs_per_setting", {s: sum(1 for x in recs if x["setting"] == s) for s in SETTINGS})
    res = chk.tlc("DispatchTrace", "DispatchTrace.cfg", trace=recs, workers=1, label="pairs judged by C55_Verdict")
    if res.violated or not res.completed:
        raise MachineryError(f"DispatchTrace not accepted: {res.out[-2000:]}")
    chk.cov["traces_validated_against_impl"] += len(recs)
    seen = set()
    for t in res.printed("BAD"):
        rec = recs[t[1] - 1]
        if t[2].startswith("C55:"):
            c = rec["cfg"]
            fp = f"{t[2]} qcd={c['qcd']} qed={c['qed']} method={c['method']} shape={c['shape']}"
            cls = f"{t[2]} qcd={c['qcd']} qed={min(c['qed'],1)}"
            if cls in seen:
                continue
            seen.add(cls)
            chk.violation(fp, f"{t[2]}: cfg={c} kinds={rec['kinds']} {rec['msg']}", rec)
        else:
            chk.diag(f"{t[2]}: {rec['cfg']} {rec['setting']}")
    bad = [dict(recs[0], same=False)]
    r2 = chk.tlc("DispatchTrace", "DispatchTrace.cfg", trace=bad, workers=1, label="corrupted pair (must be rejected)")
    if not [t for t in r2.printed("BAD") if t[2].startswith("C55:")]:
        raise MachineryError("binding demonstration failed")
