"""C22 backward matching and decoupling inversions are true inverses.

Spec: spec/MatPoly.tla (truncated series with non-commuting matrix coefficients over exact
rationals; expanded inverse transcribed from build_ome, inverse derived order by order, truncated
product law, exact-inverse law, composition inverse / reciprocal of decoupling series).
B1: spec/MatPolyMC.tla (bounded-exhaustive instances + 4 variants that TLC must refute).
B3: spec/MatPolyTrace.tla evaluates the laws on the implementation's own coefficients obtained
by exact probing of build_ome, invert_matching_coeffs, compute_matching_coeffs_up/down
(couplings and msbar_masses).
"""

import copy
import itertools
from fractions import Fraction

import numpy as np

from harness.core import MachineryError
from harness.drivers.exactprobe import lagrange_coeffs, pair, parallel_tlc, to_fraction

META = {
    "id": "C22",
    "level": "model_checking",
    "technique": "TLA+ spec MatPoly (truncated series over non-commuting rational matrices): TLC proves the transcribed expanded inverse equal to the order-by-order derived inverse and the truncated product law on a domain that is complete for 2x2 matrices by degree counting (thorough), plus 3x3 families and decoupling tables; 4 wrong variants refuted; build_ome / invert_matching_coeffs / decoupling tables bound by exact probing and judged by the TLC trace spec MatPolyTrace on the code's own coefficients",
    "text": "Forward and expanded-backward matching operators are recovered exactly from eko.evolution_operator.quad_ker.build_ome (integer OME matrices of dimension 2-4, a = 0..4, interpolation in a) for matching orders 0-3; TLC checks Trunc_n(F.B) = Trunc_n(B.F) = 1 on these coefficient matrices with the order of non-commuting factors kept, and X.M = M.X = 1 over the rationals for the exact backward operator at a in {1, 2, 1/2, 1/4, -1}. The downward coupling tables (POLE, MSBAR, nf 3-5, and invert_matching_coeffs on random integer tables) must be the composition inverse of the upward ones as polynomials in (a, L) through every order 1-4, the downward mass tables the reciprocal factor of the upward ones.",
    "note": "B1 quick: A1 over {0,1}^(2x2), A2 and A3 over {0, unit matrices} (the law is affine in A2, A3), 3x3 family of 6 non-commuting matrices; thorough: A1 over {-1..2}^(2x2), which is complete for 2x2 rational matrices (degree <= 3 per entry), plus all 4096 triples over {0,1}. Exact inverse: singular instances and instances whose determinant exceeds the rational-recovery bound (20000) are skipped (counted). invert_matching_coeffs is the composition inverse; for the mass factor (reciprocal) it is correct only because the first row of the mass table vanishes - TLC exhibits the counterexample when it does not (variant mass_c11).",
    "design_ref": "4.10, 5 C22",
    "rule": "instance = (dimension, integer OME triple, matching order) for expanded; (.., coupling value) for exact; (scheme, nf) or integer table for decoupling; non-trivial = order >= 1 and A1 not commuting with A2 for order 3; distinct by the full tuple",
}


def _rand_mat(rng, d, lo=-3, hi=3):
    return [[rng.randint(lo, hi) for _ in range(d)] for _ in range(d)]


def _commute(a, b):
    a = np.array(a)
    b = np.array(b)
    return np.array_equal(a @ b, b @ a)


def _matpairs(m):
    return [[pair(x) for x in row] for row in m]


def _probe_poly(fn, d, amax=4):
    """Coefficient matrices (Fractions) of a -> fn(a) assumed polynomial of degree <= amax.

    Returns (coeffs[k][r][c], exact)."""
    xs = list(range(amax + 1))
    vals = []
    ok = True
    for a in xs:
        m = fn(float(a))
        row = [[None] * d for _ in range(d)]
        for r in range(d):
            for c in range(d):
                z = complex(m[r][c])
                if z.imag != 0.0:
                    ok = False
                fr, ex = to_fraction(z.real, maxden=1000)
                ok = ok and ex
                row[r][c] = fr
        vals.append(row)
    coeffs = [[[None] * d for _ in range(d)] for _ in xs]
    for r in range(d):
        for c in range(d):
            co = lagrange_coeffs([Fraction(x) for x in xs], [vals[k][r][c] for k in range(len(xs))])
            for k in range(len(xs)):
                coeffs[k][r][c] = co[k]
    return coeffs, ok


def _extra_point_ok(fn, coeffs, d, a=5.0):
    """A polynomial of degree <= 4 recovered from 5 points must also reproduce a 6th."""
    m = fn(a)
    for r in range(d):
        for c in range(d):
            want = sum(coeffs[k][r][c] * Fraction(a) ** k for k in range(len(coeffs)))
            if abs(complex(m[r][c]) - complex(float(want))) > 1e-9 * max(1.0, abs(float(want))):
                return False
    return True


def ome_record(A, n):
    from eko.evolution_operator.quad_ker import MatchingMethods, build_ome

    d = len(A[0])
    arr = np.array(A, dtype=np.complex128)

    def fwd(a):
        return build_ome(arr.copy(), (n, 0), a, MatchingMethods.FORWARD)

    def bwd(a):
        return build_ome(arr.copy(), (n, 0), a, MatchingMethods.BACKWARD_EXPANDED)

    cf, okf = _probe_poly(fwd, d)
    cb, okb = _probe_poly(bwd, d)
    ok = okf and okb and _extra_point_ok(fwd, cf, d) and _extra_point_ok(bwd, cb, d)
    return {
        "kind": "ome",
        "A": A,
        "n": n,
        "fwd": [_matpairs(m) for m in cf],
        "bwd": [_matpairs(m) for m in cb],
        "exact": bool(ok),
    }


def _det(m):
    """Exact determinant (Fractions) by Laplace expansion (d <= 4)."""
    d = len(m)
    if d == 1:
        return m[0][0]
    tot = Fraction(0)
    for c in range(d):
        if m[0][c] == 0:
            continue
        minor = [[m[r][cc] for cc in range(d) if cc != c] for r in range(1, d)]
        tot += (-1) ** c * m[0][c] * _det(minor)
    return tot


DET_BOUND = 20000


def exact_record(A, n, a: Fraction, fwd_coeffs):
    """build_ome(..., BACKWARD_EXACT) at rational a.

    Instance selection (on the inputs only): the matrix to invert, M = sum_k fwd_k a^k, must be
    regular with |det| small enough that every entry of the true inverse is a rational with
    denominator <= DET_BOUND, which `to_fraction` recovers uniquely.  A returned value that is not
    such a rational cannot be the inverse (exact = False)."""
    from eko.evolution_operator.quad_ker import MatchingMethods, build_ome

    d = len(A[0])
    M = [[sum(fwd_coeffs[k][r][c] * a**k for k in range(len(fwd_coeffs))) for c in range(d)] for r in range(d)]
    det = _det(M)
    if det == 0:
        return None
    # inverse = adj(M)/det ; adj(M) has denominators dividing den(a)^(3(d-1))
    bound = abs(det.numerator) * Fraction(a).denominator ** (3 * (d - 1))
    if bound > DET_BOUND:
        return None
    arr = np.array(A, dtype=np.complex128)
    X = build_ome(arr.copy(), (n, 0), float(a), MatchingMethods.BACKWARD_EXACT)
    inv = [[None] * d for _ in range(d)]
    ok = True
    for r in range(d):
        for c in range(d):
            z = complex(X[r][c])
            fr, ex = to_fraction(z.real, maxden=DET_BOUND, tol=1e-9)
            ok = ok and ex and abs(z.imag) <= 1e-12
            inv[r][c] = fr
    return {
        "kind": "exact",
        "A": A,
        "n": n,
        "a": pair(a),
        "fwd": [_matpairs(m) for m in fwd_coeffs],
        "inv": _matpairs(inv),
        "exact": bool(ok),
    }


def _table_fraction(x):
    """Decoupling table entry: small rational (den <= 2000) or a 5-digit decimal."""
    fr, ex = to_fraction(x, maxden=2000, tol=1e-9)
    if ex:
        return fr, True
    dec = Fraction(round(float(x) * 10**5), 10**5)
    if abs(float(dec) - float(x)) <= 1e-9:
        return dec, True
    return fr, False


def _table(t):
    out = []
    ok = True
    for n in range(4):
        row = []
        for l in range(4):
            fr, ex = _table_fraction(t[n][l])
            ok = ok and ex
            row.append(pair(fr))
        out.append(row)
    return out, ok


def dec_records(rng, n_int):
    from eko import couplings, msbar_masses

    recs = []
    for scheme in ("POLE", "MSBAR"):
        for nf in (3, 4, 5):
            up, ok1 = _table(couplings.compute_matching_coeffs_up(scheme, nf))
            down, ok2 = _table(couplings.compute_matching_coeffs_down(scheme, nf))
            recs.append({"kind": "dec", "scheme": scheme, "nf": nf, "up": up, "down": down, "exact": bool(ok1 and ok2)})
    for k in range(n_int):
        c = np.zeros((4, 4))
        c[1, 1] = rng.randint(-3, 3)
        for n in (2, 3):
            for l in range(n + 1):
                c[n, l] = rng.randint(-4, 4)
        d = couplings.invert_matching_coeffs(c.copy())
        up, ok1 = _table(c)
        down, ok2 = _table(d)
        recs.append({"kind": "dec", "scheme": "int", "nf": k, "up": up, "down": down, "exact": bool(ok1 and ok2)})
    for nf in (3, 4, 5):
        up, ok1 = _table(msbar_masses.compute_matching_coeffs_up(nf))
        down, ok2 = _table(msbar_masses.compute_matching_coeffs_down(nf))
        recs.append({"kind": "mass", "nf": nf, "up": up, "down": down, "exact": bool(ok1 and ok2)})
    return recs


def _validate(chk, recs, label):
    r = chk.tlc("MatPolyTrace", "MatPolyTrace.cfg", trace=recs, workers=1, label=label)
    if r.violated or not r.completed:
        raise MachineryError(f"MatPolyTrace not accepted: {r.out[-1500:]}")
    return [(t[1] - 1, t[2]) for t in r.printed("BAD")]


def run(chk):
    rng = chk.rng
    # ---- B1 ---------------------------------------------------------------------------------
    cfg = "MatPolyMC_thorough.cfg" if chk.thorough() else "MatPolyMC.cfg"
    variants = (
        ("commuted", "InvExpandedLaw"),
        ("cube_sign", "InvExpandedLaw"),
        ("reciprocal22", "InvDecoupling"),
        ("mass_c11", "InvMass"),
    )
    jobs = [
        {"module": "MatPolyMC", "cfg": cfg, "workers": 12,
         "label": "transcribed expanded inverse = derived inverse; product law; decoupling reversion"}
    ] + [
        {"module": "MatPolyMC", "cfg": f"MatPolyMC_{var}.cfg", "workers": 2, "expect_violation": inv,
         "label": f"variant {var} (must be refuted)"}
        for var, inv in variants
    ]
    r = parallel_tlc(chk, jobs)[0]
    if r.violated or not r.completed:
        chk.diag(f"design counterexample {r.violated}: {r.counterexample()[:1500]}")
    design_ok = not r.violated
    chk.note("variants_refuted", 4)

    # ---- B3: build_ome ------------------------------------------------------------------------
    n_inst = 160 if chk.thorough() else 40
    recs = []
    skipped_singular = 0
    unit2 = [[[1 if (r, c) == p else 0 for c in range(2)] for r in range(2)] for p in itertools.product(range(2), repeat=2)]
    insts = []
    # fixed non-commuting unit-matrix triples for every order, then random ones
    for n in range(4):
        insts.append(([unit2[1], unit2[2], unit2[3]], n))
        insts.append(([unit2[2], unit2[1], unit2[0]], n))
    for k in range(n_inst):
        d = (2, 3, 2, 4)[k % 4]
        n = rng.choice([1, 2, 3, 3])
        lim = {2: 3, 3: 2, 4: 1}[d]
        insts.append(([_rand_mat(rng, d, -lim, lim) for _ in range(3)], n))
    avals = [Fraction(1), Fraction(2), Fraction(1, 2), Fraction(1, 4), Fraction(-1)]
    for A, n in insts:
        rec = ome_record(A, n)
        recs.append(rec)
        key = ("ome", n, str(A))
        chk.count(1, key, nontrivial=n >= 1 and (n < 3 or not _commute(A[0], A[1])))
        fwd = [[[Fraction(*x) for x in row] for row in m] for m in rec["fwd"]]
        er = None
        for a in rng.sample(avals, len(avals)):
            er = exact_record(A, n, a, fwd)
            if er is not None:
                break
        if er is None:
            skipped_singular += 1
        else:
            recs.append(er)
            chk.count(1, ("exact", n, str(A), str(a)), nontrivial=n >= 1)
    chk.note("exact_inverse_instances_skipped_singular_or_large_det", skipped_singular)
    drecs = dec_records(rng, 24 if chk.thorough() else 8)
    for rec in drecs:
        chk.count(1, (rec["kind"], rec.get("scheme", "mass"), rec["nf"]), nontrivial=True)
    recs += drecs
    chk.sample({k: v for k, v in recs[8].items() if k != "fwd"})
    chk.sample(drecs[0])

    bad = _validate(chk, recs, "build_ome / decoupling tables: inverse laws on the code's own coefficients")
    chk.cov["traces_validated_against_impl"] += len(recs)
    for idx, verdict in bad:
        rec = recs[idx]
        if verdict.startswith("C22:"):
            if rec["kind"] in ("ome", "exact"):
                fp = verdict  # clause + order + power; the instance goes to the replay
                what = f"{verdict}: build_ome with A={rec['A']} matching order {rec['n']}" + (
                    f" a={Fraction(*rec['a'])}" if rec["kind"] == "exact" else ""
                )
            elif rec["kind"] == "dec":
                fp = verdict if rec["scheme"] != "int" else verdict + " (invert_matching_coeffs)"
                what = f"{verdict}: up={rec['up']} down={rec['down']} nf={rec['nf']}"
            else:
                fp = verdict
                what = f"{verdict}: nf={rec['nf']} up={rec['up']} down={rec['down']}"
            chk.violation(fp, what, rec)
        else:
            chk.diag(f"{verdict}: {rec.get('A', rec.get('scheme', ''))} n={rec.get('n', rec.get('nf'))}")

    if not design_ok and not chk.violations:
        raise MachineryError("MatPoly.tla transcription violates C22 but the implementation does not: spec is wrong")

    # ---- binding demonstration ----------------------------------------------------------------
    good = next(x for x in recs if x["kind"] == "ome" and x["n"] == 3 and x["exact"])
    c1 = copy.deepcopy(good)
    q = c1["bwd"][3][0][1]
    c1["bwd"][3][0][1] = [q[0] + q[1], q[1]]
    gex = next(x for x in recs if x["kind"] == "exact" and x["exact"])
    c2 = copy.deepcopy(gex)
    c2["inv"][0][0], c2["inv"][-1][-1] = c2["inv"][-1][-1], [c2["inv"][0][0][0] + c2["inv"][0][0][1], c2["inv"][0][0][1]]
    gd = next(x for x in recs if x["kind"] == "dec" and x["scheme"] == "POLE")
    c3 = copy.deepcopy(gd)
    c3["down"][3][2] = [c3["down"][3][2][0] + c3["down"][3][2][1], c3["down"][3][2][1]]
    gm = next(x for x in recs if x["kind"] == "mass")
    c4 = copy.deepcopy(gm)
    c4["down"][2][1] = [c4["down"][2][1][0] + c4["down"][2][1][1], c4["down"][2][1][1]]
    rej = {i for i, v in _validate(chk, [c1, c2, c3, c4], "corrupted records (must be rejected)") if v.startswith("C22:")}
    if rej != {0, 1, 2, 3}:
        raise MachineryError(f"binding demonstration failed: corrupted records accepted ({rej})")
    chk.note("binding_demo", "4 corrupted records (expanded coefficient, exact inverse entry, coupling table, mass table) rejected")
