"""C45 LHAPDF export of evolved PDFs is self-consistent."""

import copy
import multiprocessing as mp
import pathlib
from concurrent.futures import ThreadPoolExecutor

from harness.core import MachineryError
from harness.drivers import cards as dc
from harness.drivers import lhapdf as lh

META = {
    "id": "C45",
    "level": "model_checking",
    "technique": "TLA+ spec Lhapdf (relations between the info file and the written blocks: Q and x ranges, alpha_s nodes, members, nodes grouped by nf; design switches SortedAssumed, XFromCard transcribed from ekobox/info_file.py); TLC enumerates every evolution grid of 1-4 distinct points in every order; each grid is materialised as a synthetic EKO written through the real store and exported with ekobox.evol_pdf.evolve_pdfs(path=<eko>); the written .info/.dat files are parsed by an independent reader and judged by TLC (LhapdfTrace)",
    "text": "B1: on the intended design TLC checks QMin/QMax = min/max of the written Q nodes, XMin/XMax = min/max of the written x nodes, AlphaS_Qs = the written Q nodes block by block (ascending exactly when the grid is accepted), nodes = evolution points grouped by nf, target grid honoured, for every grid of 1-4 distinct points over 3 (quick) / 4 (thorough) scale ranks x 3 flavour numbers in every order, with and without explicit target grid; each switch transcribed from the code must yield a counterexample. B2/B3: TLC states are run on the real code (synthetic EKOs with random operators, 1-3 toy members with missing flavours, orders 1-3, POLE and MSBAR, matching ratios != 1, explicit target grids); the files are read back independently; block values are compared with the contraction of the stored operators with the input PDFs to the printed precision (integer classes), AlphaS_Vals with 4 pi a_s of the Couplings object built as eko.runner.commons.couplings builds it, and the repository's own loader (lhapdf module stubbed) must return the dumped blocks to the printed precision.",
    "note": "Scales and momentum fractions travel to TLC as ranks (matching tolerance 2e-6 relative, 1e-4 absolute for the rounded QMin/QMax, node separation >= 20 percent); values as classes 0 (<= 2e-8 relative, the %.8e print) / 2 (>= 1e-5) / 1 unresolved in between. xif = 1 only (with a varied factorisation scale 'the coupling the evolution uses at the listed scale' is ambiguous). Grids whose nf patches overlap must be refused (the code's own rule); equal end points are allowed.",
    "design_ref": "4.10, 5 C45, 8",
    "rule": "instance = (evolution grid as a sequence of (scale rank, nf), explicit target grid yes/no) materialised with seeded scales, grids, operators, PDFs, theory settings; distinct by (grid, target flag); non-trivial = at least 2 points or an explicit target grid",
}


def _validate(chk, recs):
    bad, conf = {}, {}
    B = 3000
    for k in range(0, len(recs), B):
        part = recs[k:k + B]
        r = chk.tlc("LhapdfTrace", "LhapdfTrace.cfg", trace=part, workers=1, label="observed exports")
        if r.violated or not r.completed:
            raise MachineryError(f"LhapdfTrace not accepted: {r.out[-2000:]}")
        for t in r.printed("BAD"):
            bad.setdefault(t[2], []).append(k + t[1] - 1)
        for t in r.printed("CONF"):
            conf[k + t[1] - 1] = t[2]
        chk.cov["traces_validated_against_impl"] += len(part)
    return bad, conf


def run(chk):
    # ---- B1 -----------------------------------------------------------------------------
    dump = chk.scratch / "lh-states"
    cfg = "LhapdfMC_thorough.cfg" if chk.thorough() else "LhapdfMC.cfg"
    with ThreadPoolExecutor(3) as pool:   # three independent TLC runs
        f1 = pool.submit(chk.tlc, "LhapdfMC", cfg, extra=("-dump", str(dump)), label="intended design, all grids of 1-4 points")
        f2 = pool.submit(chk.tlc, "LhapdfMC", "LhapdfMC_SortedAssumed.cfg", expect_violation="InvQRange", label="vacuity guard / faithful switch SortedAssumed")
        f3 = pool.submit(chk.tlc, "LhapdfMC", "LhapdfMC_XFromCard.cfg", expect_violation="InvXRange", label="vacuity guard / faithful switch XFromCard")
        r = f1.result()
        f2.result()
        f3.result()
    if r.violated or not r.completed:
        raise MachineryError(f"Lhapdf.tla intended design violates {r.violated}: {r.counterexample()[:2000]}")
    states = dc.parse_dump(pathlib.Path(str(dump) + ".dump").read_text())
    if len(states) != r.distinct:
        raise MachineryError(f"dump has {len(states)} states, TLC reports {r.distinct}")
    cases = [([list(p) for p in st["eg"]], bool(st["tgt"]), bool(st["ovl"])) for st in states]

    # ---- B2 -----------------------------------------------------------------------------
    # quick: every accepted grid of <= 2 points, seeded samples of the longer accepted grids and of
    # the grids the design refuses; thorough: larger samples over 4 scale ranks
    acc = [c for c in cases if not c[2]]
    short = [c for c in acc if len(c[0]) <= 2]
    long_ = [c for c in acc if len(c[0]) > 2]
    ref = [c for c in cases if c[2]]
    n_long, n_ref = (5000, 500) if chk.thorough() else (130, 24)
    chosen = short + chk.rng.sample(long_, min(n_long, len(long_))) + chk.rng.sample(ref, min(n_ref, len(ref)))
    chosen = [(eg, tgt) for eg, tgt, _ in chosen]
    jobs = [(k, eg, tgt, chk.rng.randrange(2**31), str(chk.scratch)) for k, (eg, tgt) in enumerate(chosen)]
    ctx = mp.get_context("fork")
    with ctx.Pool(16) as pool:
        results = pool.map(lh.run_case, jobs, chunksize=8)
    recs = [r_ for r_, _ in results]
    extras = [e for _, e in results]
    for (eg, tgt), rec in zip(chosen, recs):
        chk.count(1, (tuple(map(tuple, eg)), tgt), nontrivial=len(eg) >= 2 or tgt)
    outcomes = {}
    for rec in recs:
        outcomes[rec["outcome"]] = outcomes.get(rec["outcome"], 0) + 1
    chk.note("cases", {"tlc_states": len(states), "executed": len(recs), **outcomes})
    for k in (0, len(recs) // 2, len(recs) - 1):
        chk.sample({"record": recs[k], "concrete": extras[k].get("concrete"), "msg": extras[k]["msg"]})

    # ---- B3 (+ binding demonstration: corrupted copies of a clean record ride along) ----------
    def ascending(rec):
        return rec["outcome"] == "written" and len(rec["eg"]) >= 2 and not rec["tgt"] and \
            all(a[0] < b[0] for a, b in zip(rec["eg"], rec["eg"][1:]))

    base = next((rec for rec in recs if ascending(rec)), None)
    if base is None:   # nothing was written (every export refused or crashed): corrupt a synthetic clean record
        base = {"eg": [[1, 3], [2, 3]], "tgt": False, "outcome": "written", "exc": "", "xs": [1, 2, 3], "tx": [1, 2, 3],
                "info": {"qmin": 1, "qmax": 2, "xmin": 1, "xmax": 3, "alphaQs": [1, 2], "members": 1},
                "blocks": [{"qs": [1, 2], "xs": [1, 2, 3]}], "files": 1, "gridsSame": True, "flavorsOk": True,
                "valCls": 0, "alphaCls": 0, "reloadCls": 0}
    c = [copy.deepcopy(base) for _ in range(5)]
    c[0]["info"]["qmin"] = c[0]["info"]["qmax"] + 1
    c[1]["valCls"] = 2
    c[2]["info"]["members"] = c[2]["files"] + 1
    c[3]["blocks"][0]["qs"] = list(reversed(c[3]["blocks"][0]["qs"])) + [9]
    c[4]["alphaCls"] = 2
    expect = ["C45:qmin-qmax-not-min-max-of-written-q", "C45:block-values-differ-from-applied-pdf", "C45:num-members",
              "C45:written-q-nodes-are-not-the-evolution-points", "C45:alphas-vals-differ-from-evolution-coupling"]
    n = len(recs)
    bad, conf = _validate(chk, recs + c)
    chk.cov["traces_validated_against_impl"] -= len(c)
    for j, name in enumerate(expect):
        if n + j not in bad.get(name, []):
            raise MachineryError(f"binding demonstration failed: corrupted record {j} not rejected with {name}")
    bad = {v: [k for k in ks if k < n] for v, ks in bad.items()}
    bad = {v: ks for v, ks in bad.items() if ks}
    conf = {k: v for k, v in conf.items() if k < n}
    chk.note("binding_demo", "5 corrupted records rejected by LhapdfTrace with the expected clause")
    for verdict, idx in sorted(bad.items()):
        k = min(idx, key=lambda j: (len(recs[j]["eg"]), recs[j]["tgt"]))
        what = (f"{verdict}: {len(idx)} of {len(recs)} exports; e.g. mugrid={extras[k].get('concrete', {}).get('mugrid', recs[k]['eg'])} "
                f"target grid={extras[k].get('concrete', {}).get('target_x')} -> {extras[k].get('concrete')} {extras[k]['msg']}")
        if verdict.startswith("C45:"):
            chk.violation(verdict, what[:1500], {"record": recs[k], "extra": extras[k]})
        else:
            chk.diag(what[:600])
    follows = {"faithful": 0, "intended": 0, "neither": 0}
    for k, c in conf.items():
        follows[c] += 1
    chk.note("conformance", {"both designs": len(recs) - len(conf), **follows})
    if follows["neither"]:
        k = next(k for k, c in conf.items() if c == "neither")
        chk.diag(f"conformance: info of {recs[k]['eg']} tgt={recs[k]['tgt']} is {recs[k]['info']} (neither design)")
