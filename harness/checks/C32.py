"""C32 blow-up of evolution-basis members to the flavour basis: Flavors.tla exhaustive over
nf 3-6 x {QCD, QED} (B1); the weights returned by pids_from_intrinsic_(unified_)evol and the
tensors returned by to_flavor_basis_tensor for the label sets of ad_to_evol_map /
split_ad_to_evol_map (1x1 integer members) judged by TLC as exact rationals (B3)."""

import copy

from harness.core import MachineryError
from harness.drivers import flavors as F

META = {
    "id": "C32",
    "level": "model_checking",
    "technique": "TLA+ spec Flavors (intrinsic evolution bases defined from their meaning over exact rationals; predicate C32_BlowUp: Rout . T = E . Rin with Rout invertible; transcription of flavors.py / member.py), TLC exhaustive over nf 3-6 x {QCD,QED}; real weights, get_range and to_flavor_basis_tensor outputs for every label set produced by PhysicalOperator.ad_to_evol_map and MatchingCondition.split_ad_to_evol_map validated by TLC trace spec FlavorsTrace",
    "text": "TLC checks on the design that the transcribed blow-up equals the change of basis of the evolution-basis operator for every nf and both bases, including label sets with nf+1 flavours on one side; the real pids_from_intrinsic_evol / pids_from_intrinsic_unified_evol weights for every basis label x nf x normalize, rotate_pm_to_flavor, get_range, and the value and error tensors of to_flavor_basis_tensor for the label sets produced by ad_to_evol_map (nf 3-6) and split_ad_to_evol_map (nf 3-5), alone and composed with the threshold rotation, with 1x1 members holding distinct random small integers, are converted to exact rationals and TLC evaluates: which kernel sits on which member, labels inside the nf-flavour bases, get_range, and Rout . T = E . Rin with the bases defined from their physical meaning (heavy quarks through q+ and q-).",
    "note": "Member matrices are 1x1 (the x-space structure factorises entrywise in to_flavor_basis_tensor); integer values are drawn from VERIF_SEED, thorough uses more draws. get_range is exercised on label sets that satisfy its documented assumption (a V ladder never comes without its T ladder). Tiers differ only in the number of random integer assignments.",
    "design_ref": "4.1, 4.6, 5 C31-C33",
    "rule": "instance = (family, nf, QCD|QED, integer assignment) for tensors, (label, nf, QCD|QED, normalize) for weights, label set for get_range; non-trivial = tensor with >= 10 non-zero entries / weight vector with >= 2 non-zero entries; distinct by the instance tuple including the member values",
}

FAMILIES = ("physical", "matching", "rot-match", "match-rotinv")


def run(chk):
    design = F.Design(chk)
    design.run("FlavorsMC_C32.cfg", "design: weights, blow-up of physical/matching/rotated label sets, nf 3-6 x {QCD,QED}")
    design.run("FlavorsMC_C32_nonorm.cfg", "switch: output weights not normalised", expect_violation="InvC32Physical", workers=2)

    recs = F.c32_weights()
    for rec in recs:
        nz = sum(1 for x in rec["w"] if x[0] != 0)
        key = (rec["ev"], rec["label"], rec.get("nf"), rec.get("qed"), rec.get("normalize"))
        chk.count(1, key, nontrivial=nz >= 2)
    ranges = F.c32_range_records(chk.rng, 2000 if chk.thorough() else 300)
    for rec in ranges:
        chk.count(1, ("range", rec["qed"], tuple(map(tuple, rec["labs"]))), nontrivial=rec["got"] != [3, 3])
    recs += ranges
    chk.assume("get_range: label sets contain the T ladder of every V ladder (assumption documented in get_range)")
    draws = 8 if chk.thorough() else 2
    blows = []
    for _ in range(draws):
        for qed in (False, True):
            for nf in F.NFS:
                for fam in FAMILIES:
                    if fam != "physical" and nf > 5:
                        continue
                    rec = F.c32_blowup(fam, nf, qed, chk.rng)
                    nz = sum(1 for row in rec["tensor"] for x in row if x[0] != 0)
                    key = (fam, nf, qed, tuple((m[0], m[1], tuple(m[2])) for m in rec["members"]))
                    chk.count(1, key, nontrivial=nz >= 10)
                    blows.append(rec)
    recs += blows
    chk.sample({k: blows[0][k] for k in ("fam", "nf", "qed", "ad", "members", "range")})
    chk.sample({"tensor_row_u": blows[0]["tensor"][9]})
    chk.note("blow_ups", len(blows))
    chk.note("weight_vectors", sum(1 for x in recs if x["ev"] == "weights"))

    bad = F.validate(chk, recs, "real weights, ranges and flavour tensors")
    for rec, verdict in bad:
        if verdict.startswith("DIAG:"):
            raise MachineryError(f"harness/spec mirror drift: {verdict} on {rec}")
        if verdict.startswith("CONF:"):
            chk.diag(f"{verdict} {rec['ev']} {rec.get('fam', rec.get('label'))} nf={rec.get('nf')} qed={rec.get('qed')}")
            continue
        if not verdict.startswith("C32:"):
            raise MachineryError(f"unexpected verdict {verdict}")
        b = "qed" if rec["qed"] else "qcd" if "qed" in rec else "-"
        if rec["ev"] == "blowup":
            chk.violation(
                f"{verdict} {rec['fam']} {b} nf={rec['nf']}",
                f"to_flavor_basis_tensor on the {rec['fam']} label set (nf={rec['nf']}, qed={rec['qed']}, "
                f"basis nf in/out {rec['nfin']}/{rec['nfout']}) violates {verdict}; members {rec['members']}",
                rec,
            )
        elif rec["ev"] == "weights":
            chk.violation(
                f"{verdict} {b} nf={rec['nf']} normalize={rec['normalize']}",
                f"pids_from_intrinsic_{'unified_' if rec['qed'] else ''}evol({rec['label']!r}, {rec['nf']}, "
                f"{rec['normalize']}) = {rec['w']} violates {verdict}",
                rec,
            )
        elif rec["ev"] == "range":
            chk.violation(
                f"{verdict} {b} labels={'/'.join(t + '.' + i for t, i in rec['labs'])}",
                f"get_range({rec['labs']}, qed={rec['qed']}) = {rec['got']} {rec['err']} violates {verdict}",
                rec,
            )
        else:
            chk.violation(f"{verdict}", f"rotate_pm_to_flavor({rec['label']!r}) = {rec['w']} violates {verdict}", rec)

    r, _ = design.join()
    if r.violated:
        raise MachineryError(f"Flavors.tla: design violates {r.violated}: {r.counterexample()[:1500]}")

    # ---- binding demonstration ---------------------------------------------------------------
    good = next(x for x in blows if x["fam"] == "physical" and x["nf"] == 4 and not x["qed"] and not x["err"])
    c1 = copy.deepcopy(good)
    k = next(j for j, x in enumerate(c1["tensor"][9]) if x[0] != 0)
    c1["tensor"][9][k] = [c1["tensor"][9][k][0] + c1["tensor"][9][k][1], c1["tensor"][9][k][1]]  # + 1
    c2 = copy.deepcopy(good)
    c2["members"] = [m for m in c2["members"] if m[:2] != ["T15", "T15"]]
    c2["emembers"] = [m for m in c2["emembers"] if m[:2] != ["T15", "T15"]]
    c3 = copy.deepcopy(next(x for x in blows if x["fam"] == "matching" and x["qed"] and not x["err"]))
    c3["etensor"][8][8] = [0, 1] if c3["etensor"][8][8] != [0, 1] else [1, 1]
    c4 = copy.deepcopy(next(x for x in recs if x["ev"] == "weights" and x["label"] == "Sdelta" and x["nf"] == 5 and x["normalize"]))
    c4["w"][9] = [1, 15]
    c5 = copy.deepcopy(next(x for x in blows if x["fam"] == "rot-match" and not x["err"]))
    c5["nfout"] = c5["nfin"]
    F.expect_rejected(chk, [c1, c2, c3, c4, c5], "C32:", "corrupted records (must be rejected)")
