"""C37 the EKO operator store is a persistent map under any history."""
from harness.checks import _store_common as sc
from harness.core import MachineryError

META = {
    "id": "C37",
    "level": "model_checking",
    "technique": "TLA+ spec Store (EKO/Inventory/archive, one action per public call, ghost persistent dictionary) checked exhaustively by TLC; TLC-simulated and bounded-exhaustive histories executed on real EKO objects; every recorded step validated by TLC (StoreTrace: property clauses on observed replies + conformance of the projected state with the Store action)",
    "text": "B1: TLC explores all histories of the Store design over 3 keys (two of them within approx tolerance, one with another nf), 2 values (with/without error tensor) and checks the refinement invariants against the ghost dictionary; each repaired mechanism has a design switch that must yield a counterexample (vacuity guard). B2/B3: behaviours simulated from the spec and all histories up to a bound are run on real EKO objects in fresh directories, each followed by an audit through the public API (iter, contains, get, items, approx, close, re-read); TLC judges every observed reply against the dictionary.",
    "note": "Keys are 3 concrete evolution points; values are random arrays identified by digest; one EKO object per archive path at a time. Conformance uses eko.operators.cache and the on-disk layout of the operators directory for diagnostics only; verdicts come from replies of public calls.",
    "design_ref": "4.3, 5 C36/C37",
    "rule": "history = sequence of public calls (create/read/edit/set/get/del/contains/iter/items/approx/unload/sync/setmeta/update/dump/close/drop) + final audit; distinct by op/argument sequence; non-trivial = at least one successful set",
}


def run(chk):
    # ---- B1 ----
    for _cfg in (("StoreMC.cfg",) if chk.thorough() else ("StoreMC_quick.cfg", "StoreMC_nocopy.cfg")):
        r = chk.tlc("StoreMC", _cfg, coverage=True, label=_cfg + ": " + "design, all mechanisms repaired")
        if r.violated:
            raise MachineryError(f"Store design violates {r.violated}: {r.counterexample()[:3000]}")
    for sw, inv in (("DelPhantom", "C37_Keys"), ("ExtClash", "C37_Values"), ("CloseTwice", "C37_Persistent"), ("NpHeader", True)):
        chk.tlc("StoreMC", f"StoreMC_{sw}.cfg", expect_violation=inv, label=f"vacuity guard: switch {sw}")
    # ---- B2/B3 ----
    hists = sc.tlc_histories(chk, 1500 if chk.thorough() else 250, 14, chk.seed % 100000)
    hists += sc.exhaustive_histories(4 if chk.thorough() else 3)
    traces = sc.execute(chk, hists)
    for h, t in zip(hists, traces):
        key = tuple(tuple(sorted(x.items())) for x in h)
        chk.count(1, key, nontrivial=any(e["op"] == "set" and e["reply"]["kind"] == "ok" for e in t))
    chk.sample({"history": sc.ops_text(traces[0], len(traces[0])), "events": len(traces[0])})
    chk.sample({"history": sc.ops_text(traces[-1], len(traces[-1])), "last_event": traces[-1][-1]})
    bad, conf = sc.validate(chk, traces)
    sc.report(chk, "C37:", traces, bad, conf)
