"""C43 applying an EKO is the contraction: Apply.tla computes contraction, basis rotation and
re-interpolation exactly; synthetic EKOs written through the real store are applied with
ekobox.apply and every output is judged by TLC (ApplyTrace)."""

import copy
import multiprocessing as mp
import random
from fractions import Fraction as F

import numpy as np

from harness.core import MachineryError
from harness.drivers import interp as drv

META = {
    "id": "C43",
    "level": "model_checking",
    "technique": "TLA+ spec Apply (integer tensor contraction, evolution / unified-evolution rotations written from their meaning, re-interpolation through Interp over exact rationals), TLC exhaustive over unit operators on the design; ekobox.apply.apply_pdf / apply_grids on synthetic EKOs created with EKO.create + Builder, outputs converted exactly and validated by TLC trace spec ApplyTrace",
    "text": "TLC checks on the design that every unit operator (a,j,b,k) moves exactly input entry (b,k) to output entry (a,j), that rotation and re-interpolation commute and that re-interpolation onto the grid itself is the identity (the swapped-index design is refuted). Synthetic EKOs (14 flavours, 2-3 equally spaced dyadic grid points, 1-2 evolution points, small-integer operators, with and without error tensors, QCD and QCDxQED theory cards) are written through the real store and applied to PDF-like objects with missing flavours, with/without rotation to the (unified) evolution basis and with/without a dyadic target grid; every number returned by apply_grids / apply_pdf is exact in IEEE arithmetic, travels to TLC as a rational, and TLC requires: input = xfxQ2/x on the grid at the initial scale, result = sum_{b,k} O[a,j,b,k] f[b,k], labels and rotation = the basis of the theory, target grid = re-interpolation with the spec's own Lagrange matrix, errors = the same linear map applied to the error tensor.",
    "note": "Linear interpolation mode inside one session (the archive does not keep the log flag of the grid: C40). Grids are equally spaced with a power-of-two spacing so that all Lagrange weights are dyadic and every float is exact; 2-3 points, degree 1-2. The error rule checked is the one apply_grids documents (the error tensor contracted like the operator).",
    "design_ref": "4.10, 5 C43",
    "rule": "instance = (grid, degree, theory, evolution point, operator, error?, pdf with missing flavours, rotate?, target grid); non-trivial = rotated or re-interpolated or with missing flavours; distinct by the seed-derived instance tuple",
}

PIDS = [22, -6, -5, -4, -3, -2, -1, 21, 1, 2, 3, 4, 5, 6]


def exact_rat(v):
    f = F(float(v))
    if abs(f.numerator) >= 2**31 or f.denominator >= 2**31:
        return None
    return [int(f.numerator), int(f.denominator)]


def make_instance(rng):
    n = rng.choice([2, 3, 3])
    h = rng.choice([F(1, 8), F(1, 4)])
    mmax = int((1 - (n - 1) * h) / h)
    m = rng.randint(1, mmax)
    g = [m * h + i * h for i in range(n)]
    deg = rng.randint(1, n - 1)
    qed = rng.random() < 0.5
    neps = rng.choice([1, 2])
    nrng = np.random.default_rng(rng.randrange(2**32))
    points = []
    for e in range(neps):
        O = nrng.integers(-3, 4, size=(14, n, 14, n))
        E = nrng.integers(0, 3, size=(14, n, 14, n)) if rng.random() < 0.6 else None
        points.append(((10.0 + 7.0 * e, 5), O, E))
    table = {pid: [int(v) for v in nrng.integers(-4, 5, size=n)] for pid in PIDS}
    missing = set(rng.sample(PIDS, rng.choice([0, 1, 3, 6])))
    half = [F(k, 2) * h for k in range(int(g[0] / h) * 2, int(g[-1] / h) * 2 + 1)]
    variants = []
    for rotate in (False, True):
        for tk in ("none", "dyadic", "same"):
            if tk == "none":
                tgt = []
            elif tk == "same":
                tgt = list(g)
            else:
                tgt = sorted(rng.sample(half, rng.randint(1, min(4, len(half)))))
                if tgt == list(g):
                    tgt = tgt[:-1]
            variants.append((rotate, tgt))
    return dict(g=g, deg=deg, qed=qed, points=points, table=table, missing=sorted(missing), variants=variants)


def run_instance(args):
    inst, nvar, seed = args
    from ekobox import apply

    rng = random.Random(seed)
    g, deg = inst["g"], inst["deg"]
    n = len(g)
    recs = []
    se = drv.SyntheticEko([float(x) for x in g], deg, False, inst["points"], qed=inst["qed"])
    try:
        eko = se.eko
        has = [pid not in inst["missing"] for pid in PIDS]
        f = np.array([[inst["table"][pid][k] if h else 0 for k in range(n)] for pid, h in zip(PIDS, has)], dtype=float)
        raw, rawerr = apply.apply_grids(eko, f[None, :, :])
        # the same input stacked with two other inputs on the replica axis
        others = [np.roll(f, 1, axis=0) * 2.0, f[::-1].copy() - 1.0]
        stack = np.stack([others[0], f, others[1]])
        rs, rse = apply.apply_grids(eko, stack)
        singles = [apply.apply_grids(eko, s[None, :, :]) for s in stack]
        replicas_ok = all(np.array_equal(rs[k][i], singles[i][0][k][0]) for k in rs for i in range(3)) and \
            all(np.array_equal(rse[k][i], singles[i][1][k][0]) for k in rse for i in range(3))
        raw0 = {k: np.array(v, copy=True) for k, v in raw.items()}
        rawerr0 = {k: np.array(v, copy=True) for k, v in rawerr.items()}
        low = {}
        mu20 = float(eko.mu20)
        variants = inst["variants"] if nvar >= len(inst["variants"]) else rng.sample(inst["variants"], nvar)
        for rotate, tgt in variants:
            pdf = drv.PdfLike(inst["table"], g, missing=inst["missing"])
            out, outerr = apply.apply_pdf(eko, pdf, targetgrid=[float(x) for x in tgt] if tgt else None,
                                          rotate_to_evolution_basis=rotate)
            # the same variant through the two-step interface, on the ONE contraction output of this instance
            from eko import basis_rotation as br

            if rotate:
                rot = br.rotate_flavor_to_unified_evolution if inst["qed"] else br.rotate_flavor_to_evolution
                labs = br.unified_evol_basis_pids if inst["qed"] else br.evol_basis_pids
            else:
                rot, labs = None, br.flavor_basis_pids
            tg = [float(x) for x in tgt] if tgt else None
            lo = apply.rotate_result(eko, raw, labs, tg, rot)
            loe = apply.rotate_result(eko, rawerr, labs, tg, rot)
            for k in out:
                same = all(np.array_equal(np.asarray(lo[k][lab])[0], np.asarray(out[k][lab])) for lab in out[k])
                if k in outerr:
                    same = same and all(np.array_equal(np.asarray(loe[k][lab])[0], np.asarray(outerr[k][lab])) for lab in outerr[k])
                low[(rotate, tuple(tgt), k)] = "same" if same else "differs-from-apply-pdf"
            q2ok = all(q2 == mu20 and any(x == float(y) for y in g) for _, x, q2 in pdf.calls)
            # what the object returned, as exact rationals: x * table
            xfx = [[drv.rj(g[k] * inst["table"][pid][k]) for k in range(n)] for pid in PIDS]
            for (mu, nf), O, E in inst["points"]:
                ep = (float(mu) ** 2, int(nf))
                key = next(k for k in out if k[1] == ep[1] and abs(k[0] - ep[0]) < 1e-9)
                exact = True
                rec = {"kind": "apply", "g": [drv.rj(x) for x in g], "deg": deg, "qed": bool(inst["qed"]),
                       "rotate": bool(rotate), "tgt": [drv.rj(x) for x in tgt], "has": has, "xfx": xfx,
                       "q2ok": bool(q2ok), "O": O.tolist(), "haserr": E is not None,
                       "E": E.tolist() if E is not None else []}
                r0 = drv.exact_int_array(raw[key][0])
                exact &= r0 is not None
                rec["raw"] = r0 if r0 is not None else []
                if key in rawerr:
                    e0 = drv.exact_int_array(rawerr[key][0])
                    exact &= e0 is not None
                    rec["rawerr"] = e0 if e0 is not None else []
                else:
                    rec["rawerr"] = []
                rec["labels"] = [int(lab) for lab in out[key]]

                def conv(d):
                    nonlocal exact
                    rows = []
                    for lab in d:
                        row = []
                        for v in np.atleast_1d(d[lab]):
                            q = exact_rat(v)
                            if q is None:
                                exact = False
                                q = [0, 1]
                            row.append(q)
                        rows.append(row)
                    return rows

                rec["out"] = conv(out[key])
                rec["outerr"] = conv(outerr[key]) if key in outerr else []
                rec["exact"] = bool(exact)
                rec["lowlevel"] = low.get((rotate, tuple(tgt), key), "same")
                rec["replicas"] = "same" if replicas_ok else "differ"
                rec["_key"] = key
                recs.append(rec)
        intact = all(np.array_equal(raw[k], raw0[k]) for k in raw0) and all(np.array_equal(rawerr[k], rawerr0[k]) for k in rawerr0)
        for rec in recs:
            rec.pop("_key", None)
            if not intact and rec["lowlevel"] == "same":
                rec["lowlevel"] = "contraction-output-modified"
    finally:
        se.close()
    return recs


def run(chk):
    ninst = 40 if chk.thorough() else 5
    nvar = 6 if chk.thorough() else 3
    insts = [make_instance(chk.rng) for _ in range(ninst)]
    ctx = mp.get_context("fork")
    with ctx.Pool(8) as pool:
        ares = pool.map_async(run_instance, [(inst, nvar, chk.rng.randrange(2**32)) for inst in insts])
        b1 = [
            {"module": "ApplyMC", "cfg": "ApplyMC.cfg", "label": "B1 unit operators x rotations x re-interpolation (design)", "workers": 6},
            {"module": "ApplyMC", "cfg": "ApplyMC_swapped.cfg", "label": "design switch ContractFaithful=FALSE (must violate)", "workers": 2, "expect_violation": "InvContract"},
        ]
        b1run = drv.ManyTlc(chk, b1, threads=2)
        recs = [r for part in ares.get() for r in part]

    for r in recs:
        nontrivial = r["rotate"] or len(r["tgt"]) > 0 or not all(r["has"])
        chk.count(1, (str(r["g"]), r["deg"], r["qed"], r["rotate"], str(r["tgt"]), str(r["has"]), str(r["raw"])), nontrivial=nontrivial)
    chk.sample({k: recs[0][k] for k in ("g", "deg", "qed", "rotate", "tgt", "has", "labels", "out", "outerr")})
    # binding demonstration rides along: corrupted copies must be rejected by the same runs
    def _full(r):
        return r["haserr"] and r["rotate"] and len(r["tgt"]) > 0 and r["tgt"] != r["g"]

    tries = 0
    while not any(_full(r) for r in recs):
        # the seeded variants did not include one with error tensor + rotation + target grid: draw more
        tries += 1
        if tries > 40:
            raise MachineryError("could not draw a record with error tensor, rotation and target grid")
        recs += run_instance((make_instance(chk.rng), 6, chk.rng.randrange(2**32)))
    good = next(r for r in recs if _full(r))
    c1 = copy.deepcopy(good)
    c1["out"][3][0] = [c1["out"][3][0][0] + c1["out"][3][0][1], c1["out"][3][0][1]]
    c2 = copy.deepcopy(good)
    c2["raw"][0][0] += 1
    c3 = copy.deepcopy(good)
    c3["outerr"][5][0] = [c3["outerr"][5][0][0] + c3["outerr"][5][0][1], c3["outerr"][5][0][1]]
    c4 = copy.deepcopy(good)
    c4["labels"] = list(PIDS)
    c5 = copy.deepcopy(good)
    c5["q2ok"] = False
    nreal = len(recs)
    nchunks = 8 if chk.thorough() else 4
    jobs = drv.trace_jobs("ApplyTrace", "ApplyTrace.cfg", recs + [c1, c2, c3, c4, c5], nchunks, "applied EKOs")
    bad = drv.trace_bad(chk, jobs, drv.run_many(chk, jobs, threads=nchunks))
    got = {k - nreal: v for k, v in bad if k >= nreal}
    if not all(got.get(k, "").startswith("C43:") for k in range(5)):
        raise MachineryError(f"binding demonstration failed: {got}")
    chk.cov["traces_validated_against_impl"] -= 5
    chk.note("binding_demo", f"5 corrupted records rejected by ApplyTrace: {sorted(set(got.values()))}")
    bad = [(k, v) for k, v in bad if k < nreal]
    for k, verdict in bad:
        r = recs[k]
        inst = f"grid={r['g']} deg={r['deg']} qed={r['qed']} rotate={r['rotate']} target={r['tgt']} missing={[p for p, h in zip(PIDS, r['has']) if not h]}"
        if verdict.startswith("C43:"):
            chk.violation(f"{verdict} qed={r['qed']}", f"ekobox.apply violates {verdict} for {inst}", {"verdict": verdict, "record": r})
        else:
            raise MachineryError(f"trace record rejected for a non-property reason: {verdict} {inst}")
    chk.note("apply_records", len(recs))
    chk.note("with_error_tensor", sum(1 for r in recs if r["haserr"]))
    chk.note("qed_records", sum(1 for r in recs if r["qed"]))

    res = b1run.finish()
    if res[0].violated:
        raise MachineryError(f"Apply.tla lemmas violated on the design: {res[0].violated}: {res[0].counterexample()[:1500]}")
