"""C44 products of EKOs compose in evolution order."""
import multiprocessing as mp

from harness.core import MachineryError

META = {
    "id": "C44",
    "level": "model_checking",
    "technique": "TLA+ spec Product (exact 2x2 signed-integer matrix algebra: value = later.earlier, error = |later|.|d earlier| + |d later|.|earlier|; approx-match semantics one/none/many; in-place versus explicit path) evaluated by TLC on the results of real ekos_product calls on synthetic EKOs written through the real store; non-commuting signed integer operators make order and absolute values observable exactly",
    "text": "Each scenario builds two real EKO archives (1-4 points each, with or without error tensors, the second starting exactly at / within tolerance of / away from / ambiguously close to a point of the first, some targets already present in the first), calls ekobox.utils.ekos_product in place or with an explicit path and re-reads the result; TLC recomputes every expected operator and error with exact integer arithmetic and checks which points exist, that present targets are kept, that nothing outside the embedded block changed and that the initial archive is untouched when a path is given.",
    "note": "Operators act on a 2-dimensional sub-space embedded in the 14x2x14x2 tensor (identity elsewhere); the statement's 'applying the first then the second' is the matrix product later.earlier for the library's index convention O[out, in] (the same convention ekobox.apply and runner.operators.join use).",
    "design_ref": "5 C44",
    "rule": "scenario = random pair of synthetic EKOs + mode; distinct by seed; non-trivial = matching point found and at least one new target",
}


def _sc(seed):
    from harness.drivers import product

    return product.scenario(seed)


def run(chk):
    r = chk.tlc("Product", None, workers=1, label="algebra sanity (ASSUMEs)", extra=()) if False else None
    n = 2500 if chk.thorough() else 300
    seeds = [chk.rng.randrange(2**31) for _ in range(n)]
    with mp.get_context("fork").Pool(16) as pool:
        recs = pool.map(_sc, seeds, chunksize=4)
    for rec in recs:
        new = [q for q in rec["out"] if q["k"] not in {p["k"] for p in rec["ini"]}]
        chk.count(1, rec["seed"], nontrivial=rec["match"] == "one" and bool(new))
    chk.sample(recs[0])
    chk.sample(next(x for x in recs if x["match"] == "one"))
    res = chk.tlc("ProductTrace", "ProductTrace.cfg", trace=recs, workers=1, label="products judged by exact algebra")
    if res.violated or not res.completed:
        raise MachineryError(f"ProductTrace not accepted: {res.out[-2000:]}")
    chk.cov["states"] = max(chk.cov["states"], res.distinct)
    chk.cov["traces_validated_against_impl"] += len(recs)
    seen = set()
    for t in res.printed("BAD"):
        rec = recs[t[1] - 1]
        if t[2].startswith("C44:"):
            fp = f"{t[2]} mode={rec['mode']}"
            if fp in seen:
                continue
            seen.add(fp)
            chk.violation(fp, f"{t[2]}: scenario seed={rec['seed']} {rec}", rec)
        else:
            chk.diag(t[2])
    import copy
    g = copy.deepcopy(next(x for x in recs if x["match"] == "one" and x["out"]))
    q = next(q for q in g["out"] if q["k"] not in {p["k"] for p in g["ini"]})
    q["val"][0][0] += 1
    r2 = chk.tlc("ProductTrace", "ProductTrace.cfg", trace=[g], workers=1, label="corrupted result (must be rejected)")
    if not [t for t in r2.printed("BAD") if t[2].startswith("C44:")]:
        raise MachineryError("binding demonstration failed")
