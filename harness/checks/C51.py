"""C51 scale-varied EKOs agree with the central EKO to the working order."""
import itertools
import multiprocessing as mp

from harness.core import MachineryError

META = {
    "id": "C51",
    "level": "exploration",
    "technique": "TLA+ spec SvOrder: cell domains (order x scheme x method x path shape for the ratio-one clause; order x scheme x ratio side x polarisation for the order clause) and the required class per cell, enumerated and validated by TLC (SvOrderTrace, with a coverage record); measurements on the real solver with the fixed-node quadrature shim: bitwise digests at ratio one, base-2 scaling exponent of the relative operator difference when the reference coupling is halved (larger of the pairs lambda 1/16 -> 1/32 -> 1/64), sent to TLC as integer x100",
    "text": "Clause 1 (discrete): in all 96 unit cells both schemes at ratio 1 must give bitwise the unvaried operator and error tensors. Clause 2 (law): in all 84 order cells (within one patch and across a heavy-quark threshold upwards and downwards) the difference to the unvaried operator must vanish at least like a_s^n: measured exponents on the clean tree are n (expanded) and n+1 (exponentiated) within 0.12; required >= n - 0.35; a missing term of the working order shows as n - 1.",
    "note": "The operator is a fixed linear functional of the Mellin-space kernels under the quadrature shim (4 nodes), so the scaling law of the kernels is inherited entry by entry; integrals are not accurate and need not be. Truncated method (expanded couplings: no ODE-solver noise). Level exploration (a law over measured residual classes).",
    "design_ref": "5 C51",
    "rule": "cell = record of SvOrder!UnitCells / OrderCells; all cells measured in both tiers (thorough: 3 ratios per order cell); non-trivial = resolved",
}


def run(chk):
    from harness.drivers import svorder

    unit = [dict(order=o, scheme=s, method=m, shape=sh) for o, s, m, sh in itertools.product(
        (1, 2, 3, 4), ("expo", "expanded"), ("iterate-exact", "truncated", "decompose-exact", "perturbative-exact"), ("single", "up", "down"))]
    order = [dict(order=o, scheme=s, side=sd, pol=p, shape=sh) for o, s, sd, p, sh in itertools.product(
        (1, 2, 3, 4), ("expo", "expanded"), ("below", "above"), (False, True), ("single", "up", "down")) if not (p and o == 4)]
    reps = 3 if chk.thorough() else 1
    with mp.get_context("fork").Pool(16) as pool:
        urecs = pool.map(svorder.unit_cell, [(c, chk.rng.randrange(10**6)) for c in unit], chunksize=2)
        orecs = pool.map(svorder.order_cell, [(c, chk.rng.randrange(10**6)) for c in order for _ in range(reps)], chunksize=1)
    for r in urecs + orecs:
        chk.count(1, (r["ev"], tuple(sorted(r["cell"].items()))), nontrivial=r["err"] == "" and r.get("resolved", True))
    chk.sample(urecs[0])
    chk.sample(orecs[0])
    chk.note("exponents_x100", {f"{r['cell']['order']}-{r['cell']['scheme']}-{r['cell']['side']}-{'pol' if r['cell']['pol'] else 'unp'}-{r['cell']['shape']}": r["e100"] for r in orecs})
    trace = urecs + orecs + [{"ev": "coverage", "unit": unit, "order": order}]
    res = chk.tlc("SvOrderTrace", "SvOrderTrace.cfg", trace=trace, workers=1, label="cells judged, coverage checked")
    if res.violated or not res.completed:
        raise MachineryError(f"SvOrderTrace not accepted: {res.out[-2000:]}")
    chk.cov["traces_validated_against_impl"] += len(trace) - 1
    seen = set()
    for t in res.printed("BAD"):
        rec = trace[t[1] - 1]
        v = t[2]
        if v.startswith("C51:"):
            c = rec["cell"]
            fp = f"{v} order={c['order']} scheme={c['scheme']}" + f" shape={c['shape']}" + ("" if rec["ev"] == "unit" else f" pol={c['pol']}")
            if fp in seen:
                continue
            seen.add(fp)
            chk.violation(fp, f"{v}: {rec}", rec)
        elif v.startswith("COVERAGE"):
            raise MachineryError("cells not exhausted")
        elif v.startswith("CONF:solve-raised"):
            raise MachineryError(f"measurement failed: {rec}")
        else:
            chk.diag(f"{v}: {rec['cell']}")
    bad = [dict(orecs[0], e100=orecs[0]["cell"]["order"] * 100 - 100)]
    r2 = chk.tlc("SvOrderTrace", "SvOrderTrace.cfg", trace=bad, workers=1, label="corrupted record (must be rejected)")
    if not [t for t in r2.printed("BAD") if t[2].startswith("C51:")]:
        raise MachineryError("binding demonstration failed")
