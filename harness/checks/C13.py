"""C13 evolution integrals equal their definitions and expansions (laws IntegralLocal,
TaylorOrder, CubicRoots)."""

from harness.laws import c13, engine

META = {
    "id": "C13",
    "level": "exploration",
    "technique": "TLA+ law plan (Laws.tla: integral table with level/power attributes, cells enumerated by TLC) + measurement of the real un-jitted integrals + TLC trace validation (LawsTrace) of integer residual classes / orders of vanishing",
    "text": "For each of the 10 exact evolution integrals (LO j12, NLO j13/j23, NNLO j14/j24/j34, N3LO j03..j33) x b-source (nf 3-6 from an independent literature table, or random positive b's) x direction: j(a0,a0)=0; the local law dj/da1 = a1^k/(beta0 a1^2 (1+b1 a1+...)) by 5-point differences (by the fundamental theorem this is 'equals the defining integral'); exact-expanded vanishes like a^level (measured exponent from halving both couplings, leading term required to dominate); the three N3LO roots are roots (residual) and are the three roots (Vieta).",
    "note": "Local law differentiated at a1 >= 0.004*power where the closed forms are not dominated by cancellation noise; clean residual <= 3e-10, required <= 1e-7 (a wrong coefficient gives >= 1e-3). Taylor exponents on the clean tree within 0.08 of the level, required >= level-0.35 (a wrong Taylor coefficient gives level-1); points where the next Taylor term exceeds 10% of the leading one or the difference is < 1e3 x cancellation noise are dropped, a cell without points is 'unresolved'. Random b's for the N3LO integrals are drawn where roots() is itself accurate; the roots clauses quantify over the physical N3LO beta polynomial (nf 3-6, independent table) only; roots() for unphysical b's (NaN when 3 b1 b3 <= b2^2) is reported as a diagnostic, not as a verdict.",
    "design_ref": "1 (mode L), 4.11, 5 C13",
    "rule": "cell = (clause, integral, b-source, direction); 10 (quick) / 100 (thorough) seeded points per cell, worst residual / smallest exponent recorded; non-trivial = resolved cell with a required class",
}


def run(chk):
    engine.run_law(chk, "C13", c13.measure, npts_quick=10, npts_thorough=100, switches=("Strict",))
    c13.diagnose_generic_roots(chk)
