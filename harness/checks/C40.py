"""C40 runcards and dict-like structures round-trip through their raw form; the declared
interpolation settings are the ones handed to the computation."""

import copy
import itertools
import pathlib
import tempfile
from concurrent.futures import ThreadPoolExecutor

import numpy as np

from harness.core import MachineryError
from harness.drivers import cards as dc

META = {
    "id": "C40",
    "level": "model_checking",
    "technique": "TLA+ spec Cards (type grammar of dict-like fields; Raw/Load transcribed from eko/io/dictlike.py as design 'faithful', the repaired functions as design 'intended'; predicates IsPlain(Raw(v)), Same(Load(T,Raw(v)),v) incl. the XGrid log flag, C40_Interp); TLC enumerates every type shape of depth <= 2; every TLC state is materialised as a dynamically created DictLike dataclass, and real TheoryCard/OperatorCard/Metadata variants are projected into the same vocabulary; observed outcomes of raw -> safe_dump -> safe_load -> from_dict -> compare are judged by TLC (CardsTrace)",
    "text": "B1: TLC checks the intended design against C40_Plain/C40_RoundTrip on every (type shape, representative value) state of depth <= 2 (python and NumPy scalars of 5 kinds, arrays under 3 annotations, tuples, lists, list subclasses, enums, Optional present/absent, nested dict-likes, XGrid log/linear); the faithful transcription must yield a counterexample (vacuity guard). B2/B3: each TLC state becomes a real dataclass deriving from DictLike with seeded concrete values, real cards are generated over all enum values, orders, mass schemes, N3LO variations, log and linear grids with NumPy scalars substituted at every scalar position; the observed outcome of the round trip is the verdict (CardsTrace, property grade) and is compared with what both designs predict (conformance grade). Second clause: the InterpolatorDispatcher returned by eko.runner.commons.interpolator for cards built in memory, reloaded from YAML and read back from an archive must carry the declared flag and degree.",
    "note": "Tuples are enumerated with scalar elements only (tuples of enums/arrays are not used by any card). Numbers travel to TLC as opaque tokens; equality is by value irrespective of the scalar kind (np.float64(1.5) equals 1.5), containers by kind and class, arrays by value, grids by points and log flag. Field defaults and from_dict on partial dictionaries are not modelled. The faithful transcription of the ndarray clause describes the installed numpy (2.5: npt.NDArray is a typing.TypeAliasType).",
    "design_ref": "4.10, 5 C40, 8",
    "rule": "instance = (type shape, abstract value) state of CardsMC materialised with seeded concrete values | card variant (base card, position, NumPy kind / enum value / order / scheme / grid) | (source, declared flag, degree) for the interpolator; distinct by shape/value tokens or variant label; non-trivial = value contains a container, NumPy scalar, array, enum, grid or nested dict-like",
}


def _shape_records(chk, states, rounds):
    recs, objs = [], []
    for rnd in range(rounds):
        for st in states:
            cls, obj, HT, HV = dc.materialise(st["T"], st["v"], chk.rng)
            o = dc.observe(cls, obj)
            recs.append({"src": "shape", "abs": True, "T": HT, "v": HV, "oc": o["oc"], "d1": o["d1"], "d2": o["d2"]})
            objs.append((f"dict-like Holder(x: {dc.py_type(st['T'], {})!r})", dc.show(obj), o))
            nontrivial = st["v"]["k"] not in ("pyfloat", "pyint", "pybool", "pystr")
            chk.count(1, ("shape", repr(st["T"]), repr(st["v"])), nontrivial=nontrivial)
    return recs, objs


def _card_variants(chk):
    """(label, class, object) for real cards."""
    from eko.interpolation import XGrid
    from eko.io.metadata import Metadata
    from eko.io.runcards import OperatorCard, TheoryCard
    from eko.io.types import EvolutionMethod, InversionMethod, ScaleVariationsMethod
    from eko.quantities.heavy_quarks import QuarkMassScheme
    from ekobox.cards import example

    rng = chk.rng
    out = []
    nbase = 12 if chk.thorough() else 3
    # the library's own examples, and the card `eko runcards example` builds
    out.append(("example.theory", TheoryCard, example.theory()))
    out.append(("example.operator", OperatorCard, example.operator()))
    o = example.operator()
    o.init = (1.65, 4)
    o.mugrid = [(np.sqrt(1e5), 5)]
    out.append(("cli-example.operator mugrid=[(np.sqrt(1e5), 5)]", OperatorCard, o))
    # random python-only cards
    for k in range(40 if chk.thorough() else 12):
        out.append((f"random theory #{k}", TheoryCard, dc.random_theory(rng)))
        out.append((f"random operator #{k}", OperatorCard, dc.random_operator(rng)))
    # systematic enumerations
    for order in itertools.product((1, 2, 3, 4), (0, 1, 2)):
        for scheme in QuarkMassScheme:
            t = dc.random_theory(rng)
            t.order = order
            t.matching_order = (order[0] - 1, 0)
            t.heavy.masses_scheme = scheme
            out.append((f"theory order={order} scheme={scheme.name}", TheoryCard, t))
    for var in itertools.product((0, 1, 2, 3), repeat=2):
        t = dc.random_theory(rng)
        t.order = (4, 0)
        t.n3lo_ad_variation = var + tuple(rng.randrange(0, 4) for _ in range(5))
        t.use_fhmruvv = bool(var[0] % 2)
        out.append((f"theory n3lo_ad_variation={t.n3lo_ad_variation}", TheoryCard, t))
    t = dc.random_theory(rng)
    t.use_fhmruvv = None
    out.append(("theory use_fhmruvv=None", TheoryCard, t))
    for ev, sv, inv in itertools.product(EvolutionMethod, [None] + list(ScaleVariationsMethod), [None] + list(InversionMethod)):
        o = dc.random_operator(rng)
        o.configs.evolution_method, o.configs.scvar_method, o.configs.inversion_method = ev, sv, inv
        out.append((f"operator {ev.name}/{sv.name if sv else None}/{inv.name if inv else None}", OperatorCard, o))
    for log, deg in itertools.product((True, False), (1, 2, 3, 4)):
        o = dc.random_operator(rng, log=log, degree=deg)
        out.append((f"operator grid {'log' if log else 'linear'} degree={deg}", OperatorCard, o))
        out.append((f"metadata grid {'log' if log else 'linear'}", Metadata,
                    Metadata(origin=(o.init[0] ** 2, o.init[1]), xgrid=o.xgrid)))
    # NumPy scalars at every scalar position of a card
    for b in range(nbase):
        for cls, base in ((TheoryCard, dc.random_theory(rng)), (OperatorCard, dc.random_operator(rng))):
            for path, leaf in dc.leaf_paths(base):
                for kname, ctor in dc.NP_FOR[type(leaf)]:
                    val = ctor(leaf)
                    if kname == "npfloat64" and b % 2 == 1 and leaf > 0:
                        val = np.sqrt(np.float64(leaf) ** 2)  # the way such values arise in practice
                    if isinstance(val, np.floating) and np.isnan(val):
                        continue
                    v = dc.replace_at(base, path, val)
                    out.append((f"{cls.__name__}{dc.path_text(path)} = {kname}", cls, v))
    return out


def _card_records(chk, variants):
    recs, objs = [], []
    types = {}
    for label, cls, obj in variants:
        o = dc.observe(cls, obj)
        rec = {"src": "card", "abs": False, "T": {}, "v": {}, "oc": o["oc"], "d1": o["d1"], "d2": o["d2"]}
        if cls.__name__ != "Metadata":
            if cls not in types:
                types[cls] = dc.abs_type(cls)
            rec.update(abs=True, T=types[cls], v=dc.abs_value(obj))
        else:
            rec.update(T=dc.abs_type(float), v=dc.abs_value(0.0))
        recs.append(rec)
        objs.append((label, dc.show(obj)[:1500], o))
        chk.count(1, ("card", label.split(" #")[0]), nontrivial=True)
    return recs, objs


def _interp_records(chk):
    """Second clause: flag and degree carried by the dispatcher that commons.interpolator returns."""
    import yaml
    from eko.io.runcards import OperatorCard
    from eko.io.struct import EKO
    from eko.quantities.heavy_quarks import QuarkMassScheme
    from eko.runner import commons

    import eko.interpolation as interpolation

    recs, objs = [], []
    seen = []
    orig = interpolation.InterpolatorDispatcher.__init__

    def spy(self, xgrid, polynomial_degree, *a, **kw):
        seen.append((bool(getattr(xgrid, "log", True)), int(polynomial_degree)))
        return orig(self, xgrid, polynomial_degree, *a, **kw)

    interpolation.InterpolatorDispatcher.__init__ = spy
    tmp = pathlib.Path(tempfile.mkdtemp(prefix="verif-eko-c40-", dir=chk.scratch))
    oldtmp = tempfile.tempdir
    tempfile.tempdir = str(tmp)
    try:
        sources = ("memory", "yaml", "archive", "mutated")
        for src, log, deg in itertools.product(sources, (True, False), (1, 2, 3, 4)):
            card = dc.random_operator(chk.rng, log=log if src != "mutated" else not log, degree=deg)
            try:
                if src == "mutated":   # the declared flag is changed on the card object after construction
                    card.configs.interpolation_is_log = log
                elif src == "yaml":
                    card = OperatorCard.from_dict(_plain_operator(card))
                elif src == "archive":
                    theory = dc.random_theory(chk.rng)
                    theory.heavy.masses_scheme = QuarkMassScheme.POLE
                    path = tmp / f"i-{int(log)}-{deg}.tar"
                    eko = EKO.create(path).load_cards(theory, card).build()
                    try:
                        card = eko.operator_card
                    finally:
                        eko.close()
            except Exception as ex:  # noqa: BLE001 - the round-trip records carry the verdict for this failure
                chk.diag(f"interpolator clause: card from {src} (log={log}, degree={deg}) could not be produced: {type(ex).__name__}: {str(ex)[:120]}")
                continue
            if chk.rng.random() < 0.5:
                # an earlier call in the same process for a card with the SAME points and degree but the other
                # flag: whatever it leaves behind at module level must not decide this call
                other = copy.deepcopy(card)
                other.configs.interpolation_is_log = not bool(card.configs.interpolation_is_log)
                try:
                    commons.interpolator(other)
                except Exception:  # noqa: BLE001 - only its side effects matter
                    pass
            del seen[:]
            disp = commons.interpolator(card)
            if len(seen) > 1:
                raise MachineryError(f"commons.interpolator constructed {len(seen)} dispatchers")
            if seen and (bool(disp.log) != seen[0][0] or int(disp.polynomial_degree) != seen[0][1]):
                chk.diag(f"dispatcher attributes {disp.log, disp.polynomial_degree} differ from constructor arguments {seen[0]}")
            modes = {bool(getattr(b, "_mode_log", disp.log)) for b in disp}
            if modes != {bool(disp.log)}:
                chk.diag(f"basis functions built in modes {modes} by a dispatcher with log={disp.log}")
            same = bool(np.array_equal(np.asarray(disp.xgrid.raw, dtype=float), np.asarray(card.xgrid.raw, dtype=float)))
            rec = {"src": "interp", "declLog": bool(log), "declDeg": int(deg), "dispLog": bool(disp.log),
                   "dispDeg": int(disp.polynomial_degree), "from": src, "pts": "same" if same else "differ"}
            recs.append(rec)
            objs.append((f"commons.interpolator(card from {src}: interpolation_is_log={log}, degree={deg})",
                         f"xgrid.log of the card object={card.xgrid.log}", rec))
            chk.count(1, ("interp", src, log, deg), nontrivial=True)
    finally:
        interpolation.InterpolatorDispatcher.__init__ = orig
        tempfile.tempdir = oldtmp
    return recs, objs


def _plain_operator(card):
    """The YAML document a user would write for this card (what `eko run` reads)."""
    import yaml

    raw = card.raw
    return yaml.safe_load(yaml.safe_dump(raw))


def _validate(chk, recs, label):
    bad, conf = {}, {}
    B = 4000
    for k in range(0, len(recs), B):
        part = recs[k:k + B]
        r = chk.tlc("CardsTrace", "CardsTrace.cfg", trace=part, workers=1, label=label)
        if r.violated or not r.completed:
            raise MachineryError(f"CardsTrace not accepted: {r.out[-2000:]}")
        for t in r.printed("BAD"):
            bad[k + t[1] - 1] = t[2]
        for t in r.printed("CONF"):
            conf[k + t[1] - 1] = t[2]
        chk.cov["traces_validated_against_impl"] += len(part)
    return bad, conf


def run(chk):
    # ---- B1 -----------------------------------------------------------------------------
    dump = chk.scratch / "cards-states"
    with ThreadPoolExecutor(3) as pool:   # three independent TLC runs
        f1 = pool.submit(chk.tlc, "CardsMC", "CardsMC.cfg", extra=("-dump", str(dump)), label="intended design, all shapes of depth <= 2")
        f2 = pool.submit(chk.tlc, "CardsMC", "CardsMC_faithful.cfg", expect_violation=True,
                         label="vacuity guard / faithful transcription of raw_field+load_field must be refuted")
        f3 = pool.submit(chk.tlc, "CardsMC", "CardsMC_faithful_interp.cfg", expect_violation="InvInterp",
                         label="vacuity guard / faithful commons.interpolator ignores the declared flag")
        r = f1.result()
        f2.result()
        f3.result()
    if r.violated or not r.completed:
        raise MachineryError(f"Cards.tla intended design violates {r.violated}: {r.counterexample()[:2500]}")
    states = dc.parse_dump(pathlib.Path(str(dump) + ".dump").read_text())
    if len(states) != r.distinct:
        raise MachineryError(f"dump has {len(states)} states, TLC reports {r.distinct}")
    chk.note("tlc_shape_states", len(states))

    # ---- B2: materialise every state; real cards; interpolator ------------------------------
    recs, objs = _shape_records(chk, states, 6 if chk.thorough() else 1)
    r2, o2 = _card_records(chk, _card_variants(chk))
    r3, o3 = _interp_records(chk)
    n_shape, n_card = len(recs), len(r2)
    recs, objs = recs + r2 + r3, objs + o2 + o3
    chk.note("instances", {"shapes": n_shape, "cards": n_card, "interpolator": len(r3)})
    for k in (0, n_shape, n_shape + 3, n_shape + n_card):
        chk.sample({"instance": objs[k][0], "object": objs[k][1][:300], "observed": objs[k][2]})

    # ---- B3 (corrupted copies of clean records ride along: binding demonstration) -----------
    oks = [k for k in range(n_shape) if recs[k]["oc"] == "ok"]
    if not oks:
        raise MachineryError("no dict-like instance round-trips: nothing to corrupt")
    good = next((k for k in oks if recs[k]["v"]["kids"][0]["k"] == "xgrid"), oks[0])
    c1 = copy.deepcopy(recs[good])
    c1.update(oc="differs", d1="xgrid-log-flag-lost")
    c2 = copy.deepcopy(recs[good])   # same observation attached to a value no design round-trips this way
    c2["v"]["kids"][0] = {"k": "npint32", "a": "i1", "kids": [], "n": []}
    c3 = {"src": "interp", "declLog": True, "declDeg": 3, "dispLog": False, "dispDeg": 3, "from": "synthetic", "pts": "same"}
    c4 = {"src": "interp", "declLog": False, "declDeg": 2, "dispLog": False, "dispDeg": 3, "from": "synthetic", "pts": "same"}
    n = len(recs)
    bad, conf = _validate(chk, recs + [c1, c2, c3, c4], "observed round trips and dispatchers")
    chk.cov["traces_validated_against_impl"] -= 4
    if bad.get(n) != "C40:xgrid-log-flag-lost" or n + 1 not in conf or bad.get(n + 2) != "C40:interpolator-ignores-is-log" \
            or bad.get(n + 3) != "C40:interpolator-degree":
        raise MachineryError(f"binding demonstration failed: corrupted records accepted ({[bad.get(n + j) for j in range(4)]}, {conf.get(n + 1)})")
    chk.note("binding_demo", "4 corrupted records rejected by CardsTrace (2 outcomes, 2 dispatcher fields)")
    bad = {k: v for k, v in bad.items() if k < n}
    conf = {k: v for k, v in conf.items() if k < n}
    by_class = {}
    for k, verdict in sorted(bad.items()):
        by_class.setdefault(verdict, []).append(k)
    for verdict, ks in sorted(by_class.items()):
        if not verdict.startswith("C40:"):
            chk.diag(f"{verdict}: {len(ks)} records")
            continue
        # the smallest witnesses: one dict-like, one real card
        wit = sorted(ks, key=lambda k: len(objs[k][1]))[:1] + [k for k in ks if recs[k]["src"] != "shape"][:2]
        examples = [{"instance": objs[k][0], "object": objs[k][1], "observed": objs[k][2]} for k in dict.fromkeys(wit)]
        kinds = sorted({recs[k].get("d1", "") + ("-in-" + recs[k]["d2"] if recs[k].get("d2") else "") for k in ks})
        chk.violation(
            verdict,
            f"{verdict}: {len(ks)} of {len(recs)} instances ({', '.join(x for x in kinds if x)[:200]}); e.g. {examples[0]['instance']}: {examples[0]['object'][:300]} -> {examples[0]['observed']}",
            {"examples": examples, "count": len(ks)},
        )
    follows = {"faithful": 0, "intended": 0, "neither": 0}
    for k, c in conf.items():
        follows[c.split(":")[0]] += 1
        if c.startswith("neither"):
            chk.diag(f"conformance: {objs[k][0]} {objs[k][1][:200]} observed {objs[k][2]} predicted {c}")
    chk.note("conformance", {"both designs": len(recs) - len(conf), **follows})
    if follows["neither"] > 0 and not chk.violations:
        chk.diag("the transcription in Cards.tla disagrees with the code on instances that satisfy the property")
