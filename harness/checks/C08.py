"""C08 approximate solution methods agree with the exact one to the working order (law OrderAgreement)."""

from harness.laws import c08, engine

META = {
    "id": "C08",
    "level": "exploration",
    "technique": "TLA+ law plan (Laws.tla: RequiredOrder(sector, method, order, commuting) derived from NsForm/SingletForm/UsesNsIntegrals; cells enumerated by TLC) + measurement of the real un-jitted dispatchers at scaled couplings + TLC trace validation (LawsTrace) of the measured scaling exponent x100",
    "text": "For every approximate method (non-singlet: expanded x3 dispatch names, truncated, ordered-truncated; singlet: truncated, ordered-truncated, perturbative-exact/expanded, decompose-exact/expanded), order 2-4, nf 3-6, random complex towers (|gamma_k| ~ 3*10^k; singlet: non-commuting and commuting), the difference to the exact kernel is measured at (a1,a0), /2 and /4 with 10*a ~ 0.005-0.06; the base-2 exponent of the finer pair (kept only where it has settled to within 0.15 of the coarser pair; lower quartile over the points of a cell) must be >= n - 0.35 (n = perturbative order, NLO = 2). Decompose methods are held to it for commuting towers only (derived from UsesNsIntegrals); their non-commuting cells are measured and recorded without requirement.",
    "note": "Non-singlet reference: the closed-form exact kernel (C07). Commuting singlet reference: V diag(exact NS kernels of the eigenvalue towers) V^-1 (rounding-exact; a method agreeing to 1e-12 is recorded with the capped exponent 90). Non-commuting singlet reference: iterate-exact at 40/80/160 steps, Romberg-extrapolated; points where the difference is not 100x the reference error are dropped, cells without points are 'unresolved'. perturbative-* are run with ev_op_max_order = order+1 (smallest setting; exponent n+1 observed). Clean exponents >= n - 0.03; an error at order a^(n-1) gives n - 1 at every input. The settled-exponent filter and the lower quartile were introduced after a thorough run showed an isolated dip (3.56 at one of 40 random towers, accidentally small leading coefficient) with the plain minimum. Design switch DecomposeNonCommuting (decompose held to the order for non-commuting towers) is refuted by the clean trace (observed exponent ~1).",
    "design_ref": "1 (mode L), 4.11, 5 C08",
    "rule": "cell = (sector, method, order, nf, commuting); 6 (quick) / 40 (thorough) seeded towers and coupling pairs per cell, lower-quartile exponent recorded; non-trivial = resolved cell with a required order",
}


def run(chk):
    engine.run_law(chk, "C08", c08.measure, npts_quick=6, npts_thorough=40, switches=("DecomposeNonCommuting",))
    engine.lemma_switch(chk, "C08", "DecomposeNonCommuting")
