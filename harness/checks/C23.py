"""C23 matrix exponentials and eigen-projectors (law Spectral)."""

from harness.laws import c23, engine

META = {
    "id": "C23",
    "level": "exploration",
    "technique": "TLA+ law plan (Laws.tla cells enumerated by TLC) + measurement of the real un-jitted exp_matrix_2D / exp_matrix + TLC trace validation (LawsTrace) of integer residual classes",
    "text": "Law Spectral for exp_matrix_2D (2x2) and exp_matrix (2x2, 4x4) on random complex matrices M = V diag(lambda) V^-1 (cond V <= 8, |lambda| <= 1, 10, 50, eigenvalues separated by a quarter of the norm) and on structured matrices with the same spectral guarantees (all diagonal entries equal, upper triangular, real, one index decoupled - the shapes the QED/QCD kernels produce and a special-case shortcut could single out): P_i P_j = delta_ij P_i, sum P_i = 1, M = sum lambda_i P_i with the returned values equal to the eigenvalues put in, returned exponential = sum exp(lambda_i) P_i from the implementation's own eigen-system (spectral theorem), and agreement with an independent Pade exponential (scipy.linalg.expm).",
    "note": "Clean-tree residuals <= 3e-15 (algebraic clauses, required <= 1e-11) and <= 1.2e-13 (Pade comparison at norm 50, required <= 1e-9); a swapped projector, a wrong sign or factor gives >= 1e-2. Nearly degenerate or defective matrices are outside the quantifier (well-separated eigenvalues).",
    "design_ref": "1 (mode L), 4.11, 5 C23",
    "rule": "cell = (clause, implementation, norm class, matrix shape); 40 (quick) / 400 (thorough) seeded matrices per cell, worst residual recorded",
}


def run(chk):
    engine.run_law(chk, "C23", c23.measure, npts_quick=40, npts_thorough=400, switches=("Strict",))
