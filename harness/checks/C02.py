"""C02 each final EKO is the ordered product of the parts along its matched path."""
import multiprocessing as mp
import random

from harness.checks import _runner_common as rc
from harness.core import MachineryError

META = {
    "id": "C02",
    "level": "model_checking",
    "technique": "TLA+ spec Runner (recipes, parts computed once, join = reversed matched path; nondeterministic set iteration) over Atlas, checked by TLC for every order type of matching scales x origin x 1-2 targets; real managed.solve executed with free-monoid synthetic parts so that the product ORDER is decoded from the operator the implementation stored; every run validated by TLC (RunnerTrace)",
    "text": "B1: TLC explores the runner design from every instance (sorted matching-scale order types incl. ties, origin in any patch, 1-2 targets incl. on walls and at the origin, every processing order of the recipe set) and checks that each stored word is the reversed matched path, each needed part is computed exactly once and is stored before it is used. B2/B3: the same instance space (sampled; exhaustive for 1 target in thorough) is turned into concrete cards and solved by the real managed runner with parts replaced by generators of a free monoid of integer matrices; the harness decodes the stored operators back into words and records calls, retrievals and archive listings; TLC evaluates the C02 clauses on each record and compares the recipes with the spec.",
    "note": "Parts are synthetic (the order-sensitive assembly is what C02 states; numerical content of parts is the subject of other properties). Matching scales in any order (ties allowed; 30% of the real instances unsorted, and in 30% two scales differ only by a relative 1e-7); the TLC design run uses sorted scales, the path semantics for unsorted ones is covered exhaustively by Atlas (C19). All scales finite and positive; nf 3..6.",
    "design_ref": "4.5, 5 C02",
    "rule": "instance = (3 matching-scale tokens, origin (scale,nf), 1-5 targets); distinct by the token tuple; non-trivial = some target path has >= 2 segments",
}

CLIFF = "intermediate-only"


def _solve(args):
    from harness.drivers import runner

    seed, inst = args
    rng = random.Random(seed)
    tab = runner.scale_table(rng, near=rng.random() < 0.3)
    if rng.random() < 0.2:
        # an almost identical run earlier in the same process (same cards but another initial nf or one
        # target fewer / another target nf): module-level state it leaves behind must not reach this run
        sib = {"ms": list(inst["ms"]), "o": list(inst["o"]), "targets": [list(t) for t in inst["targets"]]}
        if rng.random() < 0.6:
            sib["o"][1] = rng.choice([n for n in (3, 4, 5, 6) if n != inst["o"][1]])
        else:
            sib["targets"][0][1] = rng.choice([n for n in (3, 4, 5, 6) if n != sib["targets"][0][1]])
        runner.solve_synthetic(sib, tab)
    # LO or NLO cards, matching ratios one or powers of two (the matching scales themselves stay where they are)
    order = (1, 0) if rng.random() < 0.5 else (2, 0)
    ratios = [rng.choice([0.5, 2.0, 4.0]) for _ in range(3)] if rng.random() < 0.5 else None
    rec = runner.solve_synthetic(inst, tab, order=order, ratios=ratios)
    rec["cards"] = {"order": list(order), "ratios": [str(k) for k in (ratios or [1.0, 1.0, 1.0])], "seed": seed}
    return rec


def run(chk):
    r = chk.tlc("RunnerMC", "RunnerMC_thorough.cfg" if chk.thorough() else "RunnerMC_quick.cfg", coverage=True, label="runner design")
    if r.violated:
        raise MachineryError(f"Runner design violated {r.violated}: {r.counterexample()[:2500]}")
    insts = []
    if chk.thorough():
        insts += list(rc.all_instances((1, 2, 3, 4), 1))
        insts += [rc.random_instance(chk.rng, unsorted=0.3, max_targets=5) for _ in range(12000)]
    else:
        insts += [rc.random_instance(chk.rng, unsorted=0.3, max_targets=5) for _ in range(1500)]
    seeds = [chk.rng.randrange(2**31) for _ in insts]
    with mp.get_context("fork").Pool(16) as pool:
        recs = pool.map(_solve, list(zip(seeds, insts)), chunksize=16)
    for inst in insts:
        chk.count(1, (tuple(inst["ms"]), tuple(inst["o"]), tuple(map(tuple, inst["targets"]))), nontrivial=rc.path_len(inst) >= 2)
    chk.sample(recs[0])
    chk.sample(max(recs, key=lambda x: len(x["calls"])))
    bad = []
    B = 4000
    for k in range(0, len(recs), B):
        res = chk.tlc("RunnerTrace", f"RunnerTrace_{CLIFF}.cfg", trace=recs[k : k + B], workers=1, label="real runs judged by C02 clauses")
        if res.violated or not res.completed:
            raise MachineryError(f"RunnerTrace not accepted: {res.out[-2000:]}")
        bad += [(recs[k + t[1] - 1], t[2]) for t in res.printed("BAD")]
        chk.cov["traces_validated_against_impl"] += len(recs[k : k + B])
    seen = set()
    for rec, v in bad:
        inst = f"ms={rec['ms']} o={rec['o']} targets={rec['targets']}"
        if v.startswith("C02:"):
            clause = v.split(":")[1]
            if clause in seen:
                continue
            seen.add(clause)
            chk.violation(f"C02:{clause} {inst}", f"{v} for {inst}; words={rec['words']}", rec)
        else:
            chk.diag(f"{v} {inst}")
    # binding demonstration: swap two letters of a word / drop a call
    import copy
    g = copy.deepcopy(next(x for x in recs if any(len(w["word"]) >= 3 for w in x["words"])))
    w = next(w for w in g["words"] if len(w["word"]) >= 3)
    w["word"][0], w["word"][2] = w["word"][2], w["word"][0]
    g2 = copy.deepcopy(recs[0])
    g2["calls"] = g2["calls"] + g2["calls"][:1]
    r2 = chk.tlc("RunnerTrace", f"RunnerTrace_{CLIFF}.cfg", trace=[g, g2], workers=1, label="corrupted records (must be rejected)")
    if {t[1] for t in r2.printed("BAD") if t[2].startswith("C02:")} != {1, 2}:
        raise MachineryError("binding demonstration failed")
