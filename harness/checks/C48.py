"""C48 numba-compiled functions compile and agree with plain Python."""
import json
import math
import os
import pathlib
import subprocess
import sys
from concurrent.futures import ThreadPoolExecutor

from harness.core import SRC, VERIF, MachineryError

META = {
    "id": "C48",
    "level": "exploration",
    "technique": "TLA+ spec JitPlan (groups of decorated entry points per tier, admissible outcome classes) with TLC trace validation (JitPlanTrace: every cell judged, group coverage and planned = measured checked); the probe harness/jitprobe.py calls the numba-decorated entry points of the evolution path on fixed inputs twice per group in separate processes - compiled (NUMBA_DISABLE_JIT=0, fresh NUMBA_CACHE_DIR in the scratch directory) and interpreted (NUMBA_DISABLE_JIT=1) - and the check classifies every cell by comparing the two dumps",
    "text": "Quick: 5 groups, about 520 cells: harmonic-sum cache (all keys, both fill orders, both singlet flags), every gamma_* function of the low-order anomalous-dimension modules (as1-as3 unpolarised, polarised, time-like; aem1, as1aem1, aem2) and every A_* function of the low-order matching modules, called by parameter name, all solution-method dispatchers of the QCD and QED kernels at every order, scale variations (both schemes, QCD and QED), beta and gamma coefficients, expanded coupling solutions, matrix exponentials, Mellin path, interpolation in x and N space. Calling a dispatcher compiles everything it reaches, so a function on the path that does not compile fails its cell. TLC requires every cell to be bitwise equal or equal to rounding (|difference| <= 1e-9 (|value| + 1e-3 of the largest entry of the cell); measured <= 3e-13), or refused with the same exception class in both modes. Thorough adds the order dispatchers of the anomalous dimensions and matching elements up to N3LO (both N3LO implementations, QED) and the whole path through the real solver (fixed-node quadrature) on 90 configurations of the Dispatch domain.",
    "note": "The repository's test suite runs interpreted (pytest-env NUMBA_DISABLE_JIT=1), and so do all other checks here; this is the only check that compiles. 'All inputs in its domain' is sampled: three complex Mellin moments, nf 3-6, a few couplings, towers and grids per entry point - the property is a differential between two builds, where the value of the specification is the plan and its coverage, not a model. Compilation dominates the cost (2-4 minutes quick with the groups compiled in parallel processes; the N3LO dispatchers and the solver path take about 10 more minutes). Nothing is cached between runs (numba's cache does not track changes in callees).",
    "design_ref": "6 (planned as not applicable), 11.3",
    "rule": "cell = one call of a decorated entry point with fixed inputs; distinct by cell name; non-trivial = returned in both modes",
}

TOL = 1e-9


def _probe(args):
    group, jit, out, cache = args
    env = dict(os.environ)
    env["NUMBA_DISABLE_JIT"] = "0" if jit else "1"
    env["NUMBA_CACHE_DIR"] = str(cache)
    env["EKO_SRC"] = str(SRC)
    env["PYTHONPATH"] = str(VERIF)
    env["NUMBA_NUM_THREADS"] = "1"
    p = subprocess.run([sys.executable, "-m", "harness.jitprobe", group, str(out)], cwd=str(VERIF), env=env,
                       capture_output=True, text=True, timeout=5400)
    if not pathlib.Path(out).exists():
        return group, jit, None, (p.stderr or p.stdout)[-1500:]
    return group, jit, json.loads(pathlib.Path(out).read_text()), ""


def _classify(py, jit):
    if py["err"] and jit["err"]:
        return ("both-error" if py["err"].split(":")[0] == jit["err"].split(":")[0] else "jit-error"), 0.0
    if py["err"]:
        return "py-error", 0.0
    if jit["err"]:
        return "jit-error", 0.0
    a, b = py["val"], jit["val"]
    if len(a) != len(b):
        return "differs", float("inf")
    if a == b:
        return "same", 0.0
    worst = 0.0
    scale = max([math.hypot(*x) for x in a if all(map(math.isfinite, x))] + [1e-300])
    for x, y in zip(a, b):
        if not all(map(math.isfinite, x + y)):
            if [str(v) for v in x] != [str(v) for v in y]:
                return "differs", float("inf")
            continue
        d = math.hypot(x[0] - y[0], x[1] - y[1])
        # relative to the entry, with an absolute floor of 1e-12 of the largest entry of the cell (entries
        # that are small by cancellation carry the rounding of the large ones)
        worst = max(worst, d / (math.hypot(*x) + 1e-3 * scale))
    return ("rounding" if worst <= TOL else "differs"), worst


def run(chk):
    groups = ["harmonics", "ad-low", "ome-low", "kernels", "misc"] + (["ad-us", "ad-qed", "ad-ps-ut", "ome", "solve"] if chk.thorough() else [])
    jobs = []
    for g in groups:
        jobs.append((g, True, chk.scratch / f"jit-{g}.json", chk.scratch / f"numba-cache-{g}"))
        jobs.append((g, False, chk.scratch / f"py-{g}.json", chk.scratch / f"numba-cache-py-{g}"))
    with ThreadPoolExecutor(len(jobs)) as pool:
        res = list(pool.map(_probe, jobs))
    dumps = {}
    for g, jit, d, err in res:
        if d is None:
            raise MachineryError(f"probe {g} ({'compiled' if jit else 'interpreted'}) produced no dump: {err}")
        if bool(d["jit"]) != jit:
            raise MachineryError(f"probe {g} ran with jit={d['jit']}, expected {jit}")
        dumps[(g, jit)] = d
    recs, cov = [], []
    walls = {}
    for g in groups:
        py, ji = dumps[(g, False)]["cells"], dumps[(g, True)]["cells"]
        walls[g] = {"compiled_s": dumps[(g, True)]["wall"], "interpreted_s": dumps[(g, False)]["wall"]}
        measured = 0
        for name, pv in py.items():
            if name not in ji:
                continue
            measured += 1
            cls, worst = _classify(pv, ji[name])
            recs.append({"ev": "cell", "group": g, "cell": name, "class": cls, "rel": "%.2e" % worst,
                         "pyerr": pv["err"][:120], "jiterr": ji[name]["err"][:200]})
            chk.count(1, (g, name), nontrivial=cls in ("same", "rounding"))
        cov.append({"name": g, "planned": len(py), "measured": measured})
    chk.note("wall_per_group", walls)
    chk.note("classes", {c: sum(1 for r in recs if r["class"] == c) for c in sorted({r["class"] for r in recs})})
    chk.note("largest_rounding_difference", max([float(r["rel"]) for r in recs if r["class"] == "rounding"] + [0.0]))
    chk.sample(recs[0])
    trace = recs + [{"ev": "coverage", "groups": cov}]
    cfg = "JitPlanTrace_thorough.cfg" if chk.thorough() else "JitPlanTrace.cfg"
    r = chk.tlc("JitPlanTrace", cfg, trace=trace, workers=1, label="cells judged, coverage checked")
    if r.violated or not r.completed:
        raise MachineryError(f"JitPlanTrace not accepted: {r.out[-2000:]}")
    chk.cov["traces_validated_against_impl"] += len(recs)
    seen = {}
    for t in r.printed("BAD"):
        rec = trace[t[1] - 1]
        v = t[2]
        if v.startswith("C48:"):
            fp = f"{v} group={rec['group']}"
            seen.setdefault(fp, []).append(rec)
        elif v.startswith("COVERAGE"):
            raise MachineryError(f"plan not covered: {cov}")
        elif v == "CONF:interpreted-call-raised":
            raise MachineryError(f"probe cell raised when interpreted: {rec['group']} / {rec['cell']}: {rec['pyerr']}")
        else:
            chk.diag(f"{v}: {rec}")
    for fp, rs in seen.items():
        r0 = rs[0]
        chk.violation(fp, f"{fp}: {len(rs)} cells, e.g. {r0['cell']}: class {r0['class']}, relative difference {r0['rel']}, compiled call said: {r0['jiterr'] or '-'}", {"cells": rs[:20]})
    bad = [dict(recs[0], **{"class": "differs"}), dict(recs[0], **{"class": "jit-error"})]
    r2 = chk.tlc("JitPlanTrace", cfg, trace=bad, workers=1, label="corrupted records (must be rejected)")
    if len([t for t in r2.printed("BAD") if t[2].startswith("C48:")]) != 2:
        raise MachineryError("binding demonstration failed")
