"""C20 beta-function and mass-anomalous-dimension coefficients vs the literature.

Spec: spec/Coeffs.tla (literature tables over {1, zeta3, zeta4, zeta5}, polynomials in nf,
QED/mixed coefficients derived from the general two-loop gauge beta function).
B1: spec/CoeffsMC.tla - internal consistency of the transcription (Casimir forms, printed
decimal forms, known values) and four mutated transcriptions that TLC must refute.
B3: spec/CoeffsTrace.tla - coefficients recovered from eko.beta / eko.gamma by exact probing
are compared with the table, cell by cell; every planned cell must be present.
"""

import copy
from fractions import Fraction

from harness.core import MachineryError
from harness.drivers.exactprobe import lagrange_coeffs, pair, parallel_tlc, patched, polyval, to_fraction

META = {
    "id": "C20",
    "level": "model_checking",
    "technique": "TLA+ table spec Coeffs (exact rationals over {1,zeta3,zeta4,zeta5} x nf^k), TLC-checked internal consistency (Casimir forms, printed decimals, 4 refuted mutant transcriptions); eko.beta/eko.gamma bound by exact probing (zeta constants patched to basis vectors, nf 0..6, nl 0..3), TLC trace spec CoeffsTrace compares cell by cell",
    "text": "The literature values of beta0-beta3, gamma_m0-gamma_m3 (as polynomials in nf over the zeta basis) and of the QED / mixed QCDxQED beta coefficients (as functions of nf and the lepton number) are held in TLA+; TLC proves the transcription consistent with its Casimir form at SU(3), with the decimal forms printed in the papers and with well-known values, and refutes four deliberately wrong transcriptions. Every eko.beta / eko.gamma function (direct and through the dispatchers beta_qcd, beta_qed, b_qcd, b_qed, gamma) is evaluated at nf = 0..6 (nl = 0..3) with zeta3, zeta4, zeta5 patched to basis vectors; the exact rational components and the interpolated nf-coefficients are compared by TLC with the table, coefficient by coefficient and value by value, and TLC requires every planned cell to be present.",
    "note": "No network: the table is a transcription from memory protected by the three consistency nets above (the decimal net alone refutes both literals suspected in gamma_qcd_as4). Rational recovery: denominator <= 20000, |float - rational| <= 1e-9; a value that is not such a rational cannot equal a table entry and is reported as a violation of that cell. nf 0..6, leptons 0..3 (ratios b_qed for 2..3).",
    "design_ref": "4.10, 5 C20, 8",
    "rule": "cell = (object, coefficient nf^k x basis element | value at nf x basis element | QED value at (nf, nl) | normalised ratio), probed through the direct function and through the dispatcher; all cells distinct and non-trivial",
}

BASIS = ["const", "zeta3", "zeta4", "zeta5"]
NFS = list(range(7))
NLS = list(range(4))

QCD = {
    # object: (direct callable name in module, dispatcher call)
    "beta0": ("beta", "beta_qcd_as2", (2, 0)),
    "beta1": ("beta", "beta_qcd_as3", (3, 0)),
    "beta2": ("beta", "beta_qcd_as4", (4, 0)),
    "beta3": ("beta", "beta_qcd_as5", (5, 0)),
    "gamma0": ("gamma", "gamma_qcd_as1", 1),
    "gamma1": ("gamma", "gamma_qcd_as2", 2),
    "gamma2": ("gamma", "gamma_qcd_as3", 3),
    "gamma3": ("gamma", "gamma_qcd_as4", 4),
}


def _zeta_patch(z3, z4, z5):
    import eko.beta
    import eko.constants
    import eko.gamma

    out = []
    for mod in (eko.constants, eko.beta, eko.gamma):
        for name, val in (("zeta3", z3), ("zeta4", z4), ("zeta5", z5)):
            if hasattr(mod, name):
                out.append((mod, name, float(val)))
    return out


def _row(call):
    """Components of call() over the zeta basis; call() reads the (patched) zeta constants.

    Returns (list of 4 (Fraction, exact), linear?)."""
    vals = {}
    for key, z in (("0", (0, 0, 0)), ("3", (1, 0, 0)), ("4", (0, 1, 0)), ("5", (0, 0, 1)), ("g", (2, 3, 5))):
        with patched(_zeta_patch(*z)):
            vals[key] = float(call())
    comps = [vals["0"], vals["3"] - vals["0"], vals["4"] - vals["0"], vals["5"] - vals["0"]]
    lin = abs(comps[0] + 2 * comps[1] + 3 * comps[2] + 5 * comps[3] - vals["g"]) <= 1e-9 * max(1.0, abs(vals["g"]))
    return [to_fraction(c) for c in comps], lin, comps


def _real_value_guard(call, comps):
    """The unpatched function must equal the recovered components times the real zetas."""
    from scipy.special import zeta

    x = float(call())
    y = comps[0] + comps[1] * zeta(3) + comps[2] * zeta(4) + comps[3] * zeta(5)
    return abs(x - y) <= 1e-10 * max(1.0, abs(x))


def probe():
    """All cells of the plan as trace records."""
    import eko.beta as B
    import eko.gamma as G

    mods = {"beta": B, "gamma": G}
    recs = []
    diags = []
    for obj, (mname, fname, darg) in QCD.items():
        mod = mods[mname]
        direct = getattr(mod, fname)
        if mname == "beta":
            calls = {
                "direct": lambda nf, f=direct: f(nf),
                "dispatch": lambda nf, k=darg: B.beta_qcd(k, nf),
            }
        else:
            calls = {
                "direct": (lambda nf, f=direct: f()) if obj == "gamma0" else (lambda nf, f=direct: f(nf)),
                "dispatch": lambda nf, k=darg: G.gamma(k, nf),
            }
        for via, call in calls.items():
            rows = {}
            for nf in NFS:
                row, lin, comps = _row(lambda: call(nf))
                if not lin:
                    diags.append(f"{obj} via {via} nf={nf}: not linear in the zeta constants")
                if not _real_value_guard(lambda: call(nf), comps):
                    raise MachineryError(
                        f"{obj} via {via} nf={nf}: patched zeta constants do not reach the function"
                    )
                rows[nf] = row
                for b, (fr, ex) in zip(BASIS, row):
                    recs.append(
                        {"kind": "val", "obj": obj, "via": via, "nf": nf, "b": b, "q": pair(fr), "exact": bool(ex and lin)}
                    )
            # coefficients of nf^k: interpolation through nf = 0..3, redundancy at 4..6
            for bi, b in enumerate(BASIS):
                ys = [rows[nf][bi][0] for nf in NFS]
                ex = all(rows[nf][bi][1] for nf in NFS)
                co = lagrange_coeffs([Fraction(n) for n in NFS[:4]], ys[:4])
                cubic = all(polyval(co, Fraction(n)) == ys[n] for n in NFS)
                if not cubic:
                    diags.append(f"{obj} via {via} {b}: not a cubic polynomial in nf on 0..6")
                for k in range(4):
                    recs.append(
                        {"kind": "coef", "obj": obj, "via": via, "k": k, "b": b, "q": pair(co[k]), "exact": bool(ex and cubic)}
                    )
    # normalised QCD coefficients through b_qcd
    for obj, k in (("beta1", (3, 0)), ("beta2", (4, 0)), ("beta3", (5, 0))):
        for nf in NFS:
            row, lin, _ = _row(lambda: B.b_qcd(k, nf))
            for b, (fr, ex) in zip(BASIS, row):
                recs.append(
                    {"kind": "ratio", "obj": obj, "via": "dispatch", "nf": nf, "b": b, "q": pair(fr), "exact": bool(ex and lin)}
                )
    for nf in NFS:
        fr, ex = to_fraction(B.b_qcd((2, 1), nf))
        recs.append(
            {"kind": "ratio", "obj": "beta_qcd21", "via": "dispatch", "nf": nf, "b": "const", "q": pair(fr), "exact": bool(ex)}
        )
    # QED and mixed
    qed = {
        "beta_qed02": (lambda nf, nl: B.beta_qed_aem2(nf, nl), lambda nf, nl: B.beta_qed((0, 2), nf, nl)),
        "beta_qed03": (lambda nf, nl: B.beta_qed_aem3(nf, nl), lambda nf, nl: B.beta_qed((0, 3), nf, nl)),
        "beta_qcd21": (lambda nf, nl: B.beta_qcd_as2aem1(nf), lambda nf, nl: B.beta_qcd((2, 1), nf)),
        "beta_qed12": (lambda nf, nl: B.beta_qed_aem2as1(nf), lambda nf, nl: B.beta_qed((1, 2), nf, nl)),
    }
    for obj, (direct, disp) in qed.items():
        for via, call in (("direct", direct), ("dispatch", disp)):
            for nf in NFS:
                for nl in NLS:
                    fr, ex = to_fraction(call(nf, nl))
                    recs.append(
                        {"kind": "qed", "obj": obj, "via": via, "nf": nf, "nl": nl, "q": pair(fr), "exact": bool(ex)}
                    )
    for obj, k in (("beta_qed03", (0, 3)), ("beta_qed12", (1, 2))):
        for nf in NFS:
            for nl in (2, 3):
                fr, ex = to_fraction(B.b_qed(k, nf, nl))
                recs.append(
                    {"kind": "qedratio", "obj": obj, "via": "dispatch", "nf": nf, "nl": nl, "q": pair(fr), "exact": bool(ex)}
                )
    return recs, diags


def _check_zeta_convergents():
    """Coeffs!ZetaApprox must approximate the zeta values (machinery sanity, not a verdict)."""
    from scipy.special import zeta

    for n, (p, q) in ((3, (19519, 16238)), (4, (2143, 1980)), (5, (68880, 66427))):
        if abs(p / q - float(zeta(n))) > 2e-9:
            raise MachineryError(f"ZetaApprox for zeta{n} is off")


def run(chk):
    _check_zeta_convergents()
    # ---- B1: the transcription is internally consistent, wrong transcriptions are refuted ----
    muts = (
        ("b2nf1", "InvCasimir"),
        ("g3z3_28", "InvDecimal"),
        ("g3nf3_plus", "InvDecimal"),
        ("qed12_ca", "InvQed"),
    )
    jobs = [
        {"module": "CoeffsMC", "cfg": "CoeffsMC.cfg", "workers": 4,
         "label": "literature table: Casimir forms, printed decimals, QED derivation, known values"}
    ] + [
        {"module": "CoeffsMC", "cfg": f"CoeffsMC_{mut}.cfg", "workers": 2, "expect_violation": inv,
         "label": f"mutated transcription {mut} (must be refuted)"}
        for mut, inv in muts
    ]
    r = parallel_tlc(chk, jobs)[0]
    if r.violated or not r.completed:
        raise MachineryError(f"Coeffs.tla is internally inconsistent: {r.violated} {r.counterexample()[:800]}")
    chk.note("mutant_transcriptions_refuted", 4)

    # ---- B3: the implementation's coefficients ----------------------------------------------
    recs, diags = probe()
    for d in diags:
        chk.diag(d)
    for rec in recs:
        key = tuple(rec[k] for k in ("kind", "obj", "via") if k in rec) + tuple(
            rec.get(k) for k in ("k", "nf", "nl", "b")
        )
        chk.count(1, key, nontrivial=True)
    for rec in [recs[0]] + [x for x in recs if x["obj"] == "gamma3" and x["kind"] == "coef"][:3]:
        chk.sample(rec)
    r = chk.tlc("CoeffsTrace", "CoeffsTrace.cfg", trace=recs, workers=1, label="eko.beta / eko.gamma cells vs literature table")
    if r.violated or not r.completed:
        raise MachineryError(f"CoeffsTrace not accepted: {r.out[-1500:]}")
    if r.printed("PLAN"):
        raise MachineryError(f"planned cells missing from the probe: {r.printed('PLAN')}")
    chk.cov["traces_validated_against_impl"] += len(recs)

    bad = [(dict(recs[t[1] - 1], expected=t[3]), t[2]) for t in r.printed("BAD")]
    # group: a wrong coefficient explains the wrong values / ratios of the same object
    coef_bad = {}
    other_bad = {}
    for rec, verdict in bad:
        if not verdict.startswith("C20:"):
            raise MachineryError(f"trace format rejected: {verdict} {rec}")
        if rec["kind"] == "coef":
            fp = f"C20:{rec['obj']} nf^{rec['k']} {rec['b']}"
            coef_bad.setdefault(fp, []).append(rec)
        else:
            other_bad.setdefault(rec["obj"], []).append((rec, verdict))
    objs_with_bad_coef = {v[0]["obj"] for v in coef_bad.values()}
    for fp, rs in sorted(coef_bad.items()):
        rec = rs[0]
        q = Fraction(*rec["q"])
        cons = [v for (x, v) in other_bad.get(rec["obj"], []) if x.get("b") == rec["b"]][:8]
        chk.violation(
            fp,
            f"{rec['obj']} ({QCD[rec['obj']][1]}): coefficient of nf^{rec['k']} x {rec['b']} is {q}"
            f"{'' if rec['exact'] else ' (not a small rational)'} in the implementation, the literature table"
            f" (Coeffs.tla) has {Fraction(*rec['expected'])}; via {sorted({x['via'] for x in rs})};"
            f" consequences: {cons}",
            {"cells": rs, "probe": "zeta constants patched to basis vectors, nf=0..6, Lagrange interpolation"},
        )
    for obj, lst in sorted(other_bad.items()):
        if obj in objs_with_bad_coef:
            continue
        # one violation per object and kind of cell; the cells are listed in the replay
        by_kind = {}
        for rec, verdict in lst:
            by_kind.setdefault(rec["kind"], []).append((rec, verdict))
        for kind, items in sorted(by_kind.items()):
            rec, verdict = items[0]
            chk.violation(
                f"C20:{obj} {kind}",
                f"{len(items)} {kind} cell(s) of {obj} differ from Coeffs.tla; first: {verdict}: implementation"
                f" {Fraction(*rec['q'])}, literature {Fraction(*rec['expected'])}; all: {[v for _, v in items][:12]}",
                {"cells": [x for x, _ in items]},
            )

    # ---- vacuity guard of the trace spec: a mutated table must disagree with the code ---------
    rm = chk.tlc("CoeffsTrace", "CoeffsTrace_b2nf1.cfg", trace=recs, workers=1, label="mutated table vs real cells (must disagree)", expect_violation=None)
    hit = {t[2] for t in rm.printed("BAD")}
    if "C20:beta2 nf^1 const" not in hit:
        raise MachineryError("vacuity guard: mutated table b2nf1 was not distinguished from the implementation")

    # ---- binding demonstration: corrupted records must be rejected ------------------------------
    good = [x for x in recs if x["kind"] == "coef" and x["obj"] == "beta3" and x["k"] == 2 and x["b"] == "zeta3"][0]
    c1 = copy.deepcopy(good)
    c1["q"] = [6472, 80]  # not normal
    c2 = copy.deepcopy(good)
    c2["q"] = [6473, 81]
    c3 = copy.deepcopy([x for x in recs if x["kind"] == "qed" and x["nf"] == 5 and x["nl"] == 3][0])
    c3["q"] = [c3["q"][0] + 1, c3["q"][1]] if c3["q"][1] == 1 else [c3["q"][0] + c3["q"][1], c3["q"][1]]
    c4 = copy.deepcopy(good)
    c4["exact"] = False
    rc = chk.tlc("CoeffsTrace", "CoeffsTrace.cfg", trace=[c1, c2, c3, c4], workers=1, label="corrupted records (must be rejected)", expect_violation=None)
    rej = {t[1] for t in rc.printed("BAD")}
    if rej != {1, 2, 3, 4}:
        raise MachineryError(f"binding demonstration failed: corrupted records accepted ({rej})")
    chk.note("binding_demo", "4 corrupted cells rejected by CoeffsTrace; mutated table distinguished from the implementation")
    chk.note("cells", {"total": len(recs), "failing": len(bad)})
