"""C07 exact non-singlet kernels solve the DGLAP equation (law OdeLocal)."""

from harness.laws import c07, engine

META = {
    "id": "C07",
    "level": "exploration",
    "technique": "TLA+ law plan (Laws.tla cell domain enumerated by TLC) + measurement of the real un-jitted kernels + TLC trace validation (LawsTrace) of integer residual classes",
    "text": "Law OdeLocal: E(a0->a0)=1 and dE/da1 = gamma(a1)/beta(a1) E at sampled points, which by uniqueness of the ODE solution is the statement. TLC enumerates the cells (order 1-4 x nf 3-6 x direction x every method dispatched to the exact closed form, plus the QED fixed-alpha_em kernel with the shifted beta_0 and the pure-QED factor, QED order 1-2); the harness evaluates ns.dispatcher / non_singlet_qed.fixed_alphaem_exact with random complex gamma towers (|gamma_k| ~ 10^k) and a0,a1 in [0.002,0.05], takes a 5-point central difference and compares with gamma/beta rebuilt from an independent literature table of beta coefficients; residuals travel to TLC as whole decades.",
    "note": "Sign convention fixed once from the LO closed form E=(a1/a0)^(gamma0/beta0). Clean-tree residual of the local law <= 4e-10 (FD truncation); required <= 1e-7; a 10% error in any kernel coefficient gives >= 1e-4. The initial condition is required to rounding (1e-12), not bitwise: the N3LO sum of three complex logarithms leaves 1e-16. QED variant: gamma[0,j] a_em^j is the pure-QED exponent, checked through the derivative in ln mu2_to (clause 'scale').",
    "design_ref": "1 (mode L), 4.11, 5 C07",
    "rule": "cell = (clause, variant, method, order, nf, direction); each cell evaluated at 20 (quick) / 200 (thorough) seeded points, the worst residual is recorded; non-trivial = cell with a required class",
}


def run(chk):
    engine.run_law(chk, "C07", c07.measure, npts_quick=20, npts_thorough=200, switches=("Strict",))
    engine.lemma_switch(chk, "C07", "AllCompose")
