"""C14 QED x QCD kernels reduce to QCD kernels at alpha_em = 0 (kernel-level clause by law plan;
end-to-end clause by convergence class on real solves, spec QedLimit)."""
import itertools
import multiprocessing as mp

from harness.core import MachineryError

from harness.laws import c14, engine

META = {
    "id": "C14",
    "level": "exploration",
    "technique": "TLA+ spec QedLimit (cells order x QED order x path shape, required convergence class; real solves with real quadrature on a 3-point grid judged by TLC trace spec QedLimitTrace with a coverage record) + TLA+ law plan (Laws.tla cells enumerated by TLC) + measurement of the real un-jitted QED and QCD kernels on the same coupling steps + TLC trace validation (LawsTrace)",
    "text": "End-to-end clause: in all 30 cells of QedLimit (QCD order 1-3, QED order 1-2; one segment in its natural patch, one segment whose nf is kept below / above the natural one of the scales it runs through, threshold crossings up and down) the operator with alpha_em = 1e-9 and 4 / 16 iterations is compared on the 13 x 13 parton channels with the pure-QCD operator (closed form at LO, 64 iterations beyond): the gap must shrink at least like 1/n (measured: 1/n^2, exponent 1.99) or have reached the alpha_em floor. Kernel-level clause: random QCD towers are embedded in QED grids (index map Sigma->2, g->0 of the basis (g, photon, Sigma, Sigma_Delta); non-singlet tower on Sigma_Delta / on the valence diagonal; all a_em^j, j>=1, entries filled with random numbers), a_em = 0, QCD order 1-4, QED order 1-2, nf 3-6, 2-8 steps: the QED non-singlet kernel equals the product of the QCD exact kernels over the same steps; the gluon/Sigma block of the QED singlet kernel equals the QCD eko_iterate on the same steps; the photon entry is 1 and decoupled; the Sigma_Delta / valence entries equal the (1x1 block of the) QCD iterated kernel on the same steps (class rounding) and converge to the exact non-singlet kernel when the steps are doubled (exponent >= 1.58; midpoint rule gives 2).",
    "note": "The end-to-end clause is decided as a convergence CLASS (base-4 exponent of the gap between 4 and 16 iterations, x100, and the decade of the gap), not as an accuracy: clean 199, a coupling step list that leaves the RG trajectory of the segment (e.g. mid-step couplings taken with the natural instead of the segment nf) stalls at 0-50. Real quadrature is used here: the 4-node shim is NOT valid for this comparison because the QED Sigma_Delta sector is integrated on the singlet contour and the QCD non-singlet on its own one, which agree only for converged integrals. Kernel clause: clean residuals <= 1e-14 (required <= 1e-10; a wrong index in the embedding or a beta term that survives a_em = 0 gives >= 1e-3); convergence exponents 1.91-2.00. At QCD order 1 the reference is eko_iterate itself (the QCD dispatcher uses the closed LO form, which differs from the stepwise product by the discretisation error).",
    "design_ref": "1 (mode L), 4.11, 5 C14",
    "rule": "cell = (clause, sector, order, QED order, nf); 8 (quick) / 60 (thorough) seeded grids, coupling pairs and step counts per cell; worst residual / smallest exponent recorded",
}


def _e2e(chk):
    from harness.drivers import qedlimit

    cells = [dict(order=o, qed=q, shape=s) for o, q, s in itertools.product((1, 2, 3), (1, 2), sorted(qedlimit.SHAPES))]
    with mp.get_context("fork").Pool(16) as pool:
        recs = pool.map(qedlimit.limit_cell, sorted(cells, key=lambda c: -c["order"]), chunksize=1)
    for r in recs:
        chk.count(1, ("limit", tuple(sorted(r["cell"].items()))), nontrivial=r["err"] == "")
    chk.sample(recs[0])
    chk.note("e2e_exponents_x100", {f"{r['cell']['order']}-{r['cell']['qed']}-{r['cell']['shape']}": [r["e100"], r["gaps"]] for r in recs})
    trace = recs + [{"ev": "coverage", "cells": cells}]
    res = chk.tlc("QedLimitTrace", "QedLimitTrace.cfg", trace=trace, workers=1, label="end-to-end cells judged, coverage checked")
    if res.violated or not res.completed:
        raise MachineryError(f"QedLimitTrace not accepted: {res.out[-2000:]}")
    chk.cov["traces_validated_against_impl"] += len(recs)
    seen = set()
    for t in res.printed("BAD"):
        rec = trace[t[1] - 1]
        v = t[2]
        if v.startswith("C14:"):
            c = rec["cell"]
            fp = f"{v} order={c['order']} qed={c['qed']} shape={c['shape']}"
            if fp not in seen:
                seen.add(fp)
                chk.violation(fp, f"{v}: gaps at 4 / 16 iterations {rec['gaps']} (exponent x100 = {rec['e100']})", rec)
        elif v.startswith("COVERAGE"):
            raise MachineryError("end-to-end cells not exhausted")
        elif v.startswith("CONF:solve-raised"):
            raise MachineryError(f"measurement failed: {rec}")
        else:
            chk.diag(f"{v}: {rec['cell']}")
    bad = [dict(recs[0], e100=20, dec16=3)]
    r2 = chk.tlc("QedLimitTrace", "QedLimitTrace.cfg", trace=bad, workers=1, label="corrupted end-to-end record (must be rejected)")
    if not [t for t in r2.printed("BAD") if t[2].startswith("C14:")]:
        raise MachineryError("binding demonstration (end-to-end) failed")


def run(chk):
    _e2e(chk)
    engine.run_law(chk, "C14", c14.measure, npts_quick=8, npts_thorough=60, switches=("Strict",))
