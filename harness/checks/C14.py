"""C14 QED x QCD kernels reduce to QCD kernels at alpha_em = 0 (kernel-level clause)."""

from harness.laws import c14, engine

META = {
    "id": "C14",
    "level": "exploration",
    "technique": "TLA+ law plan (Laws.tla cells enumerated by TLC) + measurement of the real un-jitted QED and QCD kernels on the same coupling steps + TLC trace validation (LawsTrace)",
    "text": "Kernel-level clause only. Random QCD towers are embedded in QED grids (index map Sigma->2, g->0 of the basis (g, photon, Sigma, Sigma_Delta); non-singlet tower on Sigma_Delta / on the valence diagonal; all a_em^j, j>=1, entries filled with random numbers), a_em = 0, QCD order 1-4, QED order 1-2, nf 3-6, 2-8 steps: the QED non-singlet kernel equals the product of the QCD exact kernels over the same steps; the gluon/Sigma block of the QED singlet kernel equals the QCD eko_iterate on the same steps; the photon entry is 1 and decoupled; the Sigma_Delta / valence entries equal the (1x1 block of the) QCD iterated kernel on the same steps (class rounding) and converge to the exact non-singlet kernel when the steps are doubled (exponent >= 1.58; midpoint rule gives 2).",
    "note": "The end-to-end clause (alpha_em -> 0 on operators, iterations 10-160) is an accuracy statement against a discretisation error and is not decided (DESIGN 6). Clean residuals <= 1e-14 (required <= 1e-10; a wrong index in the embedding or a beta term that survives a_em = 0 gives >= 1e-3); convergence exponents 1.91-2.00. At QCD order 1 the reference is eko_iterate itself (the QCD dispatcher uses the closed LO form, which differs from the stepwise product by the discretisation error).",
    "design_ref": "1 (mode L), 4.11, 5 C14",
    "rule": "cell = (clause, sector, order, QED order, nf); 8 (quick) / 60 (thorough) seeded grids, coupling pairs and step counts per cell; worst residual / smallest exponent recorded",
}


def run(chk):
    engine.run_law(chk, "C14", c14.measure, npts_quick=8, npts_thorough=60, switches=("Strict",))
