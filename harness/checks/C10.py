"""C10 kernels are trivial at equal couplings and compose where exact (laws Identity, Compose)."""

from harness.laws import c10, engine

META = {
    "id": "C10",
    "level": "exploration",
    "technique": "TLA+ law plan (Laws.tla: NsForm / SingletForm / ComposesExactly / ComposesInLimit derived from the documented form of each method; cells enumerated by TLC) + measurement of the real un-jitted dispatchers + TLC trace validation (LawsTrace)",
    "text": "Identity: every dispatcher (non-singlet, singlet: 8 methods x order 1-4 x nf 3-6; QED non-singlet, singlet 4x4, valence 2x2 with a constant step list, QED order 1-2) returns 1 at a1 = a0. Compose E(a2<-a1)E(a1<-a0) = E(a2<-a0) and Roundtrip E(a0<-a1)E(a1<-a0) = 1 on random coupling triples and random complex (non-commuting) towers: class rounding exactly where the spec derives ComposesExactly (non-singlet forms ExpAdditive and RatioU, LO singlet), convergence exponent >= log2(3) in the number of iterations for the path-ordered singlet kernel (midpoint rule: 2), rounding for its roundtrip (symmetric steps), not required elsewhere (measured and recorded all the same).",
    "note": "Clean residuals <= 5e-15 (required <= 1e-11); the forms that do not compose (truncated, decompose at NLO+) show 2e-4..1e-1, which is what the design switch AllCompose uses to refute the clean trace (vacuity guard). Convergence exponent on the clean tree 1.98-1.99. Kernels are called through the dispatchers as quad_ker does (the singlet dispatcher short-circuits a1 == a0; eko_perturbative/lo_exact called directly at equal couplings would divide by a vanishing eigenvalue gap, which is not a path the operator takes).",
    "design_ref": "1 (mode L), 4.11, 5 C10",
    "rule": "cell = (clause, sector, method, order, QED order, nf); 10 (quick) / 100 (thorough) seeded inputs per cell, worst residual / smallest exponent recorded; non-trivial = cell with a required class",
}


def run(chk):
    engine.run_law(chk, "C10", c10.measure, npts_quick=10, npts_thorough=100, switches=("AllCompose",))
    engine.lemma_switch(chk, "C10", "AllCompose")
