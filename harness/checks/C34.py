"""C34 interpolation basis: Interp.tla exhaustive on small dyadic grids (B1), the real
InterpolatorDispatcher probed exactly on the same domain and judged by TLC on its own numbers
(InterpTrace), logarithmic mode / random grids through TLC-planned integer-class laws."""

import copy
import itertools
import multiprocessing as mp
from fractions import Fraction as F

from harness.core import MachineryError
from harness.drivers import interp as drv

META = {
    "id": "C34",
    "level": "model_checking",
    "technique": "TLA+ spec Interp (transcription of block selection / Lagrange coefficients / half-open areas over exact rationals + independent C34 predicates), TLC exhaustive over dyadic grids; exact probing of eko.interpolation judged by TLC trace spec InterpTrace on the code's own coefficients, values and re-interpolation matrices; log mode and random grids by TLC-planned laws with integer classes (exploration)",
    "text": "TLC checks, for every grid of 2-6 points from {0, 1/16..1} (degree 1-3; degree 4 on {0, 1/8..1}; a linear grid may start at x = 0), that the transcribed basis is one at its own node and zero at the others, sums to one and reproduces every monomial up to the degree at all nodes, area boundaries and midpoints, also through get_interpolation, and that exactly the invalid requests are refused. The real InterpolatorDispatcher is run on grids of the same domain in linear mode; its blocks, coefficients, evaluate_x values and get_interpolation matrices are recovered as exact rationals (uniqueness-guarded) and TLC evaluates the same predicates on them, then compares them with the transcription. Logarithmic mode and random grids (2-40 points, x_min to 1e-9, degree 1-6) are measured in every cell of the plan TLC enumerates (Partition, Kronecker, PolyReproduce, Reinterp, ReinterpTinyX) and reported as integer decades of the residual and of a conditioning bound derived from the code's coefficients; TLC requires the residual below max(1e-8, 100 x bound) in every cell whose bound is at most 1e-7 (3 decades to the smallest structural violation), reports the others unresolved, and checks plan completeness.",
    "note": "Exact part: linear mode only (dyadic points are exact doubles; in log mode log(x) is not). Degree 4 only on the 8-value pool, degree 5-6 only through the laws: 32-bit TLC integers overflow on the monomial sums otherwise (an overflow is exit 2, never a verdict). Law cells whose conditioning bound exceeds 1e-7 are reported unresolved (high degree at small x: the monomial representation in log x loses digits). level: model_checking for the linear/dyadic part, exploration for the law part.",
    "design_ref": "4.1, 4.10, 5 C34",
    "rule": "exact instance = (dyadic grid, degree); non-trivial = accepted grid with >= 3 points; law instance = (cell, sample); distinct by grid tuple / cell tuple",
}


def _probe_job(job):
    raw, deg, tkind = job
    raw = [F(a, b) for a, b in raw]
    targets = []
    if tkind and len(set(raw)) == len(raw) and len(raw) > deg >= 1 and len(raw) >= 2:
        g = sorted(raw)
        pts = drv.eval_set(g)
        targets = [g, pts[: len(g)], [pts[2 * e + 1] for e in range(len(g) - 1)]]
    rec, unres = drv.probe(raw, deg, targets)
    return rec, unres


def _law_job(job):
    cell, sample, seed = job
    return drv.measure_cell(cell, sample, seed)


def exact_jobs(chk):
    """(grid, degree) instances of the B1 domain + rejection requests."""
    rng = chk.rng
    jobs = []
    # pool {1/16..1}, degree 1-3, 2-6 points
    dom16 = [(n, d) for n in range(2, 7) for d in (1, 2, 3) if n > d]
    n16 = 1500 if chk.thorough() else 60
    for _ in range(n16):
        n, d = rng.choice(dom16)
        ks = sorted(rng.sample(range(0 if rng.random() < 0.3 else 1, 17), n))   # a linear grid may start at x = 0
        jobs.append(([(k, 16) for k in ks], d, True))
    # pool {1/8..1}, degree 1-4
    dom8 = [(n, d) for n in range(2, 7) for d in (1, 2, 3, 4) if n > d]
    n8 = 600 if chk.thorough() else 40
    for _ in range(n8):
        n, d = rng.choice(dom8)
        ks = sorted(rng.sample(range(0 if rng.random() < 0.3 else 1, 9), n))
        jobs.append(([(k, 8) for k in ks], d, True))
    # all grids of 2-4 points from {1/4..1} x degree 1-3 (small, exhaustive, also unsorted input)
    for n in (2, 3, 4):
        for ks in itertools.permutations(range(0, 5), n):
            if n <= 2 or rng.random() < (0.5 if n == 3 else 0.15):
                for d in (1, 2, 3):
                    if n > d:
                        jobs.append(([(k, 4) for k in ks], d, list(ks) == sorted(ks)))
    # rejection: repeated points, too few points, degree < 1, degree >= number of points
    for n in (1, 2, 3, 4):
        for ks in itertools.product(range(1, 5), repeat=n):
            valid_pts = len(set(ks)) == n
            for d in (0, 1, 2, 3, 4):
                if valid_pts and n >= 2 and 1 <= d < n:
                    continue
                if n <= 2 or rng.random() < (0.5 if chk.thorough() else 0.04):
                    jobs.append(([(k, 4) for k in ks], d, False))
    jobs.append(([(1, 2), (1, 1)], -1, False))
    return jobs


def run(chk):
    ctx = mp.get_context("fork")
    # ---- law plan from TLC (needed first: the pool measures while TLC explores) -------------
    rplan = chk.tlc("InterpPlan", "InterpPlan.cfg", workers=1, label="law plan (cells enumerated by TLC)")
    cells = []
    for t in rplan.printed("CELL"):
        cells.append({"mode": t[1], "size": t[2], "xmin": t[3], "deg": t[4], "law": t[5]})
    if len(cells) != rplan.distinct or not cells:
        raise MachineryError(f"plan not read: {len(cells)} cells printed, {rplan.distinct} states")
    nsamp = 6 if chk.thorough() else 1
    ljobs = [(c, s, chk.seed) for c in cells for s in range(nsamp)]
    ejobs = exact_jobs(chk)

    with ctx.Pool(14) as pool:
        lres_async = pool.map_async(_law_job, ljobs, chunksize=4)
        eres_async = pool.map_async(_probe_job, ejobs, chunksize=8)
        # ---- B1: design, concurrently -------------------------------------------------------
        b1 = [
            {"module": "InterpMC", "cfg": "InterpMC_full.cfg" if chk.thorough() else "InterpMC.cfg",
             "label": ("B1 pool {0,1/16..1} 2-6 points degree 1-3, pool {1/8..1} 2-6 points degree 4, rejection lists"
                       if chk.thorough() else
                       "B1 pool {0,1/8..1} 2-4 points degree 1-3 and 5 points degree 4, pool {1/16..1} 2-3 points degree 1-2, rejection lists"),
             "workers": 12 if chk.thorough() else 8},
            {"module": "InterpMC", "cfg": "InterpMC_upperopen.cfg", "label": "design switch UpperClosed=FALSE (must violate)", "workers": 1, "expect_violation": "InvC34"},
        ]
        if chk.thorough():
            b1.append({"module": "InterpMC", "cfg": "InterpMC_firstopen.cfg", "label": "design switch FirstClosed=FALSE (must violate)", "workers": 1, "expect_violation": "InvC34"})
        b1run = drv.ManyTlc(chk, b1, threads=3)
        eres = eres_async.get()
        lres = lres_async.get()

    # ---- exact probing judged by TLC ----------------------------------------------------------
    recs = []
    unresolved = 0
    for (raw, deg, _), (rec, unres) in zip(ejobs, eres):
        if unres and not rec.get("offgrid"):
            unresolved += 1
            chk.diag(f"exact recovery unresolved ({unres} numbers) raw={raw} deg={deg}")
            continue
        recs.append(rec)
        chk.count(1, ("x", tuple(map(tuple, raw)), deg), nontrivial=(rec["err"] == "" and len(raw) >= 3))
    chk.note("exact_probes", len(recs))
    chk.note("exact_probes_unresolved", unresolved)
    if unresolved > len(ejobs) // 20:
        raise MachineryError(f"{unresolved} of {len(ejobs)} exact probes unresolved")
    for rec in [x for x in recs if x["err"] == "" and len(x["raw"]) >= 4][:2] + [x for x in recs if x["err"]][:1]:
        chk.sample({k: rec[k] for k in ("raw", "deg", "err")} | {"areas_of_basis_1": rec["areas"][1] if rec["areas"] else []})
    # binding demonstration rides along: corrupted copies must be rejected by the same runs
    good = next(x for x in recs if x["err"] == "" and len(x["raw"]) >= 4 and x["deg"] >= 2 and x["tgts"])
    c1 = copy.deepcopy(good)
    c1["vals"][1][2] = [c1["vals"][1][2][0] + 1, c1["vals"][1][2][1]]          # a value off
    c2 = copy.deepcopy(good)
    c2["areas"][0][0]["coefs"][0] = [c2["areas"][0][0]["coefs"][0][0] + 1, c2["areas"][0][0]["coefs"][0][1]]
    c3 = copy.deepcopy(good)
    c3["tgts"][2]["R"][0][0] = [1, 3]
    c4 = copy.deepcopy(good)
    c4["err"] = "ValueError"                                                     # valid grid refused
    nreal = len(recs)
    nchunks = 8 if chk.thorough() else 3
    # laws: every planned cell measured; two corrupted law records after the end marker
    lrecs = [r for r, _ in lres]
    replays = [rp for _, rp in lres]
    c5 = copy.deepcopy(next(x for x in lrecs if x["bound_e"] <= -12))
    c5["resid_e"] = -4                                                           # class off
    c6 = copy.deepcopy(lrecs[0])
    c6["cell"] = dict(c6["cell"], deg=9)                                         # unplanned cell
    pjobs = drv.trace_jobs("InterpTrace", "InterpTrace.cfg", recs + [c1, c2, c3, c4], nchunks, "exact probes")
    ljob = {"module": "InterpTrace", "cfg": "InterpTrace.cfg", "workers": 1,
            "trace": lrecs + [{"kind": "end"}, c5, c6],
            "label": "law measurements (plan completeness + classes) + 2 corrupted records"}
    tres = drv.run_many(chk, pjobs + [ljob], threads=nchunks + 1)
    rl = tres[-1]
    bad = drv.trace_bad(chk, pjobs, tres[:-1])
    demo = {k - nreal: v for k, v in bad if k >= nreal}
    if not all(demo.get(k, "").startswith("C34:") for k in range(4)):
        raise MachineryError(f"binding demonstration failed (corrupted probes accepted): {demo}")
    chk.cov["traces_validated_against_impl"] -= 4
    bad = [(k, v) for k, v in bad if k < nreal]
    for k, verdict in bad:
        rec = recs[k]
        inst = f"grid={rec['raw']} deg={rec['deg']}"
        if verdict.startswith("C34:"):
            cls = verdict.split(" ")[0]
            chk.violation(f"{cls} linear dyadic", f"eko.interpolation violates {verdict} for {inst}",
                          {"verdict": verdict, "record": rec})
        elif verdict.startswith("CONF:"):
            chk.diag(f"{verdict} {inst}")
        else:
            raise MachineryError(f"trace record rejected for a non-property reason: {verdict} {inst}")

    # ---- laws: classes judged by TLC -----------------------------------------------------------
    for r in lrecs:
        chk.count(1, ("l", str(sorted(r["cell"].items())), r["sample"]), nontrivial=True)
    if rl.violated or not rl.completed:
        raise MachineryError(f"InterpTrace did not accept the law trace: {rl.out[-2000:]}")
    lbad = {t[1] - 1: t[2] for t in rl.printed("BAD")}
    if not lbad.get(len(lrecs) + 1, "").startswith("C34:law") or not lbad.get(len(lrecs) + 2, "").startswith("PLAN:"):
        raise MachineryError(f"binding demonstration failed (corrupted law records accepted): {lbad}")
    chk.cov["traces_validated_against_impl"] += len(lrecs)
    n_unres = 0
    worst = {}
    for r, rp in zip(lrecs, replays):
        key = r["cell"]["law"]
        if r["bound_e"] <= -7:
            worst[key] = max(worst.get(key, -99), r["resid_e"] - r["bound_e"])
    for k, verdict in sorted(lbad.items()):
        if k > len(lrecs):
            continue
        if verdict == "UNRESOLVED":
            n_unres += 1
            continue
        if k >= len(lrecs):
            raise MachineryError(f"law plan incomplete: {verdict}")
        r, rp = lrecs[k], replays[k]
        if verdict.startswith("C34:"):
            c = r["cell"]
            if c["law"] == "ReinterpTinyX" and "raised" not in rp:
                fp = "C34:reinterp-shortcut tiny-x target"
                what = ("get_interpolation returns the identity for a target grid that differs from the "
                        f"nodes only below 1e-8 (np.allclose on raw x): residual 1e{r['resid_e']} in log x "
                        f"for grid x_min={rp['grid'][0]:.3e} target x_min={rp['target'][0]:.3e} degree {c['deg']}")
            else:
                fp = f"{verdict} {c['mode']} deg={c['deg']}"
                what = f"law {c['law']} violated in cell {c}: residual 1e{r['resid_e']} with bound 1e{r['bound_e']}" + (f" ({rp['raised']})" if "raised" in rp else "")
            chk.violation(fp, what, rp)
        else:
            raise MachineryError(f"law record rejected: {verdict} {r}")
    chk.note("law_cells_planned", len(cells))
    chk.note("law_measurements", len(lrecs))
    chk.note("law_unresolved", n_unres)
    chk.note("law_worst_resolved_residual_minus_bound_decades", worst)
    unres_cells = sorted({str((r["cell"]["mode"], r["cell"]["deg"], r["cell"]["xmin"], r["cell"]["size"]))
                          for r in lrecs if r["bound_e"] > -7})
    chk.note("law_unresolved_cells", unres_cells[:60])
    chk.sample({"law_record": lrecs[0]})

    if chk.thorough():
        rb = chk.tlc("InterpTrace", "InterpTrace.cfg", trace=[lrecs[0], {"kind": "end"}], workers=1,
                     label="incomplete plan (must be rejected)")
        got = {t[1]: t[2] for t in rb.printed("BAD")}
        if not got.get(2, "").startswith("PLAN:"):
            raise MachineryError(f"an incomplete law plan was accepted: {got}")
    chk.note("binding_demo", "4 corrupted probes, 1 corrupted law class, 1 unplanned cell rejected by InterpTrace")

    res = b1run.finish()
    design_bad = [(j["label"], r) for j, r in zip(b1[:1], res[:1]) if r.violated]
    for lab, r in design_bad:
        chk.diag(f"design counterexample in {lab}: {r.violated}: {r.counterexample()[:1200]}")
    if design_bad and not chk.violations:
        raise MachineryError("Interp.tla violates C34 on its own transcription but the implementation does not: spec is wrong")
