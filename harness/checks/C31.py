"""C31 flavour/evolution basis rotations and sector projectors: Flavors.tla exhaustive over
nf 3-6 x {QCD, QED} (B1), the implementation's own tables and projector matrices judged by TLC
as exact rationals (B3)."""

import copy

from harness.core import MachineryError
from harness.drivers import flavors as F

META = {
    "id": "C31",
    "level": "model_checking",
    "technique": "TLA+ spec Flavors (bases defined from their physical meaning over exact rationals, independent C31 predicates, transcription of basis_rotation.py), TLC exhaustive over nf 3-6 x {QCD,QED}; real tables and ad_projector/ad_projectors outputs for every sector validated by TLC trace spec FlavorsTrace",
    "text": "TLC checks on the design that the evolution bases defined from their meaning are complete orthogonal bases and that the transcribed sector projectors satisfy the C31 predicates for every nf 3-6 in QCD and QED; the real rotate_flavor_to_evolution / rotate_flavor_to_unified_evolution tables, label and PID tuples, sector maps, and the matrices returned by ad_projector for every sector label x nf x {QCD,QED} and by ad_projectors are converted to exact rationals and TLC evaluates on them: rows mutually orthogonal and non-zero with an explicit two-sided inverse, label/PID/row consistency, each sector map sends source onto target and annihilates every other distribution of the nf-flavour evolution basis, diagonal maps idempotent, mutually orthogonal and summing to the identity on the active partons, availability for every sector of the basis.",
    "note": "Domain finite and fully covered (4 nf x (7 QCD + 24 unified sectors), 2 tables), both tiers identical. The nf-flavour evolution basis is the intrinsic one documented in FlavorSpace.rst (Sdelta/Vdelta with the nd/nu weight). A sector for which the code raises violates 'available for every sector'; the sum-to-identity clause is evaluated for a (nf, basis) only when all its diagonal sector maps exist.",
    "design_ref": "4.1, 4.6, 5 C31-C33",
    "rule": "instance = (nf, QCD|QED, sector label) for projector calls, (QCD|QED) for tables and for the collected tensor, (nf, QCD|QED) for the diagonal family; non-trivial = sector with at least one element at that nf; distinct by the instance tuple",
}

BASIS = {False: "qcd", True: "qed"}


def _sector(lab):
    return f"({lab[0]},{lab[1]})"


def run(chk):
    # ---- B1: design (in the background) ----------------------------------------------------
    design = F.Design(chk)
    design.run("FlavorsMC_C31.cfg", "design: intended unified sector map, nf 3-6 x {QCD,QED}")
    # vacuity guards / faithful design: each must be refuted
    design.run("FlavorsMC_C31_fallback.cfg", "switch: unified sectors looked up in the QCD map (the code as it stands)",
               expect_violation="InvC31Available", workers=2)
    design.run("FlavorsMC_C31_tablecut.cfg", "switch: Sdelta/Vdelta rows cut from the nf=6 table instead of orthogonalised",
               expect_violation="InvC31Sector", workers=2)

    # ---- B3: the implementation's own numbers -------------------------------------------
    recs = F.c31_tables() + F.c31_projectors()
    for rec in recs:
        if rec["ev"] == "proj":
            nontrivial = not rec["err"] and any(x != [0, 1] for row in rec["mat"] for x in row)
            chk.count(1, ("proj", rec["nf"], rec["qed"], tuple(rec["lab"])), nontrivial=nontrivial or bool(rec["err"]))
        elif rec["ev"] in ("projs", "diag"):
            chk.count(1, (rec["ev"], rec["nf"], rec["qed"]))
        elif rec["ev"] in ("rotation", "sectors"):
            chk.count(1, (rec["ev"], rec["qed"]))
        elif rec["ev"] == "intrinsic-labels":
            chk.count(1, (rec["ev"], rec["nf"]))
        else:
            chk.count(1, (rec["ev"],))
    chk.sample({k: v for k, v in recs[1].items() if k != "rows"})
    chk.sample(next({"ev": x["ev"], "nf": x["nf"], "qed": x["qed"], "lab": x["lab"], "mat_row_9": x["mat"][8]}
                    for x in recs if x["ev"] == "proj" and not x["err"]))
    bad = F.validate(chk, recs, "real tables and projectors", batch=40)

    unavailable = {}
    for rec, verdict in bad:
        if verdict.startswith("DIAG:"):
            raise MachineryError(f"harness/spec mirror drift: {verdict} on {rec['ev']}")
        if verdict.startswith("CONF:"):
            chk.diag(f"{verdict} {rec['ev']} nf={rec.get('nf')} qed={rec.get('qed')} lab={rec.get('lab')}")
            continue
        if not verdict.startswith("C31:"):
            raise MachineryError(f"unexpected verdict {verdict}")
        b = BASIS[rec["qed"]] if "qed" in rec else "-"
        if verdict.startswith("C31:ad_projector-unavailable"):
            fp = f"C31:ad_projector-unavailable {b} sector={_sector(rec['lab'])}"
            unavailable.setdefault(fp, {"exc": verdict.split(":")[-1], "nfs": [], "lab": rec["lab"], "qed": rec["qed"]})
            unavailable[fp]["nfs"].append(rec["nf"])
        elif verdict.startswith("C31:ad_projectors-unavailable"):
            fp = f"C31:ad_projectors-unavailable {b}"
            unavailable.setdefault(fp, {"exc": verdict.split(":")[-1], "nfs": [], "lab": None, "qed": rec["qed"]})
            unavailable[fp]["nfs"].append(rec["nf"])
        elif rec["ev"] == "proj":
            chk.violation(
                f"{verdict} {b} nf={rec['nf']} sector={_sector(rec['lab'])}",
                f"ad_projector({tuple(rec['lab'])}, nf={rec['nf']}, qed={rec['qed']}) violates {verdict}",
                rec,
            )
        elif rec["ev"] in ("projs", "diag"):
            chk.violation(
                f"{verdict} {b} nf={rec['nf']}",
                f"{'ad_projectors' if rec['ev'] == 'projs' else 'diagonal sector projectors'}"
                f"(nf={rec['nf']}, qed={rec['qed']}) violate {verdict}",
                rec,
            )
        elif rec["ev"] == "intrinsic-labels":
            chk.violation(f"{verdict} nf={rec['nf']}", f"intrinsic_unified_evol_labels({rec['nf']}) = {rec['labels']} violates {verdict}", rec)
        else:
            chk.violation(f"{verdict} {b}", f"basis_rotation tables ({rec['ev']}, {b}) violate {verdict}", rec)
    for fp, info in sorted(unavailable.items()):
        if info["lab"] is None:
            call = f"ad_projectors(nf, qed={info['qed']})"
        else:
            call = f"ad_projector({tuple(info['lab'])}, nf, qed={info['qed']})"
        chk.violation(
            fp,
            f"{call} raises {info['exc']} for nf in {sorted(info['nfs'])}: the sector map is not "
            f"available although the sector belongs to the {BASIS[info['qed']]} anomalous-dimension basis",
            {"call": call, "nfs": sorted(info["nfs"]), "exception": info["exc"]},
        )
    chk.note("sector_calls", sum(1 for x in recs if x["ev"] == "proj"))
    chk.note("sector_calls_raising", sum(1 for x in recs if x["ev"] == "proj" and x["err"]))

    r, rf, _ = design.join()
    if r.violated:
        raise MachineryError(f"Flavors.tla: intended design violates {r.violated}: {r.counterexample()[:1500]}")
    chk.note("faithful_design_counterexample", rf.counterexample()[:400])

    # ---- binding demonstration: corrupted records must be rejected ------------------------
    good = next(x for x in recs if x["ev"] == "proj" and not x["err"] and tuple(x["lab"]) == (100, 21) and x["nf"] == 4)
    c1 = copy.deepcopy(good)
    c1["mat"][9][7] = [1, 7]  # u -> g entry of S.g (1/8) changed
    c2 = copy.deepcopy(next(x for x in recs if x["ev"] == "rotation" and not x["qed"]))
    c2["rows"][10][10] = [2, 1]  # T8: -2 s+ -> +2 s+
    c3 = copy.deepcopy(next(x for x in recs if x["ev"] == "rotation" and x["qed"]))
    c3["pids"][3] = 102
    c4 = copy.deepcopy(next(x for x in recs if x["ev"] == "diag"))
    c4["mats"] = c4["mats"][:-1] + [c4["mats"][0]]
    c5 = copy.deepcopy(next(x for x in recs if x["ev"] == "projs" and not x["err"]))
    c5["mats"][5] = c5["mats"][4]
    c6 = copy.deepcopy(next(x for x in recs if x["ev"] == "sectors" and x["qed"]))
    c6["entries"][3]["elems"] = [["g", "S"]]
    F.expect_rejected(chk, [c1, c2, c3, c4, c5, c6], "C31:", "corrupted records (must be rejected)")
