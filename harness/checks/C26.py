"""C26 real analyticity of anomalous dimensions and matching elements (mode L, EkoreLaws.tla)."""

import numpy as np

from harness.ekorelaws import engine as E
from harness.ekorelaws import registry as R
from harness.ekorelaws.classes import cls_equal, cls_real

META = {
    "id": "C26",
    "level": "exploration",
    "technique": "law Conj over a plan enumerated by TLC from the availability table of EkoreLaws.tla (which dispatcher exists for which variant/sector/order/nf/N3LO parametrisation); conjugation and real-axis classes of the real un-jitted dispatchers recorded as integers; trace validated by TLC (EkoreLawsTrace: every planned cell exactly once, none unplanned, every class as required)",
    "text": "For every dispatcher of ekore.anomalous_dimensions (unpolarised space-like incl. both N3LO parametrisations with variation indices, time-like, polarised, QED-extended grids at QED orders 1 and 2) and ekore.operator_matrix_elements (unpolarised space-like incl. the MSbar variant, polarised, time-like), every sector, order and nf the specification lists as available, the whole returned tower is evaluated at random N on the Talbot contours eko integrates on (singlet and non-singlet parameters) and at random N off the contour (Re N in (-2.5, 30), |Im N| <= 40), and at conj N; required: f(conj N) = conj f(N) and Im f(x) = 0 at real x in (1.2, 40) away from integers, both to class rounding (1e-11 relative to the largest entry; the unchanged tree is bitwise). L is drawn in [-3, 3] per cell.",
    "note": "Exploration over random points: J points per cell (6 quick, 40 thorough). Real-axis clause only for N > 1.2 (right of all poles) and at least 0.05 away from integers. Violations that are themselves real-analytic (e.g. a wrong real coefficient) are invisible to this law by construction.",
    "design_ref": "4.11, 5 C26",
    "rule": "cell = (family, variant, sector, order (k,q), nf, N3LO parametrisation, variation, point index); distinct by cell; all non-trivial",
}


def measure_cell(cell, seed):
    rng = E.cell_rng(seed, cell, "C26")
    singlet_like = cell["sec"] in ("S", "Smsbar", "V")
    n = R.point_on_talbot(rng, singlet_like) if cell["j"] % 2 == 1 else R.point_off_contour(rng)
    x = R.point_real(rng)
    L = rng.uniform(-3.0, 3.0)
    if cell["fam"] == "ad":
        def f(z):
            return R.ad_tower(cell["v"], cell["sec"], cell["k"], cell["q"], cell["nf"], cell["fl"], cell["var"], z)
    else:
        def f(z):
            return R.ome_tower(cell["v"], cell["sec"], cell["k"], cell["nf"], L, z)
    a = np.asarray(f(n))
    b = np.asarray(f(n.conjugate()))
    r = np.asarray(f(complex(x, 0.0)))
    obs = {"cj": cls_equal(b, np.conj(a)), "re": cls_real(r)}
    return obs, {"n": [n.real, n.imag], "x": x, "L": L, "size": float(np.max(np.abs(a)))}


def run(chk):
    J = E.points_per_cell(chk, 6, 40)
    cells = E.plan(chk, "C26", J)
    measured = E.measure(chk, cells, measure_cell)
    recs = [{"cell": c, "obs": o} for c, o, _ in measured]
    nb = 0
    for c, o, i in measured:
        chk.count(1, E.cell_key(c), nontrivial=i["size"] > 0)
        nb += o["cj"] == 0 and o["re"] == 0
    chk.note("cells_bitwise", f"{nb} of {len(measured)}")
    chk.sample({"cell": measured[0][0], "obs": measured[0][1], "info": measured[0][2]})
    chk.sample({"cell": measured[-1][0], "obs": measured[-1][1], "info": measured[-1][2]})
    bad, unres = E.validate(chk, "C26", J, recs, "measured cells of Conj")

    def describe(cell, obs, info):
        which = "f(conj N) != conj f(N)" if obs["cj"] > 1 else "Im f != 0 at real N"
        return (f"{cell['fam']} {cell['v']} sector {cell['sec']} order ({cell['k']},{cell['q']}) nf={cell['nf']} "
                f"{cell['fl']} var={cell['var']}: {which} at N={info['n']} x={info['x']} L={info['L']}: classes {obs}")

    E.report(chk, "C26", measured, bad, unres, ("fam", "v", "sec", "k", "q", "fl"), describe)

    def corrupt(r):
        if r["cell"]["j"] % 2:
            r["obs"]["cj"] = 4
        else:
            r["obs"]["re"] = 2

    E.binding_demo(chk, "C26", J, [recs[0], recs[1], recs[-1], recs[-2]], corrupt, "C26:")
    # vacuity guard: a plan without the matching elements must reject the real trace (unplanned cells)
    sub = [r for r in recs if r["cell"]["fam"] == "ome"][:20] + recs[:20]
    E.switch_guard(chk, "C26", J, sub, "plan-without-ome", "PLAN:unplanned-cell")
