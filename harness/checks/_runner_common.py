"""Shared by the Runner-based checks: the instance space of spec/Runner.tla in Python form."""
import itertools
import random

NFS = (3, 4, 5, 6)


def sorted_ms(tokens):
    return [m for m in itertools.product(tokens, repeat=3) if m[0] <= m[1] <= m[2]]


def random_instance(rng, ntok=6, max_targets=3, nfs=NFS, unsorted=0.0):
    toks = list(range(1, ntok + 1))
    ms = sorted(rng.choice(toks) for _ in range(3))
    if rng.random() < unsorted:
        rng.shuffle(ms)
    o = [rng.choice(toks), rng.choice(nfs)]
    n = rng.randrange(1, max_targets + 1)
    targets = []
    while len(targets) < n:
        t = [rng.choice(toks), rng.choice(nfs)]
        # bias: targets on walls and at the origin are the interesting corners
        u = rng.random()
        if u < 0.3:
            t[0] = rng.choice(ms)
        elif u < 0.4:
            t = list(o)
        if t not in targets:
            targets.append(t)
    return {"ms": list(ms), "o": o, "targets": targets}


def all_instances(tokens, max_targets):
    pts = [[s, nf] for s in tokens for nf in NFS]
    for ms in sorted_ms(tokens):
        for o in pts:
            for n in range(1, max_targets + 1):
                for ts in itertools.permutations(pts, n):
                    yield {"ms": list(ms), "o": list(o), "targets": [list(t) for t in ts]}


def path_len(inst):
    return max(abs(t[1] - inst["o"][1]) for t in inst["targets"]) + 1
