"""Shared machinery of the Store-based checks (C36, C37, C39): history generation (TLC
simulation of StoreMC, bounded-exhaustive enumeration), execution on real EKO objects in a
process pool, validation by TLC (StoreTraceMC)."""

import itertools
import multiprocessing as mp
import random
import re
import shutil
import tempfile

from harness.core import MachineryError, TLA_CP, SPEC, parse_tla_value

_RE_LAST = re.compile(r"^/\\ last = (\[.*\])\s*$", re.M)


def tlc_histories(chk, num, depth, seed):
    """Behaviours of StoreMC by `tlc -simulate`; returns lists of op dicts."""
    import subprocess

    out = tempfile.mkdtemp(prefix="verif-eko-sim-")
    try:
        cmd = ["java", f"-Djava.io.tmpdir={out}", "-cp", TLA_CP, "tlc2.TLC", "-simulate", f"file={out}/tr,num={num}",
               "-depth", str(depth), "-workers", "1", "-seed", str(seed), "-metadir", f"{out}/m",
               "-config", "StoreMC_sim.cfg", "StoreMC"]
        p = subprocess.run(cmd, cwd=str(SPEC), capture_output=True, text=True, timeout=900)
        if "Error" in p.stdout and "violated" not in p.stdout:
            raise MachineryError(f"simulation failed: {p.stdout[-1500:]}")
        hists = []
        import pathlib

        for f in sorted(pathlib.Path(out).glob("tr_*")):
            txt = f.read_text()
            ops = []
            for m in _RE_LAST.finditer(txt):
                rec = parse_tla_value(m.group(1))
                if rec["op"] == "init":
                    continue
                h = {"op": rec["op"]}
                if rec["k"] != "-":
                    h["k"] = rec["k"]
                if rec["v"] != "-":
                    h["v"] = rec["v"]
                if rec["f"] != "-":
                    h["f"] = rec["f"]
                if rec["m"] != "-":
                    h["m"] = rec["m"]
                ops.append(h)
            hists.append(ops)
        chk.cov["tlc_runs"].append({"module": "StoreMC", "cfg": "StoreMC_sim.cfg", "label": f"-simulate num={num} depth={depth} seed={seed}", "behaviours": len(hists)})
        return hists
    finally:
        shutil.rmtree(out, ignore_errors=True)


def H(op, **kw):
    return dict(op=op, **kw)


ALPHA_OBJ = [
    H("set", k="k1", v="a"), H("set", k="k1", v="e"), H("set", k="k2", v="e"),
    H("get", k="k1"), H("del", k="k1"), H("del", k="k2"), H("unload"), H("sync"),
    H("dump"), H("close"), H("drop"), H("withop", k="k1"), H("withop", k="k2"), H("deepcopy"),
]
ALPHA_WRITE = [
    H("set", k="k1", v="b"), H("set", k="k3", v="e"), H("update"), H("recipe"), H("dump"),
    H("get", k="k1"), H("del", k="k2"), H("setmeta", m="m1"), H("items"), H("close"), H("unload"), H("sync"),
    H("getrecipe"),
]
ALPHA_NONE = [H("create"), H("read"), H("edit"), H("createbad", v="suffix"), H("createbad", v="cards")]


def exhaustive_histories(length, alpha_obj=None, prefix=None, has=True):
    """All histories prefix . w with |w| = length over the state-aware alphabet."""
    alpha_obj = alpha_obj or ALPHA_OBJ
    res = []
    prefix0 = prefix if prefix is not None else [H("create")]

    def rec(prefix, has, n):
        if n == 0:
            res.append(prefix)
            return
        for a in alpha_obj if has else ALPHA_NONE:
            has2 = has
            if a["op"] == "drop":
                has2 = False
            elif a["op"] == "createbad":
                has2 = False
            elif a["op"] in ("create", "read", "edit"):
                has2 = True  # may fail; the driver skips calls that need an object
            rec(prefix + [a], has2, n - 1)

    rec(list(prefix0), has, length)
    return res


def _worker(args):
    seed, hist = args
    from harness.drivers import store

    return store.run_history(random.Random(seed), hist)


def execute(chk, hists):
    seeds = [chk.rng.randrange(2**31) for _ in hists]
    ctx = mp.get_context("fork")
    with ctx.Pool(16) as pool:
        traces = pool.map(_worker, list(zip(seeds, hists)), chunksize=8)
    return traces


def validate(chk, traces, cfg="StoreTraceMC.cfg", batch=1500):
    """Returns (bad, conf): bad = {trace index: (l, clause)} first failing clause per trace."""
    bad = {}
    conf = {}
    for b0 in range(0, len(traces), batch):
        part = traces[b0 : b0 + batch]
        r = chk.tlc("StoreTraceMC", cfg, trace=part, workers=1, label="trace validation")
        if r.violated:
            raise MachineryError(f"StoreTrace stopped: {r.out[-2000:]}")
        done = set()
        for t in r.printed():
            if t[0] == "DONE":
                done.add(t[1])
            elif t[0] == "BAD":
                i = b0 + t[1] - 1
                if i not in bad or t[2] < bad[i][0]:
                    bad[i] = (t[2], t[3])
            elif t[0] == "CONF":
                i = b0 + t[1] - 1
                conf.setdefault(i, []).append((t[2], t[3]))
        if done != set(range(1, len(part) + 1)):
            raise MachineryError(f"traces not consumed: {len(part) - len(done)} of {len(part)}")
        chk.cov["traces_validated_against_impl"] += len(part)
    return bad, conf


def ops_text(hist_events, upto):
    out = []
    for e in hist_events[:upto]:
        s = e["op"]
        if e["k"] != "-":
            s += f"({e['k']}" + (f",{e['v']}" if e["v"] != "-" else "") + (",np" if e["f"] == "np" else "") + ")"
        out.append(s)
    return " ".join(out)


def report(chk, prefix, traces, bad, conf):
    """One violation per failing clause: the shortest failing history."""
    best = {}
    for i, (l, clause) in bad.items():
        if not clause.startswith(prefix):
            chk.diag(f"other property clause {clause} in trace {i} at step {l}")
            continue
        if clause not in best or l < best[clause][0]:
            best[clause] = (l, i)
    for clause, (l, i) in sorted(best.items()):
        text = ops_text(traces[i], l)
        chk.violation(f"{clause} after {text}", f"{clause} at step {l} of history: {text}; reply={traces[i][l-1]['reply']}", traces[i][:l])
    if conf:
        kinds = {}
        for i, lst in conf.items():
            for l, op in lst:
                kinds[op] = kinds.get(op, 0) + 1
        chk.diag(f"conformance mismatches (recorded step is not the Store.tla action): {kinds}")
        chk.note("conformance_mismatches", kinds)
    else:
        chk.note("conformance_mismatches", {})
