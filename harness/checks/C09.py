"""C09 singlet solutions reduce to non-singlet ones for diagonal towers (law DiagReduction)."""

from harness.laws import c09, engine

META = {
    "id": "C09",
    "level": "exploration",
    "technique": "TLA+ law plan (Laws.tla: SingletForm, NsCounterpart and the refinement parameter derived per method from the documented strategies; cells enumerated by TLC) + measurement of the real un-jitted singlet and non-singlet dispatchers + TLC trace validation (LawsTrace)",
    "text": "For random diagonal complex towers with distinct eigenvalues (orders 2-4, nf 3-6, both directions, all 8 methods) the singlet dispatcher must return a diagonal matrix whose entries equal the non-singlet dispatcher of the counterpart method on each entry: the same method, except that the path-ordered iterate-* kernels discretise the exact truncated ODE (counterpart iterate-exact) and the singlet ordered-truncated is the truncated form (doc/source/theory/DGLAP.rst). Class rounding for truncated, ordered-truncated, decompose-*; class convergent (residual shrinks by >= 3x when iterations double / ev_op_max_order grows by 2) for iterate-* and perturbative-*.",
    "note": "Clean residuals of the agreeing cells <= 1e-15 (required <= 1e-11); convergence exponents 1.99-2.00 (iterate, midpoint rule) and >= 3.8 (perturbative, couplings <= 0.02 so that the U series is well inside its radius), required >= 1.58. The design switch SameMethodCounterpart (counterpart = same method name) is refuted by the clean trace and by the lemmas. Off-diagonal entries are measured relative to the larger diagonal entry.",
    "design_ref": "1 (mode L), 4.11, 5 C09",
    "rule": "cell = (method, order, nf, direction); 10 (quick) / 100 (thorough) seeded towers and coupling pairs per cell; worst residual / smallest convergence exponent recorded",
}


def run(chk):
    engine.run_law(chk, "C09", c09.measure, npts_quick=10, npts_thorough=100, remeasure_switches=("SameMethodCounterpart",))
