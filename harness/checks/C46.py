"""C46 PDF flavour projection (ekobox.genpdf.flavors): Flavors.tla on the design (B1); the real
pid_to_flavor / evol_to_flavor / project on integer blocks judged by TLC as exact rationals
(B3)."""

import copy
import itertools

from harness.core import MachineryError
from harness.drivers import flavors as F

META = {
    "id": "C46",
    "level": "model_checking",
    "technique": "TLA+ spec Flavors (predicate C46_Projection over exact rationals: components along the selected combinations kept, result inside their span, idempotent, identity on a complete orthogonal set; evolution distributions defined from their meaning), TLC on the design for nf 3-6 x {QCD,QED} families; real ekobox.genpdf.flavors.pid_to_flavor / evol_to_flavor / project outputs on integer PDF blocks validated by TLC trace spec FlavorsTrace",
    "text": "The real project() is called (twice, for idempotence) on PDF blocks with small integer data (random PID subsets in random order, 1-3 points, 1-2 blocks per call) for: every PID subset of size <= 3 and its complement (quick: sizes <= 2, their complements and a seeded sample of size 3), every subset of evolution labels of size <= 2 and its complement, and random orthogonal integer combinations (sub-families of random complete orthogonal bases of Z^14, with data points lying in the orthogonal complement); pid_to_flavor and evol_to_flavor outputs are checked against unit vectors and the distributions defined from their physical meaning. All numbers travel as exact rationals and TLC evaluates: components along every selected combination unchanged, result reconstructed from those components (nothing orthogonal to the selection survives), second projection equal to the first, identity for a complete orthogonal family, output PID layout.",
    "note": "The statement concerns orthogonal families (PIDs, evolution-basis rows, orthogonal custom combinations); the specification checks that hypothesis on every record. Data are integers in -9..9 so every float is an exact small rational (guarded).",
    "design_ref": "4.1, 4.6, 5 C46",
    "rule": "instance = (family kind, selection, blocks); non-trivial = non-empty selection and non-zero input; distinct by selection and block contents",
}


def _complement(sel, universe):
    return [x for x in universe if x not in sel]


def run(chk):
    from eko import basis_rotation as br

    design = F.Design(chk)
    design.run("FlavorsMC_C46.cfg", "design: projection on sub-families of the evolution bases and of the PIDs")
    design.run("FlavorsMC_C46_nonorm.cfg", "switch: projector not divided by e.e", expect_violation="InvC46", workers=2)

    rng = chk.rng
    pids = [int(p) for p in br.flavor_basis_pids]
    labels = [str(x) for x in br.evol_basis]
    recs = []

    # ---- PID selections ---------------------------------------------------------------------
    pid_sets = [list(c) for k in (0, 1, 2) for c in itertools.combinations(pids, k)]
    triples = [list(c) for c in itertools.combinations(pids, 3)]
    pid_sets += triples if chk.thorough() else rng.sample(triples, 40)
    pid_sets += [_complement(s, pids) for s in list(pid_sets)]
    # ---- evolution-label selections ------------------------------------------------------------
    lab_sets = [list(c) for k in (0, 1, 2) for c in itertools.combinations(labels, k)]
    lab_sets += [_complement(s, labels) for s in list(lab_sets)]
    if not chk.thorough():
        lab_sets = rng.sample(lab_sets, 80) + [list(labels), []]
    for kind, sets in (("pid", pid_sets), ("evol", lab_sets)):
        for sel in sets:
            sel = list(sel)
            rng.shuffle(sel)
            rrec, arr = F.c46_reprs_record(kind, sel)
            recs.append(rrec)
            chk.count(1, ("reprs", kind, tuple(sel)), nontrivial=len(sel) > 0)
            if arr is None:
                continue
            blocks = F.random_blocks(rng)
            prec = F.c46_project_record(arr, blocks)
            prec["kind"] = kind
            prec["sel"] = [str(x) for x in sel]
            recs.append(prec)
            key = ("project", kind, tuple(sel), repr(blocks))
            chk.count(1, key, nontrivial=len(sel) > 0 and any(v for b in blocks for row in b["data"] for v in row))
    # ---- orthogonal custom combinations ----------------------------------------------------------
    for _ in range(1500 if chk.thorough() else 100):
        basis = F.random_orthogonal_basis(rng)
        u = rng.random()
        k = 14 if u < 0.15 else rng.randint(1, 13)
        sel, rest = basis[:k], basis[k:]
        blocks = F.random_blocks(rng, extra_vectors=rest or sel)
        prec = F.c46_project_record(sel, blocks)
        prec["kind"] = "custom"
        prec["sel"] = []
        recs.append(prec)
        chk.count(1, ("project", "custom", repr(sel), repr(blocks)))
    chk.sample({k: v for k, v in next(x for x in recs if x["ev"] == "project" and x["kind"] == "evol" and len(x["sel"]) == 2).items() if k != "reprs"})
    chk.sample({k: v for k, v in next(x for x in recs if x["ev"] == "project" and x["kind"] == "custom").items() if k in ("reprs", "blocks")})
    chk.note("project_calls", sum(1 for x in recs if x["ev"] == "project"))

    bad = F.validate(chk, recs, "real genpdf.flavors outputs", batch=150, threads=8)
    wrong_reprs = {(r["kind"], tuple(map(str, r["sel"]))) for r, v in bad if r["ev"] == "reprs" and v.startswith("C46:")}
    for rec, verdict in bad:
        if verdict.startswith("DIAG:"):
            # a family that is not orthogonal is outside the statement; it can only come from a
            # wrong pid_to_flavor / evol_to_flavor result, which is reported on its own record
            if rec["ev"] == "project" and (rec["kind"], tuple(rec["sel"])) in wrong_reprs:
                chk.diag(f"{verdict} {rec['kind']} {rec['sel']} (representation already reported)")
                continue
            raise MachineryError(f"harness generated an inadmissible record: {verdict}: {str(rec)[:400]}")
        if verdict.startswith("CONF:"):
            chk.diag(f"{verdict} {rec['ev']} {rec.get('kind')} {rec.get('sel')}")
            continue
        if not verdict.startswith("C46:"):
            raise MachineryError(f"unexpected verdict {verdict}")
        if rec["ev"] == "reprs":
            chk.violation(
                f"{verdict} {rec['kind']} sel={','.join(map(str, rec['sel']))}",
                f"{'pid_to_flavor' if rec['kind'] == 'pid' else 'evol_to_flavor'}({rec['sel']}) = {rec['out']} violates {verdict}",
                rec,
            )
        else:
            what = f"{rec['kind']} sel={','.join(rec['sel'])}" if rec["kind"] != "custom" else f"custom n={len(rec['reprs'])}"
            chk.violation(
                f"{verdict} {what}",
                f"project(blocks, reprs) violates {verdict} for {rec['kind']} selection {rec['sel'] or rec['reprs']} "
                f"on blocks {rec['blocks']}: out {rec['out']}",
                rec,
            )

    r, _ = design.join()
    if r.violated:
        raise MachineryError(f"Flavors.tla: design violates {r.violated}: {r.counterexample()[:1500]}")

    # ---- binding demonstration ---------------------------------------------------------------
    def pick(pred):
        return copy.deepcopy(next(x for x in recs if x["ev"] == "project" and not x["err"] and pred(x)))

    def bump(x):  # an exact rational different from x
        return [x[0] + x[1], x[1]]

    c1 = pick(lambda x: x["kind"] == "evol" and "S" in x["sel"] and len(x["sel"]) == 2)
    c1["out"][0]["data"][9][0] = bump(c1["out"][0]["data"][9][0])
    c2 = pick(lambda x: x["kind"] == "pid" and len(x["sel"]) == 3)
    c2["out2"][0]["data"][0][0] = bump(c2["out2"][0]["data"][0][0])
    c3 = pick(lambda x: x["kind"] == "custom" and len(x["reprs"]) == 14)
    c3["out"][0]["data"][3][0] = bump(c3["out"][0]["data"][3][0])
    c3["out2"] = copy.deepcopy(c3["out"])
    c4 = copy.deepcopy(next(x for x in recs if x["ev"] == "reprs" and x["kind"] == "evol" and "T8" in x["sel"]))
    j = c4["sel"].index("T8")
    c4["out"][j][10] = [2, 1]
    c5 = pick(lambda x: x["kind"] == "pid" and len(x["sel"]) == 3)
    j = next(k for k, p in enumerate(pids) if str(p) not in c5["sel"])  # a PID outside the selection
    c5["out"][0]["data"][j][0] = [1, 1]
    c5["out2"] = copy.deepcopy(c5["out"])
    rej = F.expect_rejected(chk, [c1, c2, c3, c4, c5], "C46:", "corrupted records (must be rejected)")
    if rej[5] != "C46:removes-orthogonal":
        raise MachineryError(f"binding demonstration: leak outside the selection reported as {rej[5]}")
