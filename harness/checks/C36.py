"""C36 EKO archives round-trip all their content."""
import multiprocessing as mp

from harness.checks import _store_common as sc
from harness.checks._store_common import H
from harness.core import MachineryError

META = {
    "id": "C36",
    "level": "model_checking",
    "technique": "TLA+ spec Store (persistence invariants C37_Persistent/C36_Meta, key-form switch NpHeader) checked by TLC; close/re-read/edit histories replayed on real EKO objects and validated by TLC (StoreTrace clauses C36:*); random content round-trip experiments judged by the TLA+ predicate StoreContent!Verdict",
    "text": "B1: TLC checks on the Store design that what a reader sees in the archive equals the dictionary at the time of the last close/dump, for keys given as Python or NumPy numbers (switch NpHeader must produce a counterexample). B2/B3: (i) histories over create/set(py|np)/setmeta/update/close/edit/read are executed on real EKOs and every step is validated by TLC; (ii) random experiments write 1-10 evolution points (Python float, NumPy float64/float32/int64, int, neighbours one ulp apart) with random operators (any shape, with/without errors, signed zeros, inf, nan, denormals), random theory/operator cards and metadata, re-read, then edit (overwrite, add, update metadata), re-read; the harness records which points and which arrays came back bitwise and TLC decides the round-trip predicate.",
    "note": "Cards are compared with the library's own equality (dataclass ==; XGrid equality ignores the log flag, which is C40's subject). Arrays are compared by dtype, shape and bytes.",
    "design_ref": "5 C36",
    "rule": "experiment = random cards + 1-10 keyed operators + edit phase; distinct by seed; non-trivial = at least 2 points or an error tensor",
}

PRE = [H("create"), H("set", k="k1", v="a", f="np"), H("set", k="k2", v="e"), H("setmeta", m="m1"), H("update")]
ALPHA = [H("set", k="k1", v="e", f="np"), H("set", k="k3", v="b", f="np"), H("set", k="k2", v="a"), H("del", k="k1"),
         H("setmeta", m="m1"), H("setmeta", m="m0"), H("update"), H("dump"), H("close"), H("drop"), H("unload")]


def _exp(seed):
    from harness.drivers import store_content

    return store_content.experiment(seed)


def run(chk):
    for _cfg in (("StoreMC.cfg",) if chk.thorough() else ("StoreMC_quick.cfg", "StoreMC_nocopy.cfg")):
        r = chk.tlc("StoreMC", _cfg, label=_cfg + ": " + "design: persistence and metadata invariants")
        if r.violated:
            raise MachineryError(f"Store design violates {r.violated}: {r.counterexample()[:3000]}")
    chk.tlc("StoreMC", "StoreMC_NpHeader.cfg", expect_violation=True, label="vacuity guard: NumPy-scalar header")
    chk.tlc("StoreMC", "StoreMC_ExtClash.cfg", expect_violation=True, label="vacuity guard: stale file of the other kind")
    # (i) histories
    hists = []
    for L in range(1, 4 if chk.thorough() else 3):
        hists += sc.exhaustive_histories(L, alpha_obj=ALPHA, prefix=PRE)
    hists += sc.tlc_histories(chk, 500 if chk.thorough() else 100, 18, chk.seed % 100000 + 2)
    traces = sc.execute(chk, hists)
    bad, conf = sc.validate(chk, traces)
    sc.report(chk, "C36:", traces, bad, conf)
    chk.sample({"history": sc.ops_text(traces[3], len(traces[3]))})
    chk.count(len(hists))
    # (ii) content experiments
    n = 3000 if chk.thorough() else 400
    seeds = [chk.rng.randrange(2**31) for _ in range(n)]
    with mp.get_context("fork").Pool(16) as pool:
        recs = pool.map(_exp, seeds, chunksize=8)
    for rec in recs:
        chk.count(1, rec["seed"], nontrivial=len(rec["p1"]["expect"]) >= 2)
    chk.sample(recs[0])
    res = chk.tlc("StoreContent", "StoreContent.cfg", trace=recs, workers=1, label="content round-trip verdicts")
    if res.violated or not res.completed:
        raise MachineryError(f"StoreContent not accepted: {res.out[-1500:]}")
    chk.cov["traces_validated_against_impl"] += len(recs)
    seen = set()
    for t in res.printed("BAD"):
        rec = recs[t[1] - 1]
        if t[2] in seen:
            continue
        seen.add(t[2])
        chk.violation(f"{t[2]} forms={sorted(set(rec['forms']))}", f"{t[2]} in experiment seed={rec['seed']}: {rec}", rec)
    # binding demonstration
    import copy
    c = copy.deepcopy(recs[0])
    c["p1"]["same"] = c["p1"]["same"][:-1]
    r2 = chk.tlc("StoreContent", "StoreContent.cfg", trace=[c], workers=1, label="corrupted record (must be rejected)")
    if not r2.printed("BAD"):
        raise MachineryError("binding demonstration failed")
