"""C03 EKOs do not depend on parallel schedule, target order or co-computed targets."""
import itertools
import multiprocessing as mp
import random

from harness.checks import _runner_common as rc
from harness.core import MachineryError

META = {
    "id": "C03",
    "level": "model_checking",
    "technique": "TLA+ specs Pool (all interleavings of chunked Pool.map with ordered collection; switches OrderedCollect/WorkerState must be refuted) and Runner (C03_TargetFree over every processing order); families of real solves (1/2/3/negative core counts, every permutation and sub-set of the targets) with per-process logs of run_op_integration; TLC (PoolTrace) checks log conformance and bitwise equality of operator and error digests within each family",
    "text": "B1: TLC explores every interleaving of up to 3 workers over up to 6 grid points with chunked hand-out and verifies that the collected list is schedule-free; two design switches (completion-order collection, worker-local state) each yield a counterexample. The Runner design shows that the word of a target is a function of the instance and target alone for every iteration order of the recipe set. B2/B3: for random instances with 1-3 targets the real solver (real quadrature, 3-point grid, LO; NLO in thorough) runs with n_integration_cores in {1,2,3,-13}, with every permutation of the targets and every non-empty subset (a third of the base instances contain two targets of the same nf whose scales differ by a relative 1e-7; a third are structured: a target exactly on a matching scale with the lower nf, one crossing it and the same scale with the upper nf, under an expanded or exponentiated scale variation with ratio != 1; the rest are random with a scale variation); the sha256 of operator and error arrays per target must coincide across the whole family, and the per-process logs must show every grid point integrated exactly once.",
    "note": "Interleavings of real worker processes are those the OS produces in the runs (a handful per pool); the exhaustive interleaving argument is on the Pool model, bound by the logs (each item once, ordered collection observed through bitwise equal results).",
    "design_ref": "4.5, 5 C03",
    "rule": "family = (instance, target) with all runs containing that target (cores variants, permutations, subsets); non-trivial = family with >= 3 runs and a path of >= 2 segments",
}


def _solve(args):
    from harness.drivers import runner

    seed, inst, cores, order, label, sv, xif, xg = args
    tab = runner.scale_table(random.Random(seed))
    # token 6 is a near-duplicate of token 3 (relative 1e-7 in mu^2): a distinct target that
    # np.isclose would call equal
    tab[6] = tab[3] * (1 + 5e-8)
    r = runner.solve_real(inst, tab, cores=cores, pool_log=True, order=order, sv=sv, xif=xif, xgrid=xg)
    return {"label": label, "inst": inst, "err": r["err"], "ops": r["ops"], "pools": r["pools"]}


def run(chk):
    for cfg in ("Pool.cfg", "Pool_chunk2.cfg"):
        r = chk.tlc("Pool", cfg, coverage=True, label="pool design " + cfg)
        if r.violated:
            raise MachineryError(f"Pool design violated: {r.counterexample()[:2000]}")
    chk.tlc("Pool", "Pool_unordered.cfg", expect_violation="C03_ScheduleFree", label="vacuity guard: completion-order collection")
    chk.tlc("Pool", "Pool_workerstate.cfg", expect_violation="C03_ScheduleFree", label="vacuity guard: worker-local state")
    r = chk.tlc("RunnerMC", "RunnerMC_quick.cfg", label="runner design: C03_TargetFree for every processing order")
    if r.violated:
        raise MachineryError(f"Runner design violated {r.violated}")

    nbase = 6 if chk.thorough() else 3
    jobs = []
    bases = []
    for b in range(nbase):
        inst = rc.random_instance(chk.rng, ntok=5, max_targets=3, nfs=(3, 4, 5))
        while len(inst["targets"]) < 2 or rc.path_len(inst) < 2:
            inst = rc.random_instance(chk.rng, ntok=5, max_targets=3, nfs=(3, 4, 5))
        if b % 2 == 0:
            # a pair of nearly degenerate targets (same nf) among the co-targets
            nf = inst["targets"][0][1]
            inst["targets"] = [[3, nf], [6, nf]] + [t for t in inst["targets"][:1] if t[0] not in (3, 6)]
        sv, xif = None, 1.0
        if b % 3 == 1:
            # structured family: a target exactly on a matching scale with the lower nf, one that crosses
            # that scale, and the same scale with the upper nf - under a scale variation with ratio != 1
            # (the last segment of the first is built differently from the intermediate one of the second)
            if chk.rng.random() < 0.5:
                inst = {"ms": [2, 4, 5], "o": [1, 3], "targets": [[3, 4], [2, 3], [2, 4]]}
            else:
                inst = {"ms": [2, 4, 5], "o": [3, 4], "targets": [[5, 5], [4, 4], [4, 5]]}
            sv, xif = chk.rng.choice([("expanded", 1.4), ("expanded", 0.7), ("exponentiated", 1.4)])
        elif b % 3 == 2:
            sv, xif = chk.rng.choice([("exponentiated", 0.7), ("expanded", 1.3)])
        seed = chk.rng.randrange(2**31)
        order = (2, 0) if (chk.thorough() and b % 2) else (1, 0)
        # grids of 6, 3 and 5 points: the hand-out of grid points to 2 and 3 workers differs with the size
        xg = [[0.01, 0.05, 0.1, 0.3, 0.6, 1.0], [0.1, 0.5, 1.0], [0.02, 0.1, 0.3, 0.6, 1.0]][b % 3]
        bases.append(inst)
        ts = inst["targets"]
        for cores in (1, 2, 3, -13):
            jobs.append((seed, inst, cores, order, f"base{b}:cores={cores}", sv, xif, xg))
        for perm in list(itertools.permutations(ts))[1:]:
            jobs.append((seed, dict(inst, targets=[list(t) for t in perm]), 1, order, f"base{b}:target-order={list(perm)}", sv, xif, xg))
        for n in range(1, len(ts)):
            for sub in itertools.combinations(ts, n):
                jobs.append((seed, dict(inst, targets=[list(t) for t in sub]), 2 if n == 1 else 1, order, f"base{b}:co-targets={list(sub)}", sv, xif, xg))
    from concurrent.futures import ProcessPoolExecutor

    # executor workers are not daemonic, so the solver can start its own pools
    with ProcessPoolExecutor(8, mp_context=mp.get_context("fork")) as ex:
        outs = list(ex.map(_solve, jobs))
    recs = []
    fam = {}
    failed = [o for o in outs if o["err"]]
    if failed and len(failed) == len(outs):
        raise MachineryError(f"every solve failed, e.g. {failed[0]['label']}: {failed[0]['err']}")
    seenfail = set()
    for o in failed:
        # a run that fails while other variants of the same instance succeed: the outcome depends on the number of
        # workers / the order or set of targets
        variant = o["label"].split(":", 1)[1].split("=")[0]
        if variant not in seenfail:
            seenfail.add(variant)
            chk.violation(f"C03:solve-fails-for-a-variant variant={variant}", f"solve failed in {o['label']} while other variants of the instance succeed: {o['err'][:300]}", {"label": o["label"], "err": o["err"][:500]})
    outs = [o for o in outs if not o["err"]]
    for o in outs:
        for p in o["pools"]:
            recs.append({"ev": "pool", "n": p["n"], "items": p["items"], "log": p["log"], "label": o["label"]})
        b = o["label"].split(":")[0]
        for t, d in o["ops"].items():
            fam.setdefault((b, t), []).append({"variant": o["label"].split(":", 1)[1].split("=")[0], "label": o["label"], "digest": d[0] + d[1]})
    for (b, t), runs in sorted(fam.items()):
        recs.append({"ev": "family", "base": b, "target": t, "runs": runs})
        chk.count(len(runs), (b, t), nontrivial=len(runs) >= 3)
    chk.sample({"family": recs[-1]["base"], "target": recs[-1]["target"], "runs": [x["label"] for x in recs[-1]["runs"]]})
    chk.sample(next(x for x in recs if x["ev"] == "pool" and x["n"] > 1))
    res = chk.tlc("PoolTrace", "PoolTrace.cfg", trace=recs, workers=1, label="families and pool logs")
    if res.violated or not res.completed:
        raise MachineryError(f"PoolTrace not accepted: {res.out[-2000:]}")
    chk.cov["traces_validated_against_impl"] += len(recs)
    for t in res.printed("BAD"):
        rec = recs[t[1] - 1]
        if t[2].startswith("C03:"):
            chk.violation(f"{t[2]}", f"{t[2]}: family {rec['base']} target {rec['target']}: " + str([(x['label'], x['digest'][:10]) for x in rec['runs']]), rec)
        else:
            chk.diag(f"{t[2]}: {rec.get('label', rec.get('base'))}")
    bad = [{"ev": "family", "base": "x", "target": "1,3", "runs": [{"variant": "cores", "label": "a", "digest": "aa"}, {"variant": "target-order", "label": "b", "digest": "ab"}]}]
    r2 = chk.tlc("PoolTrace", "PoolTrace.cfg", trace=bad, workers=1, label="corrupted family (must be rejected)")
    if not [t for t in r2.printed("BAD") if t[2].startswith("C03:")]:
        raise MachineryError("binding demonstration failed")
