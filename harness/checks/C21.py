"""C21 scale-variation prescriptions equal their renormalisation-group expansions.

Spec: spec/ScaleVar.tla - the re-expansion a(mu^2) in powers of a(xi^2 mu^2) is derived by
solving the RGE as a truncated series (Picard iteration over polynomials in (a', L)); the
exponentiated scheme is gamma(R(a', L)) re-expanded, the expanded scheme the truncated
path-ordered exponential with non-commuting matrix coefficients kept in order; QED variants act
on the QCD axis and (alpha_em running) on the QED axis.
B1: spec/ScaleVarMC.tla (formulas of the implementation, transcribed, against the derivation on
domains complete by degree counting; 3 variants refuted).
B3: spec/ScaleVarTrace.tla on exact probes of gamma_variation(_qed), variation_as1/2/3,
(non_)singlet_variation(_qed), valence_variation_qed.
"""

import copy
import itertools
from fractions import Fraction

import numpy as np

from harness.core import MachineryError
from harness.drivers.exactprobe import lagrange_coeffs, pair, parallel_tlc, patched, to_fraction, validate_parallel

META = {
    "id": "C21",
    "level": "model_checking",
    "technique": "TLA+ spec ScaleVar derives the RG re-expansion (Picard solution of the RGE over truncated polynomials in (a', L)), the exponentiated map gamma -> gamma' and the truncated path-ordered exponential with non-commuting matrix coefficients; TLC compares the transcribed formulas with the derivation on degree-complete domains (3 wrong variants refuted) and judges exact probes of eko.scale_variations (integer towers / matrices, integer L, eko.beta patched to small integers or real nf 3-6) in the trace spec ScaleVarTrace",
    "text": "gamma_variation and gamma_variation_qed are called on unit and random integer towers (scalars and 2x2 matrices) for orders 1-4 x QED orders 0-2 x alpha_em running on/off with integer L; the returned array (a return value is required in every cell) must equal gamma(R(a',L)) re-expanded through the order, where R solves dR/dL = beta(R) as a truncated series. variation_as1/2/3, non_singlet_variation, singlet_variation (dimension 2-4) and the three *_variation_qed kernels are probed at a_s = 0..4 (a_em = 0..2), the exact coefficient matrices of a_s^j a_em^k are recovered and must equal the truncated path-ordered exponential K = 1 + Int Gamma K with Gamma(L) = gamma(R(a',L)), matrices kept in order.",
    "note": "beta coefficients: either eko.beta is replaced by small integers (symbolic dependence on beta0, beta1, beta2, beta_qed0 by degree counting) or left untouched for nf 3-6 (then TLC takes the values from the literature table Coeffs). QED truncation: pure powers a_s^j, a_em^k only (mixed O(a_s a_em) variations are documented as neglected).",
    "design_ref": "4.10, 5 C21, 8",
    "rule": "instance = (function, orders, alpha_em running, beta source, tower/matrices, L); non-trivial = order >= 2; distinct by the full tuple",
}

LS = [-2, -1, 1, 2, 3]


def _beta_patch(bs, bqed):
    import eko.beta as B

    def beta_qcd(k, nf):
        return float({(2, 0): bs[0], (3, 0): bs[1], (4, 0): bs[2]}[tuple(k)])

    def beta_qcd_as2(nf):
        return float(bs[0])

    def beta_qcd_as3(nf):
        return float(bs[1])

    def beta_qcd_as4(nf):
        return float(bs[2])

    def beta_qed(k, nf, nl):
        return float({(0, 2): bqed[0]}[tuple(k)])

    def beta_qed_aem2(nf, nl):
        return float(bqed[0])

    # every entry point of eko.beta the variations may go through (dispatchers and order-wise functions): the
    # injected coefficients must not depend on HOW the code asks for them
    return [(B, "beta_qcd", beta_qcd), (B, "beta_qcd_as2", beta_qcd_as2), (B, "beta_qcd_as3", beta_qcd_as3),
            (B, "beta_qcd_as4", beta_qcd_as4), (B, "beta_qed", beta_qed), (B, "beta_qed_aem2", beta_qed_aem2)]


class BetaSrc:
    """Either patched small integers or the real coefficients at (nf, nl)."""

    def __init__(self, rng, real):
        self.real = real
        if real:
            self.nf = rng.choice([3, 4, 5, 6])
            self.nl = rng.choice([2, 3])
            self.bs = self.bqed = None
        else:
            self.nf = 4
            self.nl = 3
            self.bs = [rng.randint(0, 3), rng.randint(-1, 2), rng.randint(-1, 2)]
            self.bqed = [rng.randint(-2, 2)]

    def ctx(self):
        return patched([] if self.real else _beta_patch(self.bs, self.bqed))

    def fields(self):
        if self.real:
            return {"src": "real", "nf": self.nf, "nl": self.nl}
        return {"src": "patched", "bs": [[b, 1] for b in self.bs], "bsqed": [[b, 1] for b in self.bqed]}


def _rmat(rng, d, lim=2):
    return [[rng.randint(-lim, lim) for _ in range(d)] for _ in range(d)]


def _np_tower(gs, d):
    """list of d x d int matrices -> numpy array as eko passes it (scalars for d = 1)."""
    arr = np.array(gs, dtype=np.complex128)
    if d == 1:
        arr = arr.reshape(len(gs))
    return arr


def _np_grid(g, d):
    arr = np.array(g, dtype=np.complex128)
    if d == 1:
        arr = arr.reshape(len(g), len(g[0]))
    return arr


def _mat_out(x, d):
    """numpy scalar / matrix -> d x d list of (Fraction, exact)."""
    a = np.array(x, dtype=np.complex128).reshape(d, d)
    out = []
    ok = True
    for r in range(d):
        row = []
        for c in range(d):
            z = complex(a[r, c])
            fr, ex = to_fraction(z.real, maxden=1000)
            ok = ok and ex and z.imag == 0.0
            row.append(fr)
        out.append(row)
    return out, ok


def _pairs(m):
    return [[pair(x) for x in row] for row in m]


def expo_record(rng, n, d, gs, src):
    from eko.scale_variations import exponentiated as E

    cells = []
    ret = True
    ok = True
    for L in LS:
        g = _np_tower(gs, d)
        with src.ctx():
            out = E.gamma_variation(g, (n, 0), src.nf, float(L))
        if not isinstance(out, np.ndarray) or out.shape != g.shape:
            ret = False
            break
        mats = []
        for j in range(n):
            m, ex = _mat_out(out[j], d)
            ok = ok and ex
            mats.append(_pairs(m))
        cells.append({"L": L, "out": mats})
    rec = {"kind": "expo", "n": n, "d": d, "gs": gs, "cells": cells, "ret": ret, "exact": ok}
    rec.update(src.fields())
    return rec


def expoq_record(rng, o0, o1, running, d, src):
    from eko.scale_variations import exponentiated as E

    g = [[_rmat(rng, d) for _ in range(o1 + 1)] for _ in range(o0 + 1)]
    L = rng.choice(LS)
    arr = _np_grid(g, d)
    with src.ctx():
        out = E.gamma_variation_qed(arr, (o0, o1), src.nf, src.nl, float(L), running)
    rec = {"kind": "expoq", "o0": o0, "o1": o1, "running": bool(running), "d": d, "g": g, "L": L, "exact": True}
    rec.update(src.fields())
    if not isinstance(out, np.ndarray) or out.shape != arr.shape:
        rec["ret"] = False
        return rec
    rec["ret"] = True
    grid = []
    for j in range(o0 + 1):
        row = []
        for k in range(o1 + 1):
            m, ex = _mat_out(out[j, k], d)
            rec["exact"] = rec["exact"] and ex
            row.append(_pairs(m))
        grid.append(row)
    rec["out"] = grid
    return rec


def _interp_a(fn, d, npts=5):
    """fn(a) -> d x d; coefficient matrices of a^0..a^(npts-1) as Fractions."""
    xs = [Fraction(k) for k in range(npts)]
    vals = []
    ok = True
    for a in range(npts):
        m, ex = _mat_out(fn(float(a)), d)
        ok = ok and ex
        vals.append(m)
    co = [[[None] * d for _ in range(d)] for _ in range(npts)]
    for r in range(d):
        for c in range(d):
            cc = lagrange_coeffs(xs, [vals[k][r][c] for k in range(npts)])
            for k in range(npts):
                co[k][r][c] = cc[k]
    # a sixth point must be reproduced (the kernel is a polynomial of degree <= 3 in a)
    m6, ex = _mat_out(fn(float(npts)), d)
    for r in range(d):
        for c in range(d):
            if sum(co[k][r][c] * npts**k for k in range(npts)) != m6[r][c]:
                ok = False
    return co, ok and ex


def expa_record(rng, fn, n, d, gs, src):
    from eko.scale_variations import expanded as X

    cells = []
    ok = True
    for L in LS:
        g = _np_tower(gs, d)

        def call(a, g=g, L=L):
            with src.ctx():
                if fn == "non_singlet_variation":
                    return X.non_singlet_variation(g.copy(), a, (n, 0), src.nf, float(L))
                return X.singlet_variation(g.copy(), a, (n, 0), src.nf, float(L), d)

        co, ex = _interp_a(call, d)
        ok = ok and ex
        cells.append({"L": L, "coef": [_pairs(m) for m in co]})
    rec = {"kind": "expa", "fn": fn, "n": n, "d": d, "gs": gs, "cells": cells, "exact": ok}
    rec.update(src.fields())
    return rec


def expav_record(rng, k, d, gs, src):
    from eko.scale_variations import expanded as X

    bs = src.bs
    cells = []
    ok = True
    g = _np_tower(gs, d)
    if d == 1:
        g0, g1 = g[0], g[1]
        mm = lambda a, b: a * b  # noqa: E731
    else:
        g0, g1 = g[0], g[1]
        mm = lambda a, b: a @ b  # noqa: E731
    for L in LS:
        try:
            if k == 1:
                out = X.variation_as1(g, float(L))
            elif k == 2:
                out = X.variation_as2(g, float(L), float(bs[0]), mm(g0, g0))
            else:
                out = X.variation_as3(
                    g, float(L), float(bs[0]), float(bs[1]), mm(g0, g0), mm(mm(g0, g0), g0), mm(g1, g0), mm(g0, g1)
                )
        except TypeError:
            # the helper no longer has the documented signature (products handed in by the caller): it is
            # an internal of the dispatchers, which are judged on their own (kind "expa")
            return None
        m, ex = _mat_out(out, d)
        ok = ok and ex
        cells.append({"L": L, "out": _pairs(m)})
    rec = {"kind": "expav", "k": k, "d": d, "gs": gs, "cells": cells, "exact": ok}
    rec.update(src.fields())
    return rec


def expaq_record(rng, fn, o0, o1, running, src):
    from eko.scale_variations import expanded as X

    d = {"non_singlet_variation_qed": 1, "singlet_variation_qed": 4, "valence_variation_qed": 2}[fn]
    lim = 1 if d == 4 else 2
    g = [[_rmat(rng, d, lim) for _ in range(o1 + 1)] for _ in range(o0 + 1)]
    L = rng.choice(LS)
    arr = _np_grid(g, d)
    f = getattr(X, fn)
    ok = True
    per_aem = []
    for aem in range(3):

        def call(a, aem=aem):
            with src.ctx():
                return f(arr.copy(), a, float(aem), running, (o0, o1), src.nf, float(L))

        co, ex = _interp_a(call, d)
        ok = ok and ex
        per_aem.append(co)
    # interpolate in a_em (degree <= 2)
    xs = [Fraction(k) for k in range(3)]
    coef = [[[[None] * d for _ in range(d)] for _ in range(3)] for _ in range(5)]
    for j in range(5):
        for r in range(d):
            for c in range(d):
                cc = lagrange_coeffs(xs, [per_aem[k][j][r][c] for k in range(3)])
                for k in range(3):
                    coef[j][k][r][c] = cc[k]
    rec = {
        "kind": "expaq", "fn": fn, "o0": o0, "o1": o1, "running": bool(running), "d": d, "g": g, "L": L,
        "coef": [[_pairs(coef[j][k]) for k in range(3)] for j in range(5)], "exact": ok,
    }
    rec.update(src.fields())
    return rec


def build_records(chk):
    rng = chk.rng
    recs = []
    thorough = chk.thorough()
    # ---- exponentiated -----------------------------------------------------------------
    for n in range(1, 5):
        for k in range(n):  # unit towers: the linear map column by column
            gs = [[[1 if j == k else 0]] for j in range(n)]
            recs.append(expo_record(rng, n, 1, gs, BetaSrc(rng, False)))
        for _ in range(2 if thorough else 1):
            recs.append(expo_record(rng, n, 2, [_rmat(rng, 2) for _ in range(n)], BetaSrc(rng, False)))
        recs.append(expo_record(rng, n, 1, [_rmat(rng, 1, 3) for _ in range(n)], BetaSrc(rng, True)))
    combos = list(itertools.product(range(1, 5), range(0, 3), (True, False)))
    for idx, (o0, o1, running) in enumerate(combos):
        recs.append(expoq_record(rng, o0, o1, running, 1 + idx % 2, BetaSrc(rng, False)))
        recs.append(expoq_record(rng, o0, o1, running, 1, BetaSrc(rng, True)))
    # ---- expanded ----------------------------------------------------------------------
    for n in range(1, 5):
        recs.append(expa_record(rng, "non_singlet_variation", n, 1, [_rmat(rng, 1, 3) for _ in range(n)], BetaSrc(rng, False)))
        recs.append(expa_record(rng, "singlet_variation", n, 2, [_rmat(rng, 2) for _ in range(n)], BetaSrc(rng, False)))
        recs.append(expa_record(rng, "singlet_variation", n, 3, [_rmat(rng, 3, 1) for _ in range(n)], BetaSrc(rng, n % 2 == 0)))
        recs.append(expa_record(rng, "non_singlet_variation", n, 1, [_rmat(rng, 1, 3) for _ in range(n)], BetaSrc(rng, True)))
    recs.append(expa_record(rng, "singlet_variation", 4, 2, [_rmat(rng, 2) for _ in range(4)], BetaSrc(rng, True)))
    recs.append(expa_record(rng, "singlet_variation", 4, 4, [_rmat(rng, 4, 1) for _ in range(4)], BetaSrc(rng, False)))
    for k in (1, 2, 3):
        for d in (1, 2):
            r = expav_record(rng, k, d, [_rmat(rng, d) for _ in range(3)], BetaSrc(rng, False))
            if r is None:
                chk.diag(f"variation_as{k} does not accept the documented arguments: helper-level record skipped, dispatchers judged")
            else:
                recs.append(r)
    fns = ["non_singlet_variation_qed", "valence_variation_qed", "singlet_variation_qed"]
    for idx, (o0, o1, running) in enumerate(combos):
        # the non-singlet and the valence kernel at every (order, running); the singlet kernel (4 x 4 symbolic
        # matrices: the expensive one for TLC) at every combination in the thorough tier, in the quick tier at the
        # highest orders plus a rotating third of the others
        todo = ["non_singlet_variation_qed", "valence_variation_qed"]
        if thorough or (o0, o1) in ((4, 2), (2, 2), (3, 1), (1, 0)) or idx % 3 == 2:
            todo.append("singlet_variation_qed")
        for q, fn in enumerate(todo):
            recs.append(expaq_record(rng, fn, o0, o1, running, BetaSrc(rng, (idx + q) % 4 == 3)))
    return recs


def _key(rec):
    return (
        rec["kind"], rec.get("fn", ""), rec.get("n", rec.get("k", (rec.get("o0"), rec.get("o1")))),
        rec.get("running", ""), rec["src"], str(rec.get("gs", rec.get("g"))), rec.get("L", ""),
    )


def run(chk):
    # ---- B1 ---------------------------------------------------------------------------------
    cfg = "ScaleVarMC_thorough.cfg" if chk.thorough() else "ScaleVarMC.cfg"
    variants = (("b1b0_coeff", "InvExpo"), ("commuted", "InvExpa"), ("b0g0e2", "InvExpa"))
    jobs = [
        {"module": "ScaleVarMC", "cfg": cfg, "workers": 12,
         "label": "formulas of eko.scale_variations (transcribed) = RG derivation; textbook re-expansion"}
    ] + [
        {"module": "ScaleVarMC", "cfg": f"ScaleVarMC_{v}.cfg", "workers": 2, "expect_violation": inv,
         "label": f"variant {v} (must be refuted)"}
        for v, inv in variants
    ]
    r = parallel_tlc(chk, jobs)[0]
    design_ok = not r.violated
    if r.violated or not r.completed:
        chk.diag(f"design counterexample {r.violated}: {r.counterexample()[:1500]}")
    chk.note("variants_refuted", 3)

    # ---- B3 ---------------------------------------------------------------------------------
    recs = build_records(chk)
    for rec in recs:
        order = rec.get("n", rec.get("o0", rec.get("k", 0) + 1))
        chk.count(1, _key(rec), nontrivial=order >= 2)
        if not rec.get("exact", True):
            chk.diag(f"probe not exact (non-rational output): {rec['kind']} {rec.get('fn', '')}")
    chk.sample({k: v for k, v in recs[1].items()})
    chk.sample({k: v for k, v in next(x for x in recs if x["kind"] == "expoq" and x["o1"] == 2).items()})

    bad = validate_parallel(chk, "ScaleVarTrace", "ScaleVarTrace.cfg", recs, "exact probes of eko.scale_variations vs RG derivation", nchunks=6)
    for idx, verdict in bad:
        rec = recs[idx]
        if not verdict.startswith("C21:"):
            raise MachineryError(f"trace format rejected: {verdict}")
        inst = {k: rec[k] for k in ("n", "o0", "o1", "running", "src", "bs", "bsqed", "nf", "nl", "L", "gs", "g", "fn", "k") if k in rec}
        chk.violation(verdict, f"{verdict}: instance {inst}", rec)

    if not design_ok and not chk.violations:
        raise MachineryError("ScaleVar.tla transcription violates C21 but the implementation does not: spec is wrong")

    # ---- binding demonstration ----------------------------------------------------------------
    def bump(p):
        return [p[0] + p[1], p[1]]

    g1 = next(x for x in recs if x["kind"] == "expo" and x["n"] == 4 and x["ret"])
    c1 = copy.deepcopy(g1)
    c1["cells"][2]["out"][3][0][0] = bump(c1["cells"][2]["out"][3][0][0])
    g2 = next((x for x in recs if x["kind"] == "expoq" and x["ret"] and x["o1"] == 2 and x["running"]), None)
    g3 = next(x for x in recs if x["kind"] == "expa" and x["n"] == 4 and x["d"] == 2)
    c3 = copy.deepcopy(g3)
    c3["cells"][0]["coef"][3][0][1] = bump(c3["cells"][0]["coef"][3][0][1])
    g4 = next(x for x in recs if x["kind"] == "expaq" and x["o1"] == 2 and x["running"] and x["d"] <= 2)
    c4 = copy.deepcopy(g4)
    c4["coef"][0][1][0][0] = bump(c4["coef"][0][1][0][0])
    corrupted = [c1, c3, c4]
    g5 = next((x for x in recs if x["kind"] == "expav" and x["k"] == 3), None)
    if g5 is not None:
        c5 = copy.deepcopy(g5)
        c5["cells"][1]["out"][0][0] = bump(c5["cells"][1]["out"][0][0])
        corrupted.append(c5)
    if g2 is not None:
        c2 = copy.deepcopy(g2)
        c2["out"][0][2][0][0] = bump(c2["out"][0][2][0][0])
        corrupted.append(c2)
    rej = {i for i, v in validate_parallel(chk, "ScaleVarTrace", "ScaleVarTrace.cfg", corrupted, "corrupted records (must be rejected)", nchunks=1) if v.startswith("C21:")}
    chk.cov["traces_validated_against_impl"] -= len(corrupted)
    if rej != set(range(len(corrupted))):
        raise MachineryError(f"binding demonstration failed: corrupted records accepted ({rej})")
    chk.note("binding_demo", f"{len(corrupted)} corrupted records rejected by ScaleVarTrace")
