"""C16 (exact-algebra part) coupling threshold matching follows the decoupling relations.

Spec: spec/Decoupling.tla - published constants of the decoupling relation (POLE, MSBAR) and the
logarithmic coefficients DERIVED from renormalisation-group invariance of both couplings (and of
the running heavy-quark mass in the MSBAR scheme) by Picard iteration over truncated polynomials
in (a, L), with the beta / gamma_m coefficients of spec/Coeffs.tla.
B1: spec/DecouplingMC.tla - the derivation reproduces the published logarithms (Vogt 2004 for
POLE, Chetyrkin-Kniehl-Steinhauser 1997 eq. 22 for MSBAR), the printed decimals agree with the
exact three-loop constants; 3 altered RG equations refuted.
B3: spec/DecouplingTrace.tla on the exactly recovered tables of
eko.couplings.compute_matching_coeffs_up/down: every cell, continuity, down o up = identity.
The state-machine part of C16 (matching loop of Couplings.a along Atlas paths) is a separate check.
"""

import copy

from harness.core import MachineryError
from harness.drivers.exactprobe import pair, parallel_tlc, to_fraction
from fractions import Fraction

META = {
    "id": "C16",
    "level": "model_checking",
    "technique": "TLA+ spec Decoupling: published decoupling constants + logarithmic coefficients derived in the spec from RG invariance (Picard solution in L over truncated polynomials in (a, L), literature beta/gamma_m from Coeffs); TLC proves the derivation equal to the published logarithms for POLE and MSBAR, nl 3-5, and refutes 3 altered RG equations; the tables of eko.couplings are recovered exactly and judged cell by cell by the TLC trace spec DecouplingTrace, together with continuity and the composition-inverse law; values of real Couplings.a queries validated by CouplingStepsTrace against the composition of the steps TLC derives from Atlas!Path (per-patch runs and decoupling steps: quark, direction, nl), evaluated with the library's own primitives; the way the implementation organises its internal calls is recorded at conformance grade only",
    "text": "For POLE and MSBAR and nl = 3,4,5 the 4x4 tables returned by compute_matching_coeffs_up and compute_matching_coeffs_down are recovered as exact rationals / printed decimals. TLC requires: constants c20, c30 equal to the published values; c10 = 0 and an empty a^1 row (unit ratio at L = 0 for LO and NLO); every logarithmic coefficient c11, c21, c22, c31, c32, c33 equal to the value that renormalisation-group invariance dictates, derived in the spec from beta^(nl), beta^(nl+1) and, for MSBAR, gamma_m^(nl+1); down(up(a)) = up(down(a)) = a as polynomials in (a, L) through every order 1-4.",
    "note": "MSBAR: L = ln(mu^2/m(mu)^2) with the running mass of the (nl+1)-flavour theory, the convention under which the code's c20 = -22/9 and c21 = 22/3 are the published ones. Step structure (mode S): for random matching scales, reference points in ANY patch (also outside their natural one or exactly on a matching scale) and any target, TLC (CouplingStepsTrace, PlanInv) derives from Atlas!Path the list of steps the query requires; the harness composes exactly these steps with Couplings.compute of a fresh object and the coefficient tables judged above, and TLC requires the value returned by the real Couplings.a to equal that composition (relative difference <= 1e-12): the coupling depends only on the path dictated by the matching scales. At LO the decoupling factor is 1, so a wrong table is unobservable there (and harmless). Recording wrappers (which ratio is read, which table is requested, which per-patch solutions are computed) are kept as conformance diagnostics: a refactor that hoists or caches these calls is not a violation. History independence of the same object is C17",
    "design_ref": "4.10, 5 C16",
    "rule": "instance = (scheme, nl); 16 cells of the upward table + inverse law per instance; all non-trivial",
}


def _entry(x):
    fr, ex = to_fraction(x, maxden=2000, tol=1e-9)
    if ex:
        return fr, True
    dec = Fraction(round(float(x) * 10**5), 10**5)
    if abs(float(dec) - float(x)) <= 1e-9:
        return dec, True
    return fr, False


def _table(t):
    out, ok = [], True
    for n in range(4):
        row = []
        for l in range(4):
            fr, ex = _entry(t[n][l])
            ok = ok and ex
            row.append(pair(fr))
        out.append(row)
    return out, ok


def run(chk):
    from eko import couplings

    variants = (("fixed_mass", "InvLogs"), ("same_beta", "InvLogs"), ("gamma_nl", "InvLogs"))
    jobs = [
        {"module": "DecouplingMC", "cfg": "DecouplingMC.cfg", "workers": 6,
         "label": "RG-derived logarithms = published (POLE: Vogt 2004; MSBAR: CKS 1997), decimals = exact constants"}
    ] + [
        {"module": "DecouplingMC", "cfg": f"DecouplingMC_{v}.cfg", "workers": 2, "expect_violation": inv,
         "label": f"altered RG equation {v} (must be refuted)"}
        for v, inv in variants
    ]
    r = parallel_tlc(chk, jobs)[0]
    if r.violated or not r.completed:
        raise MachineryError(f"Decoupling.tla is internally inconsistent: {r.violated} {r.counterexample()[:800]}")
    chk.note("altered_rg_equations_refuted", 3)

    recs = []
    for scheme in ("POLE", "MSBAR"):
        for nl in (3, 4, 5):
            up, ok1 = _table(couplings.compute_matching_coeffs_up(scheme, nl))
            down, ok2 = _table(couplings.compute_matching_coeffs_down(scheme, nl))
            recs.append({"scheme": scheme, "nl": nl, "up": up, "down": down, "exact": bool(ok1 and ok2)})
            chk.count(17, (scheme, nl), nontrivial=True)
    chk.sample(recs[0])
    chk.sample(recs[3])
    r = chk.tlc("DecouplingTrace", "DecouplingTrace.cfg", trace=recs, workers=1, label="eko.couplings decoupling tables vs constants + RG-derived logarithms")
    if r.violated or not r.completed:
        raise MachineryError(f"DecouplingTrace not accepted: {r.out[-1500:]}")
    chk.cov["traces_validated_against_impl"] += len(recs)
    per_cell = {}
    for t in r.printed("BAD"):
        rec, verdict = recs[t[1] - 1], t[2]
        if not verdict.startswith("C16:"):
            raise MachineryError(f"trace format rejected: {verdict}")
        if " cells " in verdict:
            head, names = verdict.split(" cells ")
            for name in names.split():
                per_cell.setdefault(f"{head} {name}", []).append(rec)
        else:
            per_cell.setdefault(verdict, []).append(rec)
    for fp, rs in sorted(per_cell.items()):
        vals = ""
        if fp[-3:-2] == "c" and fp[-2:].isdigit():
            n, l = int(fp[-2]), int(fp[-1])
            vals = "; implementation values " + ", ".join(f"nl={x['nl']}: {Fraction(*x['up'][n][l])}" for x in rs)
        chk.violation(fp, f"{fp}: differs from the published constant / RG-required coefficient for nl in {[x['nl'] for x in rs]}{vals}", {"records": rs})

    # vacuity guard of the trace spec: with the mass held fixed the MSBAR logarithms must be rejected
    rv = chk.tlc("DecouplingTrace", "DecouplingTrace_fixed_mass.cfg", trace=recs, workers=1, label="altered RG equation vs real tables (must disagree on MSBAR c21)")
    if not any("MSBAR" in t[2] and "c21" in t[2] for t in rv.printed("BAD")):
        raise MachineryError("vacuity guard: fixed-mass RG equation not distinguished on the MSBAR table")
    # binding demonstration on a table that TLC accepted
    bad_idx = {t[1] - 1 for t in r.printed("BAD")}
    base = next((x for k, x in enumerate(recs) if k not in bad_idx), None)
    if base is None:
        chk.diag("binding demonstration skipped: no accepted table to corrupt")
        return
    c1 = copy.deepcopy(base)
    c1["up"][3][2] = [c1["up"][3][2][0] + c1["up"][3][2][1], c1["up"][3][2][1]]
    c2 = copy.deepcopy(base)
    c2["up"][1][0] = [1, 1]  # discontinuity at NLO
    c3 = copy.deepcopy(base)
    c3["down"][2][1] = [c3["down"][2][1][0] + c3["down"][2][1][1], c3["down"][2][1][1]]
    rc = chk.tlc("DecouplingTrace", "DecouplingTrace.cfg", trace=[c1, c2, c3], workers=1, label="corrupted tables (must be rejected)")
    got = {t[1]: t[2] for t in rc.printed("BAD")}
    if not ("c32" in got.get(1, "") and "c10" in got.get(2, "") and "inverse" in got.get(3, "")):
        raise MachineryError(f"binding demonstration failed: {got}")
    chk.note("binding_demo", "3 corrupted tables rejected (logarithm, NLO discontinuity, non-inverse downward table)")

    # ---- step structure: reference point in any patch, target in any patch ------------------
    import multiprocessing as mp

    from harness.drivers import couplings as cpl

    n = 6000 if chk.thorough() else 800
    seeds = [chk.rng.randrange(2**31) for _ in range(n)]
    with mp.get_context("fork").Pool(16) as pool:
        srecs = pool.map(cpl.steps_instance, seeds, chunksize=16)
    for sr in srecs:
        chk.count(1, (tuple(sr["ms"]), tuple(sr["ref"]), tuple(sr["target"])), nontrivial=len(sr["dec"]) >= 1)
    nums = [sr.pop("_num") for sr in srecs]
    # the steps the path dictated by the matching scales requires, from the specification
    rp = chk.tlc("CouplingStepsTrace", "CouplingStepsPlan.cfg", trace=srecs, workers=1, label="steps required by Atlas!Path for every query (plan)")
    if rp.violated or not rp.completed:
        raise MachineryError(f"CouplingStepsTrace plan not produced: {rp.out[-1500:]}")
    plans = {t[1] - 1: t[2] for t in rp.printed("PLAN")}
    if len(plans) != len(srecs):
        raise MachineryError(f"plan not read: {len(plans)} of {len(srecs)}")
    worst = 0.0
    for k, (sr, num) in enumerate(zip(srecs, nums)):
        if num["val"] is None:
            continue
        exp = cpl.steps_expected(num, plans[k])
        rel = max(abs(e - v) / max(abs(v), 1e-300) for e, v in zip(exp, num["val"]))
        sr["val"] = "eq" if rel <= 1e-12 else "neq"
        sr["_rel"] = rel
        if rel <= 1e-12:
            worst = max(worst, rel)
    chk.note("value_clause", {"tolerance": 1e-12, "largest accepted relative difference": worst,
                              "queries with >= 2 decoupling steps": sum(1 for x in plans.values() if sum(1 for s in x if s["k"] == "dec") >= 2)})
    rels = [sr.pop("_rel", None) for sr in srecs]
    chk.sample(next((x for k, x in enumerate(srecs) if sum(1 for s in plans[k] if s["k"] == "dec") >= 2), srecs[0]))
    rs = chk.tlc("CouplingStepsTrace", "CouplingStepsTrace.cfg", trace=srecs, workers=1, label="values of real queries vs composition along Atlas!Path")
    if rs.violated or not rs.completed:
        raise MachineryError(f"CouplingStepsTrace not accepted: {rs.out[-1500:]}")
    chk.cov["traces_validated_against_impl"] += len(srecs)
    seen = set()
    for t in rs.printed("BAD"):
        sr = srecs[t[1] - 1]
        fp = f"{t[2]} order={sr['order']}" if "value" in t[2] else t[2]
        if fp in seen:
            continue
        seen.add(fp)
        chk.violation(fp, f"{t[2]}: matching scales {sr['ms']} reference {sr['ref']} target {sr['target']} order {sr['order']} {sr['scheme']}: "
                          f"relative difference {rels[t[1] - 1]} from the composition of {plans[t[1] - 1]}", sr)
    conf = {}
    for t in rs.printed("CONF"):
        conf[t[2]] = conf.get(t[2], 0) + 1
    chk.note("conformance_of_internal_calls", conf)
    for c, nmb in conf.items():
        chk.diag(f"{c}: {nmb} queries organise their internal calls differently from the specification's step list (values agree unless reported above)")
    import copy as _copy
    g = _copy.deepcopy(next(x for x in srecs if x["val"] == "eq"))
    g["val"] = "neq"
    rb = chk.tlc("CouplingStepsTrace", "CouplingStepsTrace.cfg", trace=[g], workers=1, label="corrupted step record (must be rejected)")
    if not [t for t in rb.printed("BAD") if t[2].startswith("C16:")]:
        raise MachineryError("binding demonstration (steps) failed")
