"""C19 flavour-number paths: Atlas.tla exhaustive (B1), real Atlas replayed on the same
instance space and on random float scales, outputs judged by TLC (B2/B3)."""

import itertools

import numpy as np

from harness.core import MachineryError

META = {
    "id": "C19",
    "level": "model_checking",
    "technique": "TLA+ spec Atlas (transcription + independent C19 predicates), TLC exhaustive over all order types; real Atlas.path/matched_path outputs validated by TLC trace spec AtlasTrace",
    "text": "TLC enumerates every order type (ties, unsorted, 0, infinity) of three matching scales x origin x target (nf 3-6 or unspecified) and checks the transcribed slicing algorithm against predicates written from the statement; the real Atlas is then executed on the same instance space and on random float scales and TLC evaluates the same predicates on the implementation's own paths, plus equality with the spec's path.",
    "note": "Scales enter only through their order; domain 0..INF realises all order types of 5 scales. nf restricted to 3..6, passed as a Python int or (30%) as a NumPy integer scalar. Default flow is undefined for unsorted matching scales (the code raises ValueError there, accepted).",
    "design_ref": "4.2, 5 C19",
    "rule": "instance = (order type of 3 matching scales, origin (scale,nf|None), target (scale,nf|None)); non-trivial = path with >= 2 segments; distinct by the full token tuple",
}

INF = 7


def _tok_maps(rng):
    """token -> float (monotone), 0 -> 0.0, INF -> inf."""
    vals = sorted(rng.uniform(0.5, 300.0) for _ in range(INF - 1))
    t2f = {0: 0.0, INF: float("inf")}
    for k, v in enumerate(vals, start=1):
        t2f[k] = v
    return t2f


def _num(rng, nf):
    """nf (and scales) as a caller may hold them: Python numbers or NumPy scalars."""
    import numpy as np

    if not nf:
        return None
    u = rng.random() if rng is not None else 1.0
    return np.int64(nf) if u < 0.2 else np.int32(nf) if u < 0.3 else nf


def run_instance(ms, o, t, t2f, rng=None):
    from eko import matchings

    f2t = {v: k for k, v in t2f.items()}
    rec = {"ms": list(ms), "o": list(o), "t": list(t), "err": "", "path": [], "matched": []}

    def tok(x):
        return f2t.get(float(x), -1)

    try:
        atlas = matchings.Atlas(
            [t2f[m] for m in ms], (t2f[o[0]], _num(rng, o[1]))
        )
        target = (t2f[t[0]], _num(rng, t[1]))
        path = atlas.path(target)
        matched = atlas.matched_path(target)
    except Exception as ex:  # noqa: BLE001 - the exception class is the observation
        rec["err"] = type(ex).__name__
        return rec
    rec["path"] = [
        {"kind": "seg", "origin": tok(s.origin), "target": tok(s.target), "nf": int(s.nf)}
        for s in path
    ]
    for x in matched:
        if isinstance(x, matchings.Segment):
            rec["matched"].append(
                {"kind": "seg", "origin": tok(x.origin), "target": tok(x.target), "nf": int(x.nf)}
            )
        else:
            rec["matched"].append(
                {"kind": "mat", "scale": tok(x.scale), "hq": int(x.hq), "inverse": bool(x.inverse)}
            )
    return rec


def random_instance(rng):
    """Random float scales -> rank tokens (ties, zeros and infinities kept)."""
    pool = [rng.uniform(1.0, 1e4) for _ in range(5)]
    raw = []
    for k in range(5):
        u = rng.random()
        if k < 3 and u < 0.12:
            raw.append(0.0)
        elif k < 3 and u < 0.24:
            raw.append(float("inf"))
        elif u < 0.5 and raw:
            raw.append(rng.choice(raw[: len(raw)]))  # tie
        else:
            raw.append(pool[k])
    for k in (3, 4):  # points must be finite and positive
        if raw[k] in (0.0, float("inf")):
            raw[k] = pool[k]
    finite = sorted({v for v in raw if 0.0 < v < float("inf")})
    t2f = {0: 0.0, INF: float("inf")}
    for k, v in enumerate(finite, start=1):
        t2f[k] = v
    f2t = {v: k for k, v in t2f.items()}
    ms = tuple(f2t[v] for v in raw[:3])
    o = (f2t[raw[3]], rng.choice([0, 3, 4, 5, 6]))
    t = (f2t[raw[4]], rng.choice([0, 3, 4, 5, 6]))
    return ms, o, t, t2f


def validate(chk, recs, label):
    B = 60000
    bad = []
    for k in range(0, len(recs), B):
        batch = recs[k : k + B]
        r = chk.tlc("AtlasTrace", "AtlasTrace.cfg", trace=batch, workers=1, label=label)
        if r.violated or not r.completed:
            raise MachineryError(f"AtlasTrace not accepted: {r.out[-1500:]}")
        for t in r.printed("BAD"):
            bad.append((batch[t[1] - 1], t[2]))
        chk.cov["traces_validated_against_impl"] += len(batch)
    return bad


def run(chk):
    # ---- B1: design -------------------------------------------------------------------
    r = chk.tlc("AtlasMC", "AtlasMC.cfg", label="exhaustive order types")
    if r.violated:
        # the transcription disagrees with the property; confirmed on the code below
        chk.diag(f"design counterexample: {r.violated}: {r.counterexample()[:1500]}")
    r2 = chk.tlc("AtlasLemmas", "AtlasLemmas.cfg", label="path lemmas (concat, shared prefix)")
    if r2.violated:
        chk.diag(f"lemma counterexample {r2.violated}: {r2.counterexample()[:1500]}")

    # ---- B2: the same instance space on the real Atlas ----------------------------------
    t2f = _tok_maps(chk.rng)
    recs = []
    dom = range(0, INF + 1) if chk.thorough() else (0, 1, 2, 3, 4, INF)
    pts_scales = range(1, INF) if chk.thorough() else (1, 2, 3, 4, 5)
    nfs = (0, 3, 4, 5, 6)
    space = [
        (ms, (os_, onf), (ts, tnf))
        for ms in itertools.product(dom, repeat=3)
        for os_ in pts_scales
        for onf in nfs
        for ts in pts_scales
        for tnf in nfs
    ]
    if not chk.thorough():
        space = chk.rng.sample(space, 40000)
    for ms, o, t in space:
        rec = run_instance(ms, o, t, t2f, chk.rng)
        recs.append(rec)
        chk.count(1, (ms, o, t), nontrivial=len(rec["path"]) >= 2)
    # ---- B3: random float scales ----------------------------------------------------------
    nrand = 100000 if chk.thorough() else 15000
    for _ in range(nrand):
        ms, o, t, m = random_instance(chk.rng)
        rec = run_instance(ms, o, t, m, chk.rng)
        recs.append(rec)
        chk.count(1, ("r", ms, o, t), nontrivial=len(rec["path"]) >= 2)
    for rec in recs[:2] + [x for x in recs if len(x["path"]) >= 3][:2]:
        chk.sample(rec)

    bad = validate(chk, recs, "real Atlas outputs")
    perclause = {}
    for rec, verdict in bad:
        inst = f"ms={rec['ms']} o={rec['o']} t={rec['t']}"
        if verdict.startswith("C19:"):
            # one violation per failing clause and kind of instance (sorted / unsorted matching scales)
            kind = "sorted" if rec["ms"] == sorted(rec["ms"]) else "unsorted"
            perclause.setdefault((verdict, kind), []).append(inst)
            if len(perclause[(verdict, kind)]) == 1:
                chk.violation(f"{verdict} matching-scales={kind}", f"Atlas path violates {verdict} for {inst}: {rec}", rec)
        else:
            chk.diag(f"{verdict} {inst}")

    chk.note("violating_instances", {f"{k[0]} {k[1]}": len(v) for k, v in perclause.items()})
    # ---- binding demonstration: a corrupted record must be rejected ----------------------
    good = next(x for x in recs if len(x["path"]) >= 3 and not x["err"])
    import copy

    c1 = copy.deepcopy(good)
    c1["path"][1]["nf"] += 1
    c2 = copy.deepcopy(good)
    c2["matched"][1]["inverse"] = not c2["matched"][1]["inverse"]
    c3 = copy.deepcopy(good)
    del c3["path"][1]
    r = chk.tlc("AtlasTrace", "AtlasTrace.cfg", trace=[c1, c2, c3], workers=1, label="corrupted records (must be rejected)")
    rej = {t[1] for t in r.printed("BAD") if t[2].startswith("C19:")}
    if rej != {1, 2, 3}:
        raise MachineryError(f"binding demonstration failed: corrupted records accepted ({rej})")
    chk.note("binding_demo", "3 corrupted records rejected by AtlasTrace")
    if r.violated:
        raise MachineryError("unexpected")
    if (chk.cov["tlc_runs"][0]["outcome"] != "ok") and not chk.violations:
        raise MachineryError(
            "Atlas.tla transcription violates C19 but the implementation does not: spec is wrong"
        )
