"""C53 EKOs are continuous in the target scale within a flavour-number patch."""
import multiprocessing as mp
import random

from harness.checks import _runner_common as rc
from harness.core import MachineryError

META = {
    "id": "C53",
    "level": "model_checking",
    "technique": "TLA+ spec Runner: invariant C53_KPlacement (the expanded scale-variation factor sits exactly once, in the final evolution part of every stored word) checked by TLC for every order type x origin x target incl. targets on matching scales; design switch CliffRule=\"target-on-wall\" (the rule found in the code before repair) must be refuted; real solves record the is_threshold flag and the unity shortcut of every part, judged by TLC (RunnerKTrace) with the same predicate; real-quadrature operators at patch boundaries versus displaced targets classified by decade",
    "text": "B1: TLC enumerates all instances (sorted matching-scale order types with ties, origin and target in every patch and on every wall, sv in {none, exponentiated, expanded} x xif {1, not 1}) and checks K placement; with the cliff rule as originally coded it returns the smallest counterexample (a target on a matching scale). B2/B3 structural: shimmed real solves over the same instance space record, for every evolution part, the is_threshold flag passed to the operator and whether integration ran; TLC evaluates K placement on these real flags. Numeric: for targets on each matching scale with the lower and the upper nf, at the initial scale and inside a patch, for every scheme and ratio, real-quadrature operators at the point and at relative displacements 1e-6 and 1e-7 inside the patch are compared; class >= 4 decades (O(epsilon)) required, a missing factor shows as class 0.",
    "note": "Displacements stay inside the patch. Steps of relative size <=1e-5 that the code introduces on purpose (np.isclose shortcuts for very short segments in Couplings.a and Operator.compute) are below the resolution of the class and are not flagged. LO (quick) and NLO (thorough) numerics; 3-point grid.",
    "design_ref": "5 C53",
    "rule": "structural case = (instance, sv, xif); numeric case = (boundary kind, nf side, sv, xif, order); non-trivial = expanded scheme with xif != 1 or a target on a wall",
}


def _struct(args):
    from harness.drivers import runner

    seed, inst, sv, xif = args
    return runner.solve_structure(inst, runner.scale_table(random.Random(seed)), sv=sv, xif=xif)


def _cont(args):
    from harness.drivers import runner

    where, sv, xif, order = args
    return runner.continuity(where, None, sv, xif, order=order)


def run(chk):
    r = chk.tlc("RunnerMC", "RunnerMC_one.cfg", label="K placement, every instance with one target")
    if r.violated:
        raise MachineryError(f"Runner design violated {r.violated}: {r.counterexample()[:2500]}")
    chk.tlc("RunnerMC", "RunnerMC_coded.cfg", expect_violation="C53_KPlacement", label="vacuity guard: cliff = target on a wall")
    # ---- structural ----
    jobs = []
    n = 1500 if chk.thorough() else 160
    for _ in range(n):
        inst = rc.random_instance(chk.rng, ntok=5, max_targets=2)
        sv, xif = chk.rng.choice([(None, 1.0), ("exponentiated", 2.0), ("expanded", 2.0), ("expanded", 0.5), ("expanded", 1.0), ("expanded", 2.0)])
        jobs.append((chk.rng.randrange(2**31), inst, sv, xif))
        on_wall = any(t[0] in inst["ms"] for t in inst["targets"])
        chk.count(1, (str(inst), sv, xif), nontrivial=(sv == "expanded" and xif != 1.0) or on_wall)
    with mp.get_context("fork").Pool(16) as pool:
        recs = pool.map(_struct, jobs, chunksize=4)
    chk.sample(next(x for x in recs if x["sv"] == "expanded" and not x["xifOne"]))
    # ---- numeric ----
    walls = [2.0, 4.5, 173.0]
    cjobs = []
    orders = [(1, 0), (2, 0)] if chk.thorough() else [(1, 0)]
    for order in orders:
        for sv, xif in ((None, 1.0), ("exponentiated", 2.0), ("exponentiated", 0.5), ("expanded", 2.0), ("expanded", 0.5), ("expanded", 1.0)):
            for w in (
                dict(kind="matching-scale-lower-nf", scale=4.5, nf=4, side=-1, origin=(3.0, 4)),
                dict(kind="matching-scale-upper-nf", scale=4.5, nf=5, side=+1, origin=(3.0, 4)),
                dict(kind="matching-scale-lower-nf-backward", scale=4.5, nf=4, side=-1, origin=(10.0, 5)),
                dict(kind="matching-scale-upper-nf-from-above", scale=4.5, nf=5, side=+1, origin=(10.0, 5)),
                dict(kind="charm-scale-upper-nf", scale=2.0, nf=4, side=+1, origin=(1.5, 3)),
                dict(kind="charm-scale-lower-nf", scale=2.0, nf=3, side=-1, origin=(1.5, 3)),
                dict(kind="top-scale-lower-nf", scale=173.0, nf=5, side=-1, origin=(100.0, 5)),
                dict(kind="top-scale-upper-nf", scale=173.0, nf=6, side=+1, origin=(100.0, 5)),
                dict(kind="initial-scale", scale=3.0, nf=4, side=+1, origin=(3.0, 4)),
                dict(kind="initial-scale-down", scale=3.0, nf=4, side=-1, origin=(3.0, 4)),
                dict(kind="interior", scale=3.5, nf=4, side=+1, origin=(3.0, 4)),
            ):
                cjobs.append((dict(w, walls=walls), sv, xif, order))
    if not chk.thorough():
        # quick tier: the boundary cases at NLO and NNLO under the expanded scheme with a ratio away from one
        for order in ((2, 0), (3, 0)):
            for w in (
                dict(kind="matching-scale-lower-nf", scale=4.5, nf=4, side=-1, origin=(3.0, 4)),
                dict(kind="matching-scale-upper-nf", scale=4.5, nf=5, side=+1, origin=(3.0, 4)),
                dict(kind="initial-scale", scale=3.0, nf=4, side=+1, origin=(3.0, 4)),
            ):
                cjobs.append((dict(w, walls=walls), "expanded", 2.0, order))
    else:
        for w in (
            dict(kind="matching-scale-lower-nf", scale=4.5, nf=4, side=-1, origin=(3.0, 4)),
            dict(kind="matching-scale-upper-nf", scale=4.5, nf=5, side=+1, origin=(3.0, 4)),
        ):
            for sv, xif in (("expanded", 2.0), ("exponentiated", 0.5)):
                cjobs.append((dict(w, walls=walls), sv, xif, (3, 0)))
    with mp.get_context("fork").Pool(16) as pool:
        crecs = pool.map(_cont, cjobs, chunksize=1)
    for c in crecs:
        chk.count(1, (c["where"], c["sv"], c["xifOne"], tuple(c["order"])), nontrivial=True)
    chk.sample(crecs[0])
    allrecs = recs + crecs
    res = chk.tlc("RunnerKTrace", "RunnerKTrace.cfg", trace=allrecs, workers=1, label="K placement on real flags; continuity classes")
    if res.violated or not res.completed:
        raise MachineryError(f"RunnerKTrace not accepted: {res.out[-2000:]}")
    chk.cov["traces_validated_against_impl"] += len(allrecs)
    seen = set()
    for t in res.printed("BAD"):
        rec = allrecs[t[1] - 1]
        if t[2].startswith("C53:"):
            if rec["ev"] == "structure":
                kind = "target-on-matching-scale" if any(x[0] in rec["ms"] for x in rec["targets"]) else "other"
                fp = f"{t[2]} {kind} sv={rec['sv']}"
            else:
                fp = f"{t[2]} sv={rec['sv']} xifOne={rec['xifOne']}"
            if fp in seen:
                continue
            seen.add(fp)
            chk.violation(fp, f"{t[2]}: {rec}", rec)
        else:
            chk.diag(f"{t[2]}")
    bad = [dict(crecs[0], jump=1, drift=1)]
    r2 = chk.tlc("RunnerKTrace", "RunnerKTrace.cfg", trace=bad, workers=1, label="corrupted record (must be rejected)")
    if not [t for t in r2.printed("BAD") if t[2].startswith("C53:")]:
        raise MachineryError("binding demonstration failed")
