"""C39 read-only and closed EKOs never change on disk."""
from harness.checks import _store_common as sc
from harness.checks._store_common import H
from harness.core import MachineryError

META = {
    "id": "C39",
    "level": "model_checking",
    "technique": "TLA+ spec Store: action properties C39_NoWrite / C39_Refused checked by TLC over all histories; bounded-exhaustive and TLC-simulated histories of write attempts on read-only and closed real EKO objects, validated by TLC (StoreTrace) with the sha256 of the archive recorded after every call",
    "text": "B1: TLC checks on every transition of the Store design that in read-only or closed mode the archive is unchanged and every store attempt (operator, metadata update, recipe, dump) is refused. B2/B3: every sequence of up to 3 (thorough 4) calls from an alphabet of write attempts and reads is executed on a real EKO opened read-only and on one that was closed; the archive bytes are hashed after every call and TLC judges each step.",
    "note": "Write attempts covered: eko[ep]=op, eko.update(), eko.load_recipes(), eko.dump(), plus in-memory metadata changes; the xgrid setter shares update()'s guard and is not separately driven. dump(archive=<other path>) is outside the statement (it does not touch the EKO's archive).",
    "design_ref": "5 C39",
    "rule": "history = prefix that produces a read-only or closed EKO + every word over 12 calls (5 store attempts); non-trivial = contains a store attempt; distinct by op/argument sequence",
}

PRE_RO = [H("create"), H("recipe"), H("set", k="k1", v="a"), H("set", k="k2", v="e"), H("close"), H("drop"), H("read")]
PRE_CLOSED_RW = [H("create"), H("recipe"), H("set", k="k1", v="a"), H("close")]
PRE_CLOSED_EDIT = [H("create"), H("set", k="k1", v="a"), H("close"), H("drop"), H("edit"), H("set", k="k2", v="e"), H("close")]
PRE_CLOSED_RO = PRE_RO + [H("get", k="k1"), H("close")]


def run(chk):
    for _cfg in (("StoreMC.cfg",) if chk.thorough() else ("StoreMC_quick.cfg", "StoreMC_nocopy.cfg")):
        r = chk.tlc("StoreMC", _cfg, label=_cfg + ": " + "design: C39_NoWrite, C39_Refused on every transition")
        if r.violated:
            raise MachineryError(f"Store design violates {r.violated}: {r.counterexample()[:3000]}")
    chk.tlc("StoreMC", "StoreMC_CloseTwice.cfg", expect_violation=True, label="vacuity guard: close() on a closed EKO unlinking the archive")
    n = 3 if chk.thorough() else 2
    hists = []
    for pre in (PRE_RO, PRE_CLOSED_RW, PRE_CLOSED_EDIT, PRE_CLOSED_RO):
        for L in range(1, n + 2 if pre is PRE_RO else n + 1):
            hists += sc.exhaustive_histories(L, alpha_obj=sc.ALPHA_WRITE, prefix=pre)
    hists += sc.tlc_histories(chk, 600 if chk.thorough() else 150, 16, chk.seed % 100000 + 1)
    traces = sc.execute(chk, hists)
    for h in hists:
        key = tuple(tuple(sorted(x.items())) for x in h)
        chk.count(1, key, nontrivial=any(x["op"] in ("set", "update", "dump", "recipe") for x in h[3:]))
    chk.sample({"history": sc.ops_text(traces[0], len(traces[0]))})
    chk.sample({"history": sc.ops_text(traces[len(traces) // 2], len(traces[len(traces) // 2]))})
    bad, conf = sc.validate(chk, traces)
    sc.report(chk, "C39:", traces, bad, conf)
