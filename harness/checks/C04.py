"""C04 every supported configuration yields a finite EKO; others fail cleanly."""
import multiprocessing as mp

from harness.core import MachineryError

META = {
    "id": "C04",
    "level": "model_checking",
    "technique": "TLA+ spec Dispatch (configuration product with Expected/Refuser derived from the availability of perturbative ingredients) checked by TLC for table consistency; every planned configuration turned into concrete cards and solved by the real solver (fixed-node quadrature shim, 2-point grid); outcome records (exception class, message, finiteness of every stored array) judged by TLC (DispatchTrace) with C04_Verdict",
    "text": "The configuration space (QCD order 1-4 x QED order 0-2 x 8 solution methods x 3 scale-variation schemes x polarized x time-like x path shape single/up/down, and for two methods the degenerate shapes point (target = initial point) and wall (crossing that ends exactly on the matching scale with the upper nf) x inversion method x alpha_em running x whether the path has an nf=6 segment: 21120 configurations) is a set of initial states in TLC. The thorough tier executes all of it on the real solver, the quick tier a seeded covering subset that always contains every refusal class; TLC decides for each outcome whether it is finite-and-supported, a clean refusal (NotImplementedError/ValueError) of an unavailable ingredient, or a violation (crash with another exception, non-finite numbers, supported configuration refused, unavailable ingredient silently computed, refusal whose message names none of the unavailable features of the configuration).",
    "note": "The quadrature shim replaces scipy.integrate.quad inside eko.evolution_operator by a 4-node rule: every eko function on the path still runs, integrals are not accurate (finiteness and dispatch are what C04 states). QED with polarized/time-like flags is not specified by the documentation (the QED kernels ignore the flags): either outcome accepted there, crashes still flagged. Couplings in the perturbative range (alpha_s(M_Z)=0.118, scales 2-7 GeV).",
    "design_ref": "4.9, 5 C04",
    "rule": "configuration record; distinct by all fields; non-trivial = not refused at card level",
}


def _solve(args):
    from harness.drivers import dispatch

    cfg, seed = args
    # every eighth run with two integration workers (the outcome classes do not depend on the number of workers)
    o = dispatch.solve(cfg, seed=seed, cores=2 if seed % 8 == 0 else 1)
    o.pop("arrays", None)
    return o


#: vocabulary of the refusal messages (Dispatch.tla: UnsupportedWords)
WORDS = ["iterate-exact", "olarized", "ime-like", "NNLO", "nf=6", "N3LO"]


def plan(chk):
    from harness.drivers import dispatch

    dom = list(dispatch.domain())
    if chk.thorough():
        return dom
    # covering subset: every (field, value) pair of configurations combined, plus each refusal class
    picked = []
    seen = set()
    pool = dom[:]
    chk.rng.shuffle(pool)
    fields = list(pool[0].keys())

    def pairs(c):
        return {(a, c[a], b, c[b]) for i, a in enumerate(fields) for b in fields[i + 1:]}

    for c in pool:
        p = pairs(c)
        if not p <= seen:
            picked.append(c)
            seen |= p
        if len(picked) >= 220:
            break
    must = [
        lambda c: c["qed"] > 0 and c["sv"] == "expo" and not c["emrun"] and c["method"] == "iterate-exact" and not c["pol"] and not c["tl"],
        lambda c: c["tl"] and c["qcd"] == 4 and c["qed"] == 0 and not c["pol"],
        lambda c: c["pol"] and c["qcd"] == 4 and c["qed"] == 0 and not c["tl"],
        lambda c: c["pol"] and c["tl"] and c["qed"] == 0,
        lambda c: c["qed"] > 0 and c["method"] != "iterate-exact",
        lambda c: c["qcd"] == 4 and c["qed"] == 0 and not c["pol"] and not c["tl"] and c["shape"] == "down" and c["inv"] == "expanded",
        lambda c: c["qcd"] == 4 and c["qed"] == 2 and c["method"] == "iterate-exact" and c["emrun"] and not c["pol"] and not c["tl"],
        lambda c: c["top"] and c["qcd"] == 3 and c["qed"] == 0 and c["method"] in ("iterate-exact", "perturbative-exact", "decompose-exact") and not c["pol"] and not c["tl"],
        lambda c: c["top"] and c["qcd"] == 4 and c["qed"] == 0 and not c["pol"] and not c["tl"],
    ]
    # degenerate shapes: zero-length segments under every scale-variation scheme, with and without QED
    must += [(lambda c, sh=sh, sv=sv, q=q: c["shape"] == sh and c["sv"] == sv and (c["qed"] > 0) == q and c["method"] == "iterate-exact"
              and not c["pol"] and not c["tl"] and not c["top"])
             for sh in ("point", "wall") for sv in ("none", "expo", "expanded") for q in (False, True)]
    for m in must:
        picked += [c for c in pool if m(c)][:3]
    picked += chk.rng.sample(pool, 150)
    return picked


def run(chk):
    r = chk.tlc("DispatchMC", "DispatchMC.cfg", label="configuration product, table consistency")
    if r.violated:
        raise MachineryError(f"Dispatch table inconsistent: {r.counterexample()[:2000]}")
    cfgs = plan(chk)
    jobs = [(c, chk.rng.randrange(1000)) for c in cfgs]
    from concurrent.futures import ProcessPoolExecutor

    # executor workers are not daemonic, so the solver can start its own pools
    with ProcessPoolExecutor(16, mp_context=mp.get_context("fork")) as pool:
        outs = list(pool.map(_solve, jobs, chunksize=2))
    recs = []
    keys = set()
    for o in outs:
        rec = {"ev": "outcome", "cfg": o["cfg"], "kind": o["kind"], "exc": o["exc"] or "none", "msg": o["msg"], "allFinite": o["allFinite"],
               "words": [w for w in WORDS if w in (o["msg"] or "")]}
        recs.append(rec)
        k = tuple(sorted(o["cfg"].items()))
        keys.add(k)
        chk.count(1, k, nontrivial=o["kind"] == "finite")
    if chk.thorough():
        recs.append({"ev": "coverage", "n": len(keys)})
        chk.note("exhaustive", True)
    chk.sample(recs[0])
    chk.sample(next((x for x in recs if x["ev"] == "outcome" and x["kind"] == "NotImplementedError"), recs[0]))
    bad = []
    B = 3000
    for k in range(0, len(recs), B):
        res = chk.tlc("DispatchTrace", "DispatchTrace.cfg", trace=recs[k:k + B], workers=1, label="outcomes judged by C04_Verdict")
        if res.violated or not res.completed:
            raise MachineryError(f"DispatchTrace not accepted: {res.out[-2000:]}")
        bad += [(recs[k + t[1] - 1], t[2]) for t in res.printed("BAD")]
        chk.cov["traces_validated_against_impl"] += len(recs[k:k + B])
    seen = set()
    for rec, v in bad:
        if v.startswith("C04:"):
            c = rec["cfg"]
            cls = f"top={c['top']} qed={'>0' if c['qed'] else 0} pol={c['pol']} tl={c['tl']} qcd={'4' if c['qcd'] == 4 else '<4'} sv={c['sv']} emrun={c['emrun']} method={'iterate-exact' if c['method'] == 'iterate-exact' else 'other'}"
            fp = f"{v} [{cls}]"
            if fp in seen:
                continue
            seen.add(fp)
            chk.violation(fp, f"{v}: cfg={c} msg={rec['msg']}", rec)
        elif v.startswith("COVERAGE"):
            raise MachineryError("configuration domain not exhausted")
        else:
            chk.diag(v)
    bad1 = [dict(recs[0], kind="other", exc="AttributeError")]
    refused = next((x for x in recs if x["ev"] == "outcome" and x["kind"] == "NotImplementedError" and x["words"]), None)
    if refused is not None:
        bad1.append(dict(refused, words=[]))
    r2 = chk.tlc("DispatchTrace", "DispatchTrace.cfg", trace=bad1, workers=1, label="corrupted outcome (must be rejected)")
    if len({t[1] for t in r2.printed("BAD") if t[2].startswith("C04:")}) != len(bad1):
        raise MachineryError("binding demonstration failed")
