"""C35 Mellin inversion of the interpolation basis along the solver's own path and quadrature
returns delta_jk at the grid nodes (law InverseAtNodes; plan and classes in Interp.tla)."""

import copy
import multiprocessing as mp

from harness.core import MachineryError
from harness.drivers import interp as drv

META = {
    "id": "C35",
    "level": "exploration",
    "technique": "law over observed executions: TLC enumerates the cell plan (contour x degree x grid size class x x_min class, Interp!C35Cells via InterpPlan); the harness inverts every basis function at every node with scipy.integrate.quad over eko.evolution_operator.quad_ker (the solver's partial, LO with equal couplings so that the evolution kernel is exactly 1, both the non-singlet and the singlet contour, the solver's cut and tolerances); TLC trace spec InterpTrace checks plan completeness and the integer class of every resolved node",
    "text": "For every planned cell a random logarithmic grid (4-12 points, x_min 1e-6..0.1, spacings jittered by +-45 %) is drawn; for every node x_k < 1 and every basis function j (all j for <= 6 points, the neighbours within 3 plus two random ones otherwise) the integral the solver computes for operator element (j,k) is evaluated through quad_ker_ad -> QuadKerBase.integrand -> mellin.Path / interpolation.log_evaluate_Nx with trivial evolution and compared with delta_jk. Only integers travel to TLC: per node the decade of max_j |result - delta_jk| and the conditioning class floor(4 r_k dmin) (r_k scale of the Talbot path at the node, dmin smallest node spacing in log x). TLC requires 1e-2 on the 0/1 answer at every node with r_k dmin >= 0.5, reports the others unresolved, and requires every planned cell to be measured.",
    "note": "The node clause is decided at class 1e-2; the interior clause only grossly (finite and within 0.1 of evaluate_x at random points, also in the last area up to x = 0.99; clean tree <= 1.5e-2). Calibration on the unchanged tree (60 seeds x 32 cells = 1920 grids, 12155 nodes): worst node error 5.7e-4 for r_k*dmin >= 0.5 (3.7e-3 for 0.25..0.5; on unconditioned random grids with nearly coinciding nodes the truncated contour, cut 0.05, gives errors up to O(1), which is why the conditioning class is part of the law). A sharp interior-point clause (degree >= 2, arbitrary x) is NOT claimed: over the same 1920 grids the inverse differs from evaluate_x by up to 1.5e-2 independently of the conditioning, which leaves less than 2 decades to a structural error, so no sound threshold exists. The node x = 1 is excluded because the solver never inverts there (logx = 0 returns 0 and the operator is set to the identity by hand).",
    "design_ref": "1 (mode L), 4.10, 5 C35, 9",
    "rule": "instance = (cell, sample grid, node k); non-trivial = node with r_k*dmin >= 0.5 (resolved); distinct by (cell, sample, k)",
}


def _job(job):
    cell, sample, seed = job
    try:
        return drv.measure_mellin(cell, sample, seed)
    except Exception as ex:  # noqa: BLE001 - the solver's integrand raised on a valid grid
        return ({"kind": "mellin", "cell": cell, "sample": int(sample), "pts": [[40, 9]], "pairs": 0},
                {"cell": cell, "sample": sample, "raised": f"{type(ex).__name__}: {ex}"})


def run(chk):
    rplan = chk.tlc("InterpPlan", "InterpPlan35.cfg", workers=1, label="law plan (C35 cells enumerated by TLC)")
    cells = [{"contour": t[1], "deg": t[2], "size": t[3], "xmin": t[4]} for t in rplan.printed("CELL")]
    if len(cells) != rplan.distinct or not cells:
        raise MachineryError(f"plan not read: {len(cells)} cells printed, {rplan.distinct} states")
    nsamp = 12 if chk.thorough() else 2
    jobs = sorted([(c, s, chk.seed) for c in cells for s in range(nsamp)], key=lambda j: -j[0]["size"][1])
    with mp.get_context("fork").Pool(15) as pool:
        res = pool.map(_job, jobs, chunksize=1)
    recs = [r for r, _ in res]
    rps = [rp for _, rp in res]
    n_res = n_unres = 0
    worst = 0.0
    for r, rp in zip(recs, rps):
        for k, pt in enumerate(r["pts"]):
            chk.count(1, (str(sorted(r["cell"].items())), r["sample"], k), nontrivial=pt[0] >= 2)
            if pt[0] >= 2:
                n_res += 1
                if "nodes" in rp:
                    worst = max(worst, rp["nodes"][k]["worst"])
            else:
                n_unres += 1
    chk.sample({"record": recs[0]})
    chk.sample({"grid": rps[0].get("grid"), "nodes": rps[0].get("nodes", [])[:3]})

    # corrupted records (binding demonstration) after the end marker
    c1 = copy.deepcopy(recs[0])
    c1["pts"] = [[8, -1]] + c1["pts"][1:]                       # a resolved node off by 0.1
    c2 = copy.deepcopy(recs[0])
    c2["cell"] = dict(c2["cell"], deg=7)                         # unplanned cell
    rl = chk.tlc("InterpTrace", "InterpTrace.cfg", trace=recs + [{"kind": "end35"}, c1, c2], workers=1,
                 label="inversions (plan completeness + classes) + 2 corrupted records")
    if rl.violated or not rl.completed:
        raise MachineryError(f"InterpTrace did not accept the trace: {rl.out[-2000:]}")
    L = len(recs)
    bad = {t[1] - 1: t[2] for t in rl.printed("BAD")}
    if not bad.get(L + 1, "").startswith("C35:") or not bad.get(L + 2, "").startswith("PLAN:"):
        raise MachineryError(f"binding demonstration failed (corrupted records accepted): {bad}")
    chk.cov["traces_validated_against_impl"] += L
    grids_unres = 0
    for k, verdict in sorted(bad.items()):
        if k > L:
            continue
        if k == L:
            raise MachineryError(f"law plan incomplete: {verdict}")
        r, rp = recs[k], rps[k]
        c = r["cell"]
        if verdict == "UNRESOLVED":
            grids_unres += 1
        elif verdict.startswith("C35:"):
            if "raised" in rp:
                what = f"the solver's inversion integrand raised in cell {c}: {rp['raised']}"
            else:
                wn = max((d for d, pt in zip(rp["nodes"], r["pts"]) if pt[0] >= 2), key=lambda d: d["worst"])
                what = (f"Mellin inversion along the {c['contour']} contour does not return delta_jk at a node: "
                        f"degree {c['deg']}, grid {['%.3e' % x for x in rp['grid']]}, node k={wn['k']} x={wn['x']:.3e} "
                        f"(r_k*dmin={wn['r_dmin']:.2f}), basis j={wn['at_j_value'][0]} gives {wn['at_j_value'][1]:.6f}")
            chk.violation(f"C35:inverse-at-nodes {c['contour']} deg={c['deg']}", what, rp)
        else:
            raise MachineryError(f"record rejected for a non-property reason: {verdict} {r['cell']}")
    chk.note("cells_planned", len(cells))
    chk.note("grids_measured", L)
    chk.note("nodes_resolved", n_res)
    chk.note("nodes_unresolved", n_unres)
    chk.note("grids_fully_unresolved", grids_unres)
    chk.note("worst_resolved_node_error", worst)
    chk.note("integrals", sum(r["pairs"] for r in recs))
    chk.note("binding_demo", "1 corrupted node class and 1 unplanned cell rejected by InterpTrace")
    if chk.thorough():
        rb = chk.tlc("InterpTrace", "InterpTrace.cfg", trace=[recs[0], {"kind": "end35"}], workers=1,
                     label="incomplete plan (must be rejected)")
        got = {t[1]: t[2] for t in rb.printed("BAD")}
        if not got.get(2, "").startswith("PLAN:"):
            raise MachineryError(f"an incomplete plan was accepted: {got}")
