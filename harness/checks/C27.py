"""C27 large-N behaviour against the cusp anomalous dimension (mode L, EkoreLaws.tla)."""

import math

from harness.ekorelaws import engine as E
from harness.ekorelaws import registry as R
from harness.ekorelaws.classes import expo100

META = {
    "id": "C27",
    "level": "exploration",
    "technique": "law Cusp: the coefficients A_1..A_4(nf) are a table of scaled integers in EkoreLaws.tla; TLC enumerates variant x diagonal entry x order x nf x N3LO parametrisation x N pair and hands each cell its expected slope; the slope of the real un-jitted anomalous dimension between two large moments is compared with it and the relative deviation is recorded as an integer exponent; trace validated by TLC (EkoreLawsTrace)",
    "text": "For the non-singlet entries ns+, ns-, nsv of the unpolarised (orders 1-4, both N3LO parametrisations), time-like and polarised (orders 1-3) anomalous dimensions, nf 3-5, the slope (gamma(N2) - gamma(N1)) / ln(N2/N1) with N1 in [3e4, 5e4], N2 in [8e4, 1e5] must equal A_k(nf) within 1e-2 A_k(0) (absolute class, because A_4 nearly cancels at nf = 5); the gluon-gluon entry of the three variants must grow with (C_A/C_F) A_k for k <= 3. Unchanged tree: deviation <= 2.1e-4 (finite-N corrections ~ ln N / N) except where the code is wrong.",
    "note": "The gluon-gluon clause is decided for k <= 3 only: at four loops Casimir scaling is broken by quartic-Casimir terms (A_g,4 != (C_A/C_F) A_q,4), the code follows the literature there and is not flagged. N pairs are restricted to the upper part [3e4, 1e5] of the stated range [1e3, 1e5], where the finite-N corrections leave a margin of 1.7 decades below the threshold; the smallest detected violation is a slope wrong by 1 % of A_k(0) (the 3-decade margin of the framework is not reachable for this law: a wrong coefficient of ln N by less than 1 % is not detected). A_4 is the published numerical value (Moch et al. 2017), A_1..A_3 are the exact expressions evaluated to 1e-4.",
    "design_ref": "4.11, 5 C27",
    "rule": "cell = (variant, entry, order, nf, N3LO parametrisation, N pair index); distinct by cell; all non-trivial",
}


def measure_cell(cell, seed):
    rng = E.cell_rng(seed, cell, "C27")
    n1 = rng.uniform(3e4, 5e4)
    n2 = rng.uniform(8e4, 1e5)

    def g(n):
        if cell["sec"] == "gg":
            return R.ad_entry(cell["v"], "S", cell["k"], 0, cell["nf"], cell["fl"], 0, complex(n, 0.0), 1, 1)
        return R.ad_entry(cell["v"], cell["sec"], cell["k"], 0, cell["nf"], cell["fl"], cell.get("var", 0), complex(n, 0.0))

    slope = (g(n2) - g(n1)).real / math.log(n2 / n1)
    unit = 1e4 * cell["dd"]
    dev = abs(slope * unit - cell["num"]) / cell["den"]
    return {"e": expo100(dev)}, {"slope": slope, "expected": cell["num"] / unit, "dev": dev, "N": [n1, n2]}


def run(chk):
    J = E.points_per_cell(chk, 4, 40)
    cells = E.plan(chk, "C27", J)
    measured = E.measure(chk, cells, measure_cell)
    recs = [{"cell": c, "obs": o} for c, o, _ in measured]
    worst = {}
    for c, o, i in measured:
        chk.count(1, E.cell_key(c), nontrivial=True)
        key = f"{c['v']} {c['sec']} k={c['k']} {c['fl']}"
        worst[key] = max(worst.get(key, 0.0), i["dev"])
    chk.note("worst_deviation", {k: f"{v:.2e}" for k, v in sorted(worst.items(), key=lambda kv: -kv[1])[:12]})
    chk.sample({"cell": measured[0][0], "obs": measured[0][1], "info": measured[0][2]})
    chk.sample({"cell": measured[-1][0], "obs": measured[-1][1], "info": measured[-1][2]})
    bad, unres = E.validate(chk, "C27", J, recs, "measured cells of Cusp")

    def describe(cell, obs, info):
        return (f"large-N slope of {cell['v']} {cell['sec']} at order {cell['k']} ({cell['fl']}), nf={cell['nf']}: "
                f"{info['slope']:.4f} between N={info['N'][0]:.0f} and {info['N'][1]:.0f}, cusp coefficient requires "
                f"{info['expected']:.4f} (deviation {info['dev']:.3e} of A_k(0))")

    E.report(chk, "C27", measured, bad, unres, ("k", "fl"), describe)

    def corrupt(r):
        r["obs"]["e"] = -150

    E.binding_demo(chk, "C27", J, [recs[0], recs[len(recs) // 2], recs[-1]], corrupt, "C27:")
    E.switch_guard(chk, "C27", J, recs, "cusp-exact", "C27:")
