"""C11 all solution, scale-variation and matching prescriptions conserve sum rules (law Conserve)."""

from harness.laws import c11, engine

META = {
    "id": "C11",
    "level": "exploration",
    "technique": "TLA+ law plan (Laws.tla: kinds x methods x orders x iterations x scale-variation x matching inversion, iterations only where the spec derives a discretised form; cells enumerated by TLC) + measurement of the real un-jitted kernels, scale-variation factors and build_ome + TLC trace validation (LawsTrace)",
    "text": "Random complex towers with the conservation constraint imposed (v.gamma_k = 0: columns summing to zero for momentum, v = (1,1,1,0) in the QED basis (g, photon, Sigma, Sigma_Delta), vanishing 1x1 towers for quark number, columns summing to zero for matching elements) are fed to: the singlet dispatcher (8 methods x order 1-4 x nf 3-6 x iterations 1,2,7,50 x unvaried / exponentiated scale variation), the non-singlet dispatcher, the QED singlet 4x4 and valence 2x2 kernels (QED order 1-2, iterations 1-50, unvaried / exponentiated with running or fixed alpha_em), the expanded scale-variation factors (QCD and QED variants, running/fixed), and build_ome (forward, exact inverse, expanded inverse, matching order 1-3, with and without exponentiated variation of the matching elements); the left action of v on the result must return v, class rounding.",
    "note": "Clean residuals <= 5e-14 (50 iterations), required <= 1e-10; a swapped index, a transposed product or a dropped term in any prescription breaks conservation at O(a) ~ 1e-3..1e-1. Cells 'exponentiated scale variation x QED x fixed alpha_em' cannot be measured on the unchanged tree: gamma_variation_qed returns None there (defect tracked under C04/C21); they are recorded 'unresolved' with that reason, not silently skipped, and become measured once that function returns its array.",
    "design_ref": "1 (mode L), 4.11, 5 C11",
    "rule": "cell = (kind, method, order, QED order, nf, iterations, scale-variation mode, dimension, matching inversion); 5 (quick) / 50 (thorough) seeded towers per cell, worst residual recorded",
}


def run(chk):
    engine.run_law(chk, "C11", c11.measure, npts_quick=5, npts_thorough=50, switches=("Strict",))
