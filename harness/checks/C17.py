"""C17 coupling evaluations are independent of evaluation history."""
import multiprocessing as mp
import random

from harness.core import MachineryError

META = {
    "id": "C17",
    "level": "model_checking",
    "technique": "TLA+ spec Couplings (arrays on a heap, cache of addresses, symbolic terms; one atomic action per a(scale,nf) query, caller mutation of returned arrays) checked by TLC for all histories up to 3 (thorough 4) queries and 2 mutations; the three copy mechanisms are design switches that must each be refuted; random token histories and free-scale histories executed on real Couplings objects (every order, QED order, running, method, scheme), each reply compared bitwise with a fresh object's reply, aliasing observed with np.shares_memory, cache entries hashed before/after; TLC (CouplingsTrace) judges every step and replays the spec action to compare the compute() calls (flavour number, from, to, hit/miss)",
    "text": "B1 exhaustive on the heap model: reply = pure value, reference intact, no returned array aliases the cache or the reference, cached values never change. B2/B3: histories (scales on both matching scales, at the reference, repeated, downward, within np.isclose of a wall = short segments) with callers overwriting returned arrays in between run on real objects; property clauses are evaluated on observations of the real object, conformance on its compute() calls.",
    "note": "Third matching scale at infinity (top never active) in the token histories; free histories use arbitrary scales in [1.5, 500] GeV^2 with nf 3-5. The exact method uses scipy solve_ivp per cache miss (deterministic).",
    "design_ref": "4.7, 5 C17",
    "rule": "history = sequence of queries and caller mutations on one object; distinct by configuration and history; non-trivial = at least one cache hit and one mutation",
}


def _run(args):
    from harness.drivers import couplings as cp

    seed, kind, n = args
    rng = random.Random(seed)
    cfg = cp.random_cfg(rng)
    if kind == "free":
        top = cp.FREE_TOP if rng.random() < 0.5 else None
        if top:
            cfg["top"] = top
            if rng.random() < 0.3:
                cfg["ref"] = (rng.choice([3, 4, 5]), 6)   # a six-flavour reference below the top matching scale
        tr = cp.run_history(cfg, cp.random_free_history(rng, n, top), tokens=False)
        tr["qed"] = False
        return tr
    if kind == "tok":
        tr = cp.run_history(cfg, cp.random_token_history(rng, n), tokens=True)
        tr["qed"] = cfg["qed"] > 0   # with QED a segment across the tau mass is solved in two pieces
        return tr
    return cp.run_history(cfg, cp.random_free_history(rng, n), tokens=False)


def run(chk):
    r = chk.tlc("CouplingsMC", "CouplingsMC_thorough.cfg" if chk.thorough() else "CouplingsMC.cfg", coverage=True, label="heap model, all histories")
    if r.violated:
        raise MachineryError(f"Couplings design violated {r.violated}: {r.counterexample()[:2500]}")
    for sw in ("noref", "nohit", "nostore"):
        chk.tlc("CouplingsMC", f"CouplingsMC_{sw}.cfg", expect_violation=True, label=f"vacuity guard: copy switch {sw}")
    rw = chk.tlc("CouplingsMC", "CouplingsMC_wall.cfg", label="heap model, reference exactly on a matching scale, decoupling factor one (LO/NLO)")
    if rw.violated:
        raise MachineryError(f"Couplings design violated {rw.violated}: {rw.counterexample()[:2500]}")
    chk.tlc("CouplingsMC", "CouplingsMC_wall_nonf.cfg", expect_violation="C17_HistoryFree",
            label="vacuity guard: cache key without the flavour number (collides when the reference sits on a matching scale)")
    ntok, nfree = (3000, 1500) if chk.thorough() else (300, 150)
    jobs = [(chk.rng.randrange(2**31), "tok", chk.rng.randrange(3, 14)) for _ in range(ntok)]
    jobs += [(chk.rng.randrange(2**31), "free", chk.rng.randrange(5, 30)) for _ in range(nfree)]
    with mp.get_context("fork").Pool(16) as pool:
        traces = pool.map(_run, jobs, chunksize=8)
    for t, j in zip(traces, jobs):
        hits = any(s[3] for e in t["events"] if e["ev"] == "query" for s in e["steps"])
        muts = any(e["ev"] == "mutate" for e in t["events"])
        chk.count(1, j[0], nontrivial=hits and muts)
        t["cfgs"] = str(t.pop("cfg"))
    chk.sample(traces[0])
    bad = {}
    conf = 0
    B = 1000
    order = [i for i, t in enumerate(traces) if not t["qed"]] + [i for i, t in enumerate(traces) if t["qed"]]
    nq = sum(1 for t in traces if not t["qed"])
    groups = [(order[:nq], "CouplingsTraceMC.cfg"), (order[nq:], "CouplingsTraceMC_qed.cfg")]
    batches = []
    for idxs, cfgname in groups:
        for k in range(0, len(idxs), B):
            batches.append((idxs[k:k + B], cfgname))
    for idxs, cfgname in batches:
        part = [traces[i] for i in idxs]
        k = None
        res = chk.tlc("CouplingsTraceMC", cfgname, trace=part, workers=1, label="histories on real objects (" + cfgname + ")")
        if res.violated:
            raise MachineryError(f"CouplingsTrace stopped: {res.out[-2000:]}")
        done = set()
        for t in res.printed():
            if t[0] == "DONE":
                done.add(t[1])
            elif t[0] == "BAD":
                bad.setdefault(t[3], (idxs[t[1] - 1], t[2]))
            elif t[0] == "CONF":
                conf += 1
                chk.diag(f"conformance: trace {idxs[t[1] - 1]} step {t[2]}: {t[3]}")
        if done != set(range(1, len(part) + 1)):
            raise MachineryError("traces not consumed")
        chk.cov["traces_validated_against_impl"] += len(part)
    chk.note("conformance_mismatches", conf)
    for clause, (i, l) in bad.items():
        tr = traces[i]
        chk.violation(f"{clause} cfg={tr['cfgs']}"[:200], f"{clause} at step {l} of history on {tr['cfgs']}: {tr['events'][:l]}", tr)
    import copy
    g = copy.deepcopy(traces[0])
    q = next(e for e in g["events"] if e["ev"] == "query")
    q["eqFresh"] = False
    r2 = chk.tlc("CouplingsTraceMC", "CouplingsTraceMC.cfg", trace=[g], workers=1, label="corrupted record (must be rejected)")
    if not [t for t in r2.printed("BAD")]:
        raise MachineryError("binding demonstration failed")
