"""C38 failed or interrupted runs never leave a corrupt or partial archive."""
import multiprocessing as mp

from harness.core import MachineryError

META = {
    "id": "C38",
    "level": "fault_enumeration",
    "technique": "TLA+ spec FsFault (session = effect sequence, Fault at any step, control flow of __exit__/close) checked by TLC incl. design switch AtomicClose; on the real code every file-system effect of a solve and of an edit session is recorded through sys.addaudithook, validated against the model's close region by TLC, and the session is re-run once per effect (in two worlds: temporary area on the file system of the output folder or on another one; plus per tar member, per bulk transfer of the standard library - sendfile, copy_file_range, copyfileobj - failing with ENOSPC, per computation step - failing with an exception and with each of KeyboardInterrupt, SystemExit, GeneratorExit - and pairs in the thorough tier) with that point failing; TLC judges every outcome",
    "text": "Fault enumeration: the set of fault points is every audited file-system effect (open, mkdir, remove, rename, rmdir, rmtree, mkdtemp) the real session issues under its scratch root, every tar member written by the dump and every computation / user-code step; each is failed once in a fresh world and the outcome (raised?, archive absent / byte-identical previous / complete new / partial, retry result) is judged by the TLA+ predicate C38_Intact. TLC also checks the design (all fault positions of the abstract session) and that the recorded effect sequence has the shape of the modelled close region.",
    "note": "Failures are exceptions raised at the fault point (not power loss); parts are synthetic small arrays so that a session takes 50 ms. A failure after the archive has been completely written (e.g. while removing the temporary directory) leaves the complete new archive: accepted as not corrupt/partial.",
    "design_ref": "4.4, 5 C38",
    "rule": "fault point = (world same-device|cross-device temporary area, session kind new|edit|copy (edit + deepcopy to a second path), class effect|member|compute|kbdint|sysexit|genexit, index); every point executed once; thorough: ordered pairs (first fault at every effect, second fault on the retry at 5 sampled effects, then a clean retry); non-trivial = the fault fired",
}

ATOMIC = "TRUE"  # the close() of the tree under test dumps to a sibling file and renames


def _run(args):
    from harness.drivers import fsfault

    (kind, world), cls, idx = args[:3]
    x = world == "xdev"
    if cls == "pair":
        r = fsfault.run_session(kind, fail_at=idx, retry_fail_at=args[3], xdev=x)
        r.update(cls=cls, i=idx, j=args[3], world=world)
        return r
    if cls == "effect":
        r = fsfault.run_session(kind, fail_at=idx, xdev=x)
    elif cls == "member":
        r = fsfault.run_session(kind, tar_member_fail=idx, xdev=x)
    elif cls == "bulk":
        r = fsfault.run_session(kind, bulk_fail=idx, xdev=x)
    elif cls in fsfault.INTERRUPTS:
        r = fsfault.run_session(kind, compute_fail_at=idx, compute_exc=cls, xdev=x)
    else:
        r = fsfault.run_session(kind, compute_fail_at=idx, xdev=x)
    r.update(cls=cls, i=idx, world=world)
    return r


def run(chk):
    from harness.drivers import fsfault

    # ---- B1 ----
    r = chk.tlc("FsFault", "FsFault_TRUE.cfg", workers=4, coverage=True, label="design with atomic close")
    if r.violated:
        raise MachineryError(f"FsFault design violated: {r.counterexample()[:2000]}")
    chk.tlc("FsFault", "FsFault_FALSE.cfg", workers=4, expect_violation="C38_Intact", label="vacuity guard: unlink-then-dump close")
    r = chk.tlc("FsFault", "FsFault_xdev.cfg", workers=4, label="design, temporary area on another device")
    if r.violated:
        raise MachineryError(f"FsFault design (cross-device) violated: {r.counterexample()[:2000]}")
    chk.tlc("FsFault", "FsFault_xdev_stage.cfg", workers=4, expect_violation="C38_Intact", label="vacuity guard: archive staged in the temporary area and moved across devices")
    chk.tlc("FsFault", "FsFault_interrupt.cfg", workers=4, expect_violation="C38_Intact", label="vacuity guard: __exit__ closes on an interruption")
    # ---- record the fault-free sessions ----
    recs = []
    plan = []
    base = {}
    # worlds: temporary area and output folder on one file system / on two (effects and members only)
    worlds = [("new", "same"), ("edit", "same"), ("copy", "same")]
    if fsfault.xdev_available():
        worlds += [("new", "xdev"), ("edit", "xdev")]
    else:
        chk.diag("no second writable file system: the cross-device world is not explored")
    chk.note("worlds", [list(w) for w in worlds])
    for kind in worlds:
        b = fsfault.run_session(kind[0], xdev=kind[1] == "xdev")
        if b["raised"] or b["arc"] != "new":
            raise MachineryError(f"fault-free {kind} session failed: {b}")
        base[kind] = b
        recs.append({"ev": "effects", "kind": kind[0], "world": kind[1], "steps": b["steps"]})
        plan += [(kind, "effect", i) for i in range(1, b["n"] + 1)]
        plan += [(kind, "member", i) for i in range(1, b["members"] + 1)]
        # bulk transfers of the standard library (sendfile, copy_file_range, copyfileobj) failing with ENOSPC
        plan += [(kind, "bulk", i) for i in range(1, b["bulk"] + 1)]
        if kind[1] == "same":
            plan += [(kind, "compute", i) for i in range(1, b["computes"] + 1)]
            # interruptions (BaseException that is not an Exception) at every computation / user-code step
            plan += [(kind, c, i) for c in sorted(fsfault.INTERRUPTS) for i in range(1, b["computes"] + 1)]
        chk.sample({"kind": list(kind), "effects": b["n"], "tar_members": b["members"], "compute_steps": b["computes"], "bulk_transfers": b["bulk"],
                    "non_tmp_steps": [s for s in b["steps"] if s != "tmp"]})
    if chk.thorough():
        # ordered pairs: a first fault at every effect, a second fault on the retry run at sampled effects
        for kind in worlds[:3]:
            n = base[kind]["n"]
            for i in range(1, n + 1):
                for j in sorted(chk.rng.sample(range(1, n + 1), 5)):
                    plan.append((kind, "pair", i, j))
    with mp.get_context("fork").Pool(16) as pool:
        outs = pool.map(_run, plan, chunksize=4)
    done = {}
    for o in outs:
        key = (o["kind"], o["world"])
        chk.count(1, (key, o["cls"], o["i"], o.get("j", 0)), nontrivial=o["fired"])
        if not o["fired"]:
            chk.diag(f"fault point did not fire: {key} {o['cls']} {o['i']}")
        if o["cls"] != "pair":
            done.setdefault((key, o["cls"]), []).append(o["i"])
        recs.append({"ev": "outcome", "kind": o["kind"], "world": o["world"], "cls": o["cls"], "i": o["i"], "n": o["n"],
                     "raised": o["raised"], "arc": o["arc"], "retry": o["retry"], "origIntact": o["origIntact"],
                     "arc2nd": o["arc2nd"] or "none",
                     "step": base[key]["steps"][o["i"] - 1] if o["cls"] in ("effect", "pair") else o["cls"]})
    for kind in worlds:
        classes = [("effect", base[kind]["n"]), ("member", base[kind]["members"]), ("bulk", base[kind]["bulk"])]
        if kind[1] == "same":
            classes += [("compute", base[kind]["computes"])] + [(c, base[kind]["computes"]) for c in sorted(fsfault.INTERRUPTS)]
        for cls, n in classes:
            recs.append({"ev": "coverage", "kind": kind[0], "world": kind[1], "cls": cls, "n": n, "done": sorted(done.get((kind, cls), []))})
    chk.sample(next(x for x in recs if x["ev"] == "outcome" and x.get("step") not in ("tmp",)))
    res = chk.tlc("FsFaultTrace", f"FsFaultTrace_{ATOMIC}.cfg", trace=recs, workers=1, label="outcomes judged by C38 predicates")
    if res.violated or not res.completed:
        raise MachineryError(f"FsFaultTrace not accepted: {res.out[-1500:]}")
    chk.cov["traces_validated_against_impl"] += len(recs)
    chk.note("exhaustive", True)
    seen = set()
    for t in res.printed("BAD"):
        rec = recs[t[1] - 1]
        v = t[2]
        if v.startswith("C38:"):
            fp = f"{v} kind={rec['kind']} at={rec.get('step')}" + ("" if rec.get("world", "same") == "same" else " temp-area-on-another-device")
            if fp not in seen:
                seen.add(fp)
                chk.violation(fp, f"{v}: session {rec['kind']}, failing {rec['cls']} #{rec['i']} ({rec.get('step')}): raised={rec['raised']} archive={rec['arc']} retry={rec['retry']}", rec)
        elif v.startswith("COVERAGE"):
            raise MachineryError(f"fault enumeration incomplete: {rec}")
        else:
            chk.diag(f"{v}: {rec if rec['ev'] != 'effects' else [s for s in rec['steps'] if s != 'tmp']}")
    # binding demonstration
    bad = [{"ev": "outcome", "kind": "edit", "cls": "effect", "i": 1, "n": 1, "raised": "OSError", "arc": "absent", "retry": True, "step": "x",
            "origIntact": True, "arc2nd": "none"}]
    r2 = chk.tlc("FsFaultTrace", f"FsFaultTrace_{ATOMIC}.cfg", trace=bad, workers=1, label="corrupted outcome (must be rejected)")
    if not r2.printed("BAD"):
        raise MachineryError("binding demonstration failed")
