"""C05 evolved PDFs conserve total momentum and valence numbers (tolerance class on real solves)."""
import multiprocessing as mp

from harness.core import MachineryError

META = {
    "id": "C05",
    "level": "exploration",
    "technique": "TLA+ spec SumRules: cell domain (unpolarised / polarised x perturbative order x fixed-flavour up / down, variable-flavour up / down across the bottom matching scale, one QED cell) and the required tolerance class, enumerated and validated by TLC (SumRulesTrace, with a coverage record); measurements on the real solver with REAL quadrature: the stored x-space operator on a 24-point Lambert grid on [1e-4, 1] (degree 3) is contracted with a smooth random toy input and moments are taken with the integrals of the library's own interpolation basis (Gauss-Legendre in ln x per grid interval); relative violations sent to TLC as decades",
    "text": "Unpolarised: total momentum (all quarks, antiquarks, gluon, photon with QED) and the valence number of every quark flavour before and after the operator; polarised: first moments of T3 and T8. TLC requires every violation to be at most 1e-2, the tolerance of the statement (clean tree: momentum <= 1.5e-3, numbers <= 4e-4). A sum rule broken at the perturbative level - a wrong entry or normalisation in an anomalous dimension or matching element, a flavour lost or doubled in a basis rotation - shows as several per cent to O(1). The toy input carries a sizeable bottom content (about a sixth of the momentum, intrinsic where bottom is not active). Quick: 7 cells (LO fixed-flavour, NLO across the bottom matching scale up and down, polarised LO and NLO, a five-flavour LO segment with QED, LO downwards through the charm matching scale into nf = 3); thorough: both kinds x LO/NLO/NNLO x 4 shapes, two QED cells, the five-flavour segment and the charm crossing at LO/NLO (30 cells).",
    "note": "Decided as a tolerance class with a margin of a factor 7, not as an accuracy study. The toy input is built so that what lies below the grid is negligible for the moments taken (valence-like parts vanish like x^0.5, sea and gluon rise at most like x^-0.2); scales jittered by +-3%. iterate-exact with 4 iterations, exact inversion of the backward matching. Level exploration.",
    "design_ref": "6 (planned as not applicable), 11.3",
    "rule": "cell = (kind, order, QED order, shape); one seeded toy input and jitter per cell and run; non-trivial = solved",
}


def _cells(thorough):
    if not thorough:
        return [dict(kind="unpolarized", order=1, qed=0, shape="ffns-up"), dict(kind="unpolarized", order=2, qed=0, shape="vfns-up"),
                dict(kind="unpolarized", order=2, qed=0, shape="vfns-down"), dict(kind="polarized", order=1, qed=0, shape="ffns-down"),
                dict(kind="polarized", order=2, qed=0, shape="vfns-up"), dict(kind="unpolarized", order=1, qed=1, shape="ffns5-up"),
                dict(kind="unpolarized", order=1, qed=0, shape="vfns-down-charm")]
    cells = [dict(kind=k, order=o, qed=0, shape=s) for k in ("unpolarized", "polarized") for o in (1, 2, 3)
             for s in ("ffns-up", "ffns-down", "vfns-up", "vfns-down")]
    return cells + [dict(kind="unpolarized", order=1, qed=1, shape=s) for s in ("ffns-up", "ffns5-up")] + [
        dict(kind="unpolarized", order=o, qed=0, shape=s) for o in (1, 2) for s in ("ffns5-up", "vfns-down-charm")]


def run(chk):
    from harness.drivers import sumrules

    cells = _cells(chk.thorough())
    jobs = [(c, chk.rng.randrange(2**31)) for c in sorted(cells, key=lambda c: -c["order"])]
    with mp.get_context("fork").Pool(min(16, len(jobs))) as pool:
        recs = pool.map(sumrules.sumrule_cell, jobs, chunksize=1)
    for r in recs:
        chk.count(1, ("sumrule", tuple(sorted(r["cell"].items()))), nontrivial=r["err"] == "")
    chk.sample(recs[0])
    chk.note("violations", {f"{r['cell']['kind']}-{r['cell']['order']}-{r['cell']['qed']}-{r['cell']['shape']}": r["viol"] for r in recs})
    trace = recs + [{"ev": "coverage", "cells": cells}]
    cfg = "SumRulesTrace_thorough.cfg" if chk.thorough() else "SumRulesTrace.cfg"
    res = chk.tlc("SumRulesTrace", cfg, trace=trace, workers=1, label="cells judged, coverage checked")
    if res.violated or not res.completed:
        raise MachineryError(f"SumRulesTrace not accepted: {res.out[-2000:]}")
    chk.cov["traces_validated_against_impl"] += len(recs)
    seen = set()
    for t in res.printed("BAD"):
        rec = trace[t[1] - 1]
        v = t[2]
        if v.startswith("C05:"):
            c = rec["cell"]
            fp = f"{v} kind={c['kind']} order={c['order']} qed={c['qed']} shape={c['shape']}"
            if fp not in seen:
                seen.add(fp)
                chk.violation(fp, f"{v}: relative violations {rec['viol']}", rec)
        elif v.startswith("COVERAGE"):
            raise MachineryError("cells not exhausted")
        elif v.startswith("CONF:solve-raised"):
            raise MachineryError(f"measurement failed: {rec}")
        else:
            chk.diag(f"{v}: {rec['cell']}")
    bad = [dict(recs[0], momDec=1, numDec=1)]
    r2 = chk.tlc("SumRulesTrace", cfg, trace=bad, workers=1, label="corrupted record (must be rejected)")
    if not [t for t in r2.printed("BAD") if t[2].startswith("C05:")]:
        raise MachineryError("binding demonstration failed")
