"""C49 the command line interface produces valid runcards and the library's EKO."""

import copy
import pathlib
from concurrent.futures import ThreadPoolExecutor

from harness.core import MachineryError
from harness.drivers import cards as dc
from harness.drivers import cli

META = {
    "id": "C49",
    "level": "model_checking",
    "technique": "TLA+ spec Cli (file-system state of a working directory x the command forms of `eko runcards example` / `eko run` and, beyond the statement, the read-only `eko inspect mu2grid|cards`; expected exit status and files; design switches DestMustExist, ExampleNumpy transcribed from ekobox/cli); TLC enumerates 14 initial states x all command sequences of length <= 2; sequences are executed by subprocess (the `eko` console script) in fresh working directories, the directory is projected before and after every command and every observed step is judged by TLC (CliTrace)",
    "text": "B1: TLC checks on the intended design that every `runcards example` succeeds, creates its destination and leaves valid cards, and that every `run` on valid cards with a free output produces the archive (all 2954 states of 14 initial states x sequences of <= 2 of 14 commands); each switch transcribed from the code must yield a counterexample. B2/B3: a set of sequences covering every (command, destination/cards/output class) transition of the state graph (quick) plus a seeded sample of all sequences (thorough) is run through the real console entry point; generated cards are loaded back and compared field-wise with the objects the command builds; archives written by `eko run` (all three argument forms) are compared bitwise with eko.solve on the same cards in-process; TLC evaluates C49_Gen/C49_Run on every observed step.",
    "note": "`eko inspect` (outside the statement of C49) is modelled and validated at conformance grade: it succeeds exactly on an archive, prints the JSON of what the library reads from it and leaves the directory unchanged; deviations are diagnostics. `run` is exercised on tiny valid cards (2-3 point grid, LO, one target near the initial scale), substituted after a successful generation because solving the example cards takes minutes interpreted. Refusals of unrunnable inputs (missing cards, existing output) are checked as conformance only. Exit status is classed 0 / non-zero.",
    "design_ref": "4.10, 5 C49, 8",
    "rule": "instance = (initial file-system state, command sequence of length <= 2); distinct by that pair; non-trivial = at least one command whose outcome depends on the file system (all of them)",
}


def _sequences(states):
    seqs = []
    for st in states:
        h = st["h"]
        if not h:
            continue
        seqs.append({"init": h[0]["pre"], "cmds": [s["cmd"] for s in h], "steps": h})
    return seqs


def _class(step):
    """Transition class: what the outcome of the command depends on."""
    c = step["cmd"]
    if c["op"] == "gen":
        return ("gen", c["l"], step["pre"]["dir"][c["l"]], step["pre"]["cards"][c["l"]])
    if c["op"] in cli.INSPECTS:
        return (c["op"], step["pre"]["out"][c["l"]])
    tgt = cli.target(c)
    oc = step["pre"]["cards"][cli.other(c["l"])] if c["op"] == "run2x" else "-"
    return (c["op"], step["pre"]["dir"][c["l"]], step["pre"]["cards"][c["l"]], oc, step["pre"]["out"][tgt] != "none")


def _cover(seqs, rng):
    """Greedy set of sequences covering every transition class of the (intended) state graph."""
    todo = {_class(s) for q in seqs for s in q["steps"]}
    order = list(seqs)
    rng.shuffle(order)
    order.sort(key=lambda q: -len(q["cmds"]))
    chosen = []
    while todo:
        best = max(order, key=lambda q: len({_class(s) for s in q["steps"]} & todo))
        gain = {_class(s) for s in best["steps"]} & todo
        if not gain:
            break
        chosen.append(best)
        todo -= gain
    return chosen


def run(chk):
    # ---- B1 -----------------------------------------------------------------------------
    dump = chk.scratch / "cli-states"
    with ThreadPoolExecutor(3) as pool:   # three independent TLC runs
        f1 = pool.submit(chk.tlc, "CliMC", "CliMC.cfg", extra=("-dump", str(dump)), label="intended design, sequences <= 2")
        fs = [pool.submit(chk.tlc, "CliMC", f"CliMC_{sw}.cfg", expect_violation="InvGen", label=f"vacuity guard / faithful switch {sw}")
              for sw in ("DestMustExist", "ExampleNumpy")]
        r = f1.result()
        for f in fs:
            f.result()
    if r.violated or not r.completed:
        raise MachineryError(f"Cli.tla intended design violates {r.violated}: {r.counterexample()[:2000]}")
    states = dc.parse_dump(pathlib.Path(str(dump) + ".dump").read_text())
    if len(states) != r.distinct:
        raise MachineryError(f"dump has {len(states)} states, TLC reports {r.distinct}")
    seqs = _sequences(states)

    # ---- B2 -----------------------------------------------------------------------------
    cli.check_entry()
    chosen = _cover(seqs, chk.rng)
    n_cover = len(chosen)
    if chk.thorough():
        rest = [q for q in seqs if q not in chosen]
        chosen += chk.rng.sample(rest, min(len(rest), 200))
    tinies = [cli.tiny_cards(chk.rng) for _ in range(4 if chk.thorough() else 2)]
    refs = [cli.library_answer(t, o, chk.scratch) for t, o in tinies]
    example = cli.example_reference()
    jobs = []
    for k, q in enumerate(chosen):
        v = k % len(tinies)
        jobs.append((k, q["init"], q["cmds"], tinies[v], refs[v], str(chk.scratch), example))
    with ThreadPoolExecutor(16) as pool:
        results = list(pool.map(cli.run_sequence, jobs))
    recs, where = [], []
    for k, steps in enumerate(results):
        for j, st in enumerate(steps):
            recs.append({x: st[x] for x in ("seq", "cmd", "pre", "post", "exit", "rc", "cardsEq", "ops")})
            where.append((k, j, st))
        key = (repr(chosen[k]["init"]), tuple(cli.text(c) for c in chosen[k]["cmds"]))
        chk.count(1, key, nontrivial=True)
    chk.note("sequences", {"all": len(seqs), "transition_cover": n_cover, "executed": len(chosen), "commands": len(recs)})
    for k in (0, len(chosen) - 1):
        chk.sample({"init": chosen[k]["init"], "commands": [cli.text(c) for c in chosen[k]["cmds"]],
                    "observed": [(s["exit"], s["rc"], s["cardsEq"], s["ops"], s["msg"]) for s in results[k]]})

    # ---- B3 -----------------------------------------------------------------------------
    r = chk.tlc("CliTrace", "CliTrace.cfg", trace=recs, workers=1, label="observed command steps")
    if r.violated or not r.completed:
        raise MachineryError(f"CliTrace not accepted: {r.out[-2000:]}")
    chk.cov["traces_validated_against_impl"] += len(recs)
    by = {}
    for t in r.printed("BAD"):
        by.setdefault(t[2], []).append(t[1] - 1)
    for verdict, idx in sorted(by.items()):
        k, j, st = where[idx[0]]
        hist = " ; ".join(cli.text(c) for c in chosen[k]["cmds"][: j + 1])
        what = (f"{verdict}: {len(idx)} of {len(recs)} executed commands; e.g. in a fresh directory with "
                f"{_describe(chosen[k]['init'])}: `{hist}` -> exit status {st['rc']} {st['msg']!r}, "
                f"cards at destination: {st['post']['cards'][st['cmd']['l']]}, cardsEq={st['cardsEq']}, ops={st['ops']}")
        if verdict.startswith("C49:"):
            chk.violation(verdict, what, {"init": chosen[k]["init"], "commands": [cli.text(c) for c in chosen[k]["cmds"][: j + 1]], "steps": results[k][: j + 1]})
        else:
            chk.diag(what)
    follows = {"faithful": 0, "intended": 0, "neither": 0}
    for t in r.printed("CONF"):
        follows[t[2]] += 1
        if t[2] == "neither":
            k, j, st = where[t[1] - 1]
            chk.diag(f"conformance: `{cli.text(st['cmd'])}` from {st['pre']} gave exit {st['rc']} and {st['post']} ({st['msg']})")
    chk.note("conformance", {"both designs": len(recs) - sum(follows.values()), **follows})

    # ---- binding demonstration ------------------------------------------------------------
    ok = [x for x in range(len(recs)) if all(x not in v for v in by.values())]
    runs = [x for x in ok if recs[x]["cmd"]["op"].startswith("run") and recs[x]["exit"] == "ok"]
    if runs:
        good = recs[runs[0]]
    else:   # no run succeeded: corrupt a synthetic clean step
        fs0 = {"dir": {"rc": True, "D": False}, "cards": {"rc": "valid", "D": "none"}, "out": {"rc": "none", "D": "none", "X": "none"}}
        fs1 = copy.deepcopy(fs0)
        fs1["out"]["rc"] = "eko"
        good = {"seq": 0, "cmd": {"op": "run1", "l": "rc"}, "pre": fs0, "post": fs1, "exit": "ok", "rc": 0, "cardsEq": "na", "ops": "same"}
    c1 = copy.deepcopy(good)
    c1["ops"] = "differ"
    c2 = copy.deepcopy(good)
    c2["exit"] = "fail"
    c3 = copy.deepcopy(good)
    c3["cmd"] = {"op": "gen", "l": c3["cmd"]["l"]}
    r = chk.tlc("CliTrace", "CliTrace.cfg", trace=[c1, c2, c3], workers=1, label="corrupted records (must be rejected)")
    rej = {t[1] for t in r.printed("BAD") if t[2].startswith("C49:")}
    if rej != {1, 2, 3}:
        raise MachineryError(f"binding demonstration failed: corrupted records accepted ({rej})")
    chk.note("binding_demo", "3 corrupted records rejected by CliTrace")


def _describe(init):
    parts = []
    for l, name in cli.DIRS.items():
        if init["dir"][l]:
            parts.append(f"./{name} present (cards: {init['cards'][l]}, eko.tar: {init['out'][l]})")
        else:
            parts.append(f"./{name} absent")
    parts.append(f"./out.tar: {init['out']['X']}")
    return ", ".join(parts)
