"""C01 an EKO whose target equals its initial point is the identity operator."""
import itertools
import multiprocessing as mp
import random

import numpy as np

from harness.core import MachineryError

META = {
    "id": "C01",
    "level": "model_checking",
    "technique": "TLA+ spec FlavorBlocks: cell domain UnityCells (nf0 x QCD order x QED order x scale-variation scheme x xif x polarized x time-like, 1152 cells) enumerated by TLC together with the branch the runner must take (unity shortcut); every cell instantiated by concrete cards (random method, grid, degree, initial point inside a patch or exactly on a matching scale) and solved by the real solver; each of the 14x14 flavour blocks of the stored operator projected exactly to zero/identity/other and judged by the TLA+ predicate C01_Blocks (FlavorBlocksTrace), with a coverage record that must equal the cell domain",
    "text": "Thorough: exhaustive over the 1152 cells, 4 instantiations each (TLC checks the coverage record against the cell domain); quick: a seeded sample of 300 cells; the oracle is a 0/1 comparison of floats within rounding (1e-14 absolute: the flavour rotation leaves noise of a few 1e-17). Cells excluded by the statement (expanded scheme with non-unit ratio) are executed too but not judged.",
    "note": "For 30% of the cells an almost identical solve (differing in the initial nf at the same scale, in the QCD order or in the method) runs first in the same process and is thrown away: state left behind at module level must not reach the judged solve. Only configurations the solver accepts are judged (refusals are diagnostics; crashes are violations). The photon rule: identity with QED, zero row and column in pure QCD.",
    "design_ref": "5 C01",
    "rule": "cell x instantiation; distinct by cell; non-trivial = statement applies and solver accepted the configuration",
}


def _cell(args):
    from harness.drivers import dispatch

    cell, seed = args
    rng = random.Random(seed)
    nx = rng.randrange(2, 9)
    xgrid = sorted(set(np.geomspace(10 ** rng.uniform(-6, -1), 1.0, nx).tolist()))
    xif = 1.0 if cell["xifOne"] or cell["sv"] == "none" else rng.choice([0.5, 2.0, rng.uniform(0.6, 1.7)])
    th, op = dispatch.general_cards(rng, cell["nf0"], cell["nf0"], qcd=cell["qcd"], qed=cell["qed"], sv=cell["sv"], xif=xif,
                                    pol=cell["pol"], tl=cell["tl"], same_point=True, on_wall=rng.random() < 0.4,
                                    xgrid=xgrid, degree=rng.randrange(1, min(4, len(xgrid) - 1) + 1))
    if cell["sv"] == "none":
        th.xif = 1.0
    after = "-"
    if rng.random() < 0.3:
        # an almost identical solve earlier in the same process: nothing of it may reach this one
        after = dispatch.sibling_solve(th, op, rng)
    o = dispatch.solve_blocks(th, op)
    return {"ev": "unity", "cell": cell, "kind": o["kind"], "exc": o["exc"], "blocks": o["blocks"], "msg": o["msg"],
            "method": op.configs.evolution_method.value, "nx": len(xgrid), "after": after}


def run(chk):
    r = chk.tlc("FlavorBlocksMC", "FlavorBlocksMC.cfg", label="unity cells and shortcut rule")
    if r.violated:
        raise MachineryError(f"FlavorBlocks design violated: {r.counterexample()[:1500]}")
    cells = [dict(nf0=a, qcd=b, qed=c, sv=d, xifOne=e, pol=f, tl=g)
             for a, b, c, d, e, f, g in itertools.product((3, 4, 5, 6), (1, 2, 3, 4), (0, 1, 2), ("none", "expo", "expanded"),
                                                          (True, False), (False, True), (False, True))]
    reps = 4 if chk.thorough() else 1
    run_cells = cells if chk.thorough() else chk.rng.sample(cells, 300)
    jobs = [(c, chk.rng.randrange(2**31)) for c in run_cells for _ in range(reps)]
    with mp.get_context("fork").Pool(16) as pool:
        recs = pool.map(_cell, jobs, chunksize=8)
    for rec in recs:
        applies = not (rec["cell"]["sv"] == "expanded" and not rec["cell"]["xifOne"])
        chk.count(1, tuple(sorted(rec["cell"].items())), nontrivial=applies and rec["kind"] == "finite")
    chk.sample({k: v for k, v in recs[0].items()})
    chk.note("refused", sum(1 for x in recs if x["kind"] != "finite"))
    chk.note("exhaustive", chk.thorough())
    trace = recs + ([{"ev": "unity-coverage", "cells": cells}] if chk.thorough() else [])
    res = chk.tlc("FlavorBlocksTrace", "FlavorBlocksTrace.cfg", trace=trace, workers=1, label="blocks judged by C01_Blocks")
    if res.violated or not res.completed:
        raise MachineryError(f"FlavorBlocksTrace not accepted: {res.out[-2000:]}")
    chk.cov["traces_validated_against_impl"] += len(recs)
    seen = set()
    for t in res.printed("BAD"):
        rec = trace[t[1] - 1]
        v = t[2]
        if v.startswith("C01:"):
            c = rec["cell"]
            fp = f"{v} qed={c['qed'] > 0} sv={c['sv']} pol={c['pol']} tl={c['tl']}"
            if fp in seen:
                continue
            seen.add(fp)
            chk.violation(fp, f"{v}: cell={c} method={rec['method']} nx={rec['nx']} {rec['msg']}"
                              + (f" (second solve of the process; the first differed in {rec['after']})" if rec.get("after", "-") != "-" else ""), rec)
        elif v.startswith("COVERAGE"):
            raise MachineryError("unity cells not exhausted")
        elif not v.startswith("DIAG"):
            chk.diag(v)
    import copy
    g = copy.deepcopy(next(x for x in recs if x["kind"] == "finite" and not (x["cell"]["sv"] == "expanded" and not x["cell"]["xifOne"])))
    g["blocks"][3][4] = 2
    r2 = chk.tlc("FlavorBlocksTrace", "FlavorBlocksTrace.cfg", trace=[g], workers=1, label="corrupted blocks (must be rejected)")
    if not [t for t in r2.printed("BAD") if t[2].startswith("C01:")]:
        raise MachineryError("binding demonstration failed")
