"""C52 heavy flavours that are never active are transported unchanged."""
import itertools
import multiprocessing as mp
import random

from harness.core import MachineryError

META = {
    "id": "C52",
    "level": "model_checking",
    "technique": "TLA+ spec FlavorBlocks: cell domain InactiveCells (path shape fixed/up/down x nf range x QED) enumerated by TLC and predicate C52_Blocks (rows and columns of every never-active quark and antiquark are unit vectors); every cell instantiated over orders, methods, QED orders, polarized/time-like, scale variations and solved by the real solver (fixed-node quadrature shim); the 14x14 flavour blocks of the stored operator projected to zero/identity/other and judged by TLC (FlavorBlocksTrace) with a coverage record",
    "text": "All 18 path cells (fixed nf 3-5, upward and downward paths across one or two thresholds with final/initial nf <= 5, QCD and QED) are executed in both tiers, each with several configurations (orders 1-4, all methods, sv schemes, polarized, time-like, QED orders 1-2; thorough: 40 per cell). A quark counts as never active when its index exceeds the largest nf on the path; its q and qbar blocks must be the identity and every other block in their rows and columns zero.",
    "note": "Blocks are compared within 1e-14 absolute (rounding of the flavour rotation). The quadrature shim does not touch the flavour structure. Refused configurations are diagnostics.",
    "design_ref": "5 C52",
    "rule": "(cell, configuration); distinct by both; non-trivial = solver accepted the configuration and the path contains at least one integration",
}


def _cell(args):
    from harness.drivers import dispatch

    cell, seed = args
    rng = random.Random(seed)
    qed = rng.choice([1, 2]) if cell["qed"] else 0
    qcd = rng.choice([1, 2, 3, 4])
    pol, tl = rng.choice([(False, False), (False, False), (True, False), (False, True)])
    if qed:
        pol = tl = False
    if (pol or tl) and qcd == 4:
        qcd = 3
    sv = rng.choice(["none", "expo", "expanded"])
    xif = 1.0 if sv == "none" else rng.choice([0.5, 2.0])
    a, b = (cell["nfLo"], cell["nfHi"]) if cell["shape"] != "down" else (cell["nfHi"], cell["nfLo"])
    th, op = dispatch.general_cards(rng, a, b, qcd=qcd, qed=qed, sv=sv, xif=xif, pol=pol, tl=tl)
    o = dispatch.solve_blocks(th, op)
    return {"ev": "inactive", "cell": cell, "kind": o["kind"], "exc": o["exc"], "blocks": o["blocks"], "msg": o["msg"],
            "cfg": {"qcd": qcd, "qed": qed, "pol": pol, "tl": tl, "sv": sv, "method": op.configs.evolution_method.value}}


def run(chk):
    r = chk.tlc("FlavorBlocksMC", "FlavorBlocksMC.cfg", label="cell domains")
    if r.violated:
        raise MachineryError(f"FlavorBlocks design violated: {r.counterexample()[:1500]}")
    cells = []
    for shape, lo, hi, qed in itertools.product(("fixed", "up", "down"), (3, 4, 5), (3, 4, 5), (False, True)):
        if lo <= hi and (shape == "fixed") == (lo == hi):
            cells.append(dict(shape=shape, nfLo=lo, nfHi=hi, qed=qed))
    reps = 40 if chk.thorough() else 8
    jobs = [(c, chk.rng.randrange(2**31)) for c in cells for _ in range(reps)]
    with mp.get_context("fork").Pool(16) as pool:
        recs = pool.map(_cell, jobs, chunksize=2)
    for rec in recs:
        chk.count(1, (tuple(sorted(rec["cell"].items())), tuple(sorted(rec["cfg"].items()))), nontrivial=rec["kind"] == "finite")
    chk.sample(recs[0])
    chk.note("refused", sum(1 for x in recs if x["kind"] != "finite"))
    chk.note("exhaustive", True)
    trace = recs + [{"ev": "inactive-coverage", "cells": cells}]
    res = chk.tlc("FlavorBlocksTrace", "FlavorBlocksTrace.cfg", trace=trace, workers=1, label="blocks judged by C52_Blocks")
    if res.violated or not res.completed:
        raise MachineryError(f"FlavorBlocksTrace not accepted: {res.out[-2000:]}")
    chk.cov["traces_validated_against_impl"] += len(recs)
    seen = set()
    for t in res.printed("BAD"):
        rec = trace[t[1] - 1]
        v = t[2]
        if v.startswith("C52:"):
            fp = f"{v} shape={rec['cell']['shape']} nf={rec['cell']['nfLo']}-{rec['cell']['nfHi']} qed={rec['cell']['qed']}"
            if fp in seen:
                continue
            seen.add(fp)
            chk.violation(fp, f"{v}: cell={rec['cell']} cfg={rec['cfg']} {rec['msg']}", rec)
        elif v.startswith("COVERAGE"):
            raise MachineryError("inactive cells not exhausted")
        elif not v.startswith("DIAG"):
            chk.diag(v)
    import copy
    g = copy.deepcopy(next(x for x in recs if x["kind"] == "finite"))
    g["blocks"][1][7] = 2   # tbar <- gluon
    r2 = chk.tlc("FlavorBlocksTrace", "FlavorBlocksTrace.cfg", trace=[g], workers=1, label="corrupted blocks (must be rejected)")
    if not [t for t in r2.printed("BAD") if t[2].startswith("C52:")]:
        raise MachineryError("binding demonstration failed")
