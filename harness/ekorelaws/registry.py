"""Evaluation of the real (un-jitted) ekore functions for the cells of EkoreLaws.tla.

Only public dispatchers / leaf functions of ekore are called; which function exists for which
(variant, sector, order) is decided by the specification (the harness is handed cells).
"""

import math

import numpy as np

NS_MODE = {"ns+": 10101, "ns-": 10201, "nsv": 10200}
QED_NS_MODE = {"ns+u": 10102, "ns+d": 10103, "ns-u": 10202, "ns-d": 10203}


def var_tuple(fl, var):
    """Uniform N3LO variation tuple (gg, gq, qg, qq, nsp, nsm, nsv)."""
    if fl == "fhmruvv":
        return (var,) * 7
    if fl == "eko":
        # in-house N3LO: only the singlet entries vary (gg 0-19, gq/qg 0-15, qq 0-6)
        return (min(var, 19), min(var, 15), min(var, 15), min(var, 6), 0, 0, 0)
    return (0,) * 7


def _ad_mods():
    import ekore.anomalous_dimensions.polarized.space_like as ps
    import ekore.anomalous_dimensions.unpolarized.space_like as us
    import ekore.anomalous_dimensions.unpolarized.time_like as ut

    return us, ut, ps


def _ome_mods():
    import ekore.operator_matrix_elements.polarized.space_like as ps
    import ekore.operator_matrix_elements.unpolarized.space_like as us
    import ekore.operator_matrix_elements.unpolarized.time_like as ut

    return us, ut, ps


def ad_tower(v, sec, k, q, nf, fl, var, n):
    """The array returned by the dispatcher of (variant, sector) at perturbative order (k, q).

    `var` is a variation index (see var_tuple / VarTuple in EkoreLaws.tla) or the tuple itself."""
    us, ut, ps = _ad_mods()
    use_fh = fl != "eko"
    vt = tuple(var) if isinstance(var, (tuple, list)) else var_tuple(fl, var)
    if v == "us":
        if sec == "S":
            return us.gamma_singlet((k, 0), n, nf, vt, use_fh)
        return us.gamma_ns((k, 0), NS_MODE[sec], n, nf, vt, use_fh)
    if v == "ut":
        if sec == "S":
            return ut.gamma_singlet((k, 0), n, nf)
        return ut.gamma_ns((k, 0), NS_MODE[sec], n, nf)
    if v == "ps":
        if sec == "S":
            return ps.gamma_singlet((k, 0), n, nf)
        return ps.gamma_ns((k, 0), NS_MODE[sec], n, nf)
    if v == "qed":
        if sec == "S":
            return us.gamma_singlet_qed((k, q), n, nf, vt, use_fh)
        if sec == "V":
            return us.gamma_valence_qed((k, q), n, nf, vt, use_fh)
        return us.gamma_ns_qed((k, q), QED_NS_MODE[sec], n, nf, vt, use_fh)
    raise KeyError(v)


def ad_entry(v, sec, k, q, nf, fl, var, n, a=-1, b=-1):
    """One entry of the order-(k, q) slice of a tower (a, b = -1 for scalars)."""
    if v == "qed":
        kk, qq = max(k, 1), max(q, 1)  # the QED grids always hold (1,0), (0,1), (1,1)
        t = ad_tower(v, sec, kk, qq, nf, fl, var, n)[k, q]
    else:
        t = ad_tower(v, sec, k, 0, nf, fl, var, n)[k - 1]
    if a < 0:
        return complex(t)
    return complex(t[a, b])


def ome_tower(v, sec, k, nf, L, n):
    us, ut, ps = _ome_mods()
    if v == "us":
        if sec == "NS":
            return us.A_non_singlet((k, 0), n, nf, L)
        return us.A_singlet((k, 0), n, nf, L, sec == "Smsbar")
    if v == "ps":
        if sec == "NS":
            return ps.A_non_singlet((k, 0), n, L)
        return ps.A_singlet((k, 0), n, nf, L)
    if v == "ut":
        if sec == "NS":
            return ut.A_non_singlet((k, 0), n, L)
        return ut.A_singlet((k, 0), n, L)
    raise KeyError(v)


def fhmruvv_entry(name, n, nf, variation):
    from ekore.anomalous_dimensions.unpolarized.space_like.as4 import fhmruvv as F
    from ekore.harmonics import cache as c

    f = {
        "gg": F.gamma_gg,
        "gq": F.gamma_gq,
        "qg": F.gamma_qg,
        "ps": F.gamma_ps,
        "nsp": F.gamma_nsp,
        "nsm": F.gamma_nsm,
        "nsv": F.gamma_nsv,
    }[name]
    return complex(f(n, nf, c.reset(), variation))


def beta_qcd(k, nf):
    from eko import beta

    return float(beta.beta_qcd((k + 1, 0), nf))


# ---------------------------------------------------------------------------------------
# evaluation at / next to removable singularities
# ---------------------------------------------------------------------------------------
LIMIT_EPS = 1e-7
LIMIT_PHASES = (0.3, 1.7, 3.3, 5.0)


def at_or_limit(f, n0):
    """[f(n0)] if finite, else f at n0 + eps*exp(i phi) for four directions in the complex plane.

    Returns (list of values, used_limit)."""
    import warnings

    with warnings.catch_warnings():
        warnings.simplefilter("ignore")
        try:
            x = np.asarray(f(n0), dtype=np.complex128)
            if np.all(np.isfinite(x)):
                return [x], False
        except ZeroDivisionError:
            pass
        return [
            np.asarray(f(n0 + LIMIT_EPS * complex(math.cos(p), math.sin(p))), dtype=np.complex128)
            for p in LIMIT_PHASES
        ], True


# ---------------------------------------------------------------------------------------
# random Mellin moments
# ---------------------------------------------------------------------------------------
def point_off_contour(rng):
    """Random N away from the real axis poles: Re N in (-2.5, 30) non-integer, |Im N| in [0.05, 40]."""
    re = rng.uniform(-2.5, 30.0)
    im = rng.uniform(0.05, 40.0) * rng.choice((-1.0, 1.0))
    return complex(re, im)


def point_on_talbot(rng, singlet):
    """A point of the Talbot contour eko integrates on (eko.mellin.Talbot_path)."""
    from eko import mellin

    t = rng.uniform(0.505, 0.93)
    if singlet:
        x = 10 ** rng.uniform(-5, -0.05)
        r, o = 0.4 * 16.0 / (1.0 - math.log(x)), 1.0
    else:
        r, o = 0.5, 0.0
    return complex(mellin.Talbot_path(t, r, o))


def point_real(rng):
    """Real N away from the poles (N > 1, not within 0.05 of an integer)."""
    while True:
        x = rng.uniform(1.2, 40.0)
        if abs(x - round(x)) > 0.05:
            return x
