"""Integer classes for numeric observations (nothing else travels to TLC).

cls_equal : 0 bitwise equal, 1 equal to rounding, 2.. decade buckets of the relative difference
expo100   : floor(100*log10(x)) clipped to [-2000, 2000]  (x = 0 -> -2000)
"""

import math

import numpy as np

ROUNDING = 1e-11  # relative; measured clean values are <= 5e-14 wherever class 1 is required
EXPO_MIN = -2000
EXPO_MAX = 2000


def expo100(x) -> int:
    """Integer exponent x100 of a non-negative residual."""
    x = float(abs(x))
    if x != x or math.isinf(x):
        return EXPO_MAX
    if x <= 0.0:
        return EXPO_MIN
    e = math.floor(100.0 * math.log10(x))
    return int(max(EXPO_MIN, min(EXPO_MAX, e)))


def _bits(a):
    a = np.ascontiguousarray(np.asarray(a, dtype=np.complex128))
    return a.tobytes()


def cls_equal(a, b, scale=None) -> int:
    """Class of |a-b|: 0 bitwise, 1 rounding, else 2 + decades above the rounding level (<= 14)."""
    a = np.asarray(a, dtype=np.complex128)
    b = np.asarray(b, dtype=np.complex128)
    if a.shape != b.shape:
        return 15
    if _bits(a + 0.0) == _bits(b + 0.0):  # +0.0 folds the sign of zero
        return 0
    if not (np.all(np.isfinite(a)) and np.all(np.isfinite(b))):
        return 15
    d = float(np.max(np.abs(a - b)))
    if d == 0.0:
        return 0
    s = float(scale) if scale is not None else float(max(np.max(np.abs(a)), np.max(np.abs(b))))
    if s <= 0.0:
        return 15
    r = d / s
    if r <= ROUNDING:
        return 1
    return int(min(14, 2 + max(0, math.floor(math.log10(r / ROUNDING)))))


def cls_real(a, scale=None) -> int:
    """Class of the imaginary part relative to the size of the value."""
    a = np.asarray(a, dtype=np.complex128)
    return cls_equal(a, a.real.astype(np.complex128), scale)
