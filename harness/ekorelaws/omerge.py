"""Law OmeRge (C29), first order: dA1/dL = G0(nf) - G0(nf+1) in the basis (g, Sigma_light, h+).

The embeddings are the ones stated in EkoreLaws.tla; the leading-order anomalous dimensions are
the code's own (as1 modules of the three variants)."""

import numpy as np

from harness.ekorelaws import engine as E
from harness.ekorelaws import registry as R
from harness.ekorelaws.classes import expo100


def _g0(v, n, nf):
    """(gg(nf), gq-like g<-q, qg(nf), qq, per-flavour h<-g, g<-h) of the code's LO singlet matrix."""
    from ekore.harmonics import cache as c

    if v == "us":
        from ekore.anomalous_dimensions.unpolarized.space_like import as1

        s = as1.gamma_singlet(n, c.reset(), nf)  # [[qq, qg], [gq, gg]]
        return s[1, 1], s[1, 0], s[0, 1], s[0, 0], as1.gamma_qg(n, 1), s[1, 0]
    if v == "ps":
        from ekore.anomalous_dimensions.polarized.space_like import as1

        s = as1.gamma_singlet(n, c.reset(), nf)
        return s[1, 1], s[1, 0], s[0, 1], s[0, 0], as1.gamma_qg(n, 1), s[1, 0]
    if v == "ut":
        from ekore.anomalous_dimensions.unpolarized.time_like import as1

        s = as1.gamma_singlet(n, nf, c.reset())  # [[qq, gq(N, nf)], [qg(N), gg]]
        # time-like: the Sigma row receives gq(N, nf) from the gluon, the h+ row gq(N, 1)
        return s[1, 1], s[1, 0], s[0, 1], s[0, 0], as1.gamma_gq(n, 1), s[1, 0]
    raise KeyError(v)


def prediction(v, n, nf):
    gg, gq, qg, qq, hg, gh = _g0(v, n, nf)
    gg1 = _g0(v, n, nf + 1)[0]
    low = np.array([[gg, gq, 0], [qg, qq, 0], [0, 0, 0]], dtype=np.complex128)
    high = np.array([[gg1, gq, gh], [qg, qq, 0], [hg, 0, qq]], dtype=np.complex128)
    return low - high, float(np.max(np.abs(high)))


def measure_cell(cell, seed):
    rng = E.cell_rng(seed, cell, "C29rge")
    n = R.point_on_talbot(rng, True) if cell["j"] % 2 else complex(rng.uniform(1.3, 25.0), rng.uniform(-30.0, 30.0))
    L = rng.uniform(-2.5, 2.5)
    v, nf = cell["v"], cell["nf"]
    a_hi = R.ome_tower(v, "S", 1, nf, L + 0.5, n)[0]
    a_lo = R.ome_tower(v, "S", 1, nf, L - 0.5, n)[0]
    d = np.asarray(a_hi - a_lo, dtype=np.complex128)  # exact derivative of a polynomial of degree 1 in L
    pred, scale = prediction(v, n, nf)
    cols = list(cell["cols"])
    diff = np.abs(d[:, cols] - pred[:, cols])
    res = float(np.max(diff)) / scale
    k = np.unravel_index(int(np.argmax(diff)), diff.shape)
    return {"e": expo100(res)}, {"res": res, "n": [n.real, n.imag], "L": L, "entry": [int(k[0]), int(cols[k[1]])]}
