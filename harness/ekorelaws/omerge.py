"""Law OmeRge (C29), first order: dA1/dL = G0(nf) - G0(nf+1) in the basis (g, Sigma_light, h+).

The embeddings are the ones stated in EkoreLaws.tla; the leading-order anomalous dimensions are
the code's own (as1 modules of the three variants)."""

import numpy as np

from harness.ekorelaws import engine as E
from harness.ekorelaws import registry as R
from harness.ekorelaws.classes import expo100


def _g0(v, n, nf):
    """(gg(nf), gq-like g<-q, qg(nf), qq, per-flavour h<-g, g<-h) of the code's LO singlet matrix."""
    from ekore.harmonics import cache as c

    if v == "us":
        from ekore.anomalous_dimensions.unpolarized.space_like import as1

        s = as1.gamma_singlet(n, c.reset(), nf)  # [[qq, qg], [gq, gg]]
        return s[1, 1], s[1, 0], s[0, 1], s[0, 0], as1.gamma_qg(n, 1), s[1, 0]
    if v == "ps":
        from ekore.anomalous_dimensions.polarized.space_like import as1

        s = as1.gamma_singlet(n, c.reset(), nf)
        return s[1, 1], s[1, 0], s[0, 1], s[0, 0], as1.gamma_qg(n, 1), s[1, 0]
    if v == "ut":
        from ekore.anomalous_dimensions.unpolarized.time_like import as1

        s = as1.gamma_singlet(n, nf, c.reset())  # [[qq, gq(N, nf)], [qg(N), gg]]
        # time-like: the Sigma row receives gq(N, nf) from the gluon, the h+ row gq(N, 1)
        return s[1, 1], s[1, 0], s[0, 1], s[0, 0], as1.gamma_gq(n, 1), s[1, 0]
    raise KeyError(v)


def prediction(v, n, nf):
    gg, gq, qg, qq, hg, gh = _g0(v, n, nf)
    gg1 = _g0(v, n, nf + 1)[0]
    low = np.array([[gg, gq, 0], [qg, qq, 0], [0, 0, 0]], dtype=np.complex128)
    high = np.array([[gg1, gq, gh], [qg, qq, 0], [hg, 0, qq]], dtype=np.complex128)
    return low - high, float(np.max(np.abs(high)))


def measure_cell(cell, seed):
    rng = E.cell_rng(seed, cell, "C29rge")
    n = R.point_on_talbot(rng, True) if cell["j"] % 2 else complex(rng.uniform(1.3, 25.0), rng.uniform(-30.0, 30.0))
    L = rng.uniform(-2.5, 2.5)
    v, nf = cell["v"], cell["nf"]
    a_hi = R.ome_tower(v, "S", 1, nf, L + 0.5, n)[0]
    a_lo = R.ome_tower(v, "S", 1, nf, L - 0.5, n)[0]
    d = np.asarray(a_hi - a_lo, dtype=np.complex128)  # exact derivative of a polynomial of degree 1 in L
    pred, scale = prediction(v, n, nf)
    cols = list(cell["cols"])
    diff = np.abs(d[:, cols] - pred[:, cols])
    res = float(np.max(diff)) / scale
    k = np.unravel_index(int(np.argmax(diff)), diff.shape)
    return {"e": expo100(res)}, {"res": res, "n": [n.real, n.imag], "L": L, "entry": [int(k[0]), int(cols[k[1]])]}


# ---------------------------------------------------------------------------------------------
# Law OmeRgeNs (C29): non-singlet, second and third order
# ---------------------------------------------------------------------------------------------
# With f(nf+1) = A(a', L) f(nf), a' = a_s(nf+1), a_s(nf) = a' (1 + d1(L) a' + d2(L) a'^2) (the code's own
# decoupling table, downwards), d f / d ln mu^2 = -gamma f in both schemes and d a' / d ln mu^2 = -beta0' a'^2 - ...,
# the orders a'^2 and a'^3 of the RG equation for the scalar non-singlet element read
#     dA2/dL = beta0' A1 + gamma0 d1 + gamma1(nf) - gamma1(nf+1)
#     dA3/dL = 2 beta0' A2 + beta1' A1 + gamma0 d2 + 2 d1 gamma1(nf) + gamma2(nf) - gamma2(nf+1)
#              + A1 (gamma0 d1 + gamma1(nf) - gamma1(nf+1))
# (gamma = the odd-moment non-singlet anomalous dimension gamma_ns^-, the continuation the element uses).


def _gamma_nsm(v, n, nf, k):
    from ekore.harmonics import cache as c

    if v == "us":
        import ekore.anomalous_dimensions.unpolarized.space_like as ad
    elif v == "ps":
        import ekore.anomalous_dimensions.polarized.space_like as ad
    else:
        raise KeyError(v)
    out = [ad.as1.gamma_ns(n, c.reset()), ad.as2.gamma_nsm(n, nf, c.reset())]
    if k >= 3:
        out.append(ad.as3.gamma_nsm(n, nf, c.reset()))
    return [complex(x) for x in out]


def measure_ns_cell(cell, seed):
    from eko.beta import beta_qcd
    from eko.couplings import compute_matching_coeffs_down

    rng = E.cell_rng(seed, cell, "C29rgens")
    v, nf, k = cell["v"], cell["nf"], cell["k"]
    n = complex(rng.uniform(1.3, 25.0), rng.uniform(-30.0, 30.0)) if cell["j"] % 2 else complex(rng.uniform(1.3, 6.0), rng.uniform(-5.0, 5.0))
    L = rng.uniform(-2.5, 2.5)

    def tower(LL):
        t = R.ome_tower(v, "NS", k, nf, LL, n)
        return np.array([complex(t[i][0, 0]) for i in range(k)])

    h = 0.5  # five-point rule: exact for the polynomials of degree <= 3 in L
    dA = (-tower(L + 2 * h) + 8 * tower(L + h) - 8 * tower(L - h) + tower(L - 2 * h)) / (12 * h)
    A = tower(L)
    dn = compute_matching_coeffs_down("POLE", nf)
    d1 = sum(dn[1, q] * L**q for q in range(2))
    d2 = sum(dn[2, q] * L**q for q in range(3))
    g = _gamma_nsm(v, n, nf, k)
    gp = _gamma_nsm(v, n, nf + 1, k)
    b0p, b1p = float(beta_qcd((2, 0), nf + 1)), float(beta_qcd((3, 0), nf + 1))
    if k == 2:
        parts = [b0p * A[0], g[0] * d1, g[1], -gp[1]]
    else:
        parts = [2 * b0p * A[1], b1p * A[0], g[0] * d2, 2 * d1 * g[1], g[2], -gp[2], A[0] * (g[0] * d1 + g[1] - gp[1])]
    res = abs(dA[k - 1] - sum(parts)) / max([abs(x) for x in parts] + [1.0])
    return {"e": expo100(res)}, {"res": float(res), "n": [n.real, n.imag], "L": L, "entry": [0, 0]}


# ---------------------------------------------------------------------------------------------
# Law OmeRge2 (C29): singlet matrices, second order, entry by entry
# ---------------------------------------------------------------------------------------------
# In the basis (g, Sigma_light, h+):   dA2/dL = beta0' A1 + G1(nf) + d1 G0(nf) - G1(nf+1) + A1 G0(nf) - G0(nf+1) A1
# where G(nf) embeds the nf-flavour singlet matrix with an inert heavy quark and G(nf+1) is the (nf+1)-flavour
# evolution of (g, Sigma' = Sigma_light + h+) and of the non-singlet T = Sigma_light - nf h+ (gamma_ns^+),
# rewritten for (g, Sigma_light, h+):
#     g     row: (gg, gq, gq)
#     Sigma row: (nf qg, nf qq + ns, nf (qq - ns)) / (nf + 1)
#     h+    row: (qg, qq - ns, qq + nf ns) / (nf + 1)
ENTRIES2 = {"gg": (0, 0), "gq": (0, 1), "qg": (1, 0), "qq": (1, 1), "hg": (2, 0), "hq": (2, 1)}


def _gam2(v, n, nf):
    from ekore.harmonics import cache as c

    if v == "us":
        import ekore.anomalous_dimensions.unpolarized.space_like as ad
    elif v == "ps":
        import ekore.anomalous_dimensions.polarized.space_like as ad
    else:
        raise KeyError(v)
    return (np.asarray(ad.as1.gamma_singlet(n, c.reset(), nf), dtype=np.complex128),
            np.asarray(ad.as2.gamma_singlet(n, nf, c.reset()), dtype=np.complex128),
            complex(ad.as1.gamma_ns(n, c.reset())), complex(ad.as2.gamma_nsp(n, nf, c.reset())))


def _low(s):
    return np.array([[s[1, 1], s[1, 0], 0], [s[0, 1], s[0, 0], 0], [0, 0, 0]], dtype=np.complex128)


def _high(s, ns, nf):
    qq, qg, gq, gg = s[0, 0], s[0, 1], s[1, 0], s[1, 1]
    n1 = nf + 1
    return np.array([[gg, gq, gq],
                     [nf * qg / n1, (nf * qq + ns) / n1, nf * (qq - ns) / n1],
                     [qg / n1, (qq - ns) / n1, (qq + nf * ns) / n1]], dtype=np.complex128)


def measure_rge2_cell(cell, seed):
    from eko.beta import beta_qcd
    from eko.couplings import compute_matching_coeffs_down

    # the same point for the six entries of one (v, nf, j)
    rng = E.cell_rng(seed, {"v": cell["v"], "nf": cell["nf"], "j": cell["j"]}, "C29rge2")
    v, nf = cell["v"], cell["nf"]
    # "us-msbar": the unpolarised matrices in the variant for MSbar heavy-quark masses (L in terms of m(m): the
    # same law; the variant differs from the pole-mass one by L-independent second-order terms)
    sec = "S"
    if v == "us-msbar":
        v, sec = "us", "Smsbar"
    n = complex(rng.uniform(1.5, 25.0), rng.uniform(-30.0, 30.0)) if cell["j"] % 2 else complex(rng.uniform(1.5, 6.0), rng.uniform(-5.0, 5.0))
    L = rng.uniform(-2.5, 2.5)

    def tower(LL):
        t = R.ome_tower(v, sec, 2, nf, LL, n)
        return np.asarray(t[0], dtype=np.complex128), np.asarray(t[1], dtype=np.complex128)

    h = 0.5
    dA2 = (-tower(L + 2 * h)[1] + 8 * tower(L + h)[1] - 8 * tower(L - h)[1] + tower(L - 2 * h)[1]) / (12 * h)
    A1 = tower(L)[0]
    s0, s1, ns0, ns1 = _gam2(v, n, nf)
    p0, p1, pn0, pn1 = _gam2(v, n, nf + 1)
    dn = compute_matching_coeffs_down("POLE", nf)
    d1 = dn[1, 0] + dn[1, 1] * L
    b0p = float(beta_qcd((2, 0), nf + 1))
    G0n, G1n, G0p, G1p = _low(s0), _low(s1), _high(p0, pn0, nf), _high(p1, pn1, nf)
    rhs = b0p * A1 + G1n + d1 * G0n - G1p + A1 @ G0n - G0p @ A1
    r, q = ENTRIES2[cell["entry"]]
    scale = float(np.max(np.abs(G1p)))
    res = float(abs(dA2[r, q] - rhs[r, q])) / scale
    return {"e": expo100(res)}, {"res": res, "n": [n.real, n.imag], "L": L, "entry": [r, q],
                                 "dA2_dL": [dA2[r, q].real, dA2[r, q].imag], "required": [rhs[r, q].real, rhs[r, q].imag]}
