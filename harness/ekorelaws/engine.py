"""Plan -> measure -> validate loop shared by the law checks C24 (values), C25-C27, C29, C30.

* plan(chk, check)            TLC (EkoreLawsPlan) enumerates Plan(check); every cell is an initial
                              state, the per-cell decidability invariant is checked, the plan is
                              returned as the list of cells TLC wrote.
* measure(chk, cells, fn)     fork pool; fn(cell, rng) -> (obs dict of ints, info dict)
* validate(chk, check, recs)  TLC (EkoreLawsTrace) judges every record and the completeness of the
                              trace against the plan; returns (bad, unresolved).
"""

import json
import multiprocessing as mp
import random

from harness.core import MachineryError


# short TLC runs (a few thousand records) are dominated by JVM start-up and JIT warm-up
FAST_JVM = {"JAVA_TOOL_OPTIONS": "-XX:ParallelGCThreads=2 -XX:TieredStopAtLevel=1 -XX:CICompilerCount=1"}


def points_per_cell(chk, quick, thorough):
    return thorough if chk.thorough() else quick


def cell_key(cell):
    return json.dumps(cell, sort_keys=True, separators=(",", ":"))


def cell_rng(seed, cell, salt=""):
    return random.Random(f"{seed}|{salt}|{cell_key(cell)}")


def plan(chk, check, J):
    pf = chk.scratch / f"plan-{check}.json"
    r = chk.tlc(
        "EkoreLawsPlan",
        "EkoreLawsPlan.cfg",
        workers=1,
        label=f"plan of {check} (every cell an initial state, per-cell decidability)",
        env={"EKL_J": J, "EKL_CHECK": check, "EKL_PLAN_FILE": str(pf), **FAST_JVM},
    )
    if r.violated or not r.completed:
        raise MachineryError(f"EkoreLawsPlan failed for {check}: {r.violated} {r.out[-1500:]}")
    cells = json.loads(pf.read_text())
    if len(cells) != r.distinct:
        raise MachineryError(f"plan file has {len(cells)} cells, TLC enumerated {r.distinct}")
    chk.note("planned_cells", len(cells))
    return cells


_FN = None
_SEED = None


def _work(chunk):
    out = []
    for cell in chunk:
        try:
            obs, info = _FN(cell, _SEED)
        except Exception as ex:  # noqa: BLE001 - reported as machinery failure by the parent
            return ("error", f"{type(ex).__name__}: {ex} in cell {cell}")
        out.append((cell, obs, info))
    return ("ok", out)


def measure(chk, cells, fn, nproc=16):
    """fn(cell, seed) -> (obs, info); obs = dict of ints travelling to TLC, info = floats for notes."""
    global _FN, _SEED
    _FN, _SEED = fn, chk.seed
    n = len(cells)
    if n == 0:
        return []
    size = max(1, min(200, n // (nproc * 4) + 1))
    chunks = [cells[i : i + size] for i in range(0, n, size)]
    if n < 400:
        res = [_work(c) for c in chunks]
    else:
        ctx = mp.get_context("fork")
        with ctx.Pool(nproc) as pool:
            res = pool.map(_work, chunks)
    out = []
    for status, payload in res:
        if status != "ok":
            raise MachineryError(f"measurement failed: {payload}")
        out.extend(payload)
    return out


def validate(chk, check, J, recs, label, cfg="EkoreLawsTrace.cfg", account=True):
    """recs: [{"cell":..., "obs":...}].  Returns (bad [(index0|None, verdict)], unresolved [index0])."""
    r = chk.tlc(
        "EkoreLawsTrace",
        cfg,
        workers=1,
        trace={"check": check, "recs": recs},
        label=label,
        env={"EKL_J": J, **FAST_JVM},
    )
    if r.violated or not r.completed:
        raise MachineryError(f"EkoreLawsTrace not accepted ({label}): {r.out[-1500:]}")
    bad = []
    for t in r.printed("BAD"):
        bad.append((t[1] - 1 if t[1] > 0 else None, t[2]))
    unres = [t[1] - 1 for t in r.printed("UNRES")]
    if account:
        chk.cov["traces_validated_against_impl"] += len(recs)
    return bad, unres


def fingerprint(verdict, cell, keys):
    parts = [verdict] + [f"{k}={cell[k]}" for k in keys if k in cell]
    return " ".join(parts)


def report(chk, check, measured, bad, unres, fp_keys, describe):
    """Turn TLC's verdicts into violations / diagnostics / notes."""
    groups = {}
    for idx, verdict in bad:
        if idx is None:
            raise MachineryError(f"trace incomplete against the plan: {verdict}")
        cell, obs, info = measured[idx]
        if verdict.startswith("PLAN:"):
            raise MachineryError(f"harness produced an unplanned cell: {cell}")
        if not verdict.startswith(check + ":"):
            chk.diag(f"{verdict} {cell}")
            continue
        groups.setdefault(fingerprint(verdict, cell, fp_keys), []).append((cell, obs, info))
    for fp, items in sorted(groups.items()):
        cell, obs, info = items[0]
        chk.violation(
            fp,
            f"{describe(cell, obs, info)} ({len(items)} cell(s) of this class)",
            {"cells": [{"cell": c, "obs": o, "info": i} for c, o, i in items[:20]]},
        )
    if unres:
        chk.note(
            "unresolved_cells",
            {"count": len(unres), "examples": [measured[i][0] for i in unres[:5]]},
        )
    else:
        chk.note("unresolved_cells", {"count": 0})


def binding_demo(chk, check, J, good_recs, corrupt, expect_prefix):
    """A corrupted record must be rejected with a clause of this check."""
    import copy

    recs = []
    for r in good_recs:
        c = copy.deepcopy(r)
        corrupt(c)
        recs.append(c)
    bad, _ = validate(chk, check, J, recs, "corrupted records (must be rejected)", account=False)
    rejected = {i for i, v in bad if i is not None and v.startswith(expect_prefix)}
    if rejected != set(range(len(recs))):
        raise MachineryError(f"binding demonstration failed: corrupted records accepted ({sorted(rejected)})")
    chk.note("binding_demo", f"{len(recs)} corrupted records rejected by EkoreLawsTrace")


def switch_guard(chk, check, J, recs, switch, expect_prefix):
    """Vacuity guard: under the design switch the same real trace must be refuted."""
    bad, _ = validate(
        chk, check, J, recs, f"vacuity guard: switch {switch} must refute the real trace",
        cfg=f"EkoreLawsTrace_{switch}.cfg", account=False,
    )
    if not any(v.startswith(expect_prefix) for _, v in bad):
        raise MachineryError(f"vacuity guard: switch {switch} did not refute the trace")
    chk.note("vacuity_guard", f"switch {switch}: {len(bad)} records refuted")
