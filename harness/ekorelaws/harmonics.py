"""Harmonic sums: direct evaluation of Canon(k) through the leaf functions, the driver of
the real ``ekore.harmonics.cache.get`` and the defining terms of the sums (C24)."""

import numpy as np

PAR = {"S": True, "NS": False, "None": None}


def _mods():
    from ekore.harmonics import cache, g_functions, w1, w2, w3, w4, w5

    return cache, g_functions, w1, w2, w3, w4, w5


def arg_form(form, n):
    if form == "n":
        return n
    if form == "h":
        return n / 2
    if form == "mh":
        return (n - 1) / 2
    if form == "ph":
        return (n + 1) / 2
    if form == "p2":
        return n + 2
    raise KeyError(form)


def leaf(fn, N, par):
    """Direct evaluation of the function named `fn` at N (parity flag `par` in True/False/None)
    through the public leaf functions only - never through the cache."""
    c, gf, w1, w2, w3, w4, w5 = _mods()
    S = {1: w1.S1, 2: w2.S2, 3: w3.S3, 4: w4.S4, 5: w5.S5}
    SM = {1: w1.Sm1, 2: w2.Sm2, 3: w3.Sm3, 4: w4.Sm4, 5: w5.Sm5}

    def s(k):
        return S[k](N)

    def sm(k):
        return SM[k](N, S[k](N), S[k]((N - 1) / 2), S[k](N / 2), par)

    if fn in ("S1", "S2", "S3", "S4", "S5"):
        return s(int(fn[1]))
    if fn in ("Sm1", "Sm2", "Sm3", "Sm4", "Sm5"):
        return sm(int(fn[2]))
    if fn == "g3":
        return gf.mellin_g3(N, s(1))
    if fn == "S21":
        return w3.S21(N, s(1), s(2))
    if fn == "Sm21":
        return w3.Sm21(N, s(1), sm(1), par)
    if fn == "S2m1":
        return w3.S2m1(N, s(2), sm(1), sm(2), par)
    if fn == "Sm2m1":
        return w3.Sm2m1(N, s(1), s(2), sm(2))
    if fn == "S31":
        return w4.S31(N, s(1), s(2), s(3), s(4))
    if fn == "S211":
        return w4.S211(N, s(1), s(2), s(3))
    if fn == "Sm31":
        return w4.Sm31(N, s(1), sm(1), sm(2), par)
    if fn == "Sm22":
        return w4.Sm22(N, s(1), s(2), sm(2), w4.Sm31(N, s(1), sm(1), sm(2), par), par)
    if fn == "Sm211":
        return w4.Sm211(N, s(1), s(2), sm(1), par)
    raise KeyError(fn)


def canon_value(entry, n, par):
    """entry: one row of the spec's CanonSeq ({key, fn, arg, pdep})."""
    return leaf(entry["fn"], arg_form(entry["arg"], n), par if entry["pdep"] else par)


def eta(par, N):
    """Analytic continuation of (-1)^N for the flag."""
    if par is None:
        return (-1) ** N
    return 1 if par else -1


def term(name, N, par):
    """term(N) = S(N) - S(N-1) of the defining finite (nested) sum, parity flag of N."""
    if name[0] == "S" and name[1:].isdigit() and len(name) == 2:
        return 1.0 / N ** int(name[1])
    if name[:2] == "Sm" and name[2:].isdigit() and len(name) == 3:
        return eta(par, N) / N ** int(name[2])
    s1 = leaf("S1", N, par)
    if name == "S21":
        return s1 / N**2
    if name == "Sm21":
        return eta(par, N) * s1 / N**2
    if name == "S2m1":
        return leaf("Sm1", N, par) / N**2
    if name == "Sm2m1":
        return eta(par, N) * leaf("Sm1", N, par) / N**2
    if name == "S31":
        return s1 / N**3
    if name == "Sm31":
        return eta(par, N) * s1 / N**3
    if name == "Sm22":
        return eta(par, N) * leaf("S2", N, par) / N**2
    s11 = (s1**2 + leaf("S2", N, par)) / 2
    if name == "S211":
        return s11 / N**2
    if name == "Sm211":
        return eta(par, N) * s11 / N**2
    raise KeyError(name)


def run_cache_trace(canon_seq, keys_order, n, parname, cls_equal):
    """Execute the look-ups on a fresh real cache; return the records for HarmonicCacheTrace."""
    c = _mods()[0]
    par = PAR[parname]
    names = [e["key"] for e in canon_seq]
    idx = {e["key"]: getattr(c, e["key"]) for e in canon_seq}
    direct = {}

    def canon(k):
        if k not in direct:
            direct[k] = canon_value(canon_seq[names.index(k)], n, par)
        return direct[k]

    cache = c.reset()
    recs = []
    for pos, key in enumerate(keys_order):
        reply = c.get(idx[key], cache, n, par)
        filled = [k for k in names if not np.isnan(cache[idx[k]])]
        neq = [k for k in filled if cls_equal(cache[idx[k]], canon(k)) > 1]
        same = bool(np.array([reply]).astype(np.complex128).tobytes() == cache[idx[key] : idx[key] + 1].tobytes())
        recs.append(
            {
                "first": pos == 0,
                "par": parname,
                "key": key,
                "filled": filled,
                "neq": neq,
                "reply": min(2, cls_equal(reply, canon(key))),
                "same": same,
            }
        )
    return recs
