"""MANIFEST.setup_cmd: verify the tool chain and parse every specification module."""
import pathlib
import shutil
import subprocess
import sys
import tempfile

from harness.core import SPEC, TLA_CP, use_repo


def main():
    ok = True
    try:
        use_repo()
    except Exception as ex:  # noqa: BLE001
        print("cannot import eko from the working tree:", ex)
        ok = False
    mods = sorted(p for p in SPEC.glob("*.tla"))
    procs = []
    jtmp = tempfile.mkdtemp(prefix="verif-eko-sany-")   # SANY unpacks library modules into java.io.tmpdir
    for m in mods:
        procs.append((m, subprocess.Popen(
            ["java", f"-Djava.io.tmpdir={jtmp}", "-cp", TLA_CP, "tla2sany.SANY", m.name], cwd=str(SPEC),
            stdout=subprocess.PIPE, stderr=subprocess.STDOUT, text=True)))
        if len(procs) >= 16:
            for mm, p in procs:
                out, _ = p.communicate()
                if p.returncode != 0 or "*** Errors" in out or "Fatal errors" in out:
                    print(f"SANY failed on {mm.name}:\n{out[-1500:]}")
                    ok = False
            procs = []
    for mm, p in procs:
        out, _ = p.communicate()
        if p.returncode != 0 or "*** Errors" in out or "Fatal errors" in out:
            print(f"SANY failed on {mm.name}:\n{out[-1500:]}")
            ok = False
    shutil.rmtree(jtmp, ignore_errors=True)
    print(f"setup: {len(mods)} modules parsed, ok={ok}")
    for d in ("evidence", "replays", "build"):
        (pathlib.Path(__file__).resolve().parent.parent / d).mkdir(exist_ok=True)
    return 0 if ok else 1


if __name__ == "__main__":
    sys.exit(main())
