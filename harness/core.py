"""Core of the verification harness: TLC driver, trace serialisation, verdicts, evidence.

Every check module in harness/checks/ exposes

    META = {"id": "Cxx", "level": "...", "technique": "...", "text": "...", "note": "...", "design_ref": "..."}
    def run(chk: Check) -> None

and is started through bin/check.  A check

* calls ``chk.tlc(...)`` for B1 (design exploration) and B3 (trace validation),
* calls ``chk.violation(fingerprint, what, replay)`` for a falsified property predicate,
* never writes known_findings.json.

Exit status: 0 property held on everything explored (known findings are printed),
1 at least one unlisted violation, 2 machinery failure (no VIOLATION line).
"""

from __future__ import annotations

import json
import os
import pathlib
import random
import re
import shutil
import subprocess
import sys
import tempfile
import time
import traceback

VERIF = pathlib.Path(__file__).resolve().parent.parent
SPEC = VERIF / "spec"
REPO = pathlib.Path(os.environ.get("EKO_REPO", "/repo"))
SRC = pathlib.Path(os.environ.get("EKO_SRC", str(REPO / "src")))
TLA_JAR = "/opt/veriftools/tla/tla2tools.jar"
TLA_CP = f"{TLA_JAR}:/opt/veriftools/tla/CommunityModules-deps.jar"


class MachineryError(Exception):
    """The check could not be carried out (not a verdict)."""


def use_repo():
    """Make `import eko` resolve to the working tree under test."""
    s = str(SRC)
    if s in sys.path:
        sys.path.remove(s)
    sys.path.insert(0, s)
    os.environ.setdefault("NUMBA_DISABLE_JIT", "1")
    import eko  # noqa: F401

    got = pathlib.Path(eko.__file__).resolve().parent.parent
    if got != SRC.resolve():
        raise MachineryError(f"eko imported from {got}, expected {SRC}")


# --------------------------------------------------------------------------------------
# JSON for TLC: JsonDeserialize cannot read null and silently truncates floats
# --------------------------------------------------------------------------------------


def tla_json(obj):
    """Return a structure that TLC's JsonDeserialize reads faithfully, or raise."""
    import numbers

    if isinstance(obj, bool):
        return obj
    if isinstance(obj, str):
        return obj
    if isinstance(obj, numbers.Integral):
        v = int(obj)
        if not -(2**31) < v < 2**31:
            raise MachineryError(f"integer {v} does not fit TLC's 32 bit")
        return v
    if isinstance(obj, float):
        raise MachineryError(f"float {obj!r} must not travel to TLC")
    if obj is None:
        raise MachineryError("null must not travel to TLC")
    if isinstance(obj, dict):
        return {str(k): tla_json(v) for k, v in obj.items()}
    if isinstance(obj, (list, tuple)):
        return [tla_json(v) for v in obj]
    raise MachineryError(f"cannot serialise {type(obj)} for TLC")


# --------------------------------------------------------------------------------------
# TLC
# --------------------------------------------------------------------------------------

_RE_STATES = re.compile(
    r"(\d+) states generated, (\d+) distinct states found, (\d+) states left on queue"
)
_RE_DEPTH = re.compile(r"The depth of the complete state graph search is (\d+)")
_RE_INV = re.compile(r"Error: Invariant (\S+) is violated")
_RE_ACTP = re.compile(r"Error: Action property (\S+) is violated")
_RE_COV = re.compile(r"^<(\w+) line (\d+), col \d+ to line \d+, col \d+ of module (\w+)>: (\d+):(\d+)")


class TlcResult:
    def __init__(self, out: str, rc: int, wall: float, cmd):
        self.out = out
        self.rc = rc
        self.wall = wall
        self.cmd = cmd
        m = None
        for m in _RE_STATES.finditer(out):
            pass
        self.generated = int(m.group(1)) if m else 0
        self.distinct = int(m.group(2)) if m else 0
        m = _RE_DEPTH.search(out)
        self.depth = int(m.group(1)) if m else 0
        self.violated = None
        m = _RE_INV.search(out)
        if m:
            self.violated = ("invariant", m.group(1).rstrip("."))
        m = _RE_ACTP.search(out)
        if m:
            self.violated = ("action-property", m.group(1).rstrip("."))
        if "is violated" in out and self.violated is None:
            self.violated = ("other", "property")
        if "Temporal properties were violated" in out:
            self.violated = ("temporal", "property")
        self.deadlock = "Deadlock reached" in out
        self.post_failed = "POSTCONDITION" in out.upper() and "violated" in out and (
            "ostcondition" in out
        )
        self.completed = "Model checking completed. No error has been found." in out
        self.error = None
        if not self.completed and self.violated is None and not self.deadlock:
            em = re.search(r"Error: (.*)", out)
            self.error = em.group(1) if em else f"tlc rc={rc}"
        self.coverage = {}
        for line in out.splitlines():
            cm = _RE_COV.match(line.strip())
            if cm:
                self.coverage[cm.group(1)] = (int(cm.group(4)), int(cm.group(5)))

    def printed(self, tag=None):
        """Tuples printed with PrintT(<<"TAG", ...>>) as parsed Python lists."""
        res = []
        for t in _printed_tuples(self.out):
            if tag is None or (t and t[0] == tag):
                res.append(t)
        return res

    def counterexample(self):
        """Text of the counterexample (states) if any."""
        idx = self.out.find("Error: ")
        return self.out[idx:] if idx >= 0 else ""


def _printed_tuples(out: str):
    """Parse `<<...>>` values printed at the start of a line (bracket matching)."""
    i = 0
    n = len(out)
    while True:
        j = out.find("\n<<", i)
        if j < 0:
            if i == 0 and out.startswith("<<"):
                j = -1
            else:
                return
        start = j + 1
        depth = 0
        k = start
        instr = False
        while k < n:
            c = out[k]
            if instr:
                if c == "\\":
                    k += 1
                elif c == '"':
                    instr = False
            elif c == '"':
                instr = True
            elif out.startswith("<<", k):
                depth += 1
                k += 1
            elif out.startswith(">>", k):
                depth -= 1
                k += 1
                if depth == 0:
                    break
            k += 1
        text = out[start : k + 1]
        try:
            yield parse_tla_value(text)
        except Exception:
            pass
        i = k + 1


class _P:
    def __init__(self, s):
        self.s = s
        self.i = 0

    def ws(self):
        while self.i < len(self.s) and self.s[self.i].isspace():
            self.i += 1

    def peek(self, t):
        self.ws()
        return self.s.startswith(t, self.i)

    def eat(self, t):
        self.ws()
        if not self.s.startswith(t, self.i):
            raise ValueError(f"expected {t!r} at {self.i}: {self.s[self.i:self.i+30]!r}")
        self.i += len(t)

    def value(self):
        self.ws()
        s = self.s
        if self.peek("<<"):
            self.eat("<<")
            out = []
            if self.peek(">>"):
                self.eat(">>")
                return out
            while True:
                out.append(self.value())
                if self.peek(","):
                    self.eat(",")
                    continue
                self.eat(">>")
                return out
        if self.peek("[") :
            self.eat("[")
            rec = {}
            if self.peek("]"):
                self.eat("]")
                return rec
            while True:
                self.ws()
                m = re.compile(r"[A-Za-z_0-9]+").match(s, self.i)
                if not m:
                    raise ValueError("record key")
                key = m.group(0)
                self.i = m.end()
                self.eat("|->")
                rec[key] = self.value()
                if self.peek(","):
                    self.eat(",")
                    continue
                self.eat("]")
                return rec
        if self.peek("{"):
            self.eat("{")
            out = []
            if self.peek("}"):
                self.eat("}")
                return {"__set__": out}
            while True:
                out.append(self.value())
                if self.peek(","):
                    self.eat(",")
                    continue
                self.eat("}")
                return {"__set__": out}
        if self.peek("("):
            # function printed as (a :> b @@ c :> d)
            self.eat("(")
            fn = []
            while True:
                k = self.value()
                self.eat(":>")
                v = self.value()
                fn.append([k, v])
                if self.peek("@@"):
                    self.eat("@@")
                    continue
                self.eat(")")
                return {"__fn__": fn}
        if self.peek('"'):
            self.i += 1
            out = []
            while s[self.i] != '"':
                if s[self.i] == "\\":
                    self.i += 1
                out.append(s[self.i])
                self.i += 1
            self.i += 1
            return "".join(out)
        m = re.compile(r"-?\d+").match(s, self.i)
        if m:
            self.i = m.end()
            return int(m.group(0))
        m = re.compile(r"[A-Za-z_][A-Za-z_0-9]*").match(s, self.i)
        if m:
            self.i = m.end()
            w = m.group(0)
            if w == "TRUE":
                return True
            if w == "FALSE":
                return False
            return {"__id__": w}
        raise ValueError(f"cannot parse at {self.i}: {s[self.i:self.i+30]!r}")


def parse_tla_value(text: str):
    p = _P(text)
    v = p.value()
    return v


def parse_states(text: str):
    """Parse a TLC counterexample / simulation trace into [(action, {var: value})]."""
    states = []
    blocks = re.split(r"\n(?=State \d+: )", text)
    for b in blocks:
        m = re.match(r"State (\d+): <?([A-Za-z_0-9 ]+?)(?: line.*?)?>?\s*\n(.*)", b, re.S)
        if not m:
            continue
        action = m.group(2).strip()
        body = m.group(3)
        # body: /\ var = value lines, possibly multi-line values
        body = body.split("\n\n")[0]
        vars_ = {}
        parts = re.split(r"(?:^|\n)/\\ ", "\n" + body)
        if len(parts) == 1:
            parts = [None, body]
        for part in parts[1:] if parts[0] is None or parts[0].strip() == "" else parts:
            if not part or "=" not in part:
                continue
            name, val = part.split("=", 1)
            try:
                vars_[name.strip()] = parse_tla_value(val.strip())
            except Exception:
                vars_[name.strip()] = val.strip()
        states.append((action, vars_))
    return states


def run_tlc(
    module: str,
    cfg: str | None = None,
    *,
    workers: int | str = 16,
    env: dict | None = None,
    extra: tuple = (),
    timeout: float = 3600,
    depth_first: bool = False,
    spec_dir: pathlib.Path = SPEC,
    coverage: bool = False,
) -> TlcResult:
    """Run TLC on spec_dir/module.tla with spec_dir/cfg; all scratch output goes to a temp dir."""
    meta = tempfile.mkdtemp(prefix="verif-eko-tlc-")
    try:
        cmd = ["java", "-XX:+UseParallelGC", "-Xmx8g", f"-Djava.io.tmpdir={meta}"]
        if depth_first:
            cmd.append("-Dtlc2.tool.queue.IStateQueue=StateDeque")
        cmd += ["-cp", TLA_CP, "tlc2.TLC", "-workers", str(workers), "-metadir", meta, "-noGenerateSpecTE"]
        if coverage:
            cmd += ["-coverage", "1"]
        if cfg:
            cmd += ["-config", str(cfg)]
        cmd += list(extra)
        cmd += [module]
        e = dict(os.environ)
        e.pop("JAVA_TOOL_OPTIONS", None)
        if env:
            e.update({k: str(v) for k, v in env.items()})
        t0 = time.time()
        try:
            p = subprocess.run(
                cmd, cwd=str(spec_dir), env=e, capture_output=True, text=True, timeout=timeout
            )
        except subprocess.TimeoutExpired as ex:
            raise MachineryError(f"TLC timeout after {timeout}s on {module}/{cfg}") from ex
        return TlcResult(p.stdout + p.stderr, p.returncode, time.time() - t0, cmd)
    finally:
        shutil.rmtree(meta, ignore_errors=True)


# --------------------------------------------------------------------------------------
# Check context
# --------------------------------------------------------------------------------------


def load_known():
    f = VERIF / "known_findings.json"
    if not f.exists():
        return []
    return json.loads(f.read_text())["findings"]


class Check:
    def __init__(self, meta: dict, tier: str, seed: int, replay: str | None = None):
        self.meta = meta
        self.pid = meta["id"]
        self.tier = tier
        self.seed = seed
        self.rng = random.Random(seed)
        self.replay = replay
        self.t0 = time.time()
        self.cov = {
            "states": 0,
            "transitions": 0,
            "traces_validated_against_impl": 0,
            "evaluations": 0,
            "distinct_nontrivial": 0,
            "samples": [],
            "tlc_runs": [],
            "rule": meta.get("rule", ""),
        }
        self.assumptions = list(meta.get("assumptions", []))
        self.violations = []  # (fingerprint, what, replay)
        self.diagnostics = []
        self.scratch = pathlib.Path(tempfile.mkdtemp(prefix=f"verif-eko-{self.pid}-"))
        self._distinct = set()

    # ---- bookkeeping -----------------------------------------------------------------
    def thorough(self):
        return self.tier == "thorough"

    def count(self, n=1, distinct_key=None, nontrivial=True):
        """Record `n` evaluated cases; distinct_key identifies a distinct non-trivial case."""
        self.cov["evaluations"] += n
        if distinct_key is not None and nontrivial:
            self._distinct.add(distinct_key)

    def sample(self, s, limit=6):
        if len(self.cov["samples"]) < limit:
            self.cov["samples"].append(s)

    def note(self, key, value):
        self.cov[key] = value

    def diag(self, text):
        self.diagnostics.append(text)

    def assume(self, text):
        if text not in self.assumptions:
            self.assumptions.append(text)

    # ---- TLC -------------------------------------------------------------------------
    def tlc(self, module, cfg=None, *, expect_violation=None, trace=None, label=None, **kw):
        """Run TLC; account states/transitions; return TlcResult.

        expect_violation: name of an invariant that MUST be violated (vacuity guard).
        trace: python object written as JSON and handed over in env TRACE_FILE.
        """
        env = dict(kw.pop("env", {}) or {})
        if trace is not None:
            tf = self.scratch / f"trace-{len(self.cov['tlc_runs'])}.json"
            tf.write_text(json.dumps(tla_json(trace)))
            env["TRACE_FILE"] = str(tf)
        r = run_tlc(module, cfg, env=env, **kw)
        rec = {
            "module": module,
            "cfg": str(cfg),
            "label": label or "",
            "generated": r.generated,
            "distinct": r.distinct,
            "depth": r.depth,
            "wall_s": round(r.wall, 2),
            "outcome": "violated:" + r.violated[1] if r.violated else ("ok" if r.completed else f"error:{r.error}"),
        }
        if r.coverage:
            # TLC prints <Action ...>: distinct:generated ; an action is vacuous when it never fired
            rec["actions"] = {a: g_ for a, (_, g_) in sorted(r.coverage.items())}
            rec["actions_never_taken"] = sorted(a for a, (_, g_) in r.coverage.items() if g_ == 0)
            if rec["actions_never_taken"] and expect_violation is None and not r.violated:
                self.cov["tlc_runs"].append(rec)
                raise MachineryError(f"vacuity: actions never taken in {module}/{cfg}: {rec['actions_never_taken']}")
        self.cov["tlc_runs"].append(rec)
        if r.error and not r.violated:
            raise MachineryError(f"TLC failed on {module}/{cfg}: {r.error}\n{r.out[-3000:]}")
        if expect_violation is not None:
            if not r.violated or (expect_violation is not True and r.violated[1] != expect_violation):
                raise MachineryError(
                    f"vacuity guard: {module}/{cfg} should violate {expect_violation}, got {rec['outcome']}"
                )
        else:
            self.cov["states"] += r.distinct
            self.cov["transitions"] += r.generated
        return r

    # ---- verdicts --------------------------------------------------------------------
    def violation(self, fingerprint: str, what: str, replay=None):
        self.violations.append((fingerprint, what, replay))

    def finish(self) -> int:
        known = [k for k in load_known() if k["property"] == self.pid]
        listed = {k["fingerprint"]: k for k in known if k.get("status") == "known"}
        rc = 0
        seen = set()
        n_unlisted = 0
        n_known = 0
        noev = bool(os.environ.get("VERIF_NO_EVIDENCE"))
        rdir = pathlib.Path(tempfile.gettempdir()) / "verif-eko-replays" if noev else VERIF / "replays"
        rdir.mkdir(exist_ok=True)
        for fp, what, replay in self.violations:
            if fp in seen:
                continue
            seen.add(fp)
            if fp in listed:
                n_known += 1
                print(f"KNOWN-FINDING: property={self.pid} {listed[fp]['what']} [{fp}]")
                continue
            n_unlisted += 1
            safe = re.sub(r"[^A-Za-z0-9_.-]+", "_", fp)[:80]
            path = rdir / f"{self.pid}-{safe}.json"
            path.write_text(
                json.dumps(
                    {"property": self.pid, "fingerprint": fp, "what": what, "seed": self.seed,
                     "tier": self.tier, "replay": replay},
                    indent=1, default=str,
                )
            )
            if n_unlisted <= 40:
                print(f"VIOLATION property={self.pid} replay={path}")
                print(f"  what: {what[:600]}")
            elif n_unlisted == 41:
                print(f"  ... further violations of {self.pid} are counted in the evidence file only")
            rc = 1
        self.cov["distinct_nontrivial"] = max(self.cov["distinct_nontrivial"], len(self._distinct))
        if not noev:
            self.write_evidence(n_unlisted, n_known)
        shutil.rmtree(self.scratch, ignore_errors=True)
        return rc

    def write_evidence(self, n_unlisted, n_known):
        cov = dict(self.cov)
        if not cov["samples"]:
            cov["samples"] = ["(no sample recorded)"]
        cov["known_findings_reported"] = n_known
        cov["diagnostics"] = self.diagnostics[:50]
        if not cov.get("rule"):
            cov["rule"] = "see level_note in MANIFEST.json"
        ev = {
            "property_id": self.pid,
            "tier": self.tier,
            "seed": self.seed,
            "level": self.meta["level"],
            "coverage": cov,
            "assumptions": self.assumptions
            + ["interpreted execution (NUMBA_DISABLE_JIT=1)", f"sources under test: {SRC}"],
            "wall_s": round(time.time() - self.t0, 2),
            "violations": n_unlisted,
        }
        (VERIF / "evidence").mkdir(exist_ok=True)
        (VERIF / "evidence" / f"{self.pid}.json").write_text(json.dumps(ev, indent=1, default=str))


def main(argv=None):
    import argparse
    import importlib

    ap = argparse.ArgumentParser()
    ap.add_argument("pid")
    ap.add_argument("--tier", default=os.environ.get("VERIF_TIER", "quick"))
    ap.add_argument("--replay", default=None)
    a = ap.parse_args(argv)
    seed = int(os.environ.get("VERIF_SEED", "20260921"))
    sys.path.insert(0, str(VERIF))
    try:
        mod = importlib.import_module(f"harness.checks.{a.pid}")
    except ModuleNotFoundError as ex:
        print(f"no such check: {a.pid} ({ex})", file=sys.stderr)
        return 2
    chk = Check(mod.META, a.tier, seed, a.replay)
    try:
        use_repo()
        mod.run(chk)
        return chk.finish()
    except MachineryError as ex:
        if chk.violations:
            # property predicates already failed on implementation data: those verdicts stand;
            # a later machinery step (e.g. a binding demonstration built on the same, now wrong,
            # records) cannot be carried out and is reported as a diagnostic
            chk.diag(f"machinery step not carried out after violations were found: {str(ex)[:300]}")
            return chk.finish()
        print(f"MACHINERY-ERROR check={a.pid}: {ex}", file=sys.stderr)
        shutil.rmtree(chk.scratch, ignore_errors=True)
        return 2
    except Exception as ex:  # noqa: BLE001
        traceback.print_exc()
        if chk.violations:
            # as above: verdicts already given on implementation data stand
            chk.diag(f"harness step failed after violations were found: {type(ex).__name__}: {str(ex)[:300]}")
            return chk.finish()
        print(f"MACHINERY-ERROR check={a.pid}: unexpected exception in harness", file=sys.stderr)
        shutil.rmtree(chk.scratch, ignore_errors=True)
        return 2


if __name__ == "__main__":
    # run through the canonical module object, so that the exception classes raised by the check
    # modules (imported from harness.core) are the ones caught here
    sys.path.insert(0, str(VERIF))
    from harness.core import main as _main

    sys.exit(_main())
