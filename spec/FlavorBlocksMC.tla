--------------------------- MODULE FlavorBlocksMC ---------------------------
EXTENDS FlavorBlocks
VARIABLE c
Init == c \in UnityCells
Next == UNCHANGED c
InvShortcut == UnityApplies(c) => TakesShortcut(c)
InvCells == Cardinality(InactiveCells) > 0
=============================================================================
