------------------------------ MODULE Couplings ------------------------------
(* eko.couplings.Couplings as a memoising object with arrays on a heap, so that   *)
(* aliasing between returned values, cached values and the reference is            *)
(* expressible.  One public call  a(scale, nf)  = one atomic step (sequential       *)
(* library); callers may overwrite any array they were handed.                      *)
(*                                                                                *)
(* Values are symbolic terms:  <<"ref">>,  <<"comp", t, nf, from, to>> (the RGE       *)
(* solution across one segment),  <<"dec", t, nf, down>> (decoupling factor applied   *)
(* in place),  <<"garbage">> (overwritten by a caller).                               *)
(*                                                                                *)
(* Design switches (TRUE = mechanism present, as in the code):                      *)
(*   CopyRef      a() starts from a copy of the reference array                      *)
(*   CopyOnHit    compute() returns a copy of the cached array                       *)
(*   CopyOnStore  compute() stores a copy of the new array                           *)
(*   KeyHasNf     the cache key of compute() contains the flavour number               *)
(* TrivialDec = TRUE models LO/NLO with unit matching ratios: the decoupling factor is   *)
(* exactly one, so the array after the decoupling step holds the same numbers as before  *)
(* (and would hit the same cache key if the key did not carry nf).                        *)
EXTENDS Atlas, TLC

CONSTANTS Ms,            \* matching scales (tokens), sorted
          RefPoint,      \* <<scale, nf>> of the reference
          QScales, QNfs, \* queries are drawn from QScales \X QNfs
          MaxQueries, MaxMutations,
          CopyRef, CopyOnHit, CopyOnStore, KeyHasNf, TrivialDec,
          Qed, TauTok, TauBelow   \* running QED: segments across the tau mass are split

VARIABLES heap,      \* address -> term
          cache,     \* key -> address ; key = <<term of a_ref argument, nf, from, to>>
          returned,  \* addresses handed to callers
          last,      \* last reply: [q |-> <<scale, nf>>, addr |-> a, term |-> t, steps |-> seq of [key, hit]]
          nq, nm
vars == <<heap, cache, returned, last, nq, nm>>

RefAddr == 0
Ref == <<"ref">>
Garbage == <<"garbage">>
Comp(t, nf, o, tt) == <<"comp", t, nf, o, tt>>
Dec(t, nf, down) == IF TrivialDec THEN t ELSE <<"dec", t, nf, down>>

Put(f, k, v) == [x \in (DOMAIN f) \cup {k} |-> IF x = k THEN v ELSE f[x]]
Fresh(h) == (CHOOSE n \in 0..100 : n \notin DOMAIN h /\ \A m \in DOMAIN h : m < n)

(* with QED the number of leptons changes at the tau mass: a segment across it is solved  *)
(* in two pieces (scale token TauTok stands for m_tau^2, tokens <= TauBelow lie below it)   *)
Lep(x) == IF x = TauTok THEN 3 ELSE IF x <= TauBelow THEN 2 ELSE 3
CrossesTau(seg) == Qed /\ (seg.origin <= TauBelow) # (seg.target <= TauBelow)

(* the reference value of a query, computed from nothing *)
RECURSIVE PureFrom(_, _, _, _)
PureFrom(t, p, k, down) ==
  IF k > Len(p) THEN t
  ELSE LET seg == p[k]
           t1 == IF seg.origin = seg.target THEN t
                 ELSE IF CrossesTau(seg) THEN Comp(Comp(t, seg.nf, seg.origin, TauTok), seg.nf, TauTok, seg.target)
                 ELSE Comp(t, seg.nf, seg.origin, seg.target)
           t2 == IF k < Len(p) THEN Dec(t1, seg.nf, down) ELSE t1
       IN PureFrom(t2, p, k + 1, down)
Pure(q) == LET p == Path(Ms, RefPoint, q) IN PureFrom(Ref, p, 1, IsDownwardPath(p))

(* one cache-mediated solution of the RGE across (part of) a segment: Couplings.compute *)
Compute1(st, nf, o, t) ==
  LET key == <<st.heap[st.cur], IF KeyHasNf THEN nf ELSE 0, o, t>> IN
  IF key \in DOMAIN st.cache
  THEN IF CopyOnHit
       THEN LET n == Fresh(st.heap) IN
            [st EXCEPT !.heap = Put(@, n, st.heap[st.cache[key]]), !.cur = n,
                       !.steps = Append(@, [key |-> key, hit |-> TRUE])]
       ELSE [st EXCEPT !.cur = st.cache[key], !.steps = Append(@, [key |-> key, hit |-> TRUE])]
  ELSE LET n1 == Fresh(st.heap)
           h1 == Put(st.heap, n1, Comp(st.heap[st.cur], nf, o, t)) IN
       IF CopyOnStore
       THEN LET n2 == Fresh(h1) IN
            [st EXCEPT !.heap = Put(h1, n2, h1[n1]), !.cache = Put(@, key, n2), !.cur = n1,
                       !.steps = Append(@, [key |-> key, hit |-> FALSE])]
       ELSE [st EXCEPT !.heap = h1, !.cache = Put(@, key, n1), !.cur = n1,
                       !.steps = Append(@, [key |-> key, hit |-> FALSE])]

(* Couplings.a: fold over the path; st = [heap, cache, cur, steps] *)
RECURSIVE Walk(_, _, _, _)
Walk(st, p, k, down) ==
  IF k > Len(p) THEN st
  ELSE
    LET seg == p[k]
        afterCompute ==
          IF seg.origin = seg.target THEN st                     \* very short segment: skipped
          ELSE IF CrossesTau(seg)
               THEN Compute1(Compute1(st, seg.nf, seg.origin, TauTok), seg.nf, TauTok, seg.target)
               ELSE Compute1(st, seg.nf, seg.origin, seg.target)
        afterDec ==
          IF k < Len(p)
          THEN [afterCompute EXCEPT !.heap = [@ EXCEPT ![afterCompute.cur] = Dec(@, seg.nf, down)]]
          ELSE afterCompute
    IN Walk(afterDec, p, k + 1, down)

Query(q) ==
  /\ nq < MaxQueries
  /\ LET p == Path(Ms, RefPoint, q)
         h0 == IF CopyRef THEN Put(heap, Fresh(heap), heap[RefAddr]) ELSE heap
         c0 == IF CopyRef THEN Fresh(heap) ELSE RefAddr
         st == Walk([heap |-> h0, cache |-> cache, cur |-> c0, steps |-> <<>>], p, 1, IsDownwardPath(p))
     IN /\ heap' = st.heap
        /\ cache' = st.cache
        /\ returned' = returned \cup {st.cur}
        /\ last' = [q |-> q, addr |-> st.cur, term |-> st.heap[st.cur], steps |-> st.steps]
  /\ nq' = nq + 1
  /\ UNCHANGED nm

CallerMutates(a) ==
  /\ nm < MaxMutations
  /\ a \in returned
  /\ heap' = [heap EXCEPT ![a] = Garbage]
  /\ nm' = nm + 1
  /\ UNCHANGED <<cache, returned, last, nq>>

Init == /\ heap = (RefAddr :> Ref)
        /\ cache = <<>>
        /\ returned = {}
        /\ last = [q |-> RefPoint, addr |-> RefAddr, term |-> Ref, steps |-> <<>>]
        /\ nq = 0 /\ nm = 0

Next == (\E q \in QScales \X QNfs : Query(q)) \/ (\E a \in returned : CallerMutates(a))
Spec == Init /\ [][Next]_vars

(* C17 *)
C17_HistoryFree == nq > 0 => last.term = Pure(last.q)
C17_RefIntact == heap[RefAddr] = Ref
C17_NoAlias == \A a \in returned : a # RefAddr /\ \A k \in DOMAIN cache : cache[k] # a
C17_CacheSound == KeyHasNf => \A k \in DOMAIN cache : heap[cache[k]] = Comp(k[1], k[2], k[3], k[4])
C17_CacheImmutable == [][\A k \in DOMAIN cache : k \in DOMAIN cache' /\ heap'[cache'[k]] = heap[cache[k]]]_vars
(* C16: the steps taken are exactly the atlas path: one compute per non-degenerate segment *)
C16_Steps == nq > 0 =>
  LET p == Path(Ms, RefPoint, last.q)
      segs == SelectSeq(p, LAMBDA s : s.origin # s.target)
      nsplit == Cardinality({j \in 1..Len(segs) : CrossesTau(segs[j])}) IN
  /\ Len(last.steps) = Len(segs) + nsplit
  /\ (nsplit = 0 => \A j \in 1..Len(segs) : /\ last.steps[j].key[2] = segs[j].nf
                                              /\ last.steps[j].key[3] = segs[j].origin
                                              /\ last.steps[j].key[4] = segs[j].target)
=============================================================================
