------------------------------- MODULE Apply -------------------------------
(* Applying an EKO to a PDF (src/ekobox/apply.py), C43; reshaping an operator    *)
(* (src/eko/io/manipulate.py), C42.  Exact integer / rational tensor algebra.    *)
(*                                                                             *)
(* Tensors are nested sequences, 1-based: O[a][j][b][k] (output flavour a, output *)
(* grid point j, input flavour b, input grid point k), all entries integers.      *)
(* Flavours are the 14 positions of eko.basis_rotation.flavor_basis_pids.         *)
EXTENDS Interp

CONSTANTS
  ContractFaithful,   \* TRUE: sum_{b,k} O[a][j][b][k] f[b][k]
                      \* FALSE: mutated design, grid indices swapped (vacuity guard)
  InputInverse        \* TRUE: flavor_reshape multiplies the input side by inputpids^-1
                      \* FALSE: mutated design, by inputpids itself (vacuity guard)

NF == 14
Pids == <<22, -6, -5, -4, -3, -2, -1, 21, 1, 2, 3, 4, 5, 6>>
Pos(pid) == CHOOSE p \in 1..NF : Pids[p] = pid

-----------------------------------------------------------------------------
(* Evolution bases, from their meaning (not copied from the code's tables):      *)
(*   q+ = q + qbar, q- = q - qbar, quark pids d=1 u=2 s=3 c=4 b=5 t=6             *)
QPM(q, sgn, pid) == IF pid = q THEN 1 ELSE IF pid = -q THEN sgn ELSE 0
SumQ(qs, sgn, pid) == ISumSeq([i \in 1..Len(qs) |-> QPM(qs[i], sgn, pid)])
AllQ == <<1, 2, 3, 4, 5, 6>>
(* T_{n^2-1} / V_{n^2-1}: the n-1 lighter quarks minus (n-1) times the n-th       *)
(* (mass order u d s c b t; T3 = u+ - d+)                                        *)
Ladder(n, sgn, pid) ==
  IF n = 2 THEN QPM(2, sgn, pid) - QPM(1, sgn, pid)
  ELSE SumQ([i \in 1..(n - 1) |-> i], sgn, pid) - (n - 1) * QPM(n, sgn, pid)

EvolPids == <<22, 100, 21, 200, 203, 208, 215, 224, 235, 103, 108, 115, 124, 135>>
EvolCoef(label, pid) ==
  CASE label = 22 -> IF pid = 22 THEN 1 ELSE 0
    [] label = 21 -> IF pid = 21 THEN 1 ELSE 0
    [] label = 100 -> SumQ(AllQ, 1, pid)
    [] label = 200 -> SumQ(AllQ, -1, pid)
    [] label \in {103, 108, 115, 124, 135} ->
         Ladder(CHOOSE n \in 2..6 : n * n - 1 = label - 100, 1, pid)
    [] label \in {203, 208, 215, 224, 235} ->
         Ladder(CHOOSE n \in 2..6 : n * n - 1 = label - 200, -1, pid)

(* unified (QCDxQED) evolution basis: up-type u c t, down-type d s b              *)
UpQ == <<2, 4, 6>>
DownQ == <<1, 3, 5>>
UniPids == <<21, 22, 100, 101, 200, 201, 105, 205, 104, 204, 110, 210, 109, 209>>
UniCoef(label, pid) ==
  CASE label = 21 -> IF pid = 21 THEN 1 ELSE 0
    [] label = 22 -> IF pid = 22 THEN 1 ELSE 0
    [] label = 100 -> SumQ(AllQ, 1, pid)
    [] label = 200 -> SumQ(AllQ, -1, pid)
    [] label = 101 -> SumQ(UpQ, 1, pid) - SumQ(DownQ, 1, pid)         \* Sigma_Delta
    [] label = 201 -> SumQ(UpQ, -1, pid) - SumQ(DownQ, -1, pid)       \* V_Delta
    [] label = 105 -> QPM(1, 1, pid) - QPM(3, 1, pid)                 \* Td3 = d+ - s+
    [] label = 205 -> QPM(1, -1, pid) - QPM(3, -1, pid)
    [] label = 104 -> QPM(2, 1, pid) - QPM(4, 1, pid)                 \* Tu3 = u+ - c+
    [] label = 204 -> QPM(2, -1, pid) - QPM(4, -1, pid)
    [] label = 110 -> QPM(1, 1, pid) + QPM(3, 1, pid) - 2 * QPM(5, 1, pid)     \* Td8
    [] label = 210 -> QPM(1, -1, pid) + QPM(3, -1, pid) - 2 * QPM(5, -1, pid)
    [] label = 109 -> QPM(2, 1, pid) + QPM(4, 1, pid) - 2 * QPM(6, 1, pid)     \* Tu8
    [] label = 209 -> QPM(2, -1, pid) + QPM(4, -1, pid) - 2 * QPM(6, -1, pid)

EvolMatrix == Eager([a \in 1..NF |-> Eager([b \in 1..NF |-> EvolCoef(EvolPids[a], Pids[b])])])
UniMatrix == Eager([a \in 1..NF |-> Eager([b \in 1..NF |-> UniCoef(UniPids[a], Pids[b])])])
IdMatrix == Eager([a \in 1..NF |-> Eager([b \in 1..NF |-> IF a = b THEN 1 ELSE 0])])

(* what apply_pdf must use: flavour basis, or the evolution basis of the theory   *)
RotationOf(rotate, qed) ==
  IF ~rotate THEN IdMatrix ELSE IF qed THEN UniMatrix ELSE EvolMatrix
LabelsOf(rotate, qed) ==
  IF ~rotate THEN Pids ELSE IF qed THEN UniPids ELSE EvolPids

-----------------------------------------------------------------------------
(* integer tensor algebra                                                       *)
Dot(u, v) == ISumSeq([i \in 1..Len(u) |-> u[i] * v[i]])

(* input values on the grid: xfxQ2(pid, x_k)/x_k, zero for a missing flavour      *)
(* (exact rationals; the bindings use inputs for which they are integers)         *)
InputR(xfx, g, has) ==
  Eager([b \in 1..NF |-> Eager([k \in 1..Len(g) |->
     IF has[b] THEN RDiv(xfx[b][k], g[k]) ELSE RZero])])
AllIntegers(fr) == \A b \in 1..Len(fr) : \A k \in 1..Len(fr[b]) : fr[b][k][2] = 1
Numerators(fr) == Eager([b \in 1..Len(fr) |-> Eager([k \in 1..Len(fr[b]) |-> fr[b][k][1]])])

(* sum_{b,k} O[a][j][b][k] f[b][k]                                                *)
ContractN(O, f, nf, n) ==
  Eager([a \in 1..nf |-> Eager([j \in 1..n |->
     ISumSeq([b \in 1..nf |->
        ISumSeq([k \in 1..n |->
           (IF ContractFaithful THEN O[a][j][b][k] ELSE O[a][k][b][j]) * f[b][k]])])])])
Contract(O, f, n) == ContractN(O, f, NF, n)

(* (M v)[a][j] = sum_b M[a][b] v[b][j]                                            *)
RotateN(M, v, nf, n) ==
  Eager([a \in 1..nf |-> Eager([j \in 1..n |-> ISumSeq([b \in 1..nf |-> M[a][b] * v[b][j]])])])
Rotate(M, v, n) == RotateN(M, v, NF, n)

(* re-interpolation of integer node values with a rational matrix R[t][k]        *)
ReinterpV(R, v) ==
  Eager([a \in 1..Len(v) |-> Eager([t \in 1..Len(R) |->
     RSumSeq(Eager([k \in 1..Len(R[t]) |-> RMul(R[t][k], RInt(v[a][k]))]))])])
AsRat(v) == Eager([a \in 1..Len(v) |-> Eager([j \in 1..Len(v[a]) |-> RInt(v[a][j])])])
AsRatSeq(u) == Eager([i \in 1..Len(u) |-> RInt(u[i])])

(* C43: the applied result for one evolution point.                               *)
(*   g grid, deg interpolation degree, tgt target grid (<<>> = none)              *)
Applied(O, f, g, deg, tgt, rotate, qed) ==
  LET n == Len(g)
      c == Contract(O, f, n)
      r == Rotate(RotationOf(rotate, qed), c, n)
  IN IF Len(tgt) = 0 THEN AsRat(r) ELSE ReinterpV(GetInterpolation(g, deg, tgt), r)

-----------------------------------------------------------------------------
(* C42: reshaping.                                                               *)
MatMul(A, B) ==
  Eager([a \in 1..Len(A) |-> Eager([b \in 1..Len(B[1]) |->
     ISumSeq([c \in 1..Len(B) |-> A[a][c] * B[c][b]])])])
IsInverse(A, B) == MatMul(A, B) = IdMatrix

(* contraction of a rational operator with an integer / rational input            *)
ContractR(Or, fr, nout, nin) ==
  Eager([a \in 1..NF |-> Eager([j \in 1..nout |->
     RSumSeq([b \in 1..NF |->
        RSumSeq([k \in 1..nin |-> RMul(Or[a][j][b][k], fr[b][k])])])])])

(* transcription of flavor_reshape on integer tensors (Uinv = inverse of inputpids, *)
(* given): "ca,ajbk,bd->cjdk"                                                      *)
FlavorReshapeN(O, T, U, Uinv, nf, n) ==
  LET W == IF InputInverse THEN Uinv ELSE U IN
  Eager([c \in 1..nf |-> Eager([j \in 1..n |-> Eager([d \in 1..nf |-> Eager([k \in 1..n |->
     ISumSeq([a \in 1..nf |-> ISumSeq([b \in 1..nf |-> T[c][a] * O[a][j][b][k] * W[b][d]])])])])])])
C42_FlavorCommutesN(O, Onew, T, U, f, nf, n) ==
  ContractN(Onew, RotateN(U, f, nf, n), nf, n) = RotateN(T, ContractN(O, f, nf, n), nf, n)

(* flavour side: the reshaped operator O' (targetpids T, inputpids U) applied to    *)
(* the rotated input U f gives the rotated output T (O f), for every input f        *)
C42_FlavorCommutes(O, Onew, T, U, f, n) ==
  ContractR(Onew, AsRat(Rotate(U, f, n)), n, n) = AsRat(Rotate(T, Contract(O, f, n), n))

(* grid side.  The operator is  O[a][j][b][k] = M0[a][b][k] + M1[a][b][k] * Xj  with *)
(* Xj = sc * x_j (so its output is a polynomial of degree <= 1 in x for any input);   *)
(* the input is the polynomial  P_b(x) = sum_m p[b][m+1] x^m  of degree <= deg.        *)
(* The re-interpolated operator, applied to the input sampled on the new input grid, *)
(* must give the values of the output polynomial at the new target nodes.            *)
PolyOn(p, grid) ==
  Eager([b \in 1..NF |-> Eager([k \in 1..Len(grid) |-> EvalPoly(AsRatSeq(p[b]), grid[k])])])
GridOperator(M0, M1, sc, grid) ==
  Eager([a \in 1..NF |-> Eager([j \in 1..Len(grid) |-> Eager([b \in 1..NF |->
     Eager([k \in 1..Len(M0[a][b]) |->
        RAdd(RInt(M0[a][b][k]), RMul(RInt(M1[a][b][k]), RMul(RInt(sc), grid[j])))])])])])
C42_GridExpected(M0, M1, sc, p, gold, tnew) ==
  ContractR(GridOperator(M0, M1, sc, tnew), PolyOn(p, gold), Len(tnew), Len(gold))
C42_GridCommutes(Onew, M0, M1, sc, p, gold, tnew, inew) ==
  ContractR(Onew, PolyOn(p, inew), Len(tnew), Len(inew)) = C42_GridExpected(M0, M1, sc, p, gold, tnew)

-----------------------------------------------------------------------------
(* C42 law plan (mode L): logarithmic / linear random grids                        *)
C42Sides == {"target", "input", "both"}
C42Variants == {"random", "tinyx"}
C42Cells ==
  {c \in [mode : {"log", "lin"}, deg : 1..4, side : C42Sides, variant : C42Variants] :
     c.variant = "tinyx" => c.mode = "log"}
=============================================================================
