CONSTANTS S = 16 Families <- FamGuard
CONSTANTS UpperClosed = TRUE FirstClosed = FALSE
INIT InitAll
NEXT Next
INVARIANT InvC34
INVARIANT InvReject
CHECK_DEADLOCK FALSE
