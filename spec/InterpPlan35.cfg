CONSTANTS UpperClosed = TRUE FirstClosed = TRUE
INIT Init35
NEXT Next
INVARIANT InvPrint35
CHECK_DEADLOCK FALSE
