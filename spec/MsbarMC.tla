------------------------------- MODULE MsbarMC -------------------------------
EXTENDS Msbar
VARIABLE i
Init == i \in Inputs
Next == UNCHANGED i
Inv == /\ (Coded(i) = "accept") = Consistent(i)
       /\ (Coded(i) = "accept" /\ i.rm # "eq" => CodedTargetNf(i) = TargetNf(i))
=============================================================================
