----------------------------- MODULE DispatchMC -----------------------------
(* B1: the configuration product as initial states; table consistency.        *)
EXTENDS Dispatch
VARIABLE c
Init == c \in Configs
Next == UNCHANGED c
InvTable == /\ (Expected(c) = "refused") = (Refuser(c) # "none" /\ ~Unspecified(c))
            /\ (Expected(c) = "finite" => AdAvailable(c) /\ QedMethodOk(c) /\ N3loNfOk(c))
            /\ (~AdAvailable(c) /\ ~Degenerate(c) => Expected(c) = "refused")
            /\ (\A s \in Settings : Relevant(s, c) \in BOOLEAN)
(* every refuser is used, every setting is irrelevant somewhere and relevant somewhere *)
=============================================================================
