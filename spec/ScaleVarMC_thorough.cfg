CONSTANT Variant = "faithful"
CONSTANT Tier = "thorough"
INIT Init
NEXT Next
INVARIANT InvReexp
INVARIANT InvExpo
INVARIANT InvExpa
CHECK_DEADLOCK FALSE
