----------------------------- MODULE InterpPlan -----------------------------
(* The law plan of C34 (mode L): TLC enumerates every planned cell as an initial *)
(* state and prints it; the harness measures exactly these cells.                *)
EXTENDS Interp
VARIABLE cell
Init == cell \in LawCells
Next == UNCHANGED cell
InvPrint == PrintT(<<"CELL", cell.mode, cell.size, cell.xmin, cell.deg, cell.law>>)

(* the plan of C35 *)
Init35 == cell \in C35Cells
InvPrint35 == PrintT(<<"CELL", cell.contour, cell.deg, cell.size, cell.xmin>>)
=============================================================================
