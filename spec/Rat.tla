-------------------------------- MODULE Rat --------------------------------
(* Exact rational arithmetic for TLC (mode A, DESIGN 4.1).                      *)
(*                                                                             *)
(* A rational is a pair <<n, d>> of TLC integers with d > 0 and gcd(|n|,d) = 1  *)
(* (0 is <<0,1>>), so equality of rationals is equality of TLA+ values.         *)
(* TLC integers are 32-bit and an overflow is an evaluation error, not a wrap;  *)
(* every product below is taken only after cancelling common factors, and sums  *)
(* go through the least common multiple of the denominators.                    *)
(* Vectors are sequences of rationals, matrices are sequences of rows.          *)
(* TLCEval forces the lazily evaluated function constructors of TLC, otherwise  *)
(* a matrix entry would be recomputed at every use.                             *)
EXTENDS Integers, Sequences, FiniteSets, TLC

Abs(a) == IF a >= 0 THEN a ELSE -a

RECURSIVE GCD(_, _)
GCD(a, b) == IF b = 0 THEN a ELSE GCD(b, a % b)      \* a, b >= 0

IsRat(x) == /\ x \in Seq(Int) /\ Len(x) = 2 /\ x[2] > 0 /\ GCD(Abs(x[1]), x[2]) = 1

(* build a normalised rational from any integer pair with d # 0 *)
Norm(n, d) == LET g == GCD(Abs(n), Abs(d))
                  s == IF d < 0 THEN -1 ELSE 1
              IN <<s * (n \div g), Abs(d) \div g>>      \* \div is exact here (g | n, g | d)

RZero == <<0, 1>>
ROne == <<1, 1>>
RInt(k) == <<k, 1>>
RFrac(n, d) == Norm(n, d)
RIsZero(x) == x[1] = 0

RNeg(x) == <<-x[1], x[2]>>

RAdd(x, y) ==
  IF x[2] = 1 /\ y[2] = 1 THEN <<x[1] + y[1], 1>>
  ELSE IF x[1] = 0 THEN y
  ELSE IF y[1] = 0 THEN x
  ELSE LET g == GCD(x[2], y[2])
           a == x[2] \div g              \* lcm = a * y[2] = b * x[2]
           b == y[2] \div g
       IN Norm(x[1] * b + y[1] * a, a * y[2])

RSub(x, y) == RAdd(x, RNeg(y))

(* cross-cancellation before multiplying: the result is already in lowest terms *)
RMul(x, y) ==
  IF x[1] = 0 \/ y[1] = 0 THEN RZero
  ELSE IF x[2] = 1 /\ y[2] = 1 THEN <<x[1] * y[1], 1>>
  ELSE LET g1 == GCD(Abs(x[1]), y[2])
           g2 == GCD(Abs(y[1]), x[2])
       IN <<(x[1] \div g1) * (y[1] \div g2), (x[2] \div g2) * (y[2] \div g1)>>

RInv(x) == IF x[1] > 0 THEN <<x[2], x[1]>> ELSE <<-x[2], -x[1]>>     \* x # 0
RDiv(x, y) == RMul(x, RInv(y))

RECURSIVE RSumUpTo(_, _)
RSumUpTo(s, k) == IF k = 0 THEN RZero ELSE RAdd(RSumUpTo(s, k - 1), s[k])
RSum(s) == RSumUpTo(s, Len(s))

-----------------------------------------------------------------------------
(* vectors                                                                     *)

IsRatVec(v, n) == /\ DOMAIN v = 1..n /\ \A j \in 1..n : IsRat(v[j])
ZeroVec(n) == [j \in 1..n |-> RZero]
UnitVec(n, k) == [j \in 1..n |-> IF j = k THEN ROne ELSE RZero]
IntVec(v) == [j \in 1..Len(v) |-> RInt(v[j])]
IsZeroVec(v) == \A j \in 1..Len(v) : v[j][1] = 0

Dot(u, v) == RSum([j \in 1..Len(u) |-> RMul(u[j], v[j])])
VAdd(u, v) == TLCEval([j \in 1..Len(u) |-> RAdd(u[j], v[j])])
VSub(u, v) == TLCEval([j \in 1..Len(u) |-> RSub(u[j], v[j])])
VScale(c, v) == LET cc == TLCEval(c) IN TLCEval([j \in 1..Len(v) |-> RMul(cc, v[j])])
RECURSIVE VSumUpTo(_, _, _)
VSumUpTo(vs, k, n) == IF k = 0 THEN ZeroVec(n) ELSE VAdd(VSumUpTo(vs, k - 1, n), vs[k])
VSum(vs, n) == TLCEval(VSumUpTo(vs, Len(vs), n))        \* sum of a sequence of n-vectors

-----------------------------------------------------------------------------
(* matrices: sequences of rows                                                 *)

Rows(M) == Len(M)
Cols(M) == Len(M[1])
IsRatMat(M, r, c) == /\ DOMAIN M = 1..r /\ \A i \in 1..r : IsRatVec(M[i], c)
ZeroMat(r, c) == [i \in 1..r |-> ZeroVec(c)]
Identity(n) == [i \in 1..n |-> UnitVec(n, i)]
IntMat(M) == [i \in 1..Len(M) |-> IntVec(M[i])]
Col(M, j) == TLCEval([i \in 1..Len(M) |-> M[i][j]])
Transpose(M) == TLCEval([j \in 1..Cols(M) |-> Col(M, j)])

(* positions of the non-zero entries: rows of projectors and rotations are sparse *)
Support(v) == SelectSeq([j \in 1..Len(v) |-> j], LAMBDA j : v[j][1] # 0)
DotOn(s, u, v) == RSum([k \in 1..Len(s) |-> RMul(u[s[k]], v[s[k]])])
MatMul(A, B) ==
  LET BT == Transpose(B)
  IN TLCEval([i \in 1..Rows(A) |->
                LET s == TLCEval(Support(A[i]))
                IN [j \in 1..Len(BT) |-> DotOn(s, A[i], BT[j])]])
MatVec(A, v) == TLCEval([i \in 1..Rows(A) |-> Dot(A[i], v)])       \* A . v (column)
VecMat(v, A) == MatVec(Transpose(A), v)                            \* v . A (row)
MatAdd(A, B) == TLCEval([i \in 1..Rows(A) |-> VAdd(A[i], B[i])])
MatScale(c, A) == TLCEval([i \in 1..Rows(A) |-> VScale(c, A[i])])
Outer(u, v) == TLCEval([i \in 1..Len(u) |-> VScale(u[i], v)])      \* u^T v
RECURSIVE MatSumUpTo(_, _, _, _)
MatSumUpTo(Ms, k, r, c) ==
  IF k = 0 THEN ZeroMat(r, c) ELSE MatAdd(MatSumUpTo(Ms, k - 1, r, c), Ms[k])
MatSum(Ms, r, c) == MatSumUpTo(Ms, Len(Ms), r, c)
DiagMat(d) == [i \in 1..Len(d) |-> [j \in 1..Len(d) |-> IF i = j THEN d[i] ELSE RZero]]

(* a family of row vectors is orthogonal: pairwise zero products, no zero row   *)
OrthogonalRows(M) ==
  /\ \A i \in 1..Len(M) : ~RIsZero(Dot(M[i], M[i]))
  /\ \A i, j \in 1..Len(M) : i < j => RIsZero(Dot(M[i], M[j]))

(* for such a family the normalised transpose is a right inverse: M . M^+ = 1   *)
PseudoInverse(M) ==
  Transpose([i \in 1..Len(M) |-> VScale(RInv(Dot(M[i], M[i])), M[i])])
=============================================================================
