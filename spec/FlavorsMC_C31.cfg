CONSTANT QedSectorMap = "unified"
CONSTANT DeltaRows = "orthogonalised"
CONSTANT NormalizeOut = TRUE
CONSTANT QcdOthCoef = "nf-1"
CONSTANT NormalizeProj = TRUE
INIT Init
NEXT Next
CHECK_DEADLOCK FALSE
INVARIANT InvBasis
INVARIANT InvDeltaDocs
INVARIANT InvSectorLabels
INVARIANT InvC31Tables
INVARIANT InvC31Available
INVARIANT InvC31Sector
INVARIANT InvC31Diag
INVARIANT InvC31Ref
