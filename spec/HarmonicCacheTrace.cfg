CONSTANTS
  MixedParity = FALSE
  Mutation = "none"
INIT TInit
NEXT TNext
INVARIANT Inv
POSTCONDITION Post
CHECK_DEADLOCK FALSE
