--------------------------- MODULE EkoreLawsTrace ---------------------------
(* B3 for the law checks C24 (values), C25, C26, C27, C29, C30.                  *)
(* The trace is  [check |-> "Cxx", recs |-> << [cell |-> c, obs |-> o], ... >>]:  *)
(* c is a cell of Plan(check) echoed back by the harness, o the integer classes   *)
(* it measured on the real (un-jitted) functions for that cell.                   *)
(*  * every record: the cell is planned and its observation is within the class   *)
(*    the specification requires for it ("Cxx:<clause>" otherwise; "UNRES" lines   *)
(*    for observations within half a decade of the threshold);                     *)
(*  * the whole trace: every planned cell is present exactly once, none unplanned *)
(*    ("PLAN:..." lines).                                                          *)
EXTENDS EkoreLaws, Json, IOUtils, TLCExt
EnvJ == atoi(IOEnv.EKL_J)
TLog == JsonDeserialize(IOEnv.TRACE_FILE)
Check == TLog.check
Recs == TLog.recs
ThePlan == Plan(Check)
Seen == {Recs[m].cell : m \in 1..Len(Recs)}
VARIABLE i
Init == i = 1
Next == i <= Len(Recs) /\ i' = i + 1

RecVerdict(r) == IF r.cell \notin ThePlan THEN "PLAN:unplanned-cell" ELSE Verdict(Check, r.cell, r.obs)
Complete ==
  /\ IF Cardinality(Seen) = Len(Recs) THEN TRUE ELSE PrintT(<<"BAD", 0, "PLAN:duplicate-cell">>)
  /\ IF ThePlan \subseteq Seen THEN TRUE
     ELSE PrintT(<<"BAD", 0, "PLAN:missing-cells", Cardinality(ThePlan \ Seen)>>)
Inv == IF i <= Len(Recs)
       THEN LET v == RecVerdict(Recs[i]) IN
              IF v = "ok" THEN TRUE
              ELSE IF v = "unresolved" THEN PrintT(<<"UNRES", i>>)
              ELSE PrintT(<<"BAD", i, v>>)
       ELSE Complete
Post == TLCGet("stats").diameter = Len(Recs) + 1
=============================================================================
