------------------------------ MODULE Dispatch ------------------------------
(* Configuration semantics of the solver: which combinations of runcard settings *)
(* are supported, which must be refused and by naming what, and which settings     *)
(* are irrelevant for a configuration.  Transcribed from the documentation and the   *)
(* dispatch code (eko.evolution_operator.quad_ker, eko.kernels dispatchers, ekore           *)
(* anomalous dimensions and operator matrix elements dispatchers).                  *)
EXTENDS Naturals, Sequences, FiniteSets, TLC

Methods == {"iterate-exact", "iterate-expanded", "perturbative-exact", "perturbative-expanded",
            "truncated", "ordered-truncated", "decompose-exact", "decompose-expanded"}
Svs == {"none", "expo", "expanded"}
(* path shapes: one segment; one upward / downward crossing; "point": the target is the initial point (one   *)
(* zero-length segment); "wall": an upward crossing that ends exactly on the matching scale with the upper   *)
(* nf (zero-length last segment after the matching).  The two degenerate shapes are enumerated for two       *)
(* solution methods only.                                                                                  *)
Shapes == {"single", "up", "down", "point", "wall"}
DegenerateMethods == {"iterate-exact", "truncated"}
Invs == {"none", "exact", "expanded"}

Configs == {c \in [qcd : 1..4, qed : 0..2, method : Methods, sv : Svs, pol : BOOLEAN, tl : BOOLEAN,
                   shape : Shapes, inv : Invs, emrun : BOOLEAN, top : BOOLEAN] :
              /\ (c.qed = 0 => ~c.emrun)
              /\ (c.shape # "down" => c.inv = "none")
              /\ (c.shape \in {"point", "wall"} => c.method \in DegenerateMethods)}

(* ---- availability of perturbative ingredients ---- *)
AdAvailable(c) ==                       \* anomalous dimensions at order c.qcd
  IF c.qed > 0 THEN TRUE                \* unified QED x QCD grids: through (4, 2)
  ELSE IF c.pol /\ c.tl THEN FALSE      \* no polarized time-like splitting functions
  ELSE IF c.pol THEN c.qcd <= 3         \* polarized known through NNLO
  ELSE IF c.tl THEN c.qcd <= 3          \* time-like known through NNLO
  ELSE TRUE
(* top: the path has a segment with six active flavours; the N3LO anomalous dimensions and *)
(* matching elements are parametrised for nf = 3, 4, 5 only                                *)
N3loNfOk(c) == ~(c.qcd = 4 /\ c.top)
QedMethodOk(c) == c.qed > 0 => c.method = "iterate-exact"
HasMatching(c) == c.shape \in {"up", "down", "wall"} /\ c.qcd >= 2
(* matching elements: polarized through matching order 2; time-like beyond NLO is the   *)
(* documented exception (silently absent); polarized time-like matching is refused        *)
OmeRefused(c) == HasMatching(c) /\ c.pol /\ c.tl

Refuser(c) ==
  IF ~QedMethodOk(c) THEN "iterate-exact"
  ELSE IF c.qed = 0 /\ c.pol /\ c.tl THEN "Polarized, time-like"
  ELSE IF c.qed = 0 /\ c.pol /\ c.qcd = 4 THEN "Polarized beyond NNLO"
  ELSE IF c.qed = 0 /\ c.tl /\ c.qcd = 4 THEN "Time-like beyond NNLO"
  ELSE IF OmeRefused(c) THEN "Polarized, time-like"
  ELSE IF ~N3loNfOk(c) THEN "nf=6 is not available at N3LO"
  ELSE "none"

(* QED kernels are only defined for unpolarized space-like evolution; the code does not  *)
(* look at the flags there.  The documentation is silent: either outcome is accepted,      *)
(* a crash is not.                                                                         *)
(* On a zero-length segment no kernel is evaluated (the operator is the identity, apart from the expanded  *)
(* scale-variation factor), so an unavailable ingredient may or may not be noticed: for the degenerate      *)
(* shapes a clean refusal and a finite result are both accepted where the table would refuse.               *)
Degenerate(c) == c.shape \in {"point", "wall"}
Unspecified(c) == \/ c.qed > 0 /\ (c.pol \/ c.tl) /\ QedMethodOk(c) /\ ~OmeRefused(c) /\ N3loNfOk(c)
                  \/ Degenerate(c) /\ Refuser(c) # "none"

Expected(c) == IF Unspecified(c) THEN "any"
               ELSE IF Refuser(c) # "none" THEN "refused" ELSE "finite"

(* internal consistency of the table *)
TableOk == \A c \in Configs :
  /\ (Expected(c) = "refused") = (Refuser(c) # "none" /\ ~Unspecified(c))
  /\ (Expected(c) = "finite" => AdAvailable(c) /\ QedMethodOk(c) /\ N3loNfOk(c))
  /\ (~AdAvailable(c) /\ ~Degenerate(c) => Expected(c) = "refused")

(* ---- C04 ---- *)
Contains(s, sub) == \E k \in 0..(Len(s) - Len(sub)) : SubSeq(s, k + 1, k + Len(sub)) = sub
(* a refusal names the unsupported feature: the message contains the words of at least one feature of the  *)
(* configuration that is unavailable (o.words: which words of the fixed vocabulary the message contains)    *)
UnsupportedWords(c) ==
  (IF ~QedMethodOk(c) THEN {{"iterate-exact"}} ELSE {})
  \cup (IF c.pol /\ c.tl THEN {{"olarized", "ime-like"}} ELSE {})
  \cup (IF c.pol /\ c.qcd = 4 THEN {{"olarized", "NNLO"}} ELSE {})
  \cup (IF c.tl /\ c.qcd = 4 THEN {{"ime-like", "NNLO"}} ELSE {})
  \cup (IF c.qcd = 4 /\ c.top THEN {{"nf=6", "N3LO"}} ELSE {})
Names(c, o) == \E ws \in UnsupportedWords(c) : ws \subseteq {o.words[j] : j \in 1..Len(o.words)}
C04_Verdict(c, o) ==
  IF o.kind \notin {"finite", "NotImplementedError", "ValueError"} THEN "C04:crash:" \o o.exc
  ELSE IF o.kind = "finite" /\ ~o.allFinite THEN "C04:non-finite-numbers-written"
  ELSE IF Expected(c) = "finite" /\ o.kind # "finite" THEN "C04:supported-configuration-refused:" \o o.exc
  ELSE IF Expected(c) = "refused" /\ o.kind = "finite" THEN "C04:unavailable-ingredient-not-refused:" \o Refuser(c)
  ELSE IF Expected(c) = "refused" /\ ~Names(c, o) THEN "C04:refusal-does-not-name-the-unsupported-feature:" \o Refuser(c)
  ELSE "ok"

(* ---- C55 ---- *)
Settings == {"iterations", "max_order", "inversion", "n3lo_variation", "use_fhmruvv", "emrun"}
Relevant(s, c) ==
  CASE s = "iterations" -> c.qed > 0 \/ c.method \in {"iterate-exact", "iterate-expanded", "perturbative-exact", "perturbative-expanded"}
    [] s = "max_order" -> c.method \in {"perturbative-exact", "perturbative-expanded"}
    [] s = "inversion" -> c.shape = "down" /\ c.qcd >= 2
    [] s = "n3lo_variation" -> c.qcd = 4
    [] s = "use_fhmruvv" -> c.qcd = 4
    [] s = "emrun" -> c.qed > 0
Pairs == {<<c, s>> \in Configs \X Settings : ~Relevant(s, c) /\ Expected(c) = "finite"}
C55_Verdict(c, s, same) ==
  IF ~Relevant(s, c) /\ ~same THEN "C55:irrelevant-setting-changes-result:" \o s ELSE "ok"
=============================================================================
