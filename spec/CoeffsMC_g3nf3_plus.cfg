CONSTANT Mutant = "g3nf3_plus"
INIT Init
NEXT Next
INVARIANT InvCasimir
INVARIANT InvDecimal
INVARIANT InvQed
INVARIANT InvKnown
INVARIANT InvEval
CHECK_DEADLOCK FALSE
