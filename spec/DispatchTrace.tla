---------------------------- MODULE DispatchTrace ----------------------------
(* B3 for C04 and C55: outcomes of real (shimmed) solves judged by Dispatch.      *)
(*  [ev |-> "outcome", cfg, kind, exc, msg, allFinite]                            *)
(*  [ev |-> "pair", cfg, setting, same]   two solves differing in one setting       *)
(*  [ev |-> "coverage", n]   number of distinct configurations run (thorough)       *)
EXTENDS Dispatch, Json, IOUtils, TLCExt
TLog == JsonDeserialize(IOEnv.TRACE_FILE)
VARIABLE i
Init == i = 1
Next == i <= Len(TLog) /\ i' = i + 1
Verdict(r) ==
  IF r.ev = "outcome"
  THEN IF r.cfg \notin Configs THEN "CONF:configuration-outside-domain" ELSE C04_Verdict(r.cfg, r)
  ELSE IF r.ev = "pair"
  THEN IF r.cfg \notin Configs \/ r.setting \notin Settings THEN "CONF:pair-outside-domain"
       ELSE IF Relevant(r.setting, r.cfg) THEN "CONF:pair-with-relevant-setting"
       ELSE C55_Verdict(r.cfg, r.setting, r.same)
  ELSE IF r.ev = "coverage"
  THEN IF r.n # Cardinality(Configs) THEN "COVERAGE:domain-not-exhausted" ELSE "ok"
  ELSE "CONF:unknown-record"
Inv == i <= Len(TLog) =>
         LET v == Verdict(TLog[i]) IN v = "ok" \/ PrintT(<<"BAD", i, v>>)
Post == TLCGet("stats").diameter = Len(TLog) + 1
=============================================================================
