CONSTANTS
  INF = 9
  CliffRule = "intermediate-only"
  MaxTargets = 1
  Scales = {1,2,3,4}
  SvModes = {"none","expo","expanded"}
  MsSet <- MsAll
INIT Init
NEXT Next
INVARIANT C02_Word
INVARIANT C02_Once
INVARIANT C02_NeverStuck
INVARIANT C02_AllJoined
INVARIANT C03_TargetFree
INVARIANT C53_KPlacement
INVARIANT C53_NoKElsewhere
INVARIANT C53_IntermediateClean
CHECK_DEADLOCK FALSE
