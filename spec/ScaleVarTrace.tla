---------------------------- MODULE ScaleVarTrace ----------------------------
(* B3 for C21: outputs of eko.scale_variations obtained by exact probing are     *)
(* compared with the renormalisation-group derivation of ScaleVar.               *)
(* Common fields: src ("patched": bs / bsqed given as pairs, the eko.beta          *)
(* functions were replaced by these integers; "real": nf, nl given, the beta        *)
(* coefficients are those of the literature table Coeffs), d (matrix dimension).    *)
(*  [kind |-> "expo",  n, gs, cells : <<[L, out]>>, ret]      gamma_variation       *)
(*  [kind |-> "expoq", o0, o1, running, g, L, out, ret]        gamma_variation_qed   *)
(*  [kind |-> "expa",  fn, n, gs, cells : <<[L, coef]>>]       (non_)singlet_variation: *)
(*        coef[j+1] = coefficient matrix of a_s^j, j = 0..4                          *)
(*  [kind |-> "expav", k, gs, cells : <<[L, out]>>]            variation_as{k}        *)
(*  [kind |-> "expaq", fn, o0, o1, running, g, L, coef]        *_variation_qed:        *)
(*        coef[j+1][k+1] = coefficient matrix of a_s^j a_em^k, j = 0..4, k = 0..2     *)
EXTENDS ScaleVar, Json, IOUtils, TLCExt, FiniteSets
Co == INSTANCE Coeffs WITH Mutant <- "none"
TLog == JsonDeserialize(IOEnv.TRACE_FILE)
VARIABLE i
Init == i = 1
Next == i <= Len(TLog) /\ i' = i + 1

Pairs(s) == [k \in 1..Len(s) |-> QOfJson(s[k])]
BsOf(r) == IF r.src = "real"
           THEN << Co!EvalPoly(Co!Beta0, r.nf)[1], Co!EvalPoly(Co!Beta1, r.nf)[1], Co!EvalPoly(Co!Beta2, r.nf)[1] >>
           ELSE Pairs(r.bs)
BsQedOf(r) == IF r.src = "real" THEN << Co!Derived02(r.nf, r.nl) >> ELSE Pairs(r.bsqed)
Tower(gs) == [k \in 1..Len(gs) |-> MOfInt(gs[k])]
Grid(g) == [j \in 1..Len(g) |-> [k \in 1..Len(g[1]) |-> MOfInt(g[j][k])]]
MSeq(s) == [k \in 1..Len(s) |-> MOfJson(s[k])]

(* first <<cell, index>> that differs, <<0,0>> if none *)
ExpoBad(r, G) ==
  LET bad == {<<c, j>> \in (1..Len(r.cells)) \X (1..r.n) :
                ~MEq(MOfJson(r.cells[c].out[j]), BRowEval(G, j, QI(r.cells[c].L), 1))}
  IN  IF bad = {} THEN <<0, 0>> ELSE CHOOSE p \in bad : \A q \in bad : p[2] < q[2] \/ (p[2] = q[2] /\ p[1] <= q[1])
ExpoVerdict(r) ==
  IF ~r.ret THEN "C21:gamma_variation returns no array order " \o ToString(r.n)
  ELSE Let1(GammaOfR(Tower(r.gs), BsOf(r), r.n), LAMBDA G :
         Let1(ExpoBad(r, G), LAMBDA p :
           IF p[1] = 0 THEN "ok"
           ELSE "C21:exponentiated order " \o ToString(r.n) \o " gamma'_" \o ToString(p[2] - 1)))

ExpoqVerdict(r) ==
  IF ~r.ret THEN "C21:gamma_variation_qed returns no array alphaem_running=" \o ToString(r.running)
  ELSE Let2(C21_GammaPrimeQed(Grid(r.g), r.o0, r.o1, BsOf(r), BsQedOf(r), r.running, QI(r.L)), r.out, LAMBDA E, O :
         LET bad == {<<j, k>> \in (1..(r.o0 + 1)) \X (1..(r.o1 + 1)) : ~MEq(MOfJson(O[j][k]), E[j][k])}
         IN  IF bad = {} THEN "ok"
             ELSE LET p == CHOOSE q \in bad : TRUE IN
                  "C21:exponentiated qed order (" \o ToString(r.o0) \o "," \o ToString(r.o1) \o ") running="
                    \o ToString(r.running) \o " gamma[" \o ToString(p[1] - 1) \o "," \o ToString(p[2] - 1) \o "]")

ExpaBad(r, K) ==
  LET d == Len(r.gs[1])
      bad == {<<c, j>> \in (1..Len(r.cells)) \X (1..5) :
                ~MEq(MOfJson(r.cells[c].coef[j]),
                     IF j <= r.n THEN BRowEval(K, j - 1, QI(r.cells[c].L), 1) ELSE MZero(d))}
  IN  IF bad = {} THEN <<0, 0>> ELSE CHOOSE p \in bad : \A q \in bad : p[2] < q[2] \/ (p[2] = q[2] /\ p[1] <= q[1])
ExpaVerdict(r) ==
  Let1(PathOrdered(Tower(r.gs), BsOf(r), r.n), LAMBDA K :
    Let1(ExpaBad(r, K), LAMBDA p :
      IF p[1] = 0 THEN "ok"
      ELSE "C21:expanded " \o r.fn \o " order " \o ToString(r.n) \o " a^" \o ToString(p[2] - 1)))

ExpavVerdict(r) ==
  Let1(PathOrdered(Tower(r.gs), BsOf(r), r.k + 1), LAMBDA K :
    IF \A c \in 1..Len(r.cells) : MEq(MOfJson(r.cells[c].out), BRowEval(K, r.k, QI(r.cells[c].L), 1))
    THEN "ok" ELSE "C21:expanded variation_as" \o ToString(r.k))

ExpaqVerdict(r) ==
  Let2(C21_KernelQed(Grid(r.g), r.o0, r.o1, BsOf(r), BsQedOf(r), r.running, QI(r.L), 5, 3), r.coef, LAMBDA E, O :
    LET bad == {<<j, k>> \in (1..5) \X (1..3) : ~MEq(MOfJson(O[j][k]), E[j][k])}
    IN  IF bad = {} THEN "ok"
        ELSE LET p == CHOOSE q \in bad : \A q2 \in bad : q[1] + q[2] <= q2[1] + q2[2] IN
             "C21:expanded " \o r.fn \o " order (" \o ToString(r.o0) \o "," \o ToString(r.o1) \o ") running="
               \o ToString(r.running) \o " as^" \o ToString(p[1] - 1) \o " aem^" \o ToString(p[2] - 1))

Verdict(r) ==
  CASE r.kind = "expo" -> ExpoVerdict(r)
    [] r.kind = "expoq" -> ExpoqVerdict(r)
    [] r.kind = "expa" -> ExpaVerdict(r)
    [] r.kind = "expav" -> ExpavVerdict(r)
    [] r.kind = "expaq" -> ExpaqVerdict(r)
    [] OTHER -> "FORMAT:kind"

Inv == i <= Len(TLog) =>
         LET v == Verdict(TLog[i]) IN v = "ok" \/ PrintT(<<"BAD", i, v>>)
Post == TLCGet("stats").diameter = Len(TLog) + 1
=============================================================================
