CONSTANTS
  MixedParity = FALSE
  Mutation = "Sm22-skips-Sm31"
  MaxSteps = 3
INIT Init
NEXT Next
INVARIANT C24_Cache
CHECK_DEADLOCK FALSE
