---------------------------- MODULE LhapdfTrace ----------------------------
(* B3 for C45: one record per evolve_pdfs call on a synthetic EKO.                   *)
(*  [eg, tgt, outcome |-> "written"|"refused"|"crash", exc, xs, tx,                   *)
(*   info |-> [qmin, qmax, xmin, xmax, alphaQs, members], blocks |-> <<[qs, xs]>>,    *)
(*   files, gridsSame, flavorsOk, valCls, alphaCls, reloadCls]                        *)
(* ranks: position in the run's sorted table of scales / momentum fractions, 0 = the  *)
(* number read from the file matches no entry; classes: 0 equal to printed precision, *)
(* 1 unresolved, 2 different.  Every failing clause is printed.                       *)
EXTENDS Json, IOUtils, TLC, TLCExt, Sequences, Naturals, FiniteSets
F == INSTANCE Lhapdf WITH SortedAssumed <- TRUE, XFromCard <- TRUE
I == INSTANCE Lhapdf WITH SortedAssumed <- FALSE, XFromCard <- FALSE

TLog == JsonDeserialize(IOEnv.TRACE_FILE)
VARIABLE i
Init == i = 1
Next == i <= Len(TLog) /\ i' = i + 1

Eg(r) == [j \in DOMAIN r.eg |-> <<r.eg[j][1], r.eg[j][2]>>]
Info(r) == [qmin |-> r.info.qmin, qmax |-> r.info.qmax, xmin |-> r.info.xmin, xmax |-> r.info.xmax,
            alphaQs |-> r.info.alphaQs, members |-> r.info.members]
Blocks(r) == [j \in DOMAIN r.blocks |-> [qs |-> r.blocks[j].qs, xs |-> r.blocks[j].xs]]
Tx(r) == I!SeqSet(r.tx)

Failing(r) ==
  LET eg == Eg(r) IN
  IF r.outcome = "refused" THEN IF I!Overlapping(eg) THEN {} ELSE {"C45:valid-grid-refused"}
  ELSE IF r.outcome = "crash"
       THEN IF r.tgt THEN {"C45:explicit-target-grid-crashes"} ELSE {"C45:export-crashed:" \o r.exc}
  ELSE IF I!Overlapping(eg) THEN {"DIAG:overlapping-patches-accepted"}
  ELSE LET info == Info(r)
           blocks == Blocks(r)
       IN (IF I!C45_Nodes(eg, blocks) THEN {} ELSE {"C45:written-q-nodes-are-not-the-evolution-points"})
          \cup (IF I!C45_Target(Tx(r), blocks) THEN {} ELSE {"C45:target-grid-not-honoured"})
          \cup (IF I!C45_QRange(info, blocks) THEN {} ELSE {"C45:qmin-qmax-not-min-max-of-written-q"})
          \cup (IF I!C45_XRange(info, blocks) THEN {} ELSE {"C45:xmin-xmax-not-min-max-of-written-x"})
          \cup (IF I!C45_AlphaQs(info, blocks) THEN {} ELSE {"C45:alphas-qs-not-the-written-q-nodes"})
          \cup (IF I!C45_Members(info, r.files) THEN {} ELSE {"C45:num-members"})
          \cup (IF r.flavorsOk THEN {} ELSE {"C45:flavors"})
          \cup (IF r.gridsSame THEN {} ELSE {"C45:members-on-different-grids"})
          \cup (CASE r.valCls = 2 -> {"C45:block-values-differ-from-applied-pdf"} [] r.valCls = 1 -> {"UNRES:block-values"} [] OTHER -> {})
          \cup (CASE r.alphaCls = 2 -> {"C45:alphas-vals-differ-from-evolution-coupling"} [] r.alphaCls = 1 -> {"UNRES:alphas"} [] OTHER -> {})
          \cup (CASE r.reloadCls = 2 -> {"C45:dump-load-not-identity"} [] r.reloadCls = 1 -> {"UNRES:reload"} [] OTHER -> {})

Conf(r) ==
  IF r.outcome # "written" THEN "both"
  ELSE LET eg == Eg(r)
           xs == I!SeqSet(r.xs)
           isF == F!InfoOf(eg, xs, Tx(r), r.files) = Info(r)
           isI == I!InfoOf(eg, xs, Tx(r), r.files) = Info(r)
       IN IF isF /\ isI THEN "both" ELSE IF isF THEN "faithful" ELSE IF isI THEN "intended" ELSE "neither"

Inv == i <= Len(TLog) =>
         LET r == TLog[i]
             c == Conf(r)
         IN /\ \A v \in Failing(r) : PrintT(<<"BAD", i, v>>)
            /\ IF c = "both" THEN TRUE ELSE PrintT(<<"CONF", i, c>>)
Post == TLCGet("stats").diameter = Len(TLog) + 1
=============================================================================
