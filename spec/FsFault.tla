------------------------------ MODULE FsFault ------------------------------
(* C38: a computation (eko.solve -> EKO.create ... Builder.__exit__) or an edit  *)
(* session (EKO.edit ... EKO.__exit__) as the sequence of effects it issues, with *)
(* a failure injected at any effect.  Control flow as in the code: an exception    *)
(* inside the `with` body leaves through __exit__ WITHOUT closing; close() is      *)
(* the only place where the permanent path is touched.                            *)
(*                                                                               *)
(* AtomicClose = FALSE: close() = unlink(path); tar-open(path,"w"); add members;  *)
(*                      tar-close; rmtree(tmp)        (as found in the code)       *)
(* AtomicClose = TRUE : close() = tar-open(side,"w"); add members; tar-close;      *)
(*                      replace(side, path); [finally unlink(side)]; rmtree(tmp)   *)
EXTENDS Naturals, Sequences, FiniteSets, TLC

CONSTANTS AtomicClose, NWork, NMembers, MaxFaults,
          CrossDevice,       \* world: the temporary area and the output folder are on two file systems
          StageInTemp,       \* design switch: the complete archive is staged in the temporary area (not next to the
                             \* target) and moved; across devices a move is open(target, "w") + copy + close
          CloseOnInterrupt   \* design switch: __exit__ skips close() only for Exception, not for an interruption (KeyboardInterrupt, SystemExit, GeneratorExit)

VARIABLES kind,    \* "new" | "edit"
          pc,      \* <<region, index>>
          arc,     \* permanent path: "absent" | "prev" | "partial" | "new" | "incomplete" (well-formed, content of a half-done session)
          side,    \* sibling temporary archive: "absent" | "partial" | "complete"
          failed,  \* the session raised
          nfault,  \* faults injected so far
          phase    \* "run" | "retry" | "done"
vars == <<kind, pc, arc, side, failed, nfault, phase>>

Initial(k) == IF k = "edit" THEN "prev" ELSE "absent"   \* "new" and "copy" (deepcopy to a fresh path) start without archive

Init == /\ kind \in {"new", "edit", "copy"}
        /\ pc = <<"work", 1>>
        /\ arc = Initial(kind)
        /\ side = "absent"
        /\ failed = FALSE
        /\ nfault = 0
        /\ phase = "run"

(* the close region as a sequence of step names *)
CloseSteps ==
  IF AtomicClose /\ StageInTemp /\ CrossDevice
  THEN <<"sideopen">> \o [m \in 1..NMembers |-> "sideadd"] \o <<"sideclose", "taropen", "taradd", "tarclose", "rmtree">>
  ELSE IF AtomicClose
  THEN <<"sideopen">> \o [m \in 1..NMembers |-> "sideadd"] \o <<"sideclose", "replace", "rmtree">>
  ELSE <<"unlink", "taropen">> \o [m \in 1..NMembers |-> "taradd"] \o <<"tarclose", "rmtree">>

(* effect of a step that succeeds *)
Effect(step) ==
  CASE step = "unlink"    -> /\ arc' = "absent" /\ UNCHANGED side
    [] step = "taropen"   -> /\ arc' = "partial" /\ UNCHANGED side
    [] step = "taradd"    -> /\ arc' = "partial" /\ UNCHANGED side
    [] step = "tarclose"  -> /\ arc' = "new" /\ UNCHANGED side
    [] step = "sideopen"  -> /\ side' = "partial" /\ UNCHANGED arc
    [] step = "sideadd"   -> /\ side' = "partial" /\ UNCHANGED arc
    [] step = "sideclose" -> /\ side' = "complete" /\ UNCHANGED arc
    [] step = "replace"   -> /\ arc' = "new" /\ side' = "absent"
    [] step = "rmtree"    -> UNCHANGED <<arc, side>>
    [] OTHER              -> UNCHANGED <<arc, side>>

Advance ==
  /\ phase = "run" /\ ~failed
  /\ IF pc[1] = "work"
     THEN /\ UNCHANGED <<arc, side>>
          /\ pc' = IF pc[2] < NWork THEN <<"work", pc[2] + 1>> ELSE <<"close", 1>>
          /\ UNCHANGED phase
     ELSE /\ Effect(CloseSteps[pc[2]])
          /\ IF pc[2] < Len(CloseSteps)
             THEN pc' = <<"close", pc[2] + 1>> /\ UNCHANGED phase
             ELSE pc' = pc /\ phase' = "done"
  /\ UNCHANGED <<kind, failed, nfault>>

(* the current step raises before taking effect; in the repaired close() the       *)
(* `finally` clause removes the sibling file                                        *)
Fault ==
  /\ phase = "run" /\ ~failed /\ nfault < MaxFaults
  /\ failed' = TRUE
  /\ nfault' = nfault + 1
  /\ side' = IF AtomicClose THEN "absent" ELSE side
  /\ phase' = "retry"
  /\ UNCHANGED <<kind, pc, arc>>

(* the body is interrupted (an exception that is not an Exception); as in the code  *)
(* __exit__ leaves without closing for every exception type, unless the design       *)
(* switch says otherwise: then close() runs on whatever the session had done so far  *)
Interrupt ==
  /\ phase = "run" /\ ~failed /\ nfault < MaxFaults /\ pc[1] = "work"
  /\ failed' = TRUE
  /\ nfault' = nfault + 1
  /\ arc' = IF CloseOnInterrupt THEN "incomplete" ELSE arc
  /\ phase' = "retry"
  /\ UNCHANGED <<kind, pc, side>>

(* a subsequent run on the same path *)
RetryOk ==
  IF kind \in {"new", "copy"} THEN arc \in {"absent", "new"}      \* create again, or the result is there
  ELSE arc \in {"prev", "new"}                          \* the archive can be opened again
Retry ==
  /\ phase = "retry"
  /\ phase' = "done"
  /\ UNCHANGED <<kind, pc, arc, side, failed, nfault>>

Next == Advance \/ Fault \/ Interrupt \/ Retry
Spec == Init /\ [][Next]_vars

C38_Intact == failed => arc \in {Initial(kind), "new"}
C38_Retry == (phase \in {"retry", "done"} /\ failed) => RetryOk
(* an un-faulted session ends with the complete new content *)
C38_Completes == (phase = "done" /\ ~failed) => arc = "new"
=============================================================================
