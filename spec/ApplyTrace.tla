----------------------------- MODULE ApplyTrace -----------------------------
(* B3 for C43 and C42.  Records (harness/checks/C43.py, C42.py):                  *)
(*                                                                             *)
(*  kind = "apply"   one evolution point of a synthetic EKO written through the   *)
(*     real store, applied with ekobox.apply to a PDF-like object:                *)
(*     g, deg, qed, rotate, tgt (<<>> = none), has[b], xfx[b][k] (what xfxQ2       *)
(*     returned, exact rationals), q2ok (every query at the initial scale and on   *)
(*     a grid point), O, haserr, E, raw / rawerr (apply_grids on the same input),  *)
(*     labels, out[a][t], outerr[a][t] (apply_pdf), exact (all floats converted    *)
(*     exactly)                                                                   *)
(*  kind = "flavor"  flavor_reshape / to_evol / to_uni_evol on an integer operator *)
(*  kind = "grid"    xgrid_reshape on an operator with polynomial structure        *)
(*  kind = "law42"   a planned law cell of C42, "end42" closes the law trace       *)
EXTENDS Apply, Json, IOUtils, TLCExt
TLog == JsonDeserialize(IOEnv.TRACE_FILE)
VARIABLE i
Init == i = 1
Next == i <= Len(TLog) /\ i' = i + 1

ApplyVerdict(r) ==
  LET n == Len(r.g)
      fr == InputR(r.xfx, r.g, r.has)
  IN
  IF ~r.exact THEN "C43:inexact-output"
  ELSE IF ~AllIntegers(fr) THEN "TRACE:non-integer-input"
  ELSE
  LET f == Numerators(fr)
      c == Contract(r.O, f, n)
  IN
  IF ~r.q2ok THEN "C43:pdf-not-queried-at-initial-scale-on-grid"
  ELSE IF r.raw # c THEN "C43:contraction"
  ELSE IF r.haserr /\ r.rawerr # Contract(r.E, f, n) THEN "C43:error-contraction"
  ELSE IF ~r.haserr /\ (Len(r.rawerr) # 0 \/ Len(r.outerr) # 0) THEN "C43:error-without-error-tensor"
  ELSE IF r.labels # LabelsOf(r.rotate, r.qed) THEN "C43:labels"
  ELSE IF r.out # Applied(r.O, f, r.g, r.deg, r.tgt, r.rotate, r.qed)
       THEN IF Len(r.tgt) = 0 THEN (IF r.rotate THEN "C43:rotation" ELSE "C43:flavor-basis-result")
            ELSE IF r.rotate THEN "C43:rotation-and-reinterpolation" ELSE "C43:reinterpolation"
  ELSE IF r.haserr /\ r.outerr # Applied(r.E, f, r.g, r.deg, r.tgt, r.rotate, r.qed)
       THEN "C43:error-propagation"
  (* the two-step interface: rotate_result applied again and again to the SAME contraction output  *)
  (* (apply_grids called once) must give what apply_pdf gives, and must leave that output untouched *)
  ELSE IF r.lowlevel # "same" THEN "C43:rotate-result-on-the-same-raw-grids:" \o r.lowlevel
  (* several inputs stacked on the replica axis: each replica of the output is the contraction of ITS input *)
  ELSE IF r.replicas # "same" THEN "C43:stacked-replicas-differ-from-single-input-contraction"
  ELSE "ok"

(* flavour reshape: T / U are given as used by the caller (<<>> = side untouched);  *)
(* for to_evol / to_uni_evol the sides must be the bases of the spec                *)
Side(M) == IF Len(M) = 0 THEN IdMatrix ELSE M
FlavorVerdict(r) ==
  LET n == Len(r.O[1])
      T == Side(r.T)
      U == Side(r.U)
      basis == IF r.via = "to_evol" THEN EvolMatrix ELSE UniMatrix
  IN
  IF r.err # "" THEN "C42:reshape-raised:" \o r.err
  ELSE IF ~r.exact THEN "UNRESOLVED"
  ELSE IF r.via # "flavor_reshape" /\ ((Len(r.T) # 0 /\ r.T # basis) \/ (Len(r.U) # 0 /\ r.U # basis))
       THEN "C42:" \o r.via \o "-uses-another-basis"
  ELSE IF \E q \in 1..Len(r.fs) : ~C42_FlavorCommutes(r.O, r.Onew, T, U, r.fs[q], n)
       THEN "C42:flavor-rotated-apply-differs"
  ELSE IF r.haserr /\ \E q \in 1..Len(r.fs) : ~C42_FlavorCommutes(r.E, r.Enew, T, U, r.fs[q], n)
       THEN "CONF:error-tensor-not-reshaped-like-the-operator"
  ELSE "ok"

GridVerdict(r) ==
  IF r.err # "" THEN "C42:reshape-raised:" \o r.err
  ELSE IF ~r.exact THEN "UNRESOLVED"
  ELSE IF Len(r.Onew) # NF \/ Len(r.Onew[1]) # Len(r.tnew) \/ Len(r.Onew[1][1][1]) # Len(r.inew)
       THEN "C42:grid-reshape-shape"
  ELSE IF \E q \in 1..Len(r.ps) :
            ~C42_GridCommutes(r.Onew, r.M0, r.M1, r.sc, r.ps[q], r.gold, r.tnew, r.inew)
       THEN "C42:grid-reinterpolated-apply-differs"
  ELSE "ok"

Law42Verdict(r) ==
  IF r.cell \notin C42Cells THEN "PLAN:unplanned-cell"
  ELSE LET v == LawVerdict(r.resid_e, r.bound_e) IN
       IF v = "pass" THEN "ok"
       ELSE IF v = "unresolved" THEN "UNRESOLVED"
       ELSE "C42:law-ReinterpCommute"

End42Verdict ==
  IF \A c \in C42Cells : \E k \in 1..Len(TLog) : TLog[k].kind = "law42" /\ TLog[k].cell = c
  THEN "ok" ELSE "PLAN:planned-cell-not-measured"

Verdict(r) ==
  IF r.kind = "apply" THEN ApplyVerdict(r)
  ELSE IF r.kind = "flavor" THEN FlavorVerdict(r)
  ELSE IF r.kind = "grid" THEN GridVerdict(r)
  ELSE IF r.kind = "law42" THEN Law42Verdict(r)
  ELSE IF r.kind = "end42" THEN End42Verdict
  ELSE "TRACE:unknown-record"

Inv == i <= Len(TLog) =>
         LET v == Verdict(TLog[i]) IN v = "ok" \/ PrintT(<<"BAD", i, v>>)
Post == TLCGet("stats").diameter = Len(TLog) + 1
=============================================================================
