CONSTANTS
  INF = 9
  Ms <- MCMs
  RefPoint <- MCRef
  QScales = {1,2,3,4,5}
  QNfs = {3, 4, 5}
  MaxQueries = 1000
  MaxMutations = 1000
  CopyRef = TRUE
  CopyOnHit = TRUE
  Qed = FALSE
  TauTok = 100
  TauBelow = 2
  CopyOnStore = TRUE
  KeyHasNf = TRUE
  TrivialDec = FALSE
INIT TraceInit
NEXT TraceNext
INVARIANT Done
CHECK_DEADLOCK FALSE
