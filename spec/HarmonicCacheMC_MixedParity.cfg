CONSTANTS
  MixedParity = TRUE
  Mutation = "none"
  MaxSteps = 3
INIT Init
NEXT Next
INVARIANT C24_Cache
CHECK_DEADLOCK FALSE
