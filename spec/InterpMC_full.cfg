CONSTANTS S = 16 Step = 1 MinN = 2 MaxN = 6 Degrees = {1, 2, 3}
CONSTANTS UpperClosed = TRUE FirstClosed = TRUE
INIT InitGrids
NEXT Next
INVARIANT InvC34
INVARIANT InvReject
CHECK_DEADLOCK FALSE
