CONSTANTS S = 16 Families <- FamFull
CONSTANTS UpperClosed = TRUE FirstClosed = TRUE
INIT InitAll
NEXT Next
INVARIANT InvC34
INVARIANT InvReject
CHECK_DEADLOCK FALSE
