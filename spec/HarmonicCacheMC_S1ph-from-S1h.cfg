CONSTANTS
  MixedParity = FALSE
  Mutation = "S1ph-from-S1h"
  MaxSteps = 3
INIT Init
NEXT Next
INVARIANT C24_Cache
CHECK_DEADLOCK FALSE
