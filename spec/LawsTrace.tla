------------------------------ MODULE LawsTrace ------------------------------
(* B3 for the law checks: the recorded measurements of one law are judged against    *)
(* the plan and the classes derived in Laws:                                          *)
(*   - every record is a planned cell, no cell twice, every planned cell present      *)
(*     (no silent skipping);                                                          *)
(*   - every resolved record lies in the class required for its cell; unresolved      *)
(*     records are neither pass nor violation but are limited by a budget.            *)
(* A failing record prints <<"BAD", i, "<law>:<clause>-<class>">>.                    *)
EXTENDS Laws, Json, TLCExt
LawName == IOEnv.LAW
TLog == JsonDeserialize(IOEnv.TRACE_FILE)
VARIABLE i
Init == i = 1
Next == i <= Len(TLog) /\ i' = i + 1

Plan == Cells(LawName)
Seen == {TLog[k].cell : k \in 1..Len(TLog)}
HasDuplicates == Cardinality(Seen) # Len(TLog)     \* duplicates are searched only if there are any
NUnresolved == Cardinality({k \in 1..Len(TLog) : ~TLog[k].resolved})

Verdict(r, idx) ==
  IF r.law # LawName THEN LawName \o ":wrong-law-cell"
  ELSE IF r.cell \notin Plan THEN LawName \o ":unplanned-cell"
  ELSE IF HasDuplicates /\ \E j \in 1..(idx - 1) : TLog[j].cell = r.cell THEN LawName \o ":duplicate-cell"
  ELSE IF ~r.resolved THEN "ok"
  ELSE LET q == Req(LawName, r.cell)
       IN IF Accept(q, r) THEN "ok"
          ELSE LawName \o ":" \o r.cell.clause \o "-" \o q.name

Final ==
  /\ \A c \in Plan \ Seen : PrintT(<<"BAD", 0, LawName \o ":missing-cell", c>>)
  /\ IF NUnresolved > UnresolvedBudget(LawName)
     THEN PrintT(<<"BAD", 0, "MACH:unresolved-over-budget", NUnresolved>>) ELSE TRUE

Inv == IF i <= Len(TLog)
       THEN LET v == Verdict(TLog[i], i) IN IF v = "ok" THEN TRUE ELSE PrintT(<<"BAD", i, v>>)
       ELSE Final
Post == TLCGet("stats").diameter = Len(TLog) + 1
=============================================================================
