CONSTANT DVariant = "same_beta"
INIT Init
NEXT Next
INVARIANT InvLogs
INVARIANT InvConstants
INVARIANT InvDecimals
CHECK_DEADLOCK FALSE
