---- MODULE ScaleVarMC_TTrace_1790044921 ----
EXTENDS Sequences, TLCExt, Toolbox, Naturals, TLC, ScaleVarMC

_expression ==
    LET ScaleVarMC_TEExpression == INSTANCE ScaleVarMC_TEExpression
    IN ScaleVarMC_TEExpression!expression
----

_trace ==
    LET ScaleVarMC_TETrace == INSTANCE ScaleVarMC_TETrace
    IN ScaleVarMC_TETrace!trace
----

_inv ==
    ~(
        TLCGet("level") = Len(_TETrace)
        /\
        x = ([kind |-> "expa", b0 |-> 1, G0 |-> <<<<1, 0>>, <<1, -1>>>>, b1 |-> 0, G1 |-> <<<<0, 0>>, <<0, 0>>>>, G2 |-> <<<<0, 0>>, <<0, 0>>>>])
    )
----

_init ==
    /\ x = _TETrace[1].x
----

_next ==
    /\ \E i,j \in DOMAIN _TETrace:
        /\ \/ /\ j = i + 1
              /\ i = TLCGet("level")
        /\ x  = _TETrace[i].x
        /\ x' = _TETrace[j].x

\* Uncomment the ASSUME below to write the states of the error trace
\* to the given file in Json format. Note that you can pass any tuple
\* to `JsonSerialize`. For example, a sub-sequence of _TETrace.
    \* ASSUME
    \*     LET J == INSTANCE Json
    \*         IN J!JsonSerialize("ScaleVarMC_TTrace_1790044921.json", _TETrace)

=============================================================================

 Note that you can extract this module `ScaleVarMC_TEExpression`
  to a dedicated file to reuse `expression` (the module in the 
  dedicated `ScaleVarMC_TEExpression.tla` file takes precedence 
  over the module `ScaleVarMC_TEExpression` below).

---- MODULE ScaleVarMC_TEExpression ----
EXTENDS Sequences, TLCExt, Toolbox, Naturals, TLC, ScaleVarMC

expression == 
    [
        \* To hide variables of the `ScaleVarMC` spec from the error trace,
        \* remove the variables below.  The trace will be written in the order
        \* of the fields of this record.
        x |-> x
        
        \* Put additional constant-, state-, and action-level expressions here:
        \* ,_stateNumber |-> _TEPosition
        \* ,_xUnchanged |-> x = x'
        
        \* Format the `x` variable as Json value.
        \* ,_xJson |->
        \*     LET J == INSTANCE Json
        \*     IN J!ToJson(x)
        
        \* Lastly, you may build expressions over arbitrary sets of states by
        \* leveraging the _TETrace operator.  For example, this is how to
        \* count the number of times a spec variable changed up to the current
        \* state in the trace.
        \* ,_xModCount |->
        \*     LET F[s \in DOMAIN _TETrace] ==
        \*         IF s = 1 THEN 0
        \*         ELSE IF _TETrace[s].x # _TETrace[s-1].x
        \*             THEN 1 + F[s-1] ELSE F[s-1]
        \*     IN F[_TEPosition - 1]
    ]

=============================================================================



Parsing and semantic processing can take forever if the trace below is long.
 In this case, it is advised to uncomment the module below to deserialize the
 trace from a generated binary file.

\*
\*---- MODULE ScaleVarMC_TETrace ----
\*EXTENDS IOUtils, TLC, ScaleVarMC
\*
\*trace == IODeserialize("ScaleVarMC_TTrace_1790044921.bin", TRUE)
\*
\*=============================================================================
\*

---- MODULE ScaleVarMC_TETrace ----
EXTENDS TLC, ScaleVarMC

trace == 
    <<
    ([x |-> [kind |-> "seed", of |-> "expa", b0 |-> 0, G0 |-> <<<<1, 0>>, <<1, -1>>>>]]),
    ([x |-> [kind |-> "expa", b0 |-> 1, G0 |-> <<<<1, 0>>, <<1, -1>>>>, b1 |-> 0, G1 |-> <<<<0, 0>>, <<0, 0>>>>, G2 |-> <<<<0, 0>>, <<0, 0>>>>]])
    >>
----


=============================================================================

---- CONFIG ScaleVarMC_TTrace_1790044921 ----
CONSTANTS
    Variant = "b0g0e2"
    Tier = "quick"

INVARIANT
    _inv

CHECK_DEADLOCK
    \* CHECK_DEADLOCK off because of PROPERTY or INVARIANT above.
    FALSE

INIT
    _init

NEXT
    _next

CONSTANT
    _TETrace <- _trace

ALIAS
    _expression
=============================================================================
\* Generated on Tue Sep 22 02:42:28 UTC 2026