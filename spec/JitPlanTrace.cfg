CONSTANT Thorough = FALSE
INIT Init
NEXT Next
INVARIANT Inv
POSTCONDITION Post
CHECK_DEADLOCK FALSE
