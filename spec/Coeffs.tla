------------------------------- MODULE Coeffs -------------------------------
(* C20 (and the tables used by C16, C21): literature coefficient tables as     *)
(* exact rationals over the basis {1, zeta3, zeta4, zeta5}, polynomials in nf.  *)
(*                                                                             *)
(* Normalisation (the one of eko.beta / eko.gamma): a = alpha/(4 pi),           *)
(*   d a_s / d ln mu^2 = - sum_k beta_k a_s^(k+2),                              *)
(*   d ln m / d ln mu^2 = - sum_k gamma_k a_s^(k+1).                            *)
(* Sources, transcribed without network access:                                *)
(*   beta0..beta3   van Ritbergen-Vermaseren-Larin 1997 = Herzog et al. 2017    *)
(*                  eqs. (3.1)-(3.3),(3.6) at SU(3)                             *)
(*   gamma0..gamma3 Vermaseren-Larin-van Ritbergen 1997 eq. (15) / Chetyrkin     *)
(*                  1997 (there in alpha_s/pi: gamma_k(4pi) = 4^(k+1) gamma_k)   *)
(*   QED / mixed    Surguladze 1996 eq. (7); here re-derived from the general   *)
(*                  two-loop gauge beta function (operator TwoLoopMixed)        *)
(* The transcription is protected inside the specification (CoeffsMC):          *)
(*   - three-loop and lower coefficients are given a second time in Casimir     *)
(*     form (C_A, C_F, T_R) and TLC proves both forms equal at SU(3);           *)
(*   - every coefficient is compared with the decimal form printed in the       *)
(*     literature (e.g. beta3 = 29243.0 - 6946.30 nf + 405.089 nf^2 + 1.49931   *)
(*     nf^3; gamma3 = 98.9434 - 19.1075 nf + 0.276163 nf^2 + 0.00579322 nf^3    *)
(*     in alpha_s/pi) using rational convergents of the zeta values;            *)
(*   - well-known values (beta0(5) = 23/3, beta1(5) = 116/3, beta2(5)=9769/54). *)
EXTENDS QRat, TLC

(* Mutated transcriptions (vacuity guards): "none" is the literature.          *)
CONSTANT Mutant

Basis == <<"const", "zeta3", "zeta4", "zeta5">>
BasisIdx(b) == CHOOSE k \in 1..4 : Basis[k] = b

Row(c, z3, z4, z5) == <<c, z3, z4, z5>>
ZeroRow == Row(Q0, Q0, Q0, Q0)
K(q) == Row(q, Q0, Q0, Q0)

RowAdd(r, s) == [b \in 1..4 |-> QAdd(r[b], s[b])]
RowScale(q, r) == [b \in 1..4 |-> QMul(q, r[b])]
RECURSIVE RowSum(_)
RowSum(s) == IF s = <<>> THEN ZeroRow ELSE RowAdd(Head(s), RowSum(Tail(s)))
RowEq(r, s) == \A b \in 1..4 : r[b] = s[b]

(* ---------------------------------------------------------------------------*)
(* QCD tables: Poly[k+1] is the coefficient row of nf^k                        *)
(* ---------------------------------------------------------------------------*)
Beta0 == << K(QF(11, 1)), K(QF(-2, 3)), ZeroRow, ZeroRow >>
Beta1 == << K(QF(102, 1)), K(QF(-38, 3)), ZeroRow, ZeroRow >>
Beta2 == << K(QF(2857, 2)), K(QF(IF Mutant = "b2nf1" THEN -5032 ELSE -5033, 18)), K(QF(325, 54)), ZeroRow >>
Beta3 == << Row(QF(149753, 6), QF(3564, 1), Q0, Q0),
            Row(QF(-1078361, 162), QF(-6508, 27), Q0, Q0),
            Row(QF(50065, 162), QF(6472, 81), Q0, Q0),
            K(QF(1093, 729)) >>

Gamma0 == << K(QF(4, 1)), ZeroRow, ZeroRow, ZeroRow >>
Gamma1 == << K(QF(202, 3)), K(QF(-20, 9)), ZeroRow, ZeroRow >>
Gamma2 == << K(QF(1249, 1)),
             Row(QF(-2216, 27), QF(-160, 3), Q0, Q0),
             K(QF(-140, 81)),
             ZeroRow >>
Gamma3 == << Row(QF(4603055, 162), QF(135680, IF Mutant = "g3z3_28" THEN 28 ELSE 27), Q0, QF(-8800, 1)),
             Row(QF(-91723, 27), QF(-34192, 9), QF(880, 1), QF(18400, 9)),
             Row(QF(5242, 243), QF(800, 9), QF(-160, 3), Q0),
             Row(QF(IF Mutant = "g3nf3_plus" THEN 332 ELSE -332, 243), QF(64, 27), Q0, Q0) >>

QcdTable == [beta0 |-> Beta0, beta1 |-> Beta1, beta2 |-> Beta2, beta3 |-> Beta3,
             gamma0 |-> Gamma0, gamma1 |-> Gamma1, gamma2 |-> Gamma2, gamma3 |-> Gamma3]
QcdObjects == {"beta0", "beta1", "beta2", "beta3", "gamma0", "gamma1", "gamma2", "gamma3"}

(* value row of a table polynomial at an integer nf (Horner)                   *)
EvalPoly(P, nf) ==
  LET n == QI(nf) IN
  RowAdd(P[1], RowScale(n, RowAdd(P[2], RowScale(n, RowAdd(P[3], RowScale(n, P[4]))))))

(* normalised coefficients b_k = beta_k / beta_0 need a pure-rational beta_0    *)
BetaRatio(k, nf) == RowScale(QInv(EvalPoly(Beta0, nf)[1]),
                             EvalPoly(QcdTable[<<"beta0", "beta1", "beta2", "beta3">>[k + 1]], nf))

(* ---------------------------------------------------------------------------*)
(* QED and mixed coefficients.  Charges e_u^2 = 4/9, e_d^2 = 1/9, N_C = 3;     *)
(* eko counts up-type flavours as nf div 2 (u is the 2nd, c the 4th, t the 6th  *)
(* flavour) and takes the number of leptons nl as an argument.                  *)
(* ---------------------------------------------------------------------------*)
NC == 3
CA == QI(3)
CF == QF(4, 3)
TR == QF(1, 2)
Eu2 == QF(4, 9)
Ed2 == QF(1, 9)
NUp(nf) == nf \div 2
NDown(nf) == nf - NUp(nf)

SumQ2(nf) == QAdd(QScale(NUp(nf), Eu2), QScale(NDown(nf), Ed2))             \* sum_q e_q^2
SumQ4(nf) == QAdd(QScale(NUp(nf), QMul(Eu2, Eu2)), QScale(NDown(nf), QMul(Ed2, Ed2)))

BetaQed02(nf, nl) == QMul(QF(-4, 3), QAdd(QI(nl), QScale(NC, SumQ2(nf))))
BetaQed03(nf, nl) == QScale(-4, QAdd(QI(nl), QScale(NC, SumQ4(nf))))
BetaQcd21(nf)     == QMul(QScale(-4, TR), SumQ2(nf))
BetaQed12(nf)     == QMul(QScale(-4 * NC, IF Mutant = "qed12_ca" THEN CA ELSE CF), SumQ2(nf))

(* General gauge-group forms, beta = b0 a^2 + b1 a^3 for the coupling of G:     *)
(*   b0 = 11/3 C_A - 4/3 sum_f T_f,                                             *)
(*   b1 = 34/3 C_A^2 - 20/3 C_A sum_f T_f - 4 sum_f T_f C_f(exchanged boson)    *)
(* where the last term is split by the gauge boson exchanged inside the fermion *)
(* loop; the term with the boson of another group G' multiplies a_{G'}.          *)
(* U(1): C_A = 0, T_f = N_c(f) Q_f^2, C_f = Q_f^2.  SU(3): T_f = T_R, C_f = C_F. *)
TwoLoopFermion(sumTC) == QScale(-4, sumTC)
(* sum over fermions of T_f^{U(1)} = nl + N_C sum_q e_q^2                        *)
SumTU1(nf, nl) == QAdd(QI(nl), QScale(NC, SumQ2(nf)))
(* sum_f T_f^{U(1)} Q_f^2 = nl + N_C sum_q e_q^4                                 *)
SumTU1Q2(nf, nl) == QAdd(QI(nl), QScale(NC, SumQ4(nf)))
Derived02(nf, nl) == QMul(QF(-4, 3), SumTU1(nf, nl))
Derived03(nf, nl) == TwoLoopFermion(SumTU1Q2(nf, nl))                 \* photon inside
Derived12(nf)     == TwoLoopFermion(QMul(CF, QScale(NC, SumQ2(nf))))  \* gluon inside a quark loop of the photon
Derived21(nf)     == TwoLoopFermion(QMul(TR, SumQ2(nf)))              \* photon inside a quark loop of the gluon

(* ---------------------------------------------------------------------------*)
(* Casimir forms (second, structurally different statement of the literature)  *)
(* ---------------------------------------------------------------------------*)
QProd3(a, b, c) == QMul(a, QMul(b, c))
TF1 == TR   \* T_F per flavour; the nf power is carried by the row position

CasBeta0 == << K(QMul(QF(11, 3), CA)), K(QMul(QF(-4, 3), TR)), ZeroRow, ZeroRow >>
CasBeta1 == << K(QProd3(QF(34, 3), CA, CA)),
               K(QAdd(QProd3(QF(-20, 3), CA, TR), QProd3(QF(-4, 1), CF, TR))),
               ZeroRow, ZeroRow >>
CasBeta2 == << K(QMul(QF(2857, 54), QProd3(CA, CA, CA))),
               K(QSumSeq(<< QMul(QF(-1415, 27), QProd3(CA, CA, TR)),
                            QMul(QF(-205, 9), QProd3(CF, CA, TR)),
                            QMul(QF(2, 1), QProd3(CF, CF, TR)) >>)),
               K(QAdd(QMul(QF(44, 9), QProd3(CF, TR, TR)),
                      QMul(QF(158, 27), QProd3(CA, TR, TR)))),
               ZeroRow >>
CasGamma0 == << K(QMul(QF(3, 1), CF)), ZeroRow, ZeroRow, ZeroRow >>
CasGamma1 == << K(QAdd(QMul(QF(3, 2), QMul(CF, CF)), QMul(QF(97, 6), QMul(CF, CA)))),
                K(QMul(QF(-10, 3), QMul(CF, TR))),
                ZeroRow, ZeroRow >>
CasGamma2 == << K(QSumSeq(<< QMul(QF(129, 2), QProd3(CF, CF, CF)),
                             QMul(QF(-129, 4), QProd3(CF, CF, CA)),
                             QMul(QF(11413, 108), QProd3(CF, CA, CA)) >>)),
                RowAdd(RowScale(QProd3(CF, CF, TR), Row(QF(-46, 1), QF(48, 1), Q0, Q0)),
                       RowScale(QProd3(CF, CA, TR), Row(QF(-556, 27), QF(-48, 1), Q0, Q0))),
                K(QMul(QF(-140, 27), QProd3(CF, TR, TR))),
                ZeroRow >>
CasTable == [beta0 |-> CasBeta0, beta1 |-> CasBeta1, beta2 |-> CasBeta2,
             gamma0 |-> CasGamma0, gamma1 |-> CasGamma1, gamma2 |-> CasGamma2]
CasObjects == {"beta0", "beta1", "beta2", "gamma0", "gamma1", "gamma2"}

(* ---------------------------------------------------------------------------*)
(* Decimal forms printed in the literature.  Entry: <<P, p>> meaning P * 10^-p  *)
(* per power of nf, in the normalisation of the source: the table value divided *)
(* by Norm.  zeta values enter through convergents of their continued fractions *)
(* (|error| < 2e-9; the harness re-checks that against scipy).                  *)
(* ---------------------------------------------------------------------------*)
ZetaApprox == << Q1, <<19519, 16238>>, <<2143, 1980>>, <<68880, 66427>> >>

Decimal == [
  beta0  |-> [norm |-> 1,   c |-> << <<110, 1>>, <<-666667, 6>>, <<0, 1>>, <<0, 1>> >>],
  beta1  |-> [norm |-> 1,   c |-> << <<1020, 1>>, <<-126667, 4>>, <<0, 1>>, <<0, 1>> >>],
  beta2  |-> [norm |-> 1,   c |-> << <<14285, 1>>, <<-279611, 3>>, <<601852, 5>>, <<0, 1>> >>],
  beta3  |-> [norm |-> 1,   c |-> << <<292430, 1>>, <<-694630, 2>>, <<405089, 3>>, <<149931, 5>> >>],
  gamma0 |-> [norm |-> 4,   c |-> << <<10, 1>>, <<0, 1>>, <<0, 1>>, <<0, 1>> >>],
  gamma1 |-> [norm |-> 16,  c |-> << <<420833, 5>>, <<-138889, 6>>, <<0, 1>>, <<0, 1>> >>],
  gamma2 |-> [norm |-> 64,  c |-> << <<195156, 4>>, <<-228412, 5>>, <<-270062, 7>>, <<0, 1>> >>],
  gamma3 |-> [norm |-> 256, c |-> << <<989434, 4>>, <<-191075, 4>>, <<276163, 6>>, <<579322, 8>> >>] ]

(* value of a table row times 10^p, summed term by term with truncation        *)
RowScaled(r, p) ==
  LET t(b) == QFloorScaled(QMul(r[b], ZetaApprox[b]), p)
  IN  t(1) + t(2) + t(3) + t(4)

(* |table - printed| <= half a unit of the last printed digit (times norm) plus *)
(* one unit per truncated term                                                 *)
DecimalAgrees(obj, k) ==
  LET e == Decimal[obj].c[k + 1]
      n == Decimal[obj].norm
      s == RowScaled(QcdTable[obj][k + 1], e[2])
      d == s - e[1] * n
  IN  QAbs(d) * 2 <= n + 10

(* ---------------------------------------------------------------------------*)
(* Well-known values                                                           *)
(* ---------------------------------------------------------------------------*)
KnownValues ==
  /\ EvalPoly(Beta0, 5) = K(QF(23, 3))
  /\ EvalPoly(Beta0, 3) = K(QF(9, 1))
  /\ EvalPoly(Beta0, 4) = K(QF(25, 3))
  /\ EvalPoly(Beta1, 5) = K(QF(116, 3))
  /\ EvalPoly(Beta1, 3) = K(QF(64, 1))
  /\ EvalPoly(Beta1, 4) = K(QF(154, 3))
  /\ EvalPoly(Beta2, 5) = K(QF(9769, 54))
  /\ EvalPoly(Beta2, 3) = K(QF(3863, 6))
  /\ EvalPoly(Beta2, 4) = K(QF(21943, 54))
  /\ EvalPoly(Gamma1, 3) = K(QF(182, 3))
  /\ EvalPoly(Gamma1, 5) = K(QF(506, 9))

(* ---------------------------------------------------------------------------*)
(* The property predicates                                                     *)
(* ---------------------------------------------------------------------------*)
(* a coefficient observed in the implementation equals the literature          *)
C20_Coefficient(obj, k, b, q) == q = QcdTable[obj][k + 1][BasisIdx(b)]
(* a value observed in the implementation equals the literature polynomial      *)
C20_Value(obj, nf, b, q) == q = EvalPoly(QcdTable[obj], nf)[BasisIdx(b)]
C20_Ratio(k, nf, b, q) == q = BetaRatio(k, nf)[BasisIdx(b)]

QedObjects == {"beta_qed02", "beta_qed03", "beta_qcd21", "beta_qed12"}
QedValue(obj, nf, nl) ==
  CASE obj = "beta_qed02" -> Derived02(nf, nl)
    [] obj = "beta_qed03" -> Derived03(nf, nl)
    [] obj = "beta_qcd21" -> Derived21(nf)
    [] obj = "beta_qed12" -> Derived12(nf)
C20_Qed(obj, nf, nl, q) == q = QedValue(obj, nf, nl)
QedRatio(obj, nf, nl) == QDiv(QedValue(obj, nf, nl), Derived02(nf, nl))
=============================================================================
