------------------------- MODULE ArchiveUpgradeTrace -------------------------
EXTENDS ArchiveUpgrade, Json, IOUtils, TLCExt
TLog == JsonDeserialize(IOEnv.TRACE_FILE)
VARIABLE i
Init == i = 1
Next == i <= Len(TLog) /\ i' = i + 1
S(q) == {q[j] : j \in 1..Len(q)}
Verdict(r) ==
  IF r.v \notin Versions THEN "CONF:version"
  ELSE IF r.exc # "" THEN "C41:old-archive-not-readable:" \o r.exc
  ELSE IF ~(S(r.same) \subseteq Fields) THEN "CONF:unknown-field"
  ELSE IF ~C41_Archive(r.v, S(r.same))
       THEN "C41:archive-field-not-carried:" \o (CHOOSE f \in Missing(r.v, S(r.same)) : TRUE)
  ELSE "ok"
Inv == i <= Len(TLog) =>
         LET v == Verdict(TLog[i]) IN v = "ok" \/ PrintT(<<"BAD", i, v>>)
Post == TLCGet("stats").diameter = Len(TLog) + 1
=============================================================================
