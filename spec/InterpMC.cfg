CONSTANTS S = 16 Step = 1 MinN = 2 MaxN = 5 Degrees = {1, 2, 3}
CONSTANTS UpperClosed = TRUE FirstClosed = TRUE
INIT InitGrids
NEXT Next
INVARIANT InvBasis
INVARIANT InvAreas
INVARIANT InvReinterp
INVARIANT InvReject
CHECK_DEADLOCK FALSE
