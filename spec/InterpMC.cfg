CONSTANTS S = 16 Step = 1 MinN = 2 MaxN = 3 Degrees = {1, 2}
CONSTANTS UpperClosed = TRUE FirstClosed = TRUE
INIT InitGrids
NEXT Next
INVARIANT InvC34
INVARIANT InvReject
CHECK_DEADLOCK FALSE
