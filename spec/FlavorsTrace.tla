---------------------------- MODULE FlavorsTrace ----------------------------
(* B3 for C31, C32, C33, C46: the numbers returned by the real (un-jitted)      *)
(* functions of eko / ekobox, converted to exact rationals <<num, den>> by the  *)
(* harness, are judged by the property predicates of Flavors (property grade,   *)
(* verdict "Cxx:<clause>") and compared with the transcription (conformance     *)
(* grade, verdict "CONF:..." = diagnostic).  One record per call, many calls    *)
(* per TLC start; every record gets a verdict.                                  *)
(* A number that is not a small rational travels as <<0, 0>> and fails IsRat.   *)
EXTENDS Flavors, Json, IOUtils, TLCExt
TLog == JsonDeserialize(IOEnv.TRACE_FILE)
VARIABLE i
Init == i = 1
Next == i <= Len(TLog) /\ i' = i + 1

SetOf(s) == {s[k] : k \in 1..Len(s)}
Known(ls) == \A l \in ls : l \in KnownLabels
Pair(p) == <<p[1], p[2]>>

(* ---- C31 ---------------------------------------------------------------------------- *)
VFlavourTable(r) ==
  IF C31_FlavourTable(r.pids, r.names) THEN "ok" ELSE "C31:flavour-table"

VRotation(r) ==
  IF ~(Len(r.labels) = N /\ Known(SetOf(r.labels)) /\ IsRatMat(r.rows, N, N)) THEN "C31:table-shape"
  ELSE IF ~C31_LabelsOk(r.labels, r.qed) THEN "C31:labels"
  ELSE IF ~C31_PidsOk(r.labels, r.pids) THEN "C31:label-pid-table"
  ELSE IF ~C31_Orthogonal(r.rows) THEN "C31:orthogonal-invertible"
  ELSE IF ~C31_RowsOk(r.labels, r.rows) THEN "C31:row-is-not-its-label"
  ELSE IF r.rows # (IF r.qed THEN CodeRotUni ELSE CodeRotQcd) THEN "CONF:table-differs-from-transcription"
  ELSE "ok"

VSectors(r) ==
  IF ~C31_SectorKeys(r.keys, r.qed) THEN "C31:sector-keys"
  ELSE IF \E k \in 1..Len(r.entries) : ~C31_SectorEntry(Pair(r.entries[k].lab), r.entries[k].elems, r.qed)
       THEN "C31:sector-members"
  ELSE IF {Pair(r.entries[k].lab) : k \in 1..Len(r.entries)} # SectorLabels(r.qed) THEN "C31:sector-map-keys"
  ELSE IF ~C31_SectorGroups(r.singlet, r.valence, r.nonsinglet, r.qed) THEN "C31:sector-groups"
  ELSE "ok"

VIntrinsicLabels(r) ==
  IF r.err # "" THEN "C31:intrinsic-labels-raised:" \o r.err
  ELSE IF C31_IntrinsicLabels(r.labels, r.nf, r.qed) THEN "ok" ELSE "C31:intrinsic-labels"

VProj(r) ==
  LET lab == Pair(r.lab) IN
  IF lab \notin SectorLabels(r.qed) THEN "DIAG:not-a-sector-of-this-basis"
  ELSE IF r.err # "" THEN "C31:ad_projector-unavailable:" \o r.err
  ELSE IF ~IsRatMat(r.mat, N, N) THEN "C31:not-exact"
  ELSE IF ~C31_SectorMap(r.mat, lab, r.nf, r.qed)
       THEN "C31:sector-map:" \o C31_SectorMapFailing(r.mat, lab, r.nf, r.qed)
  ELSE IF IsDiagonalSector(lab) /\ ~C31_Idempotent(r.mat) THEN "C31:idempotent"
  ELSE IF r.mat # SectorMapRef(lab, r.nf, r.qed) THEN "C31:not-the-unique-sector-map"
  ELSE IF r.mat # AdProjector(lab, r.nf, r.qed) THEN "CONF:differs-from-transcription"
  ELSE "ok"

VProjs(r) ==
  IF r.err # "" THEN "C31:ad_projectors-unavailable:" \o r.err
  ELSE IF \E k \in 1..Len(r.mats) : ~IsRatMat(r.mats[k], N, N) THEN "C31:not-exact"
  ELSE LET refs == TLCEval([l \in SectorLabels(r.qed) |-> SectorMapRef(l, r.nf, r.qed)])
       IN IF Len(r.mats) # Cardinality(SectorLabels(r.qed)) THEN "C31:ad_projectors-count"
          ELSE IF \E l \in SectorLabels(r.qed) : \A k \in 1..Len(r.mats) : r.mats[k] # refs[l]
               THEN "C31:ad_projectors-sector-missing"
          ELSE IF \E k \in 1..Len(r.mats) : \A l \in SectorLabels(r.qed) : r.mats[k] # refs[l]
               THEN "C31:ad_projectors-foreign-entry"
          ELSE IF \E k \in 1..Len(r.mats) : Pair(r.labs[k]) \notin SectorLabels(r.qed)
                                            \/ r.mats[k] # refs[Pair(r.labs[k])]
               THEN "CONF:ad_projectors-order"
          ELSE "ok"

VDiag(r) ==
  IF {Pair(r.labs[k]) : k \in 1..Len(r.labs)} # DiagonalSectors(r.qed) \/ Len(r.labs) # Len(r.mats)
     THEN "DIAG:not-the-diagonal-sectors"
  ELSE IF \E k \in 1..Len(r.mats) : ~IsRatMat(r.mats[k], N, N) THEN "C31:not-exact"
  ELSE IF \E k \in 1..Len(r.mats) : ~C31_Idempotent(r.mats[k]) THEN "C31:idempotent"
  ELSE IF ~C31_MutuallyOrthogonal(r.mats) THEN "C31:mutually-orthogonal"
  ELSE IF ~C31_Complete(r.mats, r.nf, r.qed) THEN "C31:sum-to-identity-on-active-space"
  ELSE "ok"

VCoverage(r) == IF C31_Covers(r.cells) THEN "ok" ELSE "DIAG:sector-cells-not-covered"

(* ---- C32 ---------------------------------------------------------------------------- *)
VWeights(r) ==
  IF r.label \notin Basis(r.nf, r.qed) THEN "DIAG:label-not-in-basis"
  ELSE IF r.err # "" THEN "C32:weights-raised:" \o r.err
  ELSE IF ~IsRatVec(r.w, N) THEN "C32:not-exact"
  ELSE IF ~C32_Weights(r.w, r.label, r.nf, r.normalize) THEN "C32:weights:" \o r.label
  ELSE IF r.w # Weights(r.label, r.nf, r.qed, r.normalize) THEN "CONF:weights-differ-from-transcription"
  ELSE "ok"

VPm(r) ==
  IF r.label \notin {"g", "ph"} \cup DOMAIN HeavyP \cup DOMAIN HeavyM THEN "DIAG:label"
  ELSE IF r.err # "" THEN "C32:pm-raised:" \o r.err
  ELSE IF ~IsRatVec(r.w, N) THEN "C32:not-exact"
  ELSE IF r.w # Dist(r.label, 3) THEN "C32:plus-minus:" \o r.label
  ELSE "ok"

VRange(r) ==
  IF ~Known({p[1] : p \in SetOf(r.labs)} \cup {p[2] : p \in SetOf(r.labs)}) THEN "DIAG:label"
  ELSE IF r.err # "" THEN "C32:get_range-raised:" \o r.err
  ELSE IF ~C32_Range(r.got, {Pair(p) : p \in SetOf(r.labs)}) THEN "C32:get_range"
  ELSE "ok"

VBlowUp(r) ==
  IF r.err # "" THEN "C32:raised:" \o r.err
  ELSE LET ms == SetOf(r.members)
           es == SetOf(r.emembers)
       IN IF ~Known({m[1] : m \in ms} \cup {m[2] : m \in ms}) THEN "C32:unknown-label"
          ELSE IF Cardinality(ms) # Len(r.members) THEN "DIAG:duplicate-member"
          ELSE IF r.fam = "physical" /\ ~C32_PhysicalMap(ms, r.ad, r.nf, r.qed) THEN "C32:evol-map"
          ELSE IF r.fam = "matching" /\ ~C32_MatchingMap(ms, r.ad, r.nf, r.qed) THEN "C32:evol-map"
          ELSE IF ~C32_Range(r.range, {<<m[1], m[2]>> : m \in ms}) \/ r.range # <<r.nfin, r.nfout>>
               THEN "C32:get_range"
          ELSE IF ~C32_LabelsInBasis(ms, r.nfin, r.nfout, r.qed) THEN "C32:label-not-in-basis"
          ELSE IF ~IsRatMat(r.tensor, N, N) \/ ~IsRatMat(r.etensor, N, N) THEN "C32:not-exact"
          ELSE IF ~C32_BlowUp(r.tensor, ms, r.nfin, r.nfout, r.qed) THEN "C32:blow-up"
          ELSE IF ~C32_BlowUp(r.etensor, es, r.nfin, r.nfout, r.qed) THEN "C32:blow-up-error-tensor"
          (* members are an integer times one 2 x 2 pattern on the grid indices: the tensor (flavour, x, flavour, x) *)
          (* carries the pattern times the weight at every pair of grid indices                                      *)
          ELSE IF ~r.xOk THEN "C32:grid-indices-misplaced"
          ELSE IF r.tensor # ToFlavorTensor(ms, r.qed) THEN "CONF:tensor-differs-from-transcription"
          ELSE "ok"

(* ---- C33 ---------------------------------------------------------------------------- *)
VParams(r) ==
  IF ~(\A k \in 1..Len(r.vals) : IsRat(r.vals[k])) THEN "CONF:parameters-not-exact"
  ELSE IF r.vals # QedRotationParameters(r.nf) THEN "CONF:qed_rotation_parameters"
  ELSE "ok"

VMatching(r) ==
  IF r.err # "" THEN "C33:raised:" \o r.err
  ELSE LET M == SetOf(r.fwd)
           Minv == SetOf(r.inv)
           labs == {m[1] : m \in M \cup Minv} \cup {m[2] : m \in M \cup Minv}
       IN IF ~Known(labs) THEN "C33:unknown-label"
          ELSE IF ~C33_Labels(M, r.nf, r.nf - 1, r.qed) THEN "C33:labels"
          ELSE IF ~C33_Labels(Minv, r.nf - 1, r.nf, r.qed) THEN "C33:labels-inverse"
          ELSE IF ~C33_FlavourContent(M, r.nf, r.qed)
               THEN "C33:flavour-content:" \o C33_FlavourContentFailing(M, r.nf, r.qed)
          ELSE IF ~C33_Inverse(M, Minv, r.nf, r.qed) THEN "C33:inverse"
          ELSE IF M # RotateMatching(r.nf, r.qed, FALSE) \/ Minv # RotateMatching(r.nf, r.qed, TRUE)
               THEN "CONF:differs-from-transcription"
          ELSE "ok"

(* ---- C46 ---------------------------------------------------------------------------- *)
VReprs(r) ==
  IF r.err # "" THEN "C46:raised:" \o r.err
  ELSE IF ~(\A k \in 1..Len(r.out) : IsRatVec(r.out[k], N)) THEN "C46:not-exact"
  ELSE IF r.kind = "pid" THEN (IF C46_PidReprs(r.out, r.sel) THEN "ok" ELSE "C46:pid_to_flavor")
  ELSE IF ~Known(SetOf(r.sel)) THEN "DIAG:label"
  ELSE IF C46_EvolReprs(r.out, r.sel) THEN "ok" ELSE "C46:evol_to_flavor"

VBlock(reprs, b, o, o2) ==
  LET X == LoadBlock(b.pids, b.data, b.m) IN
  IF o.pids # Pids \/ o2.pids # Pids THEN "C46:output-pids"
  ELSE IF ~IsRatMat(o.data, N, b.m) \/ ~IsRatMat(o2.data, N, b.m) THEN "C46:not-exact"
  ELSE IF ~C46_Projection(reprs, X, o.data, o2.data) THEN "C46:" \o C46_Failing(reprs, X, o.data, o2.data)
  ELSE IF o.data # Project(reprs, X) THEN "CONF:differs-from-transcription"
  ELSE "ok"
VProject(r) ==
  IF r.err # "" THEN "C46:raised:" \o r.err
  ELSE IF ~C46_Family(r.reprs) THEN "DIAG:not-an-orthogonal-family"
  ELSE IF Len(r.out) # Len(r.blocks) \/ Len(r.out2) # Len(r.blocks) THEN "C46:block-count"
  ELSE LET vs == [k \in 1..Len(r.blocks) |-> VBlock(r.reprs, r.blocks[k], r.out[k], r.out2[k])]
       IN IF \A k \in 1..Len(vs) : vs[k] = "ok" THEN "ok"
          ELSE vs[CHOOSE k \in 1..Len(vs) : vs[k] # "ok" /\ \A j \in 1..(k - 1) : vs[j] = "ok"]

Verdict(r) ==
  CASE r.ev = "flavour-table" -> VFlavourTable(r)
    [] r.ev = "rotation" -> VRotation(r)
    [] r.ev = "sectors" -> VSectors(r)
    [] r.ev = "intrinsic-labels" -> VIntrinsicLabels(r)
    [] r.ev = "proj" -> VProj(r)
    [] r.ev = "projs" -> VProjs(r)
    [] r.ev = "diag" -> VDiag(r)
    [] r.ev = "coverage" -> VCoverage(r)
    [] r.ev = "weights" -> VWeights(r)
    [] r.ev = "pm" -> VPm(r)
    [] r.ev = "range" -> VRange(r)
    [] r.ev = "blowup" -> VBlowUp(r)
    [] r.ev = "params" -> VParams(r)
    [] r.ev = "matching" -> VMatching(r)
    [] r.ev = "reprs" -> VReprs(r)
    [] r.ev = "project" -> VProject(r)
    [] OTHER -> "DIAG:unknown-event"

Inv == i <= Len(TLog) =>
         LET v == Verdict(TLog[i]) IN v = "ok" \/ PrintT(<<"BAD", i, v>>)
Post == TLCGet("stats").diameter = Len(TLog) + 1
=============================================================================
