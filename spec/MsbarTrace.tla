------------------------------ MODULE MsbarTrace ------------------------------
(* B3 for C18: real msbar_masses.compute on numeric inputs whose sign patterns   *)
(* are recorded per quark; fixed-point residual classes = floor(-log10(|m(m)-m|/m)) *)
(* measured with the repository's own evolve in the adjoining patch (99 = exact).    *)
EXTENDS Msbar, Json, IOUtils, TLCExt
TLog == JsonDeserialize(IOEnv.TRACE_FILE)
VARIABLE k
Init == k = 1
Next == k <= Len(TLog) /\ k' = k + 1
In(r, j) == [q |-> r.quarks[j].q, rm |-> r.quarks[j].rm, rq |-> r.quarks[j].rq, nfref |-> r.nfref]
AllConsistent(r) == \A j \in 1..3 : Consistent(In(r, j))
(* Further records:                                                                                        *)
(*  [ev |-> "cross", sq, lin, ...]  the running mass across one matching scale with no evolution: decades of  *)
(*      |returned ratio of squared masses - zeta_m^2| and of |... - zeta_m| (in units of |zeta_m^2 - 1|)        *)
(*  [ev |-> "declaw", nf, a2, a3]   decades of the mismatch, per power of L, of the RG law of the logarithms    *)
(*      of the mass decoupling table (stated in drivers/msbar.py: decoupling_law; the literature decimals of     *)
(*      the a^3 constants carry 6 digits)                                                                     *)
CrossVerdict(r) ==
  IF r.exc # "" THEN "C18:crash-across-a-matching-scale:" \o r.exc
  ELSE IF r.sq >= 8 THEN "ok"
  ELSE IF r.lin >= 10 THEN "C18:decoupling-factor-of-the-mass-applied-once-to-its-square"
  ELSE "C18:mass-across-a-matching-scale-differs-from-the-decoupling-relation"
LawVerdict(r) ==
  IF ~r.lead_zero THEN "C18:mass-decoupling-below-second-order"
  ELSE IF \E q \in 1..Len(r.a2) : r.a2[q] < 9 THEN "C18:decoupling-logarithms-not-rg-invariant:second-order"
  ELSE IF \E q \in 1..Len(r.a3) : r.a3[q] < 5 THEN "C18:decoupling-logarithms-not-rg-invariant:third-order"
  ELSE "ok"
Verdict(r) ==
  IF "ev" \in DOMAIN r THEN (IF r.ev = "cross" THEN CrossVerdict(r) ELSE LawVerdict(r))
  ELSE IF r.outcome \notin {"ok", "ValueError"} THEN "C18:crash:" \o r.outcome
  ELSE IF AllConsistent(r) /\ r.outcome # "ok" THEN "C18:consistent-input-refused"
  ELSE IF ~AllConsistent(r) /\ r.outcome = "ok" THEN "C18:inconsistent-input-accepted"
  ELSE IF r.outcome = "ok" /\ ~r.sorted THEN "C18:masses-not-sorted"
  ELSE IF r.outcome = "ok" /\ \E j \in 1..3 : r.quarks[j].rm # "eq" /\ r.resid[j] < 6 THEN "C18:not-a-fixed-point"
  (* comp: the same class for "direct evolution = evolution in two legs with a stop in the patch after the   *)
  (* first crossing", recorded where the path crosses two or more matching scales (99 otherwise)               *)
  ELSE IF r.outcome = "ok" /\ \E j \in 1..3 : r.comp[j] < 9 THEN "C18:running-mass-does-not-compose-along-its-path"
  ELSE IF r.outcome = "ok" /\ \E j \in 1..3 : r.quarks[j].rm # "eq" /\ r.patch[j] # TargetNf(In(r, j)) THEN "CONF:target-patch"
  ELSE "ok"
Inv == k <= Len(TLog) =>
         LET v == Verdict(TLog[k]) IN v = "ok" \/ PrintT(<<"BAD", k, v>>)
Post == TLCGet("stats").diameter = Len(TLog) + 1
=============================================================================
