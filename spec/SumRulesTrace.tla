----------------------------- MODULE SumRulesTrace -----------------------------
EXTENDS SumRules, Json, IOUtils, TLCExt
TLog == JsonDeserialize(IOEnv.TRACE_FILE)
VARIABLE i
Init == i = 1
Next == i <= Len(TLog) /\ i' = i + 1
Verdict(r) ==
  IF r.ev = "sumrule"
  THEN IF r.cell \notin Cells THEN "CONF:cell-outside-domain"
       ELSE IF r.err # "" THEN "CONF:solve-raised:" \o r.err
       ELSE IF r.cell.kind = "unpolarized" /\ r.momDec < TolDecade THEN "C05:momentum-not-conserved"
       ELSE IF r.cell.kind = "unpolarized" /\ r.numDec < TolDecade THEN "C05:valence-number-not-conserved"
       ELSE IF r.cell.kind = "polarized" /\ r.numDec < TolDecade THEN "C05:axial-charge-not-conserved"
       ELSE "ok"
  ELSE IF r.ev = "coverage"
  THEN IF {r.cells[j] : j \in 1..Len(r.cells)} # Cells THEN "COVERAGE:cells" ELSE "ok"
  ELSE "CONF:unknown-record"
Inv == i <= Len(TLog) =>
         LET v == Verdict(TLog[i]) IN v = "ok" \/ PrintT(<<"BAD", i, v>>)
Post == TLCGet("stats").diameter = Len(TLog) + 1
=============================================================================
