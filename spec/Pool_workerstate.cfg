CONSTANTS
  G = 4
  W = 2
  ChunkSize = 1
  OrderedCollect = TRUE
  WorkerState = TRUE
INIT Init
NEXT Next
INVARIANT C03_ScheduleFree
INVARIANT OnceEach
CHECK_DEADLOCK FALSE
