INIT Init
NEXT Next
INVARIANT WellFormed
INVARIANT Lemmas
CHECK_DEADLOCK FALSE
