------------------------------ MODULE LhapdfMC ------------------------------
(* B1 for C45: every evolution grid of 1-4 distinct points over 4 scale ranks and     *)
(* 3 flavour numbers, in every order (permuted, unsorted, spanning 1-3 nf), with and   *)
(* without an explicit target grid.                                                    *)
EXTENDS Lhapdf
VARIABLES eg, tgt, g, info, blocks, ovl
vars == <<eg, tgt, g, info, blocks, ovl>>
CONSTANT MaxRank
Points == (1..MaxRank) \X {3, 4, 5}
Xs == {1, 3, 5}          \* ranks of the card's x grid
Tx == {2, 4}             \* ranks of an explicit target grid (inside the card's range)
Written(t) == IF t THEN Tx ELSE Xs
Init == /\ \E n \in 1..4 : eg \in {s \in [1..n -> Points] : \A i, j \in 1..n : i # j => s[i] # s[j]}
        /\ tgt \in BOOLEAN
        /\ g = Groups(eg)
        /\ info = InfoOfG(eg, g, Xs, Written(tgt), 2)
        /\ blocks = BlocksOfG(g, Written(tgt))
        /\ ovl = OverlappingG(g)
Next == UNCHANGED vars

InvQRange == ~ovl => C45_QRange(info, blocks)
InvXRange == ~ovl => C45_XRange(info, blocks)
InvAlphaQs == C45_AlphaQs(info, blocks)
InvNodes == C45_NodesG(g, blocks) /\ C45_Target(Written(tgt), blocks)
(* alpha_s nodes are ascending exactly when the grid is accepted                        *)
InvAscending == ~ovl => \A i \in 1..(Len(info.alphaQs) - 1) : info.alphaQs[i] <= info.alphaQs[i + 1]
=============================================================================
