CONSTANTS
  MaxRank = 3
  SortedAssumed = TRUE
  XFromCard = FALSE
INIT Init
NEXT Next
INVARIANT InvQRange
INVARIANT InvXRange
INVARIANT InvAlphaQs
INVARIANT InvNodes
INVARIANT InvAscending
CHECK_DEADLOCK FALSE
