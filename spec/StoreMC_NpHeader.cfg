CONSTANTS
  Keys <- MCKeys
  NfOf <- MCNfOf
  CloseTo <- MCCloseTo
  Vals = {"a", "e"}
  ErrVals = {"e"}
  Metas = {"m0", "m1"}
  Forms = {"py", "np"}
  DelPhantom = FALSE
  ExtClash = FALSE
  CloseTwice = FALSE
  NpHeader = TRUE
INIT Init
NEXT Next
VIEW view
INVARIANT TypeOK
INVARIANT Glue
INVARIANT C37_Keys
INVARIANT C37_Values
INVARIANT C37_Persistent
INVARIANT C37_NoArchiveBeforeClose
INVARIANT C37_Approx
INVARIANT C37_DeepcopyFaithful
INVARIANT C37_NoCopyBeforeDeepcopy
INVARIANT C36_Meta
PROPERTY C39_NoWrite
PROPERTY C39_Refused
CONSTRAINT BoundCopy
CHECK_DEADLOCK FALSE
