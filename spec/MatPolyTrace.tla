---------------------------- MODULE MatPolyTrace ----------------------------
(* B3 for C22: the inverse laws are evaluated on the implementation's OWN       *)
(* coefficients, recovered by exact probing.  Records:                          *)
(*  [kind |-> "ome", A, n, fwd, bwd, exact]                                      *)
(*      A = <<A1,A2,A3>> integer matrices handed to build_ome, n = matching      *)
(*      order, fwd / bwd = coefficient matrices of a^0..a^4 of the forward and    *)
(*      expanded backward operators (interpolation of build_ome at a = 0..4)      *)
(*  [kind |-> "exact", A, n, a, fwd, inv, exact]                                  *)
(*      inv = build_ome(..., BACKWARD_EXACT) at the rational coupling a           *)
(*  [kind |-> "dec", scheme, nf, up, down, exact]   coupling decoupling tables    *)
(*      (eko.couplings.compute_matching_coeffs_up/down, or invert_matching_coeffs *)
(*      on an integer table when scheme = "int")                                  *)
(*  [kind |-> "mass", nf, up, down, exact]           mass decoupling tables         *)
(* All numbers are pairs <<num, den>>.                                            *)
EXTENDS MatPoly, Json, IOUtils, TLCExt, FiniteSets
TLog == JsonDeserialize(IOEnv.TRACE_FILE)
VARIABLE i
Init == i = 1
Next == i <= Len(TLog) /\ i' = i + 1

SerOfJson(S) == [k \in 1..Len(S) |-> MOfJson(S[k])]
AOfJson(A) == [k \in 1..Len(A) |-> MOfInt(A[k])]
Pad5(S) == [k \in 1..5 |-> IF k <= Len(S) THEN S[k] ELSE MZero(Len(S[1]))]

OmeVerdict(r) ==
  LET F == SerOfJson(r.fwd)
      B == SerOfJson(r.bwd)
      A == AOfJson(r.A)
  IN  IF ~r.exact THEN "C22:expanded inverse: build_ome is not a polynomial of degree <= 4 in a with rational coefficients"
      ELSE IF ~C22_TruncatedInverse(F, B, r.n)
      THEN "C22:expanded inverse order " \o ToString(r.n) \o " a^" \o ToString(C22_FirstBadPower(F, B, r.n))
      ELSE IF ~SEq(F, Pad5(Forward(A, r.n))) THEN "CONF:forward differs from 1 + a A1 + a^2 A2 + a^3 A3"
      ELSE IF ~SEq(B, Pad5(DerivedInverse(Forward(A, r.n), r.n))) THEN "CONF:backward has terms beyond the matching order"
      ELSE "ok"

ExactVerdict(r) ==
  LET F == SerOfJson(r.fwd)
      X == MOfJson(r.inv)
  IN  IF ~r.exact THEN "C22:exact inverse order " \o ToString(r.n) \o " (entries are not multiples of 1/det)"
      ELSE IF ~C22_ExactInverse(F, QOfJson(r.a), X) THEN "C22:exact inverse order " \o ToString(r.n)
      ELSE "ok"

RECURSIVE FirstBadOrder(_, _, _)
FirstBadOrder(up, down, n) ==
  IF n > 3 THEN -1 ELSE IF ~C22_CouplingInverse(up, down, n) THEN n ELSE FirstBadOrder(up, down, n + 1)
DecVerdict(r) ==
  LET n == FirstBadOrder(r.up, r.down, 0) IN
  IF ~r.exact THEN "C22:coupling decoupling " \o r.scheme \o " (table not exact)"
  ELSE IF n >= 0
  THEN LET p == CouplingFirstBad(r.up, r.down, n) IN
       "C22:coupling decoupling " \o r.scheme \o " order " \o ToString(n + 1) \o " a^" \o ToString(p[1]) \o " L^" \o ToString(p[2])
  ELSE IF r.scheme = "int" /\ \E n2 \in 1..3, l \in 0..3 : TableAt(r.down, n2, l) # InvertTranscribed(r.up)[n2 + 1][l + 1]
  THEN "CONF:invert_matching_coeffs differs from its transcription"
  ELSE "ok"

RECURSIVE FirstBadMass(_, _, _)
FirstBadMass(up, down, n) ==
  IF n > 3 THEN -1 ELSE IF ~C22_MassInverse(up, down, n) THEN n ELSE FirstBadMass(up, down, n + 1)
MassVerdict(r) ==
  LET n == FirstBadMass(r.up, r.down, 0) IN
  IF ~r.exact THEN "C22:mass decoupling (table not exact)"
  ELSE IF n >= 0
  THEN LET p == MassFirstBad(r.up, r.down, n) IN
       "C22:mass decoupling order " \o ToString(n + 1) \o " a^" \o ToString(p[1]) \o " L^" \o ToString(p[2])
  ELSE "ok"

Verdict(r) ==
  CASE r.kind = "ome" -> OmeVerdict(r)
    [] r.kind = "exact" -> ExactVerdict(r)
    [] r.kind = "dec" -> DecVerdict(r)
    [] r.kind = "mass" -> MassVerdict(r)
    [] OTHER -> "FORMAT:kind"

Inv == i <= Len(TLog) =>
         LET v == Verdict(TLog[i]) IN v = "ok" \/ PrintT(<<"BAD", i, v>>)
Post == TLCGet("stats").diameter = Len(TLog) + 1
=============================================================================
