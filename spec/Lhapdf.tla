------------------------------- MODULE Lhapdf -------------------------------
(* C45: LHAPDF export of evolved PDFs is self-consistent.                           *)
(*                                                                                  *)
(* Scales and momentum fractions travel as RANKS in the sorted table of the values   *)
(* of one run (the harness matches every number read back from the files to that     *)
(* table with a wide margin); values as integer classes 0 = equal to the printed     *)
(* precision, 1 = unresolved, 2 = different.                                         *)
(*                                                                                  *)
(* Design = what ekobox.evol_pdf.evolve_pdfs / info_file.build / genpdf.export do,   *)
(* transcribed, with two switches:                                                   *)
(*   SortedAssumed  info_file.build: QMin/QMax = mu2grid[0] / mu2grid[-1]            *)
(*   XFromCard      info_file.build overwrites XMin/XMax with the operator card's    *)
(*                  grid after evolve_pdfs had set them from the target grid         *)
(* faithful = both TRUE; intended = both FALSE.                                      *)
EXTENDS Naturals, Sequences, FiniteSets, TLC

CONSTANTS SortedAssumed, XFromCard

SeqSet(s) == {s[i] : i \in DOMAIN s}
Min(S) == CHOOSE x \in S : \A y \in S : x <= y
Max(S) == CHOOSE x \in S : \A y \in S : x >= y
RECURSIVE SortSet(_)
SortSet(S) == IF S = {} THEN <<>> ELSE <<Min(S)>> \o SortSet(S \ {Min(S)})
RECURSIVE Flat(_)
Flat(ss) == IF ss = <<>> THEN <<>> ELSE Head(ss) \o Flat(Tail(ss))

(* eg: the card's evolution grid, a sequence of <<q rank, nf>> in the card's order   *)
Nfs(eg) == {eg[i][2] : i \in DOMAIN eg}
QsOf(eg, nf) == {eg[i][1] : i \in {j \in DOMAIN eg : eg[j][2] = nf}}
(* utils.regroup_evolgrid: one block per nf in ascending nf, scales sorted           *)
Groups(eg) == LET nfs == SortSet(Nfs(eg)) IN [j \in DOMAIN nfs |-> SortSet(QsOf(eg, nfs[j]))]
(* evolve_pdfs refuses grids whose nf patches overlap (equal end points are allowed)  *)
OverlappingG(g) == \E j \in DOMAIN g : j < Len(g) /\ g[j][Len(g[j])] > g[j + 1][1]
Overlapping(eg) == OverlappingG(Groups(eg))

(* the info file the design writes: xs = ranks of the card's grid, tx = ranks of the  *)
(* written (target) grid                                                              *)
InfoOfG(eg, g, xs, tx, members) ==
  [qmin |-> IF SortedAssumed THEN eg[1][1] ELSE Min(SeqSet(Flat(g))),
   qmax |-> IF SortedAssumed THEN eg[Len(eg)][1] ELSE Max(SeqSet(Flat(g))),
   xmin |-> IF XFromCard THEN Min(xs) ELSE Min(tx),
   xmax |-> IF XFromCard THEN Max(xs) ELSE Max(tx),
   alphaQs |-> Flat(g),
   members |-> members]
InfoOf(eg, xs, tx, members) == InfoOfG(eg, Groups(eg), xs, tx, members)
BlocksOfG(g, tx) == LET sx == SortSet(tx) IN [j \in DOMAIN g |-> [qs |-> g[j], xs |-> sx]]
BlocksOf(eg, tx) == BlocksOfG(Groups(eg), tx)

-----------------------------------------------------------------------------
(* the property, from the statement: relations between an info record and blocks      *)
WrittenQ(blocks) == UNION {SeqSet(blocks[j].qs) : j \in DOMAIN blocks}
WrittenX(blocks) == UNION {SeqSet(blocks[j].xs) : j \in DOMAIN blocks}
C45_QRange(info, blocks) == info.qmin = Min(WrittenQ(blocks)) /\ info.qmax = Max(WrittenQ(blocks))
C45_XRange(info, blocks) == info.xmin = Min(WrittenX(blocks)) /\ info.xmax = Max(WrittenX(blocks))
C45_AlphaQs(info, blocks) == info.alphaQs = Flat([j \in DOMAIN blocks |-> blocks[j].qs])
C45_Members(info, files) == info.members = files
(* the written nodes are the evolution points, grouped by nf, each block ascending     *)
C45_NodesG(g, blocks) == [j \in DOMAIN blocks |-> blocks[j].qs] = g
C45_Nodes(eg, blocks) == C45_NodesG(Groups(eg), blocks)
C45_Target(tx, blocks) == \A j \in DOMAIN blocks : blocks[j].xs = SortSet(tx)
=============================================================================
