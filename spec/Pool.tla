-------------------------------- MODULE Pool --------------------------------
(* The parallel Mellin integration of eko.evolution_operator.Operator.integrate:  *)
(* multiprocessing.Pool(n).map(run_op_integration, enumerate(grid points)).        *)
(* Items are split into contiguous chunks, idle workers take the next chunk, the    *)
(* result list is assembled by input index.  n = 1 uses the builtin map.            *)
(*                                                                                *)
(* Design switches:                                                                *)
(*   OrderedCollect = FALSE  results are gathered in completion order               *)
(*   WorkerState = TRUE      the value computed for an item depends on what the      *)
(*                           worker computed before (module-level state in workers)  *)
EXTENDS Naturals, Sequences, FiniteSets, TLC
CONSTANTS G, W, ChunkSize, OrderedCollect, WorkerState

VARIABLES queue,      \* chunks not yet handed out (sequence of sequences of items)
          busy,       \* worker -> remaining items of its chunk
          seen,       \* worker -> number of items it has computed
          results,    \* item -> value
          arrival,    \* items in completion order
          collected   \* the list returned to the caller (<<>> until the end)
vars == <<queue, busy, seen, results, arrival, collected>>

Workers == 1..W
Items == 1..G
F(item, w) == IF WorkerState THEN <<item, seen[w]>> ELSE <<item, 0>>

Chunks == LET n == (G + ChunkSize - 1) \div ChunkSize IN
  [c \in 1..n |-> [j \in 1..(IF c * ChunkSize <= G THEN ChunkSize ELSE G - (c - 1) * ChunkSize)
                     |-> (c - 1) * ChunkSize + j]]

Init == /\ queue = Chunks
        /\ busy = [w \in Workers |-> <<>>]
        /\ seen = [w \in Workers |-> 0]
        /\ results = <<>>
        /\ arrival = <<>>
        /\ collected = <<>>

Take(w) == /\ busy[w] = <<>> /\ queue # <<>>
           /\ busy' = [busy EXCEPT ![w] = Head(queue)]
           /\ queue' = Tail(queue)
           /\ UNCHANGED <<seen, results, arrival, collected>>

Finish(w) == /\ busy[w] # <<>>
             /\ LET it == Head(busy[w]) IN
                /\ results' = [j \in (DOMAIN results) \cup {it} |-> IF j = it THEN F(it, w) ELSE results[j]]
                /\ arrival' = Append(arrival, it)
             /\ busy' = [busy EXCEPT ![w] = Tail(@)]
             /\ seen' = [seen EXCEPT ![w] = @ + 1]
             /\ UNCHANGED <<queue, collected>>

AllDone == queue = <<>> /\ \A w \in Workers : busy[w] = <<>>
Collect == /\ AllDone /\ collected = <<>> /\ G > 0
           /\ collected' = IF OrderedCollect THEN [j \in 1..G |-> results[j]]
                           ELSE [j \in 1..G |-> results[arrival[j]]]
           /\ UNCHANGED <<queue, busy, seen, results, arrival>>

Next == (\E w \in Workers : Take(w) \/ Finish(w)) \/ Collect
Spec == Init /\ [][Next]_vars

(* C03: whatever the schedule, the caller sees the same list *)
C03_ScheduleFree == collected # <<>> => collected = [j \in 1..G |-> <<j, 0>>]
OnceEach == Len(arrival) = Cardinality({arrival[j] : j \in 1..Len(arrival)})
=============================================================================
