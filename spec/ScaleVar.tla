------------------------------ MODULE ScaleVar ------------------------------
(* C21: the two scale-variation prescriptions as renormalisation-group           *)
(* expansions, DERIVED here rather than transcribed.                             *)
(*                                                                             *)
(* Conventions (those of eko): a = alpha/(4 pi), da/dln mu^2 = -beta(a),        *)
(* beta(a) = sum_k beta_k a^(k+2); gamma(a) = sum_k gamma_k a^(k+1);             *)
(* a' = a(xi^2 mu^2), L = ln xi^2.                                              *)
(*                                                                             *)
(* 1. Re-expansion.  R(a', L) := a(mu^2) as a series in a' solves                *)
(*        dR/dL = beta(R),  R(a', 0) = a'                                        *)
(*    (moving the scale down by L).  Solved by Picard iteration on truncated      *)
(*    polynomials in (a', L):  R <- a' + Int_0^L beta(R).                         *)
(* 2. Exponentiated scheme: gamma(a(mu^2)) = sum_k gamma_k R^(k+1)                *)
(*    = sum_j gamma'_j(L) a'^(j+1), truncated at the perturbative order.          *)
(* 3. Expanded scheme: the kernel is the path-ordered exponential                 *)
(*        dK/dL = Gamma(L) K,  K(0) = 1,  Gamma(L) = gamma(R(a', L))              *)
(*    solved by Picard iteration K <- 1 + Int_0^L Gamma K with matrix              *)
(*    coefficients kept in order, truncated at a'^(order-1).                       *)
(* 4. QED variants: the same two constructions on the QCD axis gamma[1..,0]       *)
(*    (coupling a_s) and, when alpha_em runs, on the QED axis gamma[0,1..]         *)
(*    (coupling a_em, beta function beta_qed^(0,2) a_em^2 + ...); the result is    *)
(*    truncated to pure powers a_s^j and a_em^k (mixed O(a_s a_em) variations      *)
(*    are beyond the documented accuracy), so the axes do not interact.            *)
EXTENDS MatPoly

(* scalar q as d x d BiPoly constant; matrix M as BiPoly constant                 *)
BConstM(M_0, N) == Let1(M_0, LAMBDA M :
 BMono(Len(M), N, 0, 0, M))
(* embed a scalar (1 x 1) BiPoly into d x d                                       *)
BEmbed(P_0, d) == Let1(P_0, LAMBDA P :
 TLCEval([i \in 1..Len(P) |-> [j \in 1..Len(P) |-> MScalar(d, P[i][j][1][1])]]))

(* beta(R) = sum_k bs[k+1] R^(k+2) for a scalar polynomial R, truncated            *)
RECURSIVE BetaOfFrom(_, _, _, _)
BetaOfFrom(bs_0, R_0, Rpow_0, k) == Let3(bs_0, R_0, Rpow_0, LAMBDA bs, R, Rpow :   \* Rpow = R^(k+2)
  IF k + 1 > Len(bs) \/ k + 2 > Len(R) - 1 THEN PZero(Len(R) - 1)
  ELSE PAdd(PScale(bs[k + 1], Rpow), BetaOfFrom(bs, R, PMul(Rpow, R), k + 1)))
BetaOf(bs_0, R_0) == Let2(bs_0, R_0, LAMBDA bs, R : BetaOfFrom(bs, R, PMul(R, R), 0))

RECURSIVE RIter(_, _, _, _)
RIter(bs_0, N, R_0, m) == Let2(bs_0, R_0, LAMBDA bs, R :
  IF m = 0 THEN R
  ELSE RIter(bs, N, PAdd(PMonoA(N, 1), PIntL(BetaOf(bs, R))), m - 1))
(* R(a', L) through a'^N (scalar polynomial); bs = <<beta_0, beta_1, ...>> rationals  *)
Reexpansion(bs, N) == IF N = 0 THEN PZero(0) ELSE RIter(bs, N, PMonoA(N, 1), N)

(* the first coefficients in closed form, as a check of the derivation              *)
ReexpansionKnown(bs_0) == Let1(bs_0, LAMBDA bs :

  Let1(Reexpansion(bs, 4), LAMBDA R :
  LET b0 == bs[1]
      b1 == bs[2]
      b2 == bs[3]
      c(i, j) == R[i + 1][j + 1]
  IN  /\ c(1, 0) = Q1
      /\ c(2, 1) = b0
      /\ c(3, 1) = b1 /\ c(3, 2) = QMul(b0, b0)
      /\ c(4, 1) = b2 /\ c(4, 2) = QMul(QF(5, 2), QMul(b0, b1)) /\ c(4, 3) = QPow(b0, 3)
      /\ \A i \in 0..4 : \A j \in 0..4 :
            (<<i, j>> \notin {<<1, 0>>, <<2, 1>>, <<3, 1>>, <<3, 2>>, <<4, 1>>, <<4, 2>>, <<4, 3>>}) => c(i, j) = Q0))

(* Gamma = gamma(R) = sum_{k < Len(gs)} gs[k+1] R^(k+1), d x d, through a'^N          *)
RECURSIVE GammaOfRFrom(_, _, _, _, _)
GammaOfRFrom(gs_0, Rd_0, Rpow_0, k, N) == Let3(gs_0, Rd_0, Rpow_0, LAMBDA gs, Rd, Rpow :
  \* Rpow = Rd^(k+1)
  IF k + 1 > Len(gs) \/ k + 1 > N THEN BZero(Len(gs[1]), N)
  ELSE BAdd(BMul(BConstM(gs[k + 1], N), Rpow), GammaOfRFrom(gs, Rd, BMul(Rpow, Rd), k + 1, N)))
GammaOfR(gs, bs, N) ==
  Let1(BOfScalar(Reexpansion(bs, N), Len(gs[1])), LAMBDA Rd : GammaOfRFrom(gs, Rd, Rd, 0, N))

(* ---- exponentiated scheme: gamma'_j(L) for j = 0..n-1 at order n ----------------- *)
(* gs = <<gamma_0, .., gamma_(n-1)>> (d x d), value at the rational L                   *)
C21_GammaPrime(gs_0, bs_0, n, l_0) == Let3(gs_0, bs_0, l_0, LAMBDA gs, bs, l :

  Let1(GammaOfR(gs, bs, n), LAMBDA G : TLCEval([j \in 1..n |-> BRowEval(G, j, l, 1)])))

(* ---- expanded scheme: K(a', L) through a'^(n-1) at order n ----------------------- *)
RECURSIVE KIter(_, _, _, _)
KIter(Gam_0, N, K_0, m) == Let2(Gam_0, K_0, LAMBDA Gam, K :

  IF m = 0 THEN K ELSE KIter(Gam, N, BAdd(BOne(BD(Gam), N), BIntL(BMul(Gam, K))), m - 1))
PathOrdered(gs, bs, n) ==
  LET N == n - 1
      d == Len(gs[1])
  IN  IF N = 0 THEN BOne(d, 0) ELSE KIter(GammaOfR(gs, bs, N), N, BOne(d, N), N)
(* coefficients K_0..K_(n-1) at the rational L, padded with zeros to length len           *)
C21_Kernel(gs_0, bs_0, n, l_0, len) == Let3(gs_0, bs_0, l_0, LAMBDA gs, bs, l :

  Let1(PathOrdered(gs, bs, n), LAMBDA K :
    TLCEval([j \in 1..len |-> IF j <= n THEN BRowEval(K, j - 1, l, 1) ELSE MZero(Len(gs[1]))])))

(* ---- QED variants ------------------------------------------------------------------ *)
(* grid g[j+1][k+1] = gamma^(j,k) (d x d), order = <<o0, o1>>                              *)
QcdTower(g_0, o0) == Let1(g_0, LAMBDA g :
 [j \in 1..o0 |-> g[j + 1][1]])
QedTower(g_0, o1) == Let1(g_0, LAMBDA g :
 [k \in 1..o1 |-> g[1][k + 1]])
(* exponentiated: adjusted grid *)
C21_GammaPrimeQed(g_0, o0, o1, bs_0, bsqed_0, running, l_0) == Let4(g_0, bs_0, bsqed_0, l_0, LAMBDA g, bs, bsqed, l :

  Let2(C21_GammaPrime(QcdTower(g, o0), bs, o0, l),
       IF running /\ o1 >= 1 THEN C21_GammaPrime(QedTower(g, o1), bsqed, o1, l) ELSE QedTower(g, o1),
       LAMBDA gq, ge :
      TLCEval([j \in 1..(o0 + 1) |-> [k \in 1..(o1 + 1) |->
        IF k = 1 /\ j >= 2 THEN gq[j - 1]
        ELSE IF j = 1 /\ k >= 2 THEN ge[k - 1]
        ELSE g[j][k]]])))
(* expanded: coefficient of a_s^j a_em^k, j = 0..js-1, k = 0..ks-1                          *)
C21_KernelQed(g_0, o0, o1, bs_0, bsqed_0, running, l_0, js, ks) == Let4(g_0, bs_0, bsqed_0, l_0, LAMBDA g, bs, bsqed, l :

  Let2(C21_Kernel(QcdTower(g, o0), bs, o0, l, js),
       IF running /\ o1 >= 1 THEN C21_Kernel(QedTower(g, o1), bsqed, o1, l, ks)
       ELSE [k \in 1..ks |-> IF k = 1 THEN MId(Len(g[1][1])) ELSE MZero(Len(g[1][1]))],
       LAMBDA kq, ke :
      TLCEval([j \in 1..js |-> [k \in 1..ks |->
        IF k = 1 THEN kq[j] ELSE IF j = 1 THEN ke[k] ELSE MZero(Len(g[1][1]))]])))

(* ---- transcription of the implementation (for B1 and conformance) -------------------- *)
(* eko.scale_variations.exponentiated.gamma_variation                                     *)
GammaVariationTranscribed(gs_0, bs_0, n, l_0, Variant) == Let3(gs_0, bs_0, l_0, LAMBDA gs, bs, l :

  LET b0 == bs[1]
      b1 == bs[2]
      b2 == bs[3]
      l2 == QMul(l, l)
      l3 == QMul(l2, l)
      d == Len(gs[1])
      g(k) == gs[k + 1]
      t3 == MSumSeq(d, <<
              MScale(QMul(QScale(3, b0), l), g(2)),
              MScale(QAdd(QMul(QScale(2, b1), l), QMul(QScale(3, QMul(b0, b0)), l2)), g(1)),
              MScale(QSumSeq(<< QMul(b2, l),
                                QMul(IF Variant = "b1b0_coeff" THEN QF(3, 1) ELSE QF(5, 2), QMul(QMul(b1, b0), l2)),
                                QMul(QPow(b0, 3), l3) >>), g(0)) >>)
      t2 == MAdd(MScale(QMul(QScale(2, b0), l), g(1)),
                 MScale(QAdd(QMul(b1, l), QMul(QMul(b0, b0), l2)), g(0)))
      t1 == MScale(QMul(b0, l), g(0))
  IN  TLCEval([j \in 1..n |->
        CASE j = 4 -> MAdd(g(3), t3)
          [] j = 3 -> MAdd(g(2), t2)
          [] j = 2 -> MAdd(g(1), t1)
          [] OTHER -> g(0)]))

(* eko.scale_variations.expanded.variation_as1/2/3 through singlet_variation             *)
KernelTranscribed(gs_0, bs_0, n, l_0, len, Variant) == Let3(gs_0, bs_0, l_0, LAMBDA gs, bs, l :

  LET d == Len(gs[1])
      b0 == bs[1]
      b1 == bs[2]
      l2 == QMul(l, l)
      l3 == QMul(l2, l)
      g(k) == gs[k + 1]
      g0e2 == MMul(g(0), g(0))
      g0e3 == MMul(g0e2, g(0))
      g1g0 == MMul(g(1), g(0))
      g0g1 == IF Variant = "commuted" THEN g1g0 ELSE MMul(g(0), g(1))
      k1 == MScale(l, g(0))
      k2 == MAdd(MScale(l, g(1)), MScale(QMul(QF(1, 2), l2), MAdd(MScale(b0, g(0)), g0e2)))
      k3 == MSumSeq(d, << MScale(l, g(2)),
                          MScale(QMul(QF(1, 2), l2), MSumSeq(d, << MScale(b1, g(0)), MScale(QScale(2, b0), g(1)), g1g0, g0g1 >>)),
                          MScale(QMul(QF(1, 6), l3), MSumSeq(d, << MScale(QScale(2, QMul(b0, b0)), g(0)),
                                                                   MScale(QScale(IF Variant = "b0g0e2" THEN 2 ELSE 3, b0), g0e2), g0e3 >>)) >>)
  IN  TLCEval([j \in 1..len |->
        CASE j = 1 -> MId(d)
          [] j = 2 /\ n >= 2 -> k1
          [] j = 3 /\ n >= 3 -> k2
          [] j = 4 /\ n >= 4 -> k3
          [] OTHER -> MZero(d)]))

SeqMEq(s_0, t_0) == Let2(s_0, t_0, LAMBDA s, t :
 Len(s) = Len(t) /\ \A k \in 1..Len(s) : MEq(s[k], t[k]))
SeqFirstDiff(s_0, t_0) == Let2(s_0, t_0, LAMBDA s, t :
 CHOOSE k \in 1..Len(s) : ~MEq(s[k], t[k]) /\ \A m \in 1..(k - 1) : MEq(s[m], t[m]))
=============================================================================
