------------------------------ MODULE PoolTrace ------------------------------
(* B3 for C03: records of families of real solves.                              *)
(*  [ev |-> "pool", n, items, log]   one Operator.integrate: per-process logs      *)
(*        (pid, seq, k) of run_op_integration calls and the digest of each item      *)
(*  [ev |-> "family", runs]  the same target computed under different schedules,     *)
(*        target orders and co-targets: every run lists (variant, digest)            *)
EXTENDS Naturals, Sequences, FiniteSets, Json, IOUtils, TLC, TLCExt
TLog == JsonDeserialize(IOEnv.TRACE_FILE)
VARIABLE i
Init == i = 1
Next == i <= Len(TLog) /\ i' = i + 1
Range(s) == {s[j] : j \in 1..Len(s)}

Verdict(r) ==
  IF r.ev = "pool"
  THEN  (* every grid point integrated exactly once, per-process sequence numbers increase *)
       IF {r.log[j].k : j \in 1..Len(r.log)} # 0..(r.items - 1) THEN "CONF:items-missing"
       ELSE IF Len(r.log) # r.items THEN "CONF:item-computed-twice"
       ELSE IF \E a, b \in 1..Len(r.log) : a < b /\ r.log[a].pid = r.log[b].pid /\ r.log[a].seq >= r.log[b].seq
            THEN "CONF:per-process-order"
       ELSE "ok"
  ELSE IF r.ev = "family"
  THEN IF Cardinality({r.runs[j].digest : j \in 1..Len(r.runs)}) # 1
       THEN "C03:operator-depends-on-" \o
            (LET j == CHOOSE j \in 2..Len(r.runs) : r.runs[j].digest # r.runs[1].digest IN r.runs[j].variant)
       ELSE IF Len(r.runs) < 2 THEN "CONF:family-too-small"
       ELSE "ok"
  ELSE "CONF:unknown-record"

Inv == i <= Len(TLog) =>
         LET v == Verdict(TLog[i]) IN v = "ok" \/ PrintT(<<"BAD", i, v>>)
Post == TLCGet("stats").diameter = Len(TLog) + 1
=============================================================================
