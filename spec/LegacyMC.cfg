CONSTANT PtoShift = 1
INIT Init
NEXT Next
INVARIANT InvTheory
INVARIANT InvOperator
CHECK_DEADLOCK FALSE
