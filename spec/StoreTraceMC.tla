---------------------------- MODULE StoreTraceMC ----------------------------
EXTENDS StoreTrace
MCKeys == {"k1", "k2", "k3"}
MCNfOf == [k \in MCKeys |-> IF k = "k3" THEN 5 ELSE 4]
MCCloseTo == {{"k1", "k2"}}
=============================================================================
