----------------------------- MODULE InterpTrace -----------------------------
(* B3 for C34.  Records written by harness/checks/C34.py:                         *)
(*                                                                             *)
(*  kind = "probe"  one InterpolatorDispatcher of the real code on a dyadic grid  *)
(*     raw   the point list handed to XGrid (rationals [n, d], any order)         *)
(*     deg   polynomial degree,  err  "" or the exception class raised            *)
(*     areas areas[j][p] = [xmin, xmax, kmin, kmax, coefs] of basis function j    *)
(*           (the code's own blocks and coefficients, recovered as rationals)     *)
(*     pts, vals   vals[j][e] = basis[j].evaluate_x(pts[e])                       *)
(*     tgts  sequence of [tgt, R] with R = get_interpolation(tgt)                 *)
(*   The C34 predicates are evaluated ON THESE NUMBERS (property grade); then the *)
(*   numbers are compared with the transcription (conformance grade, CONF:).      *)
(*                                                                             *)
(*  kind = "law"    one measurement of a planned law cell (logarithmic mode and   *)
(*     random grids): cell, sample, resid_e, bound_e (decades, integers)          *)
(*  kind = "end"    closes a law trace: every planned cell must have been seen    *)
EXTENDS Interp, Json, IOUtils, TLCExt
TLog == JsonDeserialize(IOEnv.TRACE_FILE)
VARIABLE i
Init == i = 1
Next == i <= Len(TLog) /\ i' = i + 1

NodesIn(g, pts) == \A k \in 1..Len(g) : \E e \in 1..Len(pts) : pts[e] = g[k]

ShapeOk(r, n) ==
  /\ Len(r.areas) = n /\ Len(r.vals) = n
  /\ \A j \in 1..n : Len(r.vals[j]) = Len(r.pts) /\ Len(r.areas[j]) >= 1

ProbeVerdict(r) ==
  LET refused == r.err # "" IN
  IF ~C34_Rejection(r.raw, r.deg, refused)
  THEN IF refused THEN "C34:refused-valid-grid:" \o r.err ELSE "C34:accepted-invalid-grid"
  ELSE IF refused
  THEN IF r.err = "ValueError" THEN "ok" ELSE "C34:wrong-exception:" \o r.err
  ELSE IF r.nonfinite THEN "C34:non-finite-number"
  (* on a dyadic grid in linear mode every coefficient, value and re-interpolation weight lies on *)
  (* a lattice of rationals whose denominators divide a product of node differences; offgrid =     *)
  (* the code returned a number farther than 1e-6 (of its scale) from every point of that lattice  *)
  ELSE IF r.offgrid THEN "C34:number-off-the-exact-lattice"
  ELSE
  LET g == SortGrid(r.raw)
      n == Len(g)
  IN
  IF ~ShapeOk(r, n) THEN "C34:shape"
  ELSE IF ~NodesIn(g, r.pts) THEN "TRACE:nodes-not-probed"
  ELSE IF \E j \in 1..n : \E p \in 1..Len(r.areas[j]) : ~C34_BlockCoversArea(g, r.areas[j][p])
       THEN "C34:block-misses-its-area"
  ELSE IF \E j \in 1..n : \E p \in 1..Len(r.areas[j]) : ~C34_AreaLagrange(g, j - 1, r.areas[j][p])
       THEN "C34:coefficients-not-lagrange"
  ELSE IF ~C34_All(g, r.deg, r.pts, r.vals) THEN "C34:" \o C34_Failing(g, r.deg, r.pts, r.vals)
  ELSE IF \E k \in 1..Len(r.tgts) : ~C34_Reinterp(g, r.deg, r.tgts[k].tgt, r.tgts[k].R)
       THEN "C34:reinterp"
  ELSE LET A == AllAreas(g, r.deg) IN
  IF r.areas # A THEN "CONF:areas-differ-from-spec"
  ELSE IF r.vals # EvalTableA(r.areas, r.pts) THEN "CONF:values-differ-from-own-coefficients"
  ELSE IF \E k \in 1..Len(r.tgts) : r.tgts[k].R # GetInterpolationA(A, g, r.tgts[k].tgt)
       THEN "CONF:reinterp-differs-from-spec"
  ELSE "ok"

LawRecVerdict(r) ==
  IF r.cell \notin LawCells THEN "PLAN:unplanned-cell"
  ELSE LET v == LawVerdict(r.resid_e, r.bound_e) IN
       IF v = "pass" THEN "ok"
       ELSE IF v = "unresolved" THEN "UNRESOLVED"
       ELSE "C34:law-" \o r.cell.law

EndVerdict ==
  IF \A c \in LawCells : \E k \in 1..Len(TLog) : TLog[k].kind = "law" /\ TLog[k].cell = c
  THEN "ok" ELSE "PLAN:planned-cell-not-measured"

(* C35: one random grid of a planned cell; pts[k] = <<k4, resid_e>> per inversion node *)
MellinVerdict(r) ==
  IF r.cell \notin C35Cells THEN "PLAN:unplanned-cell"
  ELSE IF Len(r.pts) = 0 THEN "TRACE:no-inversion-points"
  ELSE IF \E k \in 1..Len(r.pts) : C35PointVerdict(r.pts[k]) = "fail" THEN "C35:inverse-at-nodes"
  ELSE IF r.interm > C35InteriorGross THEN "C35:interior-point-grossly-wrong-or-not-finite"
  ELSE IF \A k \in 1..Len(r.pts) : C35PointVerdict(r.pts[k]) = "unresolved" THEN "UNRESOLVED"
  ELSE "ok"
End35Verdict ==
  IF \A c \in C35Cells : \E k \in 1..Len(TLog) : TLog[k].kind = "mellin" /\ TLog[k].cell = c
  THEN "ok" ELSE "PLAN:planned-cell-not-measured"

Verdict(r) ==
  IF r.kind = "probe" THEN ProbeVerdict(r)
  ELSE IF r.kind = "mellin" THEN MellinVerdict(r)
  ELSE IF r.kind = "end35" THEN End35Verdict
  ELSE IF r.kind = "law" THEN LawRecVerdict(r)
  ELSE IF r.kind = "end" THEN EndVerdict
  ELSE "TRACE:unknown-record"

Inv == i <= Len(TLog) =>
         LET v == Verdict(TLog[i]) IN v = "ok" \/ PrintT(<<"BAD", i, v>>)
Post == TLCGet("stats").diameter = Len(TLog) + 1

=============================================================================
