----------------------------- MODULE CouplingsMC -----------------------------
EXTENDS Couplings
MCMs == <<2, 4, 9>>
MCRef == <<3, 4>>
MCRefWall == <<2, 4>>    \* reference exactly on the first matching scale
=============================================================================
