------------------------------- MODULE JitPlan -------------------------------
(* C48: every numba-compiled function on the evolution path compiles from the current       *)
(* sources and returns the same values as the same function executed as plain Python.         *)
(* The test suite runs interpreted (pytest-env sets NUMBA_DISABLE_JIT=1), so a change that     *)
(* only breaks under the compiler - a construct nopython mode does not support, branches       *)
(* whose types do not unify, an integer where the compiled code keeps a float - passes it.      *)
(* Cells are calls of the decorated entry points (which compile everything they reach) with     *)
(* fixed inputs, grouped by package; the same probe runs once with the JIT (fresh cache          *)
(* directory) and once interpreted, and the harness classifies every cell:                       *)
(*   "same"      bitwise equal                                                                    *)
(*   "rounding"  relative difference <= 1e-9 (compiled arithmetic may contract or reorder)         *)
(*   "differs"   anything larger                                                                   *)
(*   "jit-error" the compiled call raised although the interpreted call returned                   *)
(*   "py-error"  the interpreted call raised (then the cell is no evidence: machinery)             *)
(*   "both-error" both raised the same exception class (a refusal, same in both modes)             *)
(* Quick groups: harmonics (cache of harmonic sums, all keys, both fill orders), ad-low (every      *)
(* gamma_* function of the LO-NNLO and O(aem), O(as aem), O(aem^2) modules: unpolarised, polarised,  *)
(* time-like), ome-low (every A_* function of the NLO / NNLO matching modules), kernels (all         *)
(* solution-method dispatchers, QCD and QED), misc (scale variations, beta and gamma coefficients,   *)
(* expanded coupling solutions, matrix exponentials, Mellin path, interpolation in x and N space).   *)
(* Thorough adds the order dispatchers up to N3LO (ad-us, ad-qed, ad-ps-ut, ome: their compilation    *)
(* takes 4-9 minutes each) and "solve": the whole path through the real solver on 90 configurations   *)
(* of the Dispatch domain.                                                                            *)
EXTENDS Naturals, Sequences, FiniteSets, TLC
CONSTANT Thorough
QuickGroups == {"harmonics", "ad-low", "ome-low", "kernels", "misc"}
Groups == IF Thorough THEN QuickGroups \cup {"ad-us", "ad-qed", "ad-ps-ut", "ome", "solve"} ELSE QuickGroups
Classes == {"same", "rounding", "differs", "jit-error", "py-error", "both-error"}
C48_Cell(class) == class \in {"same", "rounding", "both-error"}
=============================================================================
