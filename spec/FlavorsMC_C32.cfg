CONSTANT QedSectorMap = "unified"
CONSTANT DeltaRows = "orthogonalised"
CONSTANT NormalizeOut = TRUE
CONSTANT QcdOthCoef = "nf-1"
CONSTANT NormalizeProj = TRUE
INIT Init
NEXT Next
CHECK_DEADLOCK FALSE
INVARIANT InvBasis
INVARIANT InvC32Weights
INVARIANT InvC32Physical
INVARIANT InvC32Matching
INVARIANT InvC32Rotated
