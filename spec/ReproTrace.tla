----------------------------- MODULE ReproTrace -----------------------------
(* B3 for C47: the same cards solved in fresh processes with different string-hash *)
(* seeds.  A record lists, per run, the archive members (name and sha256 of the      *)
(* content) in the classes operators / parts / recipes / cards / metadata.           *)
(* The design side is Runner (every iteration order of the recipe set gives the same  *)
(* words and the same set of stored items) plus Store naming (names are a function    *)
(* of the header only).                                                              *)
EXTENDS Naturals, Sequences, FiniteSets, Json, IOUtils, TLC, TLCExt
TLog == JsonDeserialize(IOEnv.TRACE_FILE)
VARIABLE i
Init == i = 1
Next == i <= Len(TLog) /\ i' = i + 1
Range(s) == {s[j] : j \in 1..Len(s)}
Names(run) == {run.members[j].name : j \in 1..Len(run.members)}
Members(run) == {<<run.members[j].name, run.members[j].sha>> : j \in 1..Len(run.members)}
ClassOf(run, n) == (CHOOSE j \in 1..Len(run.members) : run.members[j].name = n)
Verdict(r) ==
  IF \E j \in 1..Len(r.runs) : r.runs[j].err # "" THEN "CONF:solve-failed"
  ELSE IF Len(r.runs) < 2 THEN "CONF:single-run"
  ELSE IF \E j \in 2..Len(r.runs) : Names(r.runs[j]) # Names(r.runs[1]) THEN "C47:member-names-differ"
  ELSE IF \E j \in 2..Len(r.runs) : Members(r.runs[j]) # Members(r.runs[1])
       THEN LET j == CHOOSE j \in 2..Len(r.runs) : Members(r.runs[j]) # Members(r.runs[1])
                m == CHOOSE m \in Members(r.runs[j]) : m \notin Members(r.runs[1])
            IN "C47:member-bytes-differ:" \o r.runs[j].members[ClassOf(r.runs[j], m[1])].cls
  ELSE "ok"
Inv == i <= Len(TLog) =>
         LET v == Verdict(TLog[i]) IN v = "ok" \/ PrintT(<<"BAD", i, v>>)
Post == TLCGet("stats").diameter = Len(TLog) + 1
=============================================================================
