----------------------------- MODULE AtlasTrace -----------------------------
(* B3 for C19: outputs of the real Atlas (path, matched_path) are judged by the *)
(* property predicates (property grade) and compared with the transcription     *)
(* (conformance grade).  One record per call; many calls per TLC start.         *)
EXTENDS Atlas, Json, IOUtils, TLC, TLCExt
TLog == JsonDeserialize(IOEnv.TRACE_FILE)
VARIABLE i
Init == i = 1
Next == i <= Len(TLog) /\ i' = i + 1

Defined(r) == NormalizeDefined(r.o, r.ms) /\ NormalizeDefined(r.t, r.ms)

Verdict(r) ==
  IF r.err # ""
  THEN IF Defined(r) THEN "C19:refused-defined-input:" \o r.err
       ELSE IF r.err = "ValueError" THEN "ok" ELSE "C19:wrong-exception:" \o r.err
  ELSE IF ~Defined(r) THEN "DIAG:accepted-undefined-default-flow"
  ELSE IF ~C19_WellFormed(r.ms, r.o, r.t, r.path)
       THEN "C19:" \o C19_Failing(r.ms, r.o, r.t, r.path)
  ELSE IF ~C19_Matched(r.path, r.matched) THEN "C19:matched"
  ELSE IF r.path # Path(r.ms, r.o, r.t) THEN "CONF:path-differs-from-spec"
  ELSE IF r.matched # MatchedPath(r.ms, r.o, r.t) THEN "CONF:matched-differs-from-spec"
  ELSE "ok"

Inv == i <= Len(TLog) =>
         LET v == Verdict(TLog[i]) IN v = "ok" \/ PrintT(<<"BAD", i, v>>)
Post == TLCGet("stats").diameter = Len(TLog) + 1
=============================================================================
