----------------------------- MODULE RunnerTrace -----------------------------
(* B3 for Runner: one record per real managed.solve with synthetic parts.  The    *)
(* parts are generators of a free monoid, so the record carries, for every target, *)
(* the WORD decoded from the operator the implementation stored.  Property grade:  *)
(* C02 clauses (which parts, how often, in which order).  Conformance grade: the    *)
(* recipes equal Runner!Elements under the cliff rule of the code under test.       *)
EXTENDS Atlas, Json, IOUtils, TLC, TLCExt
CONSTANT CliffRule
TLog == JsonDeserialize(IOEnv.TRACE_FILE)
VARIABLE i
Init == i = 1
Next == i <= Len(TLog) /\ i' = i + 1

Range(s) == {s[j] : j \in 1..Len(s)}
WallSet(m) == {Walls(m)[j] : j \in 1..Len(Walls(m))}
Pt(p) == <<p[1], p[2]>>

NoCliff(h) == IF h.kind = "E" THEN [kind |-> "E", origin |-> h.origin, target |-> h.target, nf |-> h.nf] ELSE h
Elem(r, t) ==       \* expected elements of target t, without the cliff flag
  LET mp == MatchedPath(r.ms, Pt(r.o), Pt(t)) IN
  [j \in 1..Len(mp) |->
     IF mp[j].kind = "seg" THEN [kind |-> "E", origin |-> mp[j].origin, target |-> mp[j].target, nf |-> mp[j].nf]
     ELSE [kind |-> "M", scale |-> mp[j].scale, hq |-> mp[j].hq, inverse |-> mp[j].inverse]]
ElemCliff(r, t) ==  \* the same with the cliff flag of the rule under test
  LET mp == MatchedPath(r.ms, Pt(r.o), Pt(t)) IN
  [j \in 1..Len(mp) |->
     IF mp[j].kind = "seg"
     THEN [kind |-> "E", origin |-> mp[j].origin, target |-> mp[j].target, nf |-> mp[j].nf,
           cliff |-> IF CliffRule = "target-on-wall" THEN mp[j].target \in WallSet(r.ms) ELSE j < Len(mp)]
     ELSE [kind |-> "M", scale |-> mp[j].scale, hq |-> mp[j].hq, inverse |-> mp[j].inverse]]

NeededNoCliff(r) == UNION {Range(Elem(r, r.targets[j])) : j \in 1..Len(r.targets)}
NeededCliff(r) == UNION {Range(ElemCliff(r, r.targets[j])) : j \in 1..Len(r.targets)}
IdsOf(r, h) == {r.ids[q].id : q \in {q \in 1..Len(r.ids) : NoCliff(r.ids[q].hdr) = h}}
IdsOfFull(r, h) == {r.ids[q].id : q \in {q \in 1..Len(r.ids) : r.ids[q].hdr = h}}   \* h with its cliff flag
Targets(r) == {[kind |-> "T", scale |-> r.targets[j][1], nf |-> r.targets[j][2]] : j \in 1..Len(r.targets)}

WordOk(r, j) ==
  LET el == Elem(r, r.targets[j])
      w == r.words[j] IN
  /\ w.ok
  /\ Len(w.word) = Len(el)
  /\ \A q \in 1..Len(el) : w.word[q] \in IdsOf(r, el[Len(el) + 1 - q])
  (* and it is the part the path itself asked for (final and intermediate versions of one segment are two parts) *)
  /\ \A q \in 1..Len(el) : w.word[q] \in IdsOfFull(r, r.retrieves[j][Len(el) + 1 - q])

Verdict(r) ==
  IF r.err # "" THEN "C02:solve-raised:" \o r.err
  ELSE IF {NoCliff(r.calls[q]) : q \in 1..Len(r.calls)} # NeededNoCliff(r) THEN "C02:computed-parts-differ-from-paths"
  ELSE IF Cardinality(Range(r.calls)) # Len(r.calls) THEN "C02:part-computed-twice"
  ELSE IF Range(r.arcParts) # Range(r.calls) THEN "C02:stored-parts-differ-from-computed"
  ELSE IF Len(r.arcParts) # Cardinality(Range(r.arcParts)) THEN "C02:part-stored-twice"
  ELSE IF Len(r.retrieves) # Len(r.targets) THEN "C02:retrieve-count"
  ELSE IF \E j \in 1..Len(r.targets) :
            [q \in 1..Len(r.retrieves[j]) |-> NoCliff(r.retrieves[j][q])] # Elem(r, r.targets[j])
       THEN "C02:retrieved-parts-differ-from-path"
  ELSE IF \E j \in 1..Len(r.targets) : \E q \in 1..Len(r.retrieves[j]) : r.retrieves[j][q] \notin Range(r.calls)
       THEN "C02:retrieved-part-was-never-computed"
  ELSE IF \E j \in 1..Len(r.targets) : ~WordOk(r, j) THEN "C02:stored-operator-is-not-the-ordered-product"
  ELSE IF Range(r.arcOps) # Targets(r) THEN "C02:stored-operators-differ-from-targets"
  ELSE IF Range(r.calls) # NeededCliff(r) THEN "CONF:cliff-flags-differ-from-rule"
  ELSE IF Range(r.arcRecipes) # NeededCliff(r) THEN "CONF:stored-recipes-differ"
  ELSE "ok"

Inv == i <= Len(TLog) =>
         LET v == Verdict(TLog[i]) IN v = "ok" \/ PrintT(<<"BAD", i, v>>)
Post == TLCGet("stats").diameter = Len(TLog) + 1
=============================================================================
