---------------------------- MODULE CouplingsTrace ----------------------------
(* B3 for C17 (and the step structure of C16): histories of queries and caller     *)
(* mutations executed on real Couplings objects.  Property grade: every reply        *)
(* bitwise equal to a fresh object's reply, no aliasing with the cache or the         *)
(* reference, existing cache entries and the reference unchanged.  Conformance        *)
(* grade (token histories only): the compute() calls of a query - flavour number,      *)
(* from, to, hit or miss - are those of Couplings!Query from the same history.         *)
EXTENDS Couplings, Json, IOUtils, TLCExt
TLog == JsonDeserialize(IOEnv.TRACE_FILE)
VARIABLES tid, l, raddr
tvars == <<vars, tid, l, raddr>>

TraceInit == Init /\ tid \in 1..Len(TLog) /\ l = 1 /\ raddr = <<>>
Bad(name) == PrintT(<<"BAD", tid, l, name>>)
Chk(cond, name) == IF cond THEN TRUE ELSE Bad(name)

Proj(steps) == [j \in 1..Len(steps) |-> <<steps[j].key[2], steps[j].key[3], steps[j].key[4], steps[j].hit>>]
RecSteps(e) == [j \in 1..Len(e.steps) |-> <<e.steps[j][1], e.steps[j][2], e.steps[j][3], e.steps[j][4] = 1>>]

Judge(e) ==
  /\ Chk(e.eqFresh, "C17:reply-depends-on-history")
  /\ Chk(e.aliasFree, "C17:returned-array-aliases-cache-or-reference")
  /\ Chk(e.refIntact, "C17:reference-value-modified")
  /\ Chk(e.cacheStable, "C17:cached-value-modified")

TraceNext ==
  /\ l <= Len(TLog[tid].events)
  /\ LET e == TLog[tid].events[l] IN
     IF e.ev = "query"
     THEN /\ Judge(e)
          /\ IF TLog[tid].tokens
             THEN /\ Query(<<e.q[1], e.q[2]>>)
                  /\ raddr' = Append(raddr, last'.addr)
                  /\ IF Proj(last'.steps) = RecSteps(e) THEN TRUE ELSE PrintT(<<"CONF", tid, l, "compute-steps-differ">>)
             ELSE UNCHANGED <<vars, raddr>>
     ELSE /\ IF TLog[tid].tokens
             THEN /\ heap' = [heap EXCEPT ![raddr[e.j]] = Garbage]
                  /\ UNCHANGED <<cache, returned, last, nq, nm, raddr>>
             ELSE UNCHANGED <<vars, raddr>>
  /\ l' = l + 1
  /\ tid' = tid
Done == l > Len(TLog[tid].events) => PrintT(<<"DONE", tid>>)
=============================================================================
