------------------------------- MODULE Interp -------------------------------
(* Interpolation basis of eko (src/eko/interpolation.py), C34.                  *)
(*                                                                             *)
(* Grids are sequences of exact rationals (IRat), 1-based in TLA+; the Python   *)
(* index k is position k+1.  Nothing below depends on the mode: in logarithmic  *)
(* mode the "grid" is log(x) -- the exact part (B1, exact probing) is run in     *)
(* linear mode on dyadic grids, the logarithmic mode is covered by Part 3.       *)
(*                                                                             *)
(* Part 1  transcription of the code (what it does): XGrid checks, block        *)
(*         selection of InterpolatorDispatcher.__init__, Area._compute_coefs,   *)
(*         evaluate_x (half-open areas, closed first area), get_interpolation.  *)
(* Part 2  the C34 predicates (what it must do), written on tables of numbers   *)
(*         without reference to Part 1, so that TLC can evaluate them on the    *)
(*         implementation's own coefficients / values / matrices.               *)
(* Part 3  the law plan for logarithmic mode and random grids (mode L).         *)
EXTENDS IRat, FiniteSets

CONSTANTS
  UpperClosed,   \* TRUE = faithful: an area is  xmin <  x <= xmax
                 \* FALSE = mutated design:      xmin <= x <  xmax   (vacuity guard)
  FirstClosed    \* TRUE = faithful: the first area of a basis function also owns x = xmin

-----------------------------------------------------------------------------
(* Part 1: transcription                                                       *)

(* XGrid.__init__: np.unique sorts; repeated points and fewer than 2 points are *)
(* refused.                                                                     *)
NoRepeats(raw) == \A i, j \in 1..Len(raw) : i < j => raw[i] # raw[j]
XGridAccepts(raw) == NoRepeats(raw) /\ Len(raw) >= 2
SortGrid(raw) ==
  Eager([k \in 1..Len(raw) |->
     CHOOSE e \in {raw[i] : i \in 1..Len(raw)} :
        Cardinality({i \in 1..Len(raw) : RLt(raw[i], e)}) = k - 1])

(* InterpolatorDispatcher.__init__ sanity checks *)
DispatcherAccepts(n, deg) == deg >= 1 /\ ~(n <= deg)
Accepts(raw, deg) == XGridAccepts(raw) /\ DispatcherAccepts(Len(raw), deg)

(* block (kmin, kmax) of area i (0-based, 0 <= i <= n-2), Python indices        *)
Po2(deg) == IF deg % 2 = 0 THEN deg \div 2 - 1 ELSE deg \div 2
Block(n, deg, i) ==
  LET kmin0 == IMax(0, i - Po2(deg))
      kmax0 == kmin0 + deg
  IN IF kmax0 >= n THEN <<n - 1 - deg, n - 1>> ELSE <<kmin0, kmax0>>

(* areas (0-based lower indices, ascending) whose block contains polynomial j   *)
AreaIdx(n, deg, j) ==
  SelectSeq([t \in 1..(n - 1) |-> t - 1],
            LAMBDA i : Block(n, deg, i)[1] <= j /\ j <= Block(n, deg, i)[2])

(* Area._reference_indices *)
RefIdx(j, blk) ==
  SelectSeq([t \in 1..(blk[2] - blk[1] + 1) |-> blk[1] + t - 1], LAMBDA k : k # j)

(* Area._compute_coefs: c is the coefficient sequence (c[i+1] multiplies x^i)   *)
(* one loop iteration with reference point xk when c has s+1 entries:           *)
(*   Mxk = -xk*c ; c = [0] ++ c ; c[:s+1] += Mxk                                *)
CoefStep(c, xk) ==
  LET s1 == Len(c) IN
  Eager([i \in 1..(s1 + 1) |->
     RSub(IF i = 1 THEN RZero ELSE c[i - 1],
          IF i <= s1 THEN RMul(xk, c[i]) ELSE RZero)])
RECURSIVE CoefRec(_, _, _, _)
CoefRec(g, refs, s, c) ==
  IF s = Len(refs) THEN c ELSE CoefRec(g, refs, s + 1, CoefStep(c, g[refs[s + 1] + 1]))
RECURSIVE DenRec(_, _, _, _)
DenRec(g, xj, refs, s) ==
  IF s = Len(refs) THEN ROne
  ELSE RMul(RSub(xj, g[refs[s + 1] + 1]), DenRec(g, xj, refs, s + 1))
Coefs(g, j, blk) ==
  LET refs == RefIdx(j, blk)
      c == CoefRec(g, refs, 0, <<ROne>>)
      den == DenRec(g, g[j + 1], refs, 0)
  IN Eager([i \in 1..Len(c) |-> RDiv(c[i], den)])

(* BasisFunction.areas / areas_to_const for polynomial j (Python index)         *)
Areas(g, deg, j) ==
  LET n == Len(g)
      idx == AreaIdx(n, deg, j)
  IN Eager([p \in 1..Len(idx) |->
        LET i == idx[p]
            blk == Block(n, deg, i)
        IN [xmin |-> g[i + 1], xmax |-> g[i + 2], kmin |-> blk[1], kmax |-> blk[2],
            coefs |-> Coefs(g, j, blk)]])

(* evaluate_x: sum coef * x^i over the first area that owns x, else 0           *)
(* (the code adds coef * pow(x, i) term by term; over the rationals Horner's rule  *)
(* gives the same value with fewer operations)                                   *)
RECURSIVE Horner(_, _, _)
Horner(c, i, x) == IF i = Len(c) THEN c[i] ELSE RAdd(c[i], RMul(x, Horner(c, i + 1, x)))
EvalPoly(c, x) == IF Len(c) = 0 THEN RZero ELSE Horner(c, 1, x)
Owns(a, p, x) ==
  \/ IF UpperClosed THEN RLt(a.xmin, x) /\ RLe(x, a.xmax)
                    ELSE RLe(a.xmin, x) /\ RLt(x, a.xmax)
  \/ FirstClosed /\ p = 1 /\ x = a.xmin      \* |x - xmin| < 10 eps: equality on this domain
RECURSIVE EvalXRec(_, _, _)
EvalXRec(areas, p, x) ==
  IF p > Len(areas) THEN RZero
  ELSE IF Owns(areas[p], p, x) THEN EvalPoly(areas[p].coefs, x)
  ELSE EvalXRec(areas, p + 1, x)
EvalX(areas, x) == EvalXRec(areas, 1, x)

(* all basis functions: A[j] = areas of basis function j (1-based)               *)
AllAreas(g, deg) == Eager([j \in 1..Len(g) |-> Areas(g, deg, j - 1)])

(* table vals[j][e] = basis j (1-based) at point pts[e]                         *)
EvalTableA(A, pts) ==
  Eager([j \in 1..Len(A) |-> Eager([e \in 1..Len(pts) |-> EvalX(A[j], pts[e])])])
EvalTable(g, deg, pts) == EvalTableA(AllAreas(g, deg), pts)

(* get_interpolation: identity if the target grid is (np.allclose) the grid,    *)
(* else R[t][j] = basis j at target point t.  On the exact domain points differ *)
(* by at least 1/64, so allclose is equality.                                   *)
Identity(n) == Eager([t \in 1..n |-> Eager([j \in 1..n |-> IF t = j THEN ROne ELSE RZero])])
GetInterpolationA(A, g, tgt) ==
  IF Len(tgt) = Len(g) /\ tgt = g THEN Identity(Len(g))
  ELSE LET tab == EvalTableA(A, tgt)
       IN Eager([t \in 1..Len(tgt) |-> Eager([j \in 1..Len(g) |-> tab[j][t]])])
GetInterpolation(g, deg, tgt) == GetInterpolationA(AllAreas(g, deg), g, tgt)

-----------------------------------------------------------------------------
(* Part 2: C34 -- what a basis must be, on tables of numbers                    *)
(*   g     grid (strictly increasing rationals), deg the polynomial degree       *)
(*   pts   evaluation points in [g[1], g[n]]                                     *)
(*   vals  vals[j][e] = value of basis function j at pts[e]                      *)

InGrid(g, x) == RLe(g[1], x) /\ RLe(x, g[Len(g)])

C34_Kronecker(g, pts, vals) ==
  \A e \in 1..Len(pts) : \A i \in 1..Len(g) :
     pts[e] = g[i] =>
       \A j \in 1..Len(g) : vals[j][e] = (IF i = j THEN ROne ELSE RZero)

C34_Partition(g, pts, vals) ==
  \A e \in 1..Len(pts) :
     InGrid(g, pts[e]) => RSumSeq(Eager([j \in 1..Len(g) |-> vals[j][e]])) = ROne

(* every monomial x^m, m <= deg (hence every polynomial of degree <= deg) is     *)
(* reproduced from its node values                                              *)
Powers(g, deg) == Eager([m \in 0..deg |-> Eager([j \in 1..Len(g) |-> RPow(g[j], m)])])
C34_ReproAt(pw, n, m, x, col) ==
  RSumSeq(Eager([j \in 1..n |-> RMul(pw[m][j], col[j])])) = RPow(x, m)
C34_PolyReproduce(g, deg, pts, vals) ==
  LET pw == Powers(g, deg) IN
  \A e \in 1..Len(pts) : InGrid(g, pts[e]) =>
     LET col == Eager([j \in 1..Len(g) |-> vals[j][e]]) IN
     \A m \in 0..deg : C34_ReproAt(pw, Len(g), m, pts[e], col)

(* the same three statements for a re-interpolation matrix R[t][j]              *)
Columns(R, n) == Eager([j \in 1..n |-> Eager([t \in 1..Len(R) |-> R[t][j]])])
C34_Reinterp(g, deg, tgt, R) ==
  LET vals == Columns(R, Len(g)) IN
  /\ Len(R) = Len(tgt)
  /\ \A t \in 1..Len(R) : Len(R[t]) = Len(g)
  /\ C34_Kronecker(g, tgt, vals)
  /\ C34_Partition(g, tgt, vals)
  /\ C34_PolyReproduce(g, deg, tgt, vals)

(* the coefficients of one area are the Lagrange polynomial of its block: value  *)
(* 1 at the own node, 0 at the other nodes of the block                          *)
C34_AreaLagrange(g, j, a) ==
  /\ a.kmin <= j /\ j <= a.kmax
  /\ Len(a.coefs) = a.kmax - a.kmin + 1
  /\ \A k \in a.kmin..a.kmax :
        EvalPoly(a.coefs, g[k + 1]) = (IF k = j THEN ROne ELSE RZero)

(* a block must contain both ends of its area (otherwise no Kronecker property)  *)
C34_BlockCoversArea(g, a) ==
  \E i \in 1..(Len(g) - 1) :
     /\ a.xmin = g[i] /\ a.xmax = g[i + 1]
     /\ a.kmin <= i - 1 /\ i <= a.kmax

(* rejection: exactly the invalid requests are refused                           *)
C34_Valid(raw, deg) == NoRepeats(raw) /\ deg >= 1 /\ Len(raw) >= deg + 1 /\ Len(raw) >= 2
C34_Rejection(raw, deg, refused) == refused <=> ~C34_Valid(raw, deg)

C34_All(g, deg, pts, vals) ==
  /\ C34_Kronecker(g, pts, vals)
  /\ C34_Partition(g, pts, vals)
  /\ C34_PolyReproduce(g, deg, pts, vals)

C34_Failing(g, deg, pts, vals) ==
  IF ~C34_Kronecker(g, pts, vals) THEN "kronecker"
  ELSE IF ~C34_Partition(g, pts, vals) THEN "partition"
  ELSE IF ~C34_PolyReproduce(g, deg, pts, vals) THEN "poly-reproduce"
  ELSE "none"

(* finite rational evaluation set of a grid: nodes (= area boundaries) and       *)
(* midpoints of all areas                                                        *)
EvalSet(g) ==
  Eager([e \in 1..(2 * Len(g) - 1) |->
     IF e % 2 = 1 THEN g[(e + 1) \div 2]
     ELSE RMul(<<1, 2>>, RAdd(g[e \div 2], g[e \div 2 + 1]))])

-----------------------------------------------------------------------------
(* Part 3: law plan (mode L) -- logarithmic mode and random grids.              *)
(* A cell fixes the class from which the harness draws a random grid; the        *)
(* harness reports, per cell and sample, the decade of the worst residual and    *)
(* the decade of its conditioning bound (integers).                              *)

LawModes == {"log", "lin"}
LawSizes == {<<2, 4>>, <<5, 10>>, <<11, 20>>, <<21, 40>>}         \* number of points
LawXmin == {<<-9, -7>>, <<-7, -4>>, <<-4, -1>>}                   \* decade range of x_min
LawDegrees == 1..6
LawNames == {"Partition", "Kronecker", "PolyReproduce", "Reinterp", "ReinterpTinyX"}

(* a cell is planned when some grid size of the class admits the degree; the     *)
(* tiny-x target grid clause (targets differing from the nodes only below 1e-8)  *)
(* needs x_min below 1e-8 and is a statement in log x (in x the shortcut of      *)
(* get_interpolation stays within its absolute tolerance)                        *)
LawPlanned(c) ==
  /\ c.size[2] > c.deg
  /\ c.law = "ReinterpTinyX" => (c.xmin = <<-9, -7>> /\ c.mode = "log")
LawCells ==
  {c \in [mode : LawModes, size : LawSizes, xmin : LawXmin, deg : LawDegrees, law : LawNames] :
     LawPlanned(c)}

(* Classes are decades (ceil(log10)).  The harness reports the residual of the    *)
(* law and a first-order rounding bound computed from the code's own coefficients *)
(* (sum |c_i u^i| per basis function, times eps and a small constant); on the     *)
(* unchanged tree the residual stays at least one decade below that bound         *)
(* (30 240 measurements over 60 seeds: worst ratio 0.029).                        *)
(*   threshold  = the class 1e-8, or two decades above the bound if that is larger *)
(*   resolved   = the threshold keeps 3 decades to the smallest structural        *)
(*                violation (1e-2 on O(1) normalised polynomials / 0-1 values)    *)
LawClass == -8
LawViolationFloor == -2
LawMargin == 3
LawThreshold(bound_e) == IMax(LawClass, bound_e + 2)
LawResolved(bound_e) == LawThreshold(bound_e) + LawMargin <= LawViolationFloor
(* verdict of one measurement [resid_e, bound_e] (ceil(log10(.)), integers)      *)
LawVerdict(resid_e, bound_e) ==
  IF ~LawResolved(bound_e) THEN "unresolved"
  ELSE IF resid_e <= LawThreshold(bound_e) THEN "pass" ELSE "fail"
-----------------------------------------------------------------------------
(* Part 4: C35 -- Mellin inversion of the basis along the solver's path (mode L). *)
(* A cell fixes contour, degree and the class of the random logarithmic grid.      *)
(* For every inversion node k (x = 1 excluded: the solver never inverts there) the *)
(* harness reports  k4 = floor(4 * r_k * dmin)  with r_k the scale of the Talbot    *)
(* path at that node (0.4*16/(0.1 - log x_k)) and dmin the smallest node spacing in *)
(* log x, and the decade of  max_j |inverse_jk - delta_jk|.  The truncated contour  *)
(* (cut 0.05) resolves a basis function only when r_k * dmin is large enough:       *)
(* measured on the unchanged tree (2093 nodes, 300 grids): error <= 6e-4 for        *)
(* r_k*dmin >= 0.5, but up to O(1) below 0.25.  Nodes below 0.5 are unresolved.     *)
C35Contours == {"ns", "singlet"}
C35Sizes == {<<4, 6>>, <<7, 12>>}
C35Xmin == {<<-6, -3>>, <<-3, -1>>}
C35Cells == [contour : C35Contours, deg : 1..4, size : C35Sizes, xmin : C35Xmin]
C35Class == -2                       \* 1e-2 on a 0/1 answer
C35ResolvedFrom == 2                 \* k4 >= 2, i.e. r_k * dmin >= 0.5
C35InteriorGross == 100              \* interior points (degree >= 2): |inverse - basis value| x 1000 <= 100, finite
C35PointVerdict(pt) ==               \* pt = <<k4, resid_e>>
  IF pt[1] < C35ResolvedFrom THEN "unresolved"
  ELSE IF pt[2] <= C35Class THEN "pass" ELSE "fail"
=============================================================================
