----------------------------- MODULE CardsTrace -----------------------------
(* B3 for C40.  One record per materialised dict-like / real card / interpolator     *)
(* construction.  Records:                                                          *)
(*  [src |-> "shape"|"card", T, v, oc, d1, d2]  outcome of raw -> safe_dump ->      *)
(*        safe_load -> from_dict -> compare as observed on the real code, in the     *)
(*        vocabulary of Cards!Outcome:  "ok" | "not-plain:<kind>-in-<container>" |   *)
(*        "safe-load-refused" | "load-failed:<exc>" | "differs:<class>" | "raw-failed:<exc>" *)
(*  [src |-> "interp", declLog, declDeg, dispLog, dispDeg, pts]  second clause       *)
(* property grade: the verdict depends on the OBSERVED outcome only.                 *)
(* conformance grade: the observed outcome is compared with the outcome the two      *)
(* designs of Cards.tla predict for the same (T, v)  -> "CONF" lines (diagnostics).  *)
EXTENDS Json, IOUtils, TLC, TLCExt, Sequences, Naturals
F == INSTANCE Cards WITH Design <- "faithful"
I == INSTANCE Cards WITH Design <- "intended"

TLog == JsonDeserialize(IOEnv.TRACE_FILE)
VARIABLE i
Init == i = 1
Next == i <= Len(TLog) /\ i' = i + 1

NpKind == {"npfloat64", "npfloat32", "npint64", "npint32", "npbool"}

(* the observation in the vocabulary of Cards!Outcome *)
ObsStr(r) ==
  CASE r.oc = "ok" -> "ok"
    [] r.oc = "not-plain" -> "not-plain:" \o r.d1 \o "-in-" \o r.d2
    [] r.oc = "differs" -> "differs:" \o r.d1
    [] r.oc = "load-failed" -> "load-failed:" \o r.d1
    [] OTHER -> r.oc

(* a field annotated with the npt.NDArray alias (bare or subscripted) somewhere in the type *)
RECURSIVE HasAliasArray(_)
HasAliasArray(T) == \/ T.t = "array" /\ T.cls # "ndarray"
                    \/ \E j \in DOMAIN T.args : HasAliasArray(T.args[j])

Verdict(r) ==
  IF r.src = "interp"
  THEN IF I!C40_Interp(r.declLog, r.declDeg, r.dispLog, r.dispDeg)
       THEN IF I!C40_InterpGrid(r.pts) THEN "ok" ELSE "C40:interpolator-grid-points-differ-from-declared"
       ELSE IF r.dispLog # r.declLog THEN "C40:interpolator-ignores-is-log" ELSE "C40:interpolator-degree"
  ELSE CASE r.oc = "ok" -> "ok"
         [] r.oc = "not-plain" ->
              IF r.d1 \in NpKind
              THEN IF r.d2 = "tuple" THEN "C40:numpy-scalar-in-tuple-not-plain" ELSE "C40:numpy-scalar-not-plain"
              ELSE "C40:not-plain:" \o r.d1 \o "-in-" \o r.d2
         [] r.oc = "differs" ->
              IF r.d1 \in {"array-not-restored", "value-differs"} /\ r.abs /\ HasAliasArray(r.T)
              THEN "C40:array-annotation-not-loadable" ELSE "C40:" \o r.d1
         [] r.oc = "load-failed" /\ r.abs /\ r.d1 \in {"AttributeError", "TypeError"} /\ HasAliasArray(r.T) ->
              "C40:array-annotation-not-loadable"
         [] OTHER -> "C40:" \o ObsStr(r)

(* which design the implementation followed on this record *)
Conf(r) ==
  IF r.src = "interp" \/ ~r.abs THEN "both"
  ELSE LET pf == F!Outcome(r.T, r.v)
           pi == I!Outcome(r.T, r.v)
       IN IF ObsStr(r) = pf /\ ObsStr(r) = pi THEN "both"
          ELSE IF ObsStr(r) = pf THEN "faithful"
          ELSE IF ObsStr(r) = pi THEN "intended"
          ELSE "neither:" \o pf \o "|" \o pi

Inv == i <= Len(TLog) =>
         LET r == TLog[i]
             v == Verdict(r)
             c == Conf(r)
         IN /\ IF v = "ok" THEN TRUE ELSE PrintT(<<"BAD", i, v>>)
            /\ IF c = "both" THEN TRUE ELSE PrintT(<<"CONF", i, c>>)
Post == TLCGet("stats").diameter = Len(TLog) + 1
=============================================================================
