---------------------------- MODULE RunnerKTrace ----------------------------
(* B3 for C53.  Records:                                                         *)
(*  [ev |-> "structure", ms, o, targets, sv, xifOne, parts, retrieves]             *)
(*     a real (shimmed) solve: for every computed evolution part the flags the       *)
(*     implementation passed to the operator (isThreshold) and whether the Mellin     *)
(*     integration ran (integrated = FALSE: unity shortcut); per target the headers    *)
(*     retrieved for the join.  Judged by Runner's C53_KPlacement on the REAL flags.   *)
(*  [ev |-> "continuity", where, sv, xifOne, nf, jump, drift]                          *)
(*     real quadrature: operator at a patch boundary / initial scale / interior         *)
(*     point versus targets displaced by relative 1e-6 and 1e-7 inside the patch;        *)
(*     jump, drift = ceil(-log10(relative change)) for the two displacements             *)
(*     (class 99 = bitwise equal).  O(epsilon) continuity = both classes >= 4.           *)
EXTENDS Atlas, Json, IOUtils, TLC, TLCExt
TLog == JsonDeserialize(IOEnv.TRACE_FILE)
VARIABLE i
Init == i = 1
Next == i <= Len(TLog) /\ i' = i + 1

PartOf(r, h) == CHOOSE q \in 1..Len(r.parts) : r.parts[q].hdr = h
HasKReal(r, h) ==
  /\ h.kind = "E"
  /\ \E q \in 1..Len(r.parts) : r.parts[q].hdr = h
  /\ LET p == r.parts[PartOf(r, h)] IN
     r.sv = "expanded" /\ ~r.xifOne /\ ~p.isThreshold /\ p.integrated
Reverse(s) == [j \in 1..Len(s) |-> s[Len(s) + 1 - j]]
KCount(r, w) == Cardinality({q \in 1..Len(w) : HasKReal(r, w[q])})

StructVerdict(r) ==
  IF r.err # "" THEN "CONF:solve-raised:" \o r.err
  ELSE IF \E j \in 1..Len(r.retrieves) :
            LET w == Reverse(r.retrieves[j]) IN
            (r.sv = "expanded" /\ ~r.xifOne) /\ ~(KCount(r, w) = 1 /\ HasKReal(r, w[1]))
       THEN "C53:scale-variation-factor-not-in-final-part"
  ELSE IF \E j \in 1..Len(r.retrieves) :
            ~(r.sv = "expanded" /\ ~r.xifOne) /\ KCount(r, Reverse(r.retrieves[j])) # 0
       THEN "C53:unexpected-factor"
  ELSE "ok"

ContVerdict(r) ==
  IF r.err # "" THEN "CONF:solve-raised:" \o r.err
  ELSE IF r.jump < 4 \/ r.drift < 4 THEN "C53:discontinuous-at-" \o r.where
  ELSE "ok"

Verdict(r) == IF r.ev = "structure" THEN StructVerdict(r)
              ELSE IF r.ev = "continuity" THEN ContVerdict(r) ELSE "CONF:unknown-record"
Inv == i <= Len(TLog) =>
         LET v == Verdict(TLog[i]) IN v = "ok" \/ PrintT(<<"BAD", i, v>>)
Post == TLCGet("stats").diameter = Len(TLog) + 1
=============================================================================
