CONSTANT Mutant = "qed12_ca"
INIT Init
NEXT Next
INVARIANT InvCasimir
INVARIANT InvDecimal
INVARIANT InvQed
INVARIANT InvKnown
INVARIANT InvEval
CHECK_DEADLOCK FALSE
