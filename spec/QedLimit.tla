------------------------------- MODULE QedLimit -------------------------------
(* C14, end-to-end clause: as alpha_em -> 0 the QED x QCD operator on the parton     *)
(* channels converges to the pure-QCD operator up to the discretisation error of the *)
(* iterated solution, which vanishes as the number of iterations grows.              *)
(*  Cells (enumerated by TLC, every one must be measured):                            *)
(*    order  QCD order 1..3, qed  QED order 1..2                                       *)
(*    shape  natural      one segment inside the natural patch of its scales           *)
(*           forced-above one segment whose nf is kept BELOW the natural one of the     *)
(*                        scales it runs through (target beyond a matching scale,      *)
(*                        requested with the lower nf)                                  *)
(*           forced-below one segment with nf ABOVE the natural one                     *)
(*           cross-up / cross-down  two segments and the matching in between           *)
(*  Measurement: G(n) = max |O_qed(n) - O_qcd| / max |O_qcd| on the 13 x 13 parton      *)
(*  channels with alpha_em = 1e-9, n = 4 and 16 iterations; the harness reports         *)
(*  100 x log4 of G(4)/G(16) (the midpoint rule gives 200) and the decade of G(16).     *)
(*  Required: the gap shrinks at least linearly in 1/n (>= 100) or has already reached  *)
(*  the alpha_em floor (G(16) <= 1e-7).  A coupling step list that leaves the RG         *)
(*  trajectory of the segment stalls: exponent ~ 0-50 at G ~ 1e-3.                       *)
EXTENDS Naturals, Integers, Sequences, FiniteSets, TLC
Shapes == {"natural", "forced-above", "forced-below", "cross-up", "cross-down"}
Cells == [order : 1..3, qed : 1..2, shape : Shapes]
FloorDecade == 7
C14_Limit(e100, dec16) == e100 >= 100 \/ dec16 >= FloorDecade
=============================================================================
