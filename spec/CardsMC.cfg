CONSTANT Design = "intended"
INIT Init
NEXT Next
INVARIANT InvPlain
INVARIANT InvRoundTrip
INVARIANT InvEnumByName
INVARIANT InvInterp
CHECK_DEADLOCK FALSE
