CONSTANTS
  INF = 99
  CliffRule = "target-on-wall"
INIT Init
NEXT Next
INVARIANT Inv
POSTCONDITION Post
CHECK_DEADLOCK FALSE
