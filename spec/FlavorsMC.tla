----------------------------- MODULE FlavorsMC -----------------------------
(* B1 for C31, C32, C33, C46: the design (Part 3 of Flavors: the literal tables *)
(* and algorithms of the implementation, with the intended unified sector map)  *)
(* satisfies the property predicates (Part 2) for every nf in 3..6, QCD and QED.*)
(* The design switches (CONSTANTS of Flavors) must each be refuted.             *)
EXTENDS Flavors
VARIABLES nf, qed, go
vars == <<nf, qed, go>>
(* the eight instances are initial states on which nothing is evaluated; the predicates  *)
(* are evaluated on their successors, so that TLC's workers share the instances          *)
Init == nf \in NfRange /\ qed \in BOOLEAN /\ go = FALSE
Next == go = FALSE /\ go' = TRUE /\ UNCHANGED <<nf, qed>>

QcdSectorSeq == <<<<100, 100>>, <<100, 21>>, <<21, 100>>, <<21, 21>>,
                  <<NsMinus, 0>>, <<NsPlus, 0>>, <<NsV, 0>>>>
SingPids == <<21, 22, 100, 101>>
ValPids == <<10200, 10204>>
UniSectorSeq ==
  [k \in 1..16 |-> <<SingPids[((k - 1) \div 4) + 1], SingPids[((k - 1) % 4) + 1]>>]
  \o [k \in 1..4 |-> <<ValPids[((k - 1) \div 2) + 1], ValPids[((k - 1) % 2) + 1]>>]
  \o <<<<NsPlusD, 0>>, <<NsMinusD, 0>>, <<NsPlusU, 0>>, <<NsMinusU, 0>>>>
SectorSeq(q) == IF q THEN UniSectorSeq ELSE QcdSectorSeq
(* symbolic kernels: distinct small integers *)
AdSym(q) == [k \in 1..Len(SectorSeq(q)) |-> <<SectorSeq(q)[k][1], SectorSeq(q)[k][2], k + 1>>]
OmeSym == <<<<100, 100, 2>>, <<100, 21, 3>>, <<21, 100, 5>>, <<21, 21, 7>>, <<200, 200, 11>>,
            <<90, 100, 13>>, <<90, 21, 17>>, <<90, 90, 19>>, <<100, 90, 23>>, <<21, 90, 29>>,
            <<91, 91, 31>>>>

(* ---- the bases defined from their meaning are complete orthogonal bases ------------ *)
P_InvBasis == LET R == BasisRows(nf, qed) IN Len(R) = N /\ C31_Orthogonal(R)
P_InvDeltaDocs ==        \* FlavorSpace.rst: 2u+ - d+ - s+ ; 1 ; 3/2 ; 1
  DeltaAlpha(nf) = CASE nf = 3 -> <<2, 1>> [] nf = 4 -> <<1, 1>> [] nf = 5 -> <<3, 2>> [] nf = 6 -> <<1, 1>>
P_InvSectorLabels == {SectorSeq(qed)[k] : k \in 1..Len(SectorSeq(qed))} = SectorLabels(qed)

(* ---- C31 ---------------------------------------------------------------------------- *)
CodeBasis(q) == IF q THEN CodeUniBasis ELSE CodeEvolBasis
CodeRot(q) == IF q THEN CodeRotUni ELSE CodeRotQcd
P_InvC31Tables ==
  /\ C31_LabelsOk(CodeBasis(qed), qed)
  /\ C31_RowsOk(CodeBasis(qed), CodeRot(qed))
  /\ C31_Orthogonal(CodeRot(qed))
P_InvC31Ref == \A lab \in SectorLabels(qed) : C31_SectorMap(SectorMapRef(lab, nf, qed), lab, nf, qed)
P_InvC31Available == \A lab \in SectorLabels(qed) : Available(lab, qed)
P_InvC31Sector ==
  \A lab \in SectorLabels(qed) :
     Available(lab, qed) => C31_SectorMap(AdProjector(lab, nf, qed), lab, nf, qed)
P_InvC31Diag ==
  (\A lab \in DiagonalSectors(qed) : Available(lab, qed)) =>
     LET ds == SelectSeq(SectorSeq(qed), IsDiagonalSector)
         Ps == TLCEval([k \in 1..Len(ds) |-> AdProjector(ds[k], nf, qed)])
     IN /\ \A k \in 1..Len(Ps) : C31_Idempotent(Ps[k])
        /\ C31_MutuallyOrthogonal(Ps)
        /\ C31_Complete(Ps, nf, qed)

(* ---- C32 ---------------------------------------------------------------------------- *)
P_InvC32Weights ==
  \A l \in Basis(nf, qed) : \A nz \in BOOLEAN : C32_Weights(Weights(l, nf, qed, nz), l, nf, nz)
Blow(ms, nfin, nfout) ==
  /\ GetRange(ms) = <<nfin, nfout>>
  /\ C32_Range(GetRange(ms), {<<m[1], m[2]>> : m \in ms})
  /\ C32_BlowUp(ToFlavorTensor(ms, qed), ms, nfin, nfout, qed)
P_InvC32Physical == Blow(PhysicalMembersOf(AdSym(qed), nf, qed), nf, nf)
P_InvC32Matching == nf <= 5 => Blow(MatchingMembersOf(OmeSym, nf, qed), nf, nf)
(* label sets of products with the threshold rotation: basis nf+1 on one side, nf on the other *)
Compose(L, R) ==      \* sets of triples; value: a fresh small integer per (target, input)
  LET keys == {<<l[1], r[2]>> : l \in {x \in L : \E y \in R : x[2] = y[1]}, r \in R}
      ks == {k \in keys : \E l \in L, r \in R : l[1] = k[1] /\ l[2] = r[1] /\ r[2] = k[2]}
      ps == SelectSeq(PairSeq, LAMBDA p : p \in ks)
  IN {<<ps[k][1], ps[k][2], RInt(k + 1)>> : k \in 1..Len(ps)}
P_InvC32Rotated ==
  nf <= 5 =>
    /\ Blow(Compose(RotateMatching(nf + 1, qed, FALSE), MatchingMembersOf(OmeSym, nf, qed)), nf, nf + 1)
    /\ Blow(Compose(MatchingMembersOf(OmeSym, nf, qed), RotateMatching(nf + 1, qed, TRUE)), nf + 1, nf)

(* ---- C33 ---------------------------------------------------------------------------- *)
P_InvC33 ==
  nf >= 4 => C33_Threshold(RotateMatching(nf, qed, FALSE), RotateMatching(nf, qed, TRUE), nf, qed)

(* ---- C46 ---------------------------------------------------------------------------- *)
XSym == [j \in 1..N |-> IntVec(<<j, ((j * j) % 7) - 3, 5 - j>>)]
Proj(reprs) ==
  LET Y == Project(reprs, XSym) IN C46_Family(reprs) /\ C46_Projection(reprs, XSym, Y, Project(reprs, Y))
P_InvC46 ==
  LET R == BasisRows(nf, qed)
  IN /\ Proj(R)
     /\ Proj(SubSeq(R, 1, 5))
     /\ Proj(SubSeq(R, 4, 4))
     /\ Proj([k \in 1..4 |-> UnitVec(N, 2 * k + nf)])
InvBasis == go => P_InvBasis
InvDeltaDocs == go => P_InvDeltaDocs
InvSectorLabels == go => P_InvSectorLabels
InvC31Tables == go => P_InvC31Tables
InvC31Ref == go => P_InvC31Ref
InvC31Available == go => P_InvC31Available
InvC31Sector == go => P_InvC31Sector
InvC31Diag == go => P_InvC31Diag
InvC32Weights == go => P_InvC32Weights
InvC32Physical == go => P_InvC32Physical
InvC32Matching == go => P_InvC32Matching
InvC32Rotated == go => P_InvC32Rotated
InvC33 == go => P_InvC33
InvC46 == go => P_InvC46
=============================================================================
