CONSTANT QedSectorMap = "unified"
CONSTANT DeltaRows = "orthogonalised"
CONSTANT NormalizeOut = TRUE
CONSTANT QcdOthCoef = "nf"
CONSTANT NormalizeProj = TRUE
INIT Init
NEXT Next
CHECK_DEADLOCK FALSE
INVARIANT InvC33
