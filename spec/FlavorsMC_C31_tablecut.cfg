CONSTANT QedSectorMap = "unified"
CONSTANT DeltaRows = "table-cut"
CONSTANT NormalizeOut = TRUE
CONSTANT QcdOthCoef = "nf-1"
CONSTANT NormalizeProj = TRUE
INIT Init
NEXT Next
CHECK_DEADLOCK FALSE
INVARIANT InvC31Sector
