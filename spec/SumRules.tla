------------------------------- MODULE SumRules -------------------------------
(* C05: applying an EKO to a smooth input conserves the total momentum and the valence  *)
(* number of every quark flavour (unpolarised), and the first moments of the non-singlet  *)
(* quark combinations T3, T8 (polarised), up to the accuracy of the x-space interpolation   *)
(* and of the truncated small-x region; the statement's tolerance is 1% relative.           *)
(* Decided on real solves with real quadrature (24-point Lambert grid on [1e-4, 1], degree  *)
(* 3): the operator is contracted with a smooth toy input whose small-x tails carry         *)
(* negligible momentum / number below the grid, and moments are taken with the integrals of  *)
(* the library's own interpolation basis (Gauss-Legendre in ln x on every grid interval).     *)
(* The harness reports decades: violation <= 10^-dec.  Required: dec >= 2 (the 1% of the       *)
(* statement); clean tree: 1e-3 (momentum) and 2e-4 (numbers) - a sum rule broken at the        *)
(* perturbative level (a wrong entry of an anomalous dimension, a matching element of the wrong   *)
(* normalisation, a flavour dropped in a rotation) shows as several per cent to O(1).              *)
(* Cells: kind x order x shape; shapes: fixed-flavour up / down by a factor 3 in scale, variable-   *)
(* flavour up / down across the bottom matching scale, and a five-flavour segment (also with QED).  *)
(* The toy input carries a sizeable bottom content in every cell (intrinsic where bottom is not       *)
(* active), so that heavy-quark entries of matchings and rotations weigh in the totals.                *)
EXTENDS Naturals, Integers, Sequences, FiniteSets, TLC
CONSTANT Thorough
Kinds == {"unpolarized", "polarized"}
ShapesAll == {"ffns-up", "ffns-down", "vfns-up", "vfns-down"}
Cells == IF Thorough
         THEN [kind : Kinds, order : 1..3, qed : {0}, shape : ShapesAll]
              \cup [kind : {"unpolarized"}, order : {1}, qed : {1}, shape : {"ffns-up", "ffns5-up"}]
              \cup [kind : {"unpolarized"}, order : {1, 2}, qed : {0}, shape : {"ffns5-up", "vfns-down-charm"}]
         ELSE {[kind |-> "unpolarized", order |-> 1, qed |-> 0, shape |-> "ffns-up"],
               [kind |-> "unpolarized", order |-> 2, qed |-> 0, shape |-> "vfns-up"],
               [kind |-> "unpolarized", order |-> 2, qed |-> 0, shape |-> "vfns-down"],
               [kind |-> "polarized", order |-> 1, qed |-> 0, shape |-> "ffns-down"],
               [kind |-> "polarized", order |-> 2, qed |-> 0, shape |-> "vfns-up"],
               [kind |-> "unpolarized", order |-> 1, qed |-> 1, shape |-> "ffns5-up"],
               [kind |-> "unpolarized", order |-> 1, qed |-> 0, shape |-> "vfns-down-charm"]}
TolDecade == 2
C05_Conserved(c, momDec, numDec) ==
  IF c.kind = "unpolarized" THEN momDec >= TolDecade /\ numDec >= TolDecade
  ELSE numDec >= TolDecade        \* polarised: first moments of T3 and T8
=============================================================================
