INIT Init
NEXT Next
INVARIANT InvShortcut
INVARIANT InvCells
CHECK_DEADLOCK FALSE
