CONSTANT Variant = "b0g0e2"
CONSTANT Tier = "quick"
INIT Init
NEXT Next
INVARIANT InvReexp
INVARIANT InvExpo
INVARIANT InvExpa
CHECK_DEADLOCK FALSE
