CONSTANT Variant = "faithful"
INIT Init
NEXT Next
INVARIANT InvExpandedLaw
INVARIANT InvExpandedDerived
INVARIANT InvDerivedLaw
INVARIANT InvDecoupling
INVARIANT InvMass
CHECK_DEADLOCK FALSE
