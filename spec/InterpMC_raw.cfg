CONSTANTS S = 4 Step = 1 MinN = 2 MaxN = 4 Degrees = {1}
CONSTANTS UpperClosed = TRUE FirstClosed = TRUE
INIT InitRaw
NEXT Next
INVARIANT InvC34
INVARIANT InvReject
CHECK_DEADLOCK FALSE
