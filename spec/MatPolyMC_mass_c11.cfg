CONSTANT Variant = "mass_c11"
INIT Init
NEXT Next
INVARIANT InvExpandedLaw
INVARIANT InvExpandedDerived
INVARIANT InvDerivedLaw
INVARIANT InvDecoupling
INVARIANT InvMass
CHECK_DEADLOCK FALSE
