CONSTANT Variant = "mass_c11"
INIT Init
NEXT Next
INVARIANT InvExpandedLaw
INVARIANT InvTruncation
INVARIANT InvExpandedDerived
INVARIANT InvDecoupling
INVARIANT InvMass
CHECK_DEADLOCK FALSE
