----------------------------- MODULE SvOrderTrace -----------------------------
EXTENDS SvOrder, Json, IOUtils, TLCExt
TLog == JsonDeserialize(IOEnv.TRACE_FILE)
VARIABLE i
Init == i = 1
Next == i <= Len(TLog) /\ i' = i + 1
Verdict(r) ==
  IF r.ev = "unit"
  THEN IF r.cell \notin UnitCells THEN "CONF:cell-outside-domain"
       ELSE IF r.err # "" THEN "CONF:solve-raised:" \o r.err
       ELSE IF ~C51_Unit(r.same) THEN "C51:ratio-one-differs-from-unvaried"
       ELSE "ok"
  ELSE IF r.ev = "order"
  THEN IF r.cell \notin OrderCells THEN "CONF:cell-outside-domain"
       ELSE IF r.err # "" THEN "CONF:solve-raised:" \o r.err
       ELSE IF ~r.resolved THEN "DIAG:unresolved"
       ELSE IF ~C51_Order(r.cell, r.e100) THEN "C51:difference-below-working-order"
       ELSE "ok"
  ELSE IF r.ev = "coverage"
  THEN IF {r.unit[j] : j \in 1..Len(r.unit)} # UnitCells THEN "COVERAGE:unit-cells"
       ELSE IF {r.order[j] : j \in 1..Len(r.order)} # OrderCells THEN "COVERAGE:order-cells"
       ELSE "ok"
  ELSE "CONF:unknown-record"
Inv == i <= Len(TLog) =>
         LET v == Verdict(TLog[i]) IN v = "ok" \/ PrintT(<<"BAD", i, v>>)
Post == TLCGet("stats").diameter = Len(TLog) + 1
=============================================================================
