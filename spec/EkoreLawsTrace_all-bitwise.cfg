CONSTANTS
  J <- EnvJ
  Switch = "all-bitwise"
INIT Init
NEXT Next
INVARIANT Inv
POSTCONDITION Post
CHECK_DEADLOCK FALSE
