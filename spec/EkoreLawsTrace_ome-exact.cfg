CONSTANTS
  J <- EnvJ
  Switch = "ome-exact"
INIT Init
NEXT Next
INVARIANT Inv
POSTCONDITION Post
CHECK_DEADLOCK FALSE
