CONSTANTS UpperClosed = TRUE FirstClosed = TRUE ContractFaithful = TRUE InputInverse = TRUE
INIT Init
NEXT Next
INVARIANT InvPrint
CHECK_DEADLOCK FALSE
