-------------------------- MODULE CouplingStepsTrace --------------------------
(* C16, step structure: "the coupling at any scale with a given nf depends only on *)
(* the path dictated by the matching scales".  One record per real Couplings.a      *)
(* query with the reference point in ANY patch (also outside its natural one, or on   *)
(* a matching scale with either nf) and any target: the decoupling steps the          *)
(* implementation took - which quark's matching-scale ratio it read, which             *)
(* coefficient table (up / down) it asked for and with which nf - and the per-patch      *)
(* solutions it requested.  Expected steps come from Atlas!Path.                         *)
EXTENDS Atlas, Json, IOUtils, TLC, TLCExt
TLog == JsonDeserialize(IOEnv.TRACE_FILE)
VARIABLE i
Init == i = 1
Next == i <= Len(TLog) /\ i' = i + 1

Pt(p) == <<p[1], p[2]>>
ExpectedDec(r) ==
  LET p == Path(r.ms, Pt(r.ref), Pt(r.target)) IN
  [j \in 1..(Len(p) - 1) |->
     LET hq == Max(p[j].nf, p[j + 1].nf)
         down == p[j + 1].nf < p[j].nf IN
     [quark |-> hq - 4, dir |-> IF down THEN "down" ELSE "up", arg |-> hq - 1]]
ExpectedRuns(r) ==
  LET p == Path(r.ms, Pt(r.ref), Pt(r.target))
      segs == SelectSeq(p, LAMBDA s : s.origin # s.target) IN
  [j \in 1..Len(segs) |-> [nf |-> segs[j].nf, from |-> segs[j].origin, to |-> segs[j].target]]

(* The value clause.  Steps(r) is what the path dictated by the matching scales requires:   *)
(* per-patch runs (zero-length ones dropped) interleaved with the decoupling steps.  The      *)
(* harness asks TLC for Steps(r) first (PlanInv), composes exactly these steps with the      *)
(* library's own primitives (Couplings.compute of a fresh object, the coefficient tables     *)
(* judged in DecouplingTrace) and reports in r.val whether the value Couplings.a returned     *)
(* equals that composition (class "eq": relative difference <= 1e-12).  This clause does not   *)
(* depend on how the implementation organises its internal calls.                             *)
RECURSIVE StepsFrom(_, _)
StepsFrom(p, j) ==
  IF j > Len(p) THEN <<>>
  ELSE LET run == IF p[j].origin # p[j].target
                  THEN <<[k |-> "run", nf |-> p[j].nf, a |-> p[j].origin, b |-> p[j].target, q |-> 0, dir |-> "-"]>>
                  ELSE <<>>
           dec == IF j < Len(p)
                  THEN LET hq == Max(p[j].nf, p[j + 1].nf) IN
                       <<[k |-> "dec", nf |-> hq - 1, a |-> 0, b |-> 0, q |-> hq - 4,
                          dir |-> IF p[j + 1].nf < p[j].nf THEN "down" ELSE "up"]>>
                  ELSE <<>>
       IN run \o dec \o StepsFrom(p, j + 1)
Steps(r) == StepsFrom(Path(r.ms, Pt(r.ref), Pt(r.target)), 1)
PlanInv == i <= Len(TLog) => PrintT(<<"PLAN", i, Steps(TLog[i])>>)

(* how the implementation organised its calls: conformance grade only *)
Conformance(r) ==
  IF Len(r.dec) # Len(ExpectedDec(r)) THEN "CONF:number-of-decoupling-steps"
  ELSE IF \E j \in 1..Len(r.dec) : r.dec[j].quark # ExpectedDec(r)[j].quark THEN "CONF:matching-scale-of-the-wrong-quark"
  ELSE IF \E j \in 1..Len(r.dec) : r.dec[j].dir # ExpectedDec(r)[j].dir THEN "CONF:decoupling-direction"
  ELSE IF \E j \in 1..Len(r.dec) : r.dec[j].arg # ExpectedDec(r)[j].arg THEN "CONF:decoupling-coefficients-for-wrong-nf"
  ELSE IF r.runs # ExpectedRuns(r) THEN "CONF:per-patch-running-differs-from-path"
  ELSE "ok"

Verdict(r) ==
  IF r.exc # "" THEN "C16:query-raised:" \o r.exc
  ELSE IF r.val # "eq" THEN "C16:value-differs-from-composition-along-the-path"
  ELSE "ok"
Inv == i <= Len(TLog) =>
         LET v == Verdict(TLog[i])
             c == IF TLog[i].exc = "" THEN Conformance(TLog[i]) ELSE "ok" IN
         /\ (v = "ok" \/ PrintT(<<"BAD", i, v>>))
         /\ (c = "ok" \/ PrintT(<<"CONF", i, c>>))
Post == TLCGet("stats").diameter = Len(TLog) + 1
=============================================================================
