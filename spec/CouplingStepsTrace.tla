-------------------------- MODULE CouplingStepsTrace --------------------------
(* C16, step structure: "the coupling at any scale with a given nf depends only on *)
(* the path dictated by the matching scales".  One record per real Couplings.a      *)
(* query with the reference point in ANY patch (also outside its natural one, or on   *)
(* a matching scale with either nf) and any target: the decoupling steps the          *)
(* implementation took - which quark's matching-scale ratio it read, which             *)
(* coefficient table (up / down) it asked for and with which nf - and the per-patch      *)
(* solutions it requested.  Expected steps come from Atlas!Path.                         *)
EXTENDS Atlas, Json, IOUtils, TLC, TLCExt
TLog == JsonDeserialize(IOEnv.TRACE_FILE)
VARIABLE i
Init == i = 1
Next == i <= Len(TLog) /\ i' = i + 1

Pt(p) == <<p[1], p[2]>>
ExpectedDec(r) ==
  LET p == Path(r.ms, Pt(r.ref), Pt(r.target)) IN
  [j \in 1..(Len(p) - 1) |->
     LET hq == Max(p[j].nf, p[j + 1].nf)
         down == p[j + 1].nf < p[j].nf IN
     [quark |-> hq - 4, dir |-> IF down THEN "down" ELSE "up", arg |-> hq - 1]]
ExpectedRuns(r) ==
  LET p == Path(r.ms, Pt(r.ref), Pt(r.target))
      segs == SelectSeq(p, LAMBDA s : s.origin # s.target) IN
  [j \in 1..Len(segs) |-> [nf |-> segs[j].nf, from |-> segs[j].origin, to |-> segs[j].target]]

Verdict(r) ==
  IF r.exc # "" THEN "C16:query-raised:" \o r.exc
  ELSE IF Len(r.dec) # Len(ExpectedDec(r)) THEN "C16:number-of-decoupling-steps"
  ELSE IF \E j \in 1..Len(r.dec) : r.dec[j].quark # ExpectedDec(r)[j].quark THEN "C16:matching-scale-of-the-wrong-quark"
  ELSE IF \E j \in 1..Len(r.dec) : r.dec[j].dir # ExpectedDec(r)[j].dir THEN "C16:decoupling-direction"
  ELSE IF \E j \in 1..Len(r.dec) : r.dec[j].arg # ExpectedDec(r)[j].arg THEN "C16:decoupling-coefficients-for-wrong-nf"
  ELSE IF r.runs # ExpectedRuns(r) THEN "C16:per-patch-running-differs-from-path"
  ELSE "ok"
Inv == i <= Len(TLog) =>
         LET v == Verdict(TLog[i]) IN v = "ok" \/ PrintT(<<"BAD", i, v>>)
Post == TLCGet("stats").diameter = Len(TLog) + 1
=============================================================================
