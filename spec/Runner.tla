------------------------------- MODULE Runner -------------------------------
(* The managed runner of eko (src/eko/runner/{managed,recipes,operators}.py):    *)
(* targets -> de-duplicated recipes -> parts computed and stored once -> per      *)
(* target the parts along its matched path are retrieved and joined, later steps   *)
(* to the left.  Scales are tokens as in Atlas.                                    *)
(*                                                                               *)
(* Design switch CliffRule:                                                       *)
(*   "target-on-wall"     cliff = the segment's target is a wall (as found in the   *)
(*                        code: also true for a FINAL segment ending on a matching  *)
(*                        scale)                                                   *)
(*   "intermediate-only"  cliff = the segment is followed by a matching            *)
EXTENDS Atlas, TLC

CONSTANTS CliffRule, MaxTargets, Scales, SvModes, MsSet

VARIABLES ms, origin, targets,     \* the instance (fixed after Init)
          sv, xifOne,              \* scale-variation scheme and whether xif = 1
          phase,                   \* "create" | "parts" | "join" | "done"
          todo,                    \* recipes not yet computed
          count,                   \* recipe -> number of times computed
          stored,                  \* recipes whose part is in the inventory
          ops,                     \* target index -> word (sequence of recipes, leftmost applied last)
          nextT                    \* index of the next target to join
inst == <<ms, origin, targets, sv, xifOne>>
vars == <<ms, origin, targets, sv, xifOne, phase, todo, count, stored, ops, nextT>>

WallSet(m) == {Walls(m)[j] : j \in 1..Len(Walls(m))}

EvoRecipe(seg, cliff) == [kind |-> "E", origin |-> seg.origin, target |-> seg.target, nf |-> seg.nf, cliff |-> cliff]
MatRecipe(x) == [kind |-> "M", scale |-> x.scale, hq |-> x.hq, inverse |-> x.inverse]

(* recipes._elements *)
Elements(m, o, t) ==
  LET mp == MatchedPath(m, o, t) IN
  [j \in 1..Len(mp) |->
     IF mp[j].kind = "seg"
     THEN EvoRecipe(mp[j], IF CliffRule = "target-on-wall" THEN mp[j].target \in WallSet(m)
                           ELSE j < Len(mp))
     ELSE MatRecipe(mp[j])]

Range(s) == {s[j] : j \in 1..Len(s)}
Needed == UNION {Range(Elements(ms, origin, targets[j])) : j \in 1..Len(targets)}
Reverse(s) == [j \in 1..Len(s) |-> s[Len(s) + 1 - j]]

(* does the part of recipe r contain the expanded scale-variation factor K?        *)
(* Operator.compute / quad_ker: applied iff expanded, xif # 1 and not is_threshold  *)
HasK(r) == r.kind = "E" /\ sv = "expanded" /\ ~xifOne /\ ~r.cliff

SortedMs == {m \in [1..3 -> Scales] : m[1] <= m[2] /\ m[2] <= m[3]}
Points == Scales \X NfRange

Init ==
  /\ ms \in MsSet
  /\ origin \in Points
  /\ targets \in UNION {[1..n -> Points] : n \in 1..MaxTargets}
  /\ sv \in SvModes
  /\ xifOne \in BOOLEAN
  /\ phase = "create"
  /\ todo = {}
  /\ count = <<>>
  /\ stored = {}
  /\ ops = <<>>
  /\ nextT = 1

(* recipes.create: the set of all elements (list(set(...))) *)
Create ==
  /\ phase = "create"
  /\ todo' = Needed
  /\ count' = [r \in Needed |-> 0]
  /\ phase' = "parts"
  /\ UNCHANGED <<inst, stored, ops, nextT>>

(* for recipe in eko.recipes: eko.parts[recipe] = evolve(...)  -- evolutions first,  *)
(* then matchings; the order inside each loop is the iteration order of a set        *)
Compute(r) ==
  /\ phase = "parts"
  /\ r \in todo
  /\ (r.kind = "M" => \A q \in todo : q.kind = "M")
  /\ todo' = todo \ {r}
  /\ count' = [count EXCEPT ![r] = @ + 1]
  /\ stored' = stored \cup {r}
  /\ phase' = IF todo' = {} THEN "join" ELSE "parts"
  /\ UNCHANGED <<inst, ops, nextT>>

(* for ep in operator.evolgrid: retrieve + join + store *)
Join ==
  /\ phase = "join"
  /\ nextT <= Len(targets)
  /\ LET el == Elements(ms, origin, targets[nextT]) IN
     /\ Range(el) \subseteq stored           \* otherwise _retrieve raises LookupError
     /\ ops' = [j \in (DOMAIN ops) \cup {nextT} |-> IF j = nextT THEN Reverse(el) ELSE ops[j]]
  /\ nextT' = nextT + 1
  /\ phase' = IF nextT' > Len(targets) THEN "done" ELSE "join"
  /\ UNCHANGED <<inst, todo, count, stored>>

Next == Create \/ (\E r \in todo : Compute(r)) \/ Join
Spec == Init /\ [][Next]_vars

-----------------------------------------------------------------------------
(* C02 *)
C02_Word == \A j \in DOMAIN ops :
  LET mp == MatchedPath(ms, origin, targets[j])
      w == ops[j] IN
  /\ Len(w) = Len(mp)
  /\ \A q \in 1..Len(mp) :
       LET x == mp[q]  r == w[Len(mp) + 1 - q] IN
       IF x.kind = "seg" THEN r.kind = "E" /\ r.origin = x.origin /\ r.target = x.target /\ r.nf = x.nf
       ELSE r.kind = "M" /\ r.scale = x.scale /\ r.hq = x.hq /\ r.inverse = x.inverse
C02_Once == phase \in {"join", "done"} => \A r \in DOMAIN count : count[r] = 1
C02_NeverStuck == phase = "join" /\ nextT <= Len(targets) =>
                    Range(Elements(ms, origin, targets[nextT])) \subseteq stored
C02_AllJoined == phase = "done" => DOMAIN ops = 1..Len(targets)

(* C03 / C47: the word of a target is a function of the instance and the target alone *)
C03_TargetFree == \A j \in DOMAIN ops : ops[j] = Reverse(Elements(ms, origin, targets[j]))

(* C53: with an expanded scale variation at xif # 1 every stored operator contains   *)
(* the factor K exactly once, in its final (leftmost) evolution part; this is what    *)
(* makes the operator of a target ON a matching scale the limit of its neighbours     *)
KCount(w) == Cardinality({q \in 1..Len(w) : HasK(w[q])})
C53_KPlacement == \A j \in DOMAIN ops :
  (sv = "expanded" /\ ~xifOne) => (KCount(ops[j]) = 1 /\ HasK(ops[j][1]))
C53_NoKElsewhere == \A j \in DOMAIN ops :
  ~(sv = "expanded" /\ ~xifOne) => KCount(ops[j]) = 0
(* intermediate parts never contain K *)
C53_IntermediateClean == \A j \in DOMAIN ops : \A q \in 2..Len(ops[j]) : ~HasK(ops[j][q])
=============================================================================
