CONSTANT Mutant = "b2nf1"
INIT Init
NEXT Next
INVARIANT Inv
POSTCONDITION Post
CHECK_DEADLOCK FALSE
