CONSTANT DVariant = "gamma_nl"
INIT Init
NEXT Next
INVARIANT InvLogs
INVARIANT InvConstants
INVARIANT InvDecimals
CHECK_DEADLOCK FALSE
