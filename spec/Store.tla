------------------------------- MODULE Store -------------------------------
(* The on-disk operator store of eko: eko.io.struct.EKO on top of               *)
(* eko.io.inventory.Inventory (operators inventory), eko.io.access.AccessConfigs *)
(* and the tar archive at the permanent path.                                   *)
(*                                                                             *)
(* Implementation-level variables (what the code keeps):                        *)
(*   obj   the EKO object: exists/open/readonly flags and the inventory cache   *)
(*   dir   the temporary directory: header files, .npy.lz4 / .npz.lz4 files,    *)
(*         metadata.yaml                                                        *)
(*   arc   the tar archive at the permanent path (same shape)                   *)
(*   arc2  a second archive path, written only by eko.deepcopy(path2)             *)
(*   mmeta the in-memory metadata                                               *)
(*   reply what the last public call returned or raised                         *)
(* Reference (ghost) variable g: the persistent dictionary the properties talk   *)
(* about.  One action per public call, error path included; every action is a    *)
(* deterministic relation, so that it can be evaluated as a predicate on two     *)
(* recorded implementation states (StoreTrace).                                  *)
(*                                                                             *)
(* Design switches (TRUE = the mechanism as found in the unrepaired code):      *)
(*   DelPhantom   del eko[k] on a key that is not in the cache inserts it        *)
(*   ExtClash     overwriting an operator with one of the other kind (with /     *)
(*                without error tensor) leaves the old file next to the new one  *)
(*   CloseTwice   close() on a closed writable EKO unlinks the archive before    *)
(*                failing                                                        *)
(*   NpHeader     a key given as NumPy scalar is dumped with python-object tags   *)
(*                that the safe loader refuses when the archive is re-read        *)
EXTENDS Naturals, Sequences, FiniteSets, TLC

CONSTANTS Keys,        \* evolution points (strings)
          Vals,        \* operator value tokens (strings)
          ErrVals,     \* subset of Vals: operators carrying an error tensor
          NfOf,        \* [Keys -> nf]
          CloseTo,     \* set of two-element sets of keys within approx() tolerance
          Metas,       \* metadata tokens
          Forms,       \* forms a key can be given in: "py", "np"
          DelPhantom, ExtClash, CloseTwice, NpHeader

VARIABLES obj, dir, arc, arc2, mmeta, reply, g, last
impl == <<obj, dir, arc, arc2, mmeta, reply>>
vars == <<obj, dir, arc, arc2, mmeta, reply, g, last>>
view == <<obj, dir, arc, arc2, mmeta, g>>

None == "None"
Absent == "-"

NoFiles == [k \in Keys |-> Absent]
EmptyFs == [exists |-> FALSE, hdr |-> {}, bad |-> {}, npy |-> NoFiles, npz |-> NoFiles, meta |-> "m0", rec |-> FALSE]
NoObj == [exists |-> FALSE, open |-> FALSE, ro |-> FALSE, cache |-> <<>>, rc |-> FALSE]   \* rc: the recipe is in the recipes cache

(* replies: one record shape for every call, so that TLC can always compare them *)
R(kind, s, ks, ps) == [kind |-> kind, s |-> s, ks |-> ks, ps |-> ps]
Ok == R("ok", "", {}, {})
Exc(name) == R("exc", name, {}, {})
RVal(v) == R("val", v, {}, {})
RBool(b) == R("bool", IF b THEN "T" ELSE "F", {}, {})
RKeys(ks) == R("keys", "", ks, {})
RPairs(ps) == R("pairs", "", {}, ps)
RKey(k) == R("key", k, {}, {})
RNone == R("none", "", {}, {})

Ext(v) == IF v \in ErrVals THEN "npz" ELSE "npy"

Upd(f, k, v) == [x \in (DOMAIN f) \cup {k} |-> IF x = k THEN v ELSE f[x]]

(* operator files of key k in a file-system record *)
FilesOf(fs, k) == (IF fs.npy[k] # Absent THEN {fs.npy[k]} ELSE {})
                    \cup (IF fs.npz[k] # Absent THEN {fs.npz[k]} ELSE {})
NFiles(fs, k) == (IF fs.npy[k] # Absent THEN 1 ELSE 0) + (IF fs.npz[k] # Absent THEN 1 ELSE 0)
TheFile(fs, k) == IF fs.npy[k] # Absent THEN fs.npy[k] ELSE fs.npz[k]

(* what Inventory.__getitem__ returns for k in the current state *)
GetOutcome(o, d, k) ==
  IF ~o.open THEN Exc("ClosedOperator")
  ELSE IF k \in DOMAIN o.cache /\ o.cache[k] # None THEN RVal(o.cache[k])
  ELSE IF ~d.exists THEN Exc("FileNotFoundError")
  ELSE IF NFiles(d, k) = 1 THEN RVal(TheFile(d, k))
  ELSE Exc("LookupError")

Near(j, k) == j = k \/ {j, k} \in CloseTo
ApproxOutcome(o, k) ==
  LET m == {j \in DOMAIN o.cache : NfOf[j] = NfOf[k] /\ Near(j, k)} IN
  IF Cardinality(m) = 1 THEN RKey(CHOOSE j \in m : TRUE)
  ELSE IF m = {} THEN RNone
  ELSE Exc("ValueError")

-----------------------------------------------------------------------------
(* Ghost: the persistent dictionary                                           *)

GNone == [mode |-> "none", model |-> <<>>, meta |-> "m0", wmeta |-> "m0",
          p |-> [exists |-> FALSE, model |-> <<>>, meta |-> "m0"],
          p2 |-> [exists |-> FALSE, model |-> <<>>, meta |-> "m0"]]

GhostOpenNew == g' = [g EXCEPT !.mode = "rw", !.model = <<>>, !.meta = "m0", !.wmeta = "m0"]
GhostOpenOld(ro) == g' = [g EXCEPT !.mode = IF ro THEN "ro" ELSE "rw",
                                   !.model = g.p.model, !.meta = g.p.meta, !.wmeta = g.p.meta]
GhostSet(k, v) == g' = IF g.mode = "rw" THEN [g EXCEPT !.model = Upd(g.model, k, v)] ELSE g
GhostSetMeta(m) == g' = [g EXCEPT !.meta = m]          \* in memory only
GhostUpdate == g' = IF g.mode = "rw" THEN [g EXCEPT !.wmeta = g.meta] ELSE g
GhostPersist == [g EXCEPT !.p = [exists |-> TRUE, model |-> g.model, meta |-> g.wmeta]]
GhostDump == g' = IF g.mode = "rw" THEN GhostPersist ELSE g
GhostClose == g' = IF g.mode = "rw" THEN [GhostPersist EXCEPT !.mode = "closed"]
                    ELSE IF g.mode = "ro" THEN [g EXCEPT !.mode = "closed"] ELSE g
GhostDrop == g' = [g EXCEPT !.mode = "none", !.model = <<>>]

-----------------------------------------------------------------------------
(* Implementation-level actions                                                *)

ImplRefuse(name) == /\ reply' = Exc(name) /\ UNCHANGED <<obj, dir, arc, mmeta>>

(* EKO.create(path) ... Builder.build()  *)
ImplCreate ==
  /\ ~obj.exists
  /\ UNCHANGED arc2
  /\ IF arc.exists THEN ImplRefuse("OutputExistsError")
     ELSE /\ obj' = [exists |-> TRUE, open |-> TRUE, ro |-> FALSE, cache |-> <<>>, rc |-> FALSE]
          /\ dir' = [EmptyFs EXCEPT !.exists = TRUE]
          /\ mmeta' = "m0"
          /\ reply' = Ok
          /\ UNCHANGED arc
Create == ImplCreate /\ (IF arc.exists THEN UNCHANGED g ELSE GhostOpenNew) /\ last' = [op |-> "create", k |-> "-", v |-> "-", f |-> "-", m |-> "-"]

(* can the extracted archive be loaded?  EKO.load: sync() then items() over everything *)
Loadable(fs) == fs.bad = {} /\ \A k \in fs.hdr : NFiles(fs, k) = 1
LoadError(fs) == IF fs.bad # {} THEN "ConstructorError" ELSE "LookupError"

(* EKO.read(path) / EKO.edit(path) *)
ImplOpen(ro) ==
  /\ ~obj.exists
  /\ UNCHANGED arc2
  /\ IF ~arc.exists THEN ImplRefuse("FileNotFoundError")
     ELSE IF ~Loadable(arc) THEN ImplRefuse(LoadError(arc))
     ELSE /\ obj' = [exists |-> TRUE, open |-> TRUE, ro |-> ro,
                     cache |-> [k \in arc.hdr |-> None], rc |-> FALSE]
          /\ dir' = arc
          /\ mmeta' = arc.meta
          /\ reply' = Ok
          /\ UNCHANGED arc
Open(ro) == ImplOpen(ro) /\ (IF arc.exists /\ Loadable(arc) THEN GhostOpenOld(ro) ELSE UNCHANGED g)
            /\ last' = IF ro THEN [op |-> "read", k |-> "-", v |-> "-", f |-> "-", m |-> "-"] ELSE [op |-> "edit", k |-> "-", v |-> "-", f |-> "-", m |-> "-"]

(* eko[k] = v, the key given in form f *)
ImplSet(k, v, f) ==
  /\ obj.exists
  /\ UNCHANGED arc2
  /\ IF ~obj.open THEN ImplRefuse("ClosedOperator")
     ELSE IF obj.ro THEN ImplRefuse("ReadOnlyOperator")
     ELSE /\ dir' = [dir EXCEPT
                 !.hdr = @ \cup {k},
                 !.bad = IF NpHeader /\ f = "np" THEN @ \cup {k} ELSE @ \ {k},
                 !.npy = IF Ext(v) = "npy" THEN [@ EXCEPT ![k] = v]
                         ELSE IF ExtClash THEN @ ELSE [@ EXCEPT ![k] = Absent],
                 !.npz = IF Ext(v) = "npz" THEN [@ EXCEPT ![k] = v]
                         ELSE IF ExtClash THEN @ ELSE [@ EXCEPT ![k] = Absent]]
          /\ obj' = [obj EXCEPT !.cache = Upd(@, k, v)]
          /\ reply' = Ok
          /\ UNCHANGED <<arc, mmeta>>
Set(k, v, f) == ImplSet(k, v, f) /\ GhostSet(k, v) /\ last' = [op |-> "set", k |-> k, v |-> v, f |-> f, m |-> "-"]

(* eko[k] *)
ImplGet(k) ==
  /\ obj.exists
  /\ UNCHANGED arc2
  /\ LET out == GetOutcome(obj, dir, k) IN
     /\ reply' = out
     /\ obj' = IF out.kind = "val" THEN [obj EXCEPT !.cache = Upd(@, k, out.s)] ELSE obj
     /\ UNCHANGED <<dir, arc, mmeta>>
Get(k) == ImplGet(k) /\ UNCHANGED g /\ last' = [op |-> "get", k |-> k, v |-> "-", f |-> "-", m |-> "-"]

(* del eko[k]: unload only *)
ImplDel(k) ==
  /\ obj.exists
  /\ UNCHANGED arc2
  /\ obj' = IF DelPhantom \/ k \in DOMAIN obj.cache
            THEN [obj EXCEPT !.cache = Upd(@, k, None)] ELSE obj
  /\ reply' = Ok
  /\ UNCHANGED <<dir, arc, mmeta>>
Del(k) == ImplDel(k) /\ UNCHANGED g /\ last' = [op |-> "del", k |-> k, v |-> "-", f |-> "-", m |-> "-"]

(* k in eko *)
ImplContains(k) ==
  /\ obj.exists
  /\ UNCHANGED arc2
  /\ reply' = RBool(k \in DOMAIN obj.cache)
  /\ UNCHANGED <<obj, dir, arc, mmeta>>
Contains(k) == ImplContains(k) /\ UNCHANGED g /\ last' = [op |-> "contains", k |-> k, v |-> "-", f |-> "-", m |-> "-"]

(* list(eko) *)
ImplIter ==
  /\ obj.exists
  /\ UNCHANGED arc2
  /\ reply' = RKeys(DOMAIN obj.cache)
  /\ UNCHANGED <<obj, dir, arc, mmeta>>
Iter == ImplIter /\ UNCHANGED g /\ last' = [op |-> "iter", k |-> "-", v |-> "-", f |-> "-", m |-> "-"]

(* list(eko.items()): load, yield, unload for every key; an unloadable key aborts the  *)
(* iteration (keys before it in cache order have been unloaded: left unconstrained)    *)
ItemsOk == \A k \in DOMAIN obj.cache : GetOutcome(obj, dir, k).kind = "val"
ImplItems ==
  /\ obj.exists
  /\ UNCHANGED arc2
  /\ IF DOMAIN obj.cache = {} THEN /\ reply' = RPairs({}) /\ UNCHANGED obj
     ELSE IF ~obj.open THEN /\ reply' = Exc("ClosedOperator") /\ UNCHANGED obj
     ELSE IF ItemsOk
       THEN /\ reply' = RPairs({<<k, GetOutcome(obj, dir, k).s>> : k \in DOMAIN obj.cache})
            /\ obj' = [obj EXCEPT !.cache = [k \in DOMAIN @ |-> None]]
       ELSE /\ reply' = Exc("LookupError") /\ UNCHANGED obj
  /\ UNCHANGED <<dir, arc, mmeta>>
Items == ImplItems /\ UNCHANGED g /\ last' = [op |-> "items", k |-> "-", v |-> "-", f |-> "-", m |-> "-"]

(* eko.approx(k) *)
ImplApprox(k) ==
  /\ obj.exists
  /\ UNCHANGED arc2
  /\ reply' = ApproxOutcome(obj, k)
  /\ UNCHANGED <<obj, dir, arc, mmeta>>
Approx(k) == ImplApprox(k) /\ UNCHANGED g /\ last' = [op |-> "approx", k |-> k, v |-> "-", f |-> "-", m |-> "-"]

(* eko.approx at a scale a relative 1e-4 away from key k (all keys of one nf lie within 2e-8 of each other): *)
(* with the default tolerances nothing is close; with rtol = 1e-3 the neighbourhood is the one of k itself   *)
ImplApproxFar(k) ==
  /\ obj.exists
  /\ UNCHANGED arc2
  /\ reply' = RNone
  /\ UNCHANGED <<obj, dir, arc, mmeta>>
ImplApproxWide(k) ==
  /\ obj.exists
  /\ UNCHANGED arc2
  /\ reply' = ApproxOutcome(obj, k)
  /\ UNCHANGED <<obj, dir, arc, mmeta>>

(* eko.unload() *)
ImplUnload ==
  /\ obj.exists
  /\ UNCHANGED arc2
  /\ obj' = [obj EXCEPT !.cache = [k \in DOMAIN @ |-> None]]
  /\ reply' = Ok
  /\ UNCHANGED <<dir, arc, mmeta>>
Unload == ImplUnload /\ UNCHANGED g /\ last' = [op |-> "unload", k |-> "-", v |-> "-", f |-> "-", m |-> "-"]

(* eko.operators.sync(): every header on disk enters the cache unloaded *)
ImplSync ==
  /\ obj.exists
  /\ UNCHANGED arc2
  /\ IF ~dir.exists THEN ImplRefuse("FileNotFoundError")
     ELSE IF dir.bad # {} THEN ImplRefuse("ConstructorError")
     ELSE /\ obj' = [obj EXCEPT !.cache = [k \in (DOMAIN @) \cup dir.hdr |->
                                             IF k \in dir.hdr THEN None ELSE @[k]]]
          /\ reply' = Ok
          /\ UNCHANGED <<dir, arc, mmeta>>
Sync == ImplSync /\ UNCHANGED g /\ last' = [op |-> "sync", k |-> "-", v |-> "-", f |-> "-", m |-> "-"]

(* change a metadata field in memory (no write) *)
ImplSetMeta(m) ==
  /\ obj.exists
  /\ UNCHANGED arc2
  /\ mmeta' = m
  /\ reply' = Ok
  /\ UNCHANGED <<obj, dir, arc>>
SetMeta(m) == ImplSetMeta(m) /\ GhostSetMeta(m) /\ last' = [op |-> "setmeta", k |-> "-", v |-> "-", f |-> "-", m |-> m]

(* eko.update() *)
ImplUpdate ==
  /\ obj.exists
  /\ UNCHANGED arc2
  /\ IF ~obj.open THEN ImplRefuse("ClosedOperator")
     ELSE IF obj.ro THEN ImplRefuse("ReadOnlyOperator")
     ELSE /\ dir' = [dir EXCEPT !.meta = mmeta]
          /\ reply' = Ok
          /\ UNCHANGED <<obj, arc, mmeta>>
Update == ImplUpdate /\ GhostUpdate /\ last' = [op |-> "update", k |-> "-", v |-> "-", f |-> "-", m |-> "-"]

(* eko.load_recipes([...]): a header lands in the (contentless) recipes inventory *)
ImplRecipe ==
  /\ obj.exists
  /\ UNCHANGED arc2
  /\ IF ~obj.open THEN ImplRefuse("ClosedOperator")
     ELSE IF obj.ro THEN ImplRefuse("ReadOnlyOperator")
     ELSE /\ dir' = [dir EXCEPT !.rec = TRUE]
          /\ obj' = [obj EXCEPT !.rc = TRUE]
          /\ reply' = Ok
          /\ UNCHANGED <<arc, mmeta>>
Recipe == ImplRecipe /\ UNCHANGED g /\ last' = [op |-> "recipe", k |-> "-", v |-> "-", f |-> "-", m |-> "-"]

(* eko.recipes[r]: a contentless lookup registers the header in the cache *)
ImplGetRecipe ==
  /\ obj.exists
  /\ UNCHANGED arc2
  /\ IF ~obj.open THEN ImplRefuse("ClosedOperator")
     ELSE IF obj.rc THEN /\ reply' = Ok /\ UNCHANGED <<obj, dir, arc, mmeta>>
     ELSE IF dir.exists /\ dir.rec
          THEN /\ obj' = [obj EXCEPT !.rc = TRUE] /\ reply' = Ok /\ UNCHANGED <<dir, arc, mmeta>>
          ELSE ImplRefuse("LookupError")
GetRecipe == ImplGetRecipe /\ UNCHANGED g /\ last' = [op |-> "getrecipe", k |-> "-", v |-> "-", f |-> "-", m |-> "-"]

(* eko.dump() on the registered path *)
ImplDump ==
  /\ obj.exists
  /\ UNCHANGED arc2
  /\ IF ~obj.open THEN ImplRefuse("ClosedOperator")
     ELSE IF obj.ro THEN ImplRefuse("ReadOnlyOperator")
     ELSE /\ arc' = dir
          /\ reply' = Ok
          /\ UNCHANGED <<obj, dir, mmeta>>
Dump == ImplDump /\ GhostDump /\ last' = [op |-> "dump", k |-> "-", v |-> "-", f |-> "-", m |-> "-"]

(* eko.close() *)
ImplClose ==
  /\ obj.exists
  /\ UNCHANGED arc2
  /\ IF obj.open
     THEN /\ arc' = IF obj.ro THEN arc ELSE dir
          /\ obj' = [obj EXCEPT !.open = FALSE]
          /\ dir' = EmptyFs
          /\ reply' = Ok
          /\ UNCHANGED mmeta
     ELSE IF CloseTwice /\ obj.ro
          THEN ImplRefuse("FileNotFoundError")     \* rmtree of the removed directory
          ELSE IF CloseTwice
               THEN /\ arc' = EmptyFs               \* unlink, then dump() refuses
                    /\ reply' = Exc("ClosedOperator")
                    /\ UNCHANGED <<obj, dir, mmeta>>
               ELSE ImplRefuse("ClosedOperator")     \* assert_open first (repaired)
Close == ImplClose /\ GhostClose /\ last' = [op |-> "close", k |-> "-", v |-> "-", f |-> "-", m |-> "-"]

(* with eko.operator(k) as op: ...   = load, use, unload (also when the load fails)   *)
ImplWithOperator(k) ==
  /\ obj.exists
  /\ UNCHANGED arc2
  /\ LET out == GetOutcome(obj, dir, k) IN
     /\ reply' = out
     /\ obj' = IF out.kind = "val" \/ (DelPhantom /\ obj.open) \/ k \in DOMAIN obj.cache
               THEN [obj EXCEPT !.cache = Upd(@, k, None)] ELSE obj
     /\ UNCHANGED <<dir, arc, mmeta>>
WithOperator(k) == ImplWithOperator(k) /\ UNCHANGED g /\ last' = [op |-> "withop", k |-> k, v |-> "-", f |-> "-", m |-> "-"]

(* eko.deepcopy(path2): unload everything, copy the working directory, close the copy   *)
(* onto the second path (refused when that path is taken: Builder is not involved, the     *)
(* copy simply overwrites - as coded)                                                      *)
ImplDeepcopy ==
  /\ obj.exists
  /\ IF ~obj.open THEN ImplRefuse("ClosedOperator") /\ UNCHANGED arc2
     ELSE /\ obj' = [obj EXCEPT !.cache = [k \in DOMAIN @ |-> None]]
          /\ arc2' = dir
          /\ reply' = Ok
          /\ UNCHANGED <<dir, arc, mmeta>>
GhostDeepcopy == g' = IF g.mode \in {"rw", "ro"}
                      THEN [g EXCEPT !.p2 = [exists |-> TRUE, model |-> g.model, meta |-> g.wmeta]] ELSE g
Deepcopy == ImplDeepcopy /\ GhostDeepcopy /\ last' = [op |-> "deepcopy", k |-> "-", v |-> "-", f |-> "-", m |-> "-"]

(* EKO.create(path) with a path that does not end in .tar / build() without cards *)
ImplCreateBad(why) ==
  /\ ~obj.exists
  /\ UNCHANGED arc2
  /\ ImplRefuse(IF why = "suffix" THEN "OutputNotTar" ELSE "RuntimeError")
CreateBad(why) == ImplCreateBad(why) /\ UNCHANGED g /\ last' = [op |-> "createbad", k |-> "-", v |-> why, f |-> "-", m |-> "-"]

(* the object is forgotten (session ends without close: exception inside `with`) *)
ImplDrop ==
  /\ obj.exists
  /\ UNCHANGED arc2
  /\ obj' = NoObj
  /\ dir' = EmptyFs
  /\ reply' = Ok
  /\ mmeta' = "m0"
  /\ UNCHANGED arc
Drop == ImplDrop /\ GhostDrop /\ last' = [op |-> "drop", k |-> "-", v |-> "-", f |-> "-", m |-> "-"]

Init ==
  /\ obj = NoObj
  /\ dir = EmptyFs
  /\ arc = EmptyFs
  /\ arc2 = EmptyFs
  /\ mmeta = "m0"
  /\ reply = Ok
  /\ g = GNone
  /\ last = [op |-> "init", k |-> "-", v |-> "-", f |-> "-", m |-> "-"]

Next ==
  \/ Create \/ Open(TRUE) \/ Open(FALSE)
  \/ \E k \in Keys, v \in Vals, f \in Forms : Set(k, v, f)
  \/ \E k \in Keys : Get(k) \/ Del(k) \/ Contains(k) \/ Approx(k) \/ WithOperator(k)
  \/ Deepcopy \/ CreateBad("suffix") \/ CreateBad("cards")
  \/ Iter \/ Items \/ Unload \/ Sync
  \/ \E m \in Metas : SetMeta(m)
  \/ Update \/ Recipe \/ GetRecipe \/ Dump \/ Close \/ Drop

Spec == Init /\ [][Next]_vars

-----------------------------------------------------------------------------
(* Properties                                                                  *)

Live == obj.exists /\ g.mode \in {"rw", "ro"}

(* C37: visible content = dictionary *)
C37_Keys == Live => DOMAIN obj.cache = DOMAIN g.model
C37_Values == Live => \A k \in Keys :
                 GetOutcome(obj, dir, k) = IF k \in DOMAIN g.model THEN RVal(g.model[k])
                                            ELSE Exc("LookupError")
(* what a reader of the archive sees *)
ArcView == [k \in arc.hdr |-> IF NFiles(arc, k) = 1 THEN TheFile(arc, k) ELSE "unreadable"]
C37_Persistent == g.p.exists => (arc.exists /\ Loadable(arc) /\ ArcView = g.p.model)
C37_NoArchiveBeforeClose == ~g.p.exists => ~arc.exists
(* the deep copy holds what the dictionary held when it was taken *)
Arc2View == [k \in arc2.hdr |-> IF NFiles(arc2, k) = 1 THEN TheFile(arc2, k) ELSE "unreadable"]
C37_DeepcopyFaithful == g.p2.exists => (arc2.exists /\ Loadable(arc2) /\ Arc2View = g.p2.model /\ arc2.meta = g.p2.meta)
C37_NoCopyBeforeDeepcopy == ~g.p2.exists => ~arc2.exists
C37_Approx == Live => \A k \in Keys :
                 LET m == {j \in DOMAIN g.model : NfOf[j] = NfOf[k] /\ Near(j, k)} IN
                 ApproxOutcome(obj, k) = IF Cardinality(m) = 1 THEN RKey(CHOOSE j \in m : TRUE)
                                         ELSE IF m = {} THEN RNone ELSE Exc("ValueError")

(* C36: metadata and contents round trip *)
C36_Meta == g.p.exists => arc.meta = g.p.meta

(* C39: read-only and closed objects never change the archive, and writes raise *)
C39_NoWrite == [][(g.mode \in {"ro", "closed"}) => arc' = arc]_vars
C39_Refused == [][(g.mode \in {"ro", "closed"} /\ last'.op \in {"set", "update", "dump", "recipe"})
                     => reply'.kind = "exc"]_vars

TypeOK ==
  /\ obj.exists \in BOOLEAN /\ obj.open \in BOOLEAN /\ obj.ro \in BOOLEAN /\ obj.rc \in BOOLEAN
  /\ DOMAIN obj.cache \subseteq Keys
  /\ \A k \in DOMAIN obj.cache : obj.cache[k] \in Vals \cup {None}
  /\ dir.hdr \subseteq Keys /\ arc.hdr \subseteq Keys
  /\ g.mode \in {"none", "rw", "ro", "closed"}

(* refinement glue: the ghost's idea of the session agrees with the object *)
Glue ==
  /\ (g.mode = "none") = ~obj.exists
  /\ (g.mode = "rw") => (obj.open /\ ~obj.ro)
  /\ (g.mode = "ro") => (obj.open /\ obj.ro)
  /\ (g.mode = "closed") => (obj.exists /\ ~obj.open)
=============================================================================
