CONSTANT Variant = "faithful"
CONSTANT Tier = "thorough"
INIT Init
NEXT Next
INVARIANT InvExpandedLaw
INVARIANT InvTruncation
INVARIANT InvExpandedDerived
INVARIANT InvDecoupling
INVARIANT InvMass
CHECK_DEADLOCK FALSE
