--------------------------- MODULE EkoreLawsPlan ---------------------------
(* TLC enumerates the plan of one check: every planned cell is an initial state. *)
(* Per cell the required class is shown to be non-vacuous (it accepts the best   *)
(* and rejects the worst observation).  The plan is handed to the harness as     *)
(* JSON (the harness measures exactly these cells and echoes them back).         *)
EXTENDS EkoreLaws, Json, IOUtils, TLCExt, SequencesExt
EnvJ == atoi(IOEnv.EKL_J)
Check == IOEnv.EKL_CHECK
VARIABLE cell
Init == cell \in Plan(Check)
Next == UNCHANGED cell
BestObs == [e |-> -2000, cls |-> 0, cj |-> 0, re |-> 0]
WorstObs == [e |-> 2000, cls |-> 15, cj |-> 15, re |-> 15]
CellDecidable == /\ Verdict(Check, cell, BestObs) = "ok"
                 /\ Verdict(Check, cell, WorstObs) \notin {"ok", "unresolved"}
Post == /\ JsonSerialize(IOEnv.EKL_PLAN_FILE, SetToSeq(Plan(Check)))
        /\ TLCGet("stats").distinct = Cardinality(Plan(Check))
=============================================================================
