---------------------------- MODULE LegacyTrace ----------------------------
(* B3 for C41: one record per Legacy(theory, operator) conversion:                   *)
(*   [o |-> abstract legacy fields, t |-> projected new theory card (or err),         *)
(*    p |-> projected new operator card (or err), copyBad |-> names of the copied      *)
(*    fields whose new value differs from the old one]                                 *)
EXTENDS Json, IOUtils, TLC, TLCExt, Sequences, Naturals
L == INSTANCE Legacy WITH PtoShift <- 1

TLog == JsonDeserialize(IOEnv.TRACE_FILE)
VARIABLE i
Init == i = 1
Next == i <= Len(TLog) /\ i' = i + 1

Pair(s) == <<s[1], s[2]>>
T(r) == [err |-> r.t.err, order |-> Pair(r.t.order), morder |-> Pair(r.t.morder), scheme |-> r.t.scheme,
         mscale |-> r.t.mscale, alphaem |-> r.t.alphaem, emrun |-> r.t.emrun, nfref |-> r.t.nfref,
         fhm |-> r.t.fhm, n3lo |-> r.t.n3lo]
P(r) == [err |-> r.p.err, init |-> Pair(r.p.init), mugrid |-> [j \in DOMAIN r.p.mugrid |-> Pair(r.p.mugrid[j])],
         method |-> r.p.method, scvar |-> r.p.scvar, inv |-> r.p.inv, maxorder |-> Pair(r.p.maxorder)]

Failing(r) ==
  LET o == r.o IN
  IF o.HQ \notin {"POLE", "MSBAR"}
  THEN IF r.t.err = "ValueError" THEN {} ELSE {"C41:unknown-mass-scheme-accepted"}
  ELSE (IF r.t.err # "" THEN {"C41:theory-conversion-failed:" \o r.t.err}
        ELSE LET t == T(r) IN
             (IF L!C41_Order(o, t) THEN {} ELSE {"C41:order"})
             \cup (IF L!C41_Matching(o, t) THEN {} ELSE {"C41:matching-order"})
             \cup (IF L!C41_Masses(o, t) THEN {} ELSE {"C41:masses-scheme"})
             \cup (IF L!C41_Couplings(o, t) THEN {} ELSE {"C41:couplings"})
             \cup (IF L!C41_Theory(o, t) THEN {} ELSE {"C41:theory"}))
       \cup (IF r.p.err # "" THEN {"C41:operator-conversion-failed:" \o r.p.err}
             ELSE LET p == P(r) IN
             (IF L!C41_Flow(o, p) THEN {} ELSE {"C41:evolution-points"})
             \cup (IF L!C41_Configs(o, p) THEN {} ELSE {"C41:configs"}))
       \cup (IF Len(r.copyBad) = 0 THEN {} ELSE {"C41:copied-field:" \o r.copyBad[1]})

Conf(r) ==
  IF r.o.HQ \notin {"POLE", "MSBAR"} \/ r.t.err # "" \/ r.p.err # "" THEN "ok"
  ELSE IF T(r) = L!NewTheory(r.o) /\ P(r) = L!NewOperator(r.o) THEN "ok" ELSE "differs-from-transcription"

Inv == i <= Len(TLog) =>
         LET r == TLog[i] IN
         /\ \A v \in Failing(r) : PrintT(<<"BAD", i, v>>)
         /\ IF Conf(r) = "ok" THEN TRUE ELSE PrintT(<<"CONF", i, Conf(r)>>)
Post == TLCGet("stats").diameter = Len(TLog) + 1
=============================================================================
