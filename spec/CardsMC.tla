------------------------------ MODULE CardsMC ------------------------------
(* B1 for C40: every type shape of depth <= 2 of the grammar, 2-5 representative   *)
(* abstract values per leaf, as initial states.  Each state is one dict-like class  *)
(* Holder(x: T) holding the value v; the same states are materialised as real       *)
(* dataclasses by harness/drivers/cards.py (B2).                                    *)
EXTENDS Cards
VARIABLES T, v
vars == <<T, v>>

TColor == TEnumOf("Color", << [n |-> "RED", v |-> Atom("pystr", "red")],
                              [n |-> "BLUE", v |-> Atom("pystr", "blue")] >>)
ScalarT == {TFloat, TInt, TBool, TStr}
ArrayT == {TArrayAs(a) : a \in ArrayAnn}
LeafT == ScalarT \cup {TColor, TXGrid, TDict} \cup ArrayT

F(a) == Atom("pyfloat", a)
LeafVals(X) ==
  CASE X = TFloat -> {F("f1"), Atom("npfloat64", "f1"), Atom("npfloat32", "f2"), Atom("pyint", "i1")}
    [] X = TInt -> {Atom("pyint", "i1"), Atom("npint64", "i1"), Atom("npint32", "i2")}
    [] X = TBool -> {Bool(TRUE), Bool(FALSE), Atom("npbool", "True")}
    [] X = TStr -> {Atom("pystr", "s1")}
    [] X = TColor -> {EnumV("Color", "RED", Atom("pystr", "red")), EnumV("Color", "BLUE", Atom("pystr", "blue"))}
    [] X \in ArrayT -> {ArrayV(<<>>), ArrayV(<<F("f1"), F("f2")>>),
                      ArrayV(<<ArrayV(<<F("f1"), F("f2")>>), ArrayV(<<F("f3"), F("f1")>>)>>),
                      ArrayV(<<Atom("pyint", "i1"), Atom("pyint", "i2")>>)}
    [] X = TXGrid -> {XGridV("log", <<F("x1"), F("x2"), F("x3")>>), XGridV("lin", <<F("x1"), F("x2"), F("x3")>>)}
    [] X = TDict -> {DictV(<<Atom("pyint", "i1"), Atom("pystr", "s1")>>, <<"ka", "kb">>)}
    [] OTHER -> {}

(* depth-1 shapes *)
TupleT == {TTuple(<<A, B>>) : A \in ScalarT, B \in ScalarT}
RefRunT == {TList("ReferenceRunning", TFloat)}
D1 == TupleT \cup RefRunT
      \cup {TList("", X) : X \in LeafT}
      \cup {TOpt(X) : X \in LeafT}
      \cup {TObj("Inner", <<X>>, <<"y">>) : X \in LeafT}
      \cup {TObj("Inner2", <<TFloat, TColor>>, <<"y", "z">>)}
(* depth-2 shapes *)
D2 == {TList("", X) : X \in D1} \cup {TOpt(X) : X \in D1} \cup {TObj("Inner", <<X>>, <<"y">>) : X \in D1}
Shapes == LeafT \cup D1 \cup D2

Rep(S) == CHOOSE x \in S : TRUE
RECURSIVE Vals(_)
Vals(X) ==
  CASE X.t = "tuple" -> {TupleV(<<a, b>>) : a \in LeafVals(X.args[1]), b \in LeafVals(X.args[2])}
    [] X.t = "list" /\ X.cls = "ReferenceRunning" ->
         {ListV("ReferenceRunning", <<a, b>>) : a \in Vals(X.args[1]), b \in {F("f3"), Atom("npfloat64", "f3")}}
    [] X.t = "list" ->
         LET S == Vals(X.args[1]) IN
         {ListV("", <<>>)} \cup {ListV("", <<a>>) : a \in S} \cup {ListV("", <<Rep(S), a>>) : a \in S}
    [] X.t = "union" -> {NoneV} \cup Vals(X.args[1])
    [] X.t = "obj" /\ Len(X.args) = 1 -> {ObjV(X.cls, <<a>>, X.names) : a \in Vals(X.args[1])}
    [] X.t = "obj" -> {ObjV(X.cls, <<a, b>>, X.names) : a \in Vals(X.args[1]), b \in Vals(X.args[2])}
    [] OTHER -> LeafVals(X)

HolderT == TObj("Holder", <<T>>, <<"x">>)
HolderV == ObjV("Holder", <<v>>, <<"x">>)

Init == T \in Shapes /\ v \in Vals(T)
Next == UNCHANGED vars

InvPlain == C40_Plain(HolderT, HolderV)
InvRoundTrip == C40_RoundTrip(HolderT, HolderV)
(* loading accepts enum members by name as well as by value *)
InvEnumByName == \A i \in DOMAIN TColor.en :
                   /\ Load(TColor, Atom("pystr", TColor.en[i].n)) = EnumV("Color", TColor.en[i].n, TColor.en[i].v)
                   /\ Load(TColor, TColor.en[i].v) = EnumV("Color", TColor.en[i].n, TColor.en[i].v)
(* the dispatcher carries the declared flag whatever flag the card's grid object has *)
InvInterp == v = v /\ \A g \in {"log", "lin"}, d \in {"log", "lin"} : DispatcherFlag(g, d) = d
=============================================================================
