CONSTANTS
  J <- EnvJ
  Switch = "none"
INIT Init
NEXT Next
INVARIANT CellDecidable
POSTCONDITION Post
CHECK_DEADLOCK FALSE
