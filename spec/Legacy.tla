------------------------------- MODULE Legacy -------------------------------
(* C41: legacy runcards upgrade to equivalent current structures.                   *)
(*                                                                                  *)
(* The field relation old theory/operator runcard -> TheoryCard / OperatorCard,      *)
(* transcribed from eko.io.runcards.Legacy (new_theory, new_operator,                *)
(* flavored_mugrid, default_atlas) with the default flow taken from Atlas.tla        *)
(* (NfDefault = transcription of matchings.nf_default), and the property predicates  *)
(* written from the meaning of the legacy keys (PTO = number of loops - 1, HQ,        *)
(* ModEv abbreviations, Q2grid = squared scales, nf0/None = default flow ...).        *)
(* Scales are tokens 1..7; the three matching scales (m_q k_q)^2 are the tokens       *)
(* 2, 4, 6.  Real numbers that are only copied travel as opaque tokens.              *)
EXTENDS Naturals, Sequences, FiniteSets, TLC

CONSTANT PtoShift      \* 1 = the code; 0 is a wrong transcription TLC must refute
A == INSTANCE Atlas WITH INF <- 8
Ms == <<2, 4, 6>>
Absent == "absent"     \* key not in the old card
NoneS == "none"        \* key present with value None

(* abbreviations of the old ModEv -> EvolutionMethod values *)
Method(m) == CASE m = "EXA" -> "iterate-exact" [] m = "EXP" -> "iterate-expanded"
               [] m = "TRN" -> "truncated" [] OTHER -> m
(* Legacy.fallback(old.get("alphaqed"), old.get("alphaem"), default=0.0) *)
Fallback(a, b) == IF a \notin {Absent, NoneS} THEN a ELSE IF b \notin {Absent, NoneS} THEN b ELSE "0.0"
Nf(tok, nf0) == IF nf0 # 0 THEN nf0 ELSE A!NfDefault(tok, Ms)

NewTheory(o) ==
  IF o.HQ \notin {"POLE", "MSBAR"} THEN [err |-> "ValueError"]
  ELSE [err |-> "",
        order |-> <<o.PTO + PtoShift, o.qedo>>,
        morder |-> IF o.PTOm = 9 THEN <<o.PTO, 0>> ELSE <<o.PTOm, 0>>,
        scheme |-> o.HQ,
        mscale |-> IF o.HQ = "POLE" THEN "nan" ELSE "qm",
        alphaem |-> Fallback(o.aqed, o.aem),
        emrun |-> o.qedref = "same",
        nfref |-> o.nfref,
        fhm |-> o.fhm # "false",
        n3lo |-> IF o.n3lo = Absent THEN "zeros" ELSE "given"]

NewOperator(o) ==
  [err |-> "",
   init |-> <<o.q0, Nf(o.q0, o.nf0)>>,
   mugrid |-> [j \in DOMAIN o.grid |-> <<o.grid[j], A!NfDefault(o.grid[j], Ms)>>],
   method |-> Method(o.ModEv),
   scvar |-> IF o.ModSV = Absent THEN "expanded" ELSE o.ModSV,
   inv |-> IF o.inv = Absent THEN "expanded" ELSE o.inv,
   maxorder |-> <<o.maxo, o.qedo>>]

-----------------------------------------------------------------------------
(* the property: same physical settings *)
C41_Order(o, t) == t.order[1] = o.PTO + 1 /\ t.order[2] = o.qedo         \* LO is (1, 0)
C41_Matching(o, t) == t.morder = IF o.PTOm = 9 THEN <<o.PTO, 0>> ELSE <<o.PTOm, 0>>
C41_Masses(o, t) == t.scheme = o.HQ /\ (o.HQ = "POLE" => t.mscale = "nan") /\ (o.HQ = "MSBAR" => t.mscale = "qm")
C41_Couplings(o, t) == /\ t.nfref = o.nfref
                       /\ t.alphaem = (IF o.aqed \notin {Absent, NoneS} THEN o.aqed
                                       ELSE IF o.aem \notin {Absent, NoneS} THEN o.aem ELSE "0.0")
                       /\ t.emrun = (o.qedref = "same")
C41_Theory(o, t) == C41_Order(o, t) /\ C41_Matching(o, t) /\ C41_Masses(o, t) /\ C41_Couplings(o, t)
                    /\ t.fhm = (o.fhm # "false") /\ t.n3lo = (IF o.n3lo = Absent THEN "zeros" ELSE "given")
(* default flow, independent formulation: three flavours below the charm matching,    *)
(* one more for every matching scale at or below the point                             *)
C41_Flow(o, p) == /\ p.init = <<o.q0, IF o.nf0 # 0 THEN o.nf0 ELSE A!DefaultNf(o.q0, Ms)>>
                  /\ Len(p.mugrid) = Len(o.grid)
                  /\ \A j \in DOMAIN o.grid : p.mugrid[j] = <<o.grid[j], A!DefaultNf(o.grid[j], Ms)>>
C41_Configs(o, p) == /\ p.method = Method(o.ModEv)
                     /\ p.scvar = (IF o.ModSV = Absent THEN "expanded" ELSE o.ModSV)
                     /\ p.inv = (IF o.inv = Absent THEN "expanded" ELSE o.inv)
                     /\ p.maxorder = <<o.maxo, o.qedo>>
C41_Operator(o, p) == C41_Flow(o, p) /\ C41_Configs(o, p)
=============================================================================
