-------------------------------- MODULE QRat --------------------------------
(* Exact rationals for the coefficient / series checks (C20, C22, C21, C16).   *)
(* A rational is a pair <<n, d>> with d > 0 and gcd(|n|, d) = 1 ("normal").    *)
(* TLC integers are 32-bit and an overflow is an error, never a wrap: every    *)
(* product is formed only after cancelling common factors, sums go through the *)
(* lcm of the denominators.  Equality of normal rationals is tuple equality.   *)
EXTENDS Integers, Sequences

(* TLC does not cache the lazily evaluated arguments of an operator when it      *)
(* evaluates invariants or assumptions: an argument expression is re-evaluated   *)
(* at every use of the parameter.  LetN binds the arguments to VALUES first       *)
(* (bound variables of a set constructor are values), then applies Op.             *)
Let1(u, Op(_)) == CHOOSE y \in {Op(a) : a \in {u}} : TRUE
Let2(u, v, Op(_, _)) == CHOOSE y \in {Op(a, b) : a \in {u}, b \in {v}} : TRUE
Let3(u, v, w, Op(_, _, _)) == CHOOSE y \in {Op(a, b, c) : a \in {u}, b \in {v}, c \in {w}} : TRUE
Let4(u, v, w, z, Op(_, _, _, _)) ==
  CHOOSE y \in {Op(a, b, c, d) : a \in {u}, b \in {v}, c \in {w}, d \in {z}} : TRUE

QAbs(x) == IF x < 0 THEN -x ELSE x

RECURSIVE QGcd(_, _)
QGcd(a, b) == IF b = 0 THEN a ELSE QGcd(b, a % b)
Gcd(a, b) == QGcd(QAbs(a), QAbs(b))

(* normal form of n/d, d # 0 *)
QN(n, d) ==
  LET g == Gcd(n, d)
      s == IF d < 0 THEN -1 ELSE 1
  IN  <<s * (n \div g), s * (d \div g)>>

QNorm(q) == QN(q[1], q[2])
IsQ(q) == /\ q \in Seq(Int) /\ Len(q) = 2 /\ q[2] > 0 /\ Gcd(q[1], q[2]) = 1

Q0 == <<0, 1>>
Q1 == <<1, 1>>
QI(n) == <<n, 1>>            \* integer -> rational
QF(n, d) == QN(n, d)         \* literal n/d

QNeg(a) == <<-a[1], a[2]>>

QAdd(a, b) ==
  IF a[1] = 0 THEN b ELSE IF b[1] = 0 THEN a ELSE
  LET g == Gcd(a[2], b[2])
      da == a[2] \div g
      db == b[2] \div g
      \* a1/(g da) + b1/(g db) = (a1 db + b1 da) / (g da db)
      num == a[1] * db + b[1] * da
      \* cancel num against g before building the denominator
      h == Gcd(num, g)
  IN  QN(num \div h, (g \div h) * da * db)

QSub(a, b) == QAdd(a, QNeg(b))

QMul(a, b) ==
  IF a[1] = 0 \/ b[1] = 0 THEN Q0 ELSE
  LET g1 == Gcd(a[1], b[2])
      g2 == Gcd(b[1], a[2])
  IN  <<(a[1] \div g1) * (b[1] \div g2), (a[2] \div g2) * (b[2] \div g1)>>

QInv(a) == IF a[1] < 0 THEN <<-a[2], -a[1]>> ELSE <<a[2], a[1]>>   \* a # 0
QDiv(a, b) == QMul(a, QInv(b))
QScale(k, a) == QMul(QI(k), a)

RECURSIVE QPow(_, _)
QPow(a, k) == IF k = 0 THEN Q1 ELSE QMul(a, QPow(a, k - 1))

(* sum of a finite sequence of rationals *)
RECURSIVE QSumSeq(_)
QSumSeq(s) == IF s = <<>> THEN Q0 ELSE QAdd(Head(s), QSumSeq(Tail(s)))

(* sum over an integer interval lo..hi of f(k) given as a function            *)
RECURSIVE QSum(_, _, _)
QSum(f, lo, hi) == IF lo > hi THEN Q0 ELSE QAdd(f[lo], QSum(f, lo + 1, hi))

(* sign and comparison without cross-multiplying the full values: compare by  *)
(* long division (integer parts, then remainders scaled) - used for the        *)
(* decimal cross-checks of the literature tables.                              *)
QSign(a) == IF a[1] > 0 THEN 1 ELSE IF a[1] < 0 THEN -1 ELSE 0
QFloor(a) == IF a[1] >= 0 THEN a[1] \div a[2]
             ELSE -((-a[1] + a[2] - 1) \div a[2])

(* floor(a * 10^k) by long division, a >= 0, denominators below 2*10^8        *)
RECURSIVE QDigits(_, _, _, _)
QDigits(acc, r, d, k) ==
  IF k = 0 THEN acc
  ELSE QDigits(acc * 10 + ((r * 10) \div d), (r * 10) % d, d, k - 1)
QFloorScaled(a, k) ==        \* floor(|a| * 10^k) with the sign of a
  LET n == QAbs(a[1])
      m == QDigits(n \div a[2], n % a[2], a[2], k)
  IN  IF a[1] < 0 THEN -m ELSE m

(* json pair [n, d] -> rational (a sequence of two integers already)           *)
QOfJson(p) == QN(p[1], p[2])
=============================================================================
