CONSTANT Variant = "b1b0_coeff"
CONSTANT Tier = "quick"
INIT Init
NEXT Next
INVARIANT InvReexp
INVARIANT InvExpo
INVARIANT InvExpa
CHECK_DEADLOCK FALSE
